import LexVerif.Proof.RoundNE
import LexVerif.Proof.LitBits
import LexVerif.Proof.Shortest
import LexVerif.Proof.ShortestUp
/-!
# Props.RoundNE — sanity theorems about the float oracles `Spec.roundNE`, `Spec.litBits`, `Spec.shortest`

`roundNE f num den` is what every string→float property is judged against.  The theorems below say that
it *means* "nearest float, ties to even, overflow to +∞ at the IEEE threshold", for every format with
`2 ≤ p`, `2 ≤ ebits` (`WF f`; instances `wf_f32`, `wf_f64`), every `num` and every `den > 0`.

`valQ f b` (`Proof/RoundNE.lean`) is the exact rational value `m·2^e` of `decode b`.
-/
namespace LexVerif.Props.RoundNE
open LexVerif.Spec LexVerif.Proof.RoundNE

variable {f : Fmt}

/-- (1) the result is a finite pattern or exactly `+∞` -/
theorem roundNE_finite_or_inf (hf : WF f) (num : Nat) {den : Nat} (hd : 0 < den) :
    roundNE f num den ≤ f.infBits := roundNE_le_infBits hf num hd

/-- (1') … in particular never a NaN pattern, and never negative -/
theorem roundNE_not_nan (hf : WF f) (num : Nat) {den : Nat} (hd : 0 < den) :
    f.isNaN (roundNE f num den) = false ∧ f.isNeg (roundNE f num den) = false := by
  have h := roundNE_le_infBits hf num hd
  generalize roundNE f num den = r at h
  have hs := infBits_lt_signBit hf
  have hneg : f.isNeg r = false := by
    have : r / f.signBit = 0 := Nat.div_eq_of_lt (by omega)
    simp [Fmt.isNeg, this]
  refine ⟨?_, hneg⟩
  rcases Nat.lt_or_eq_of_le h with h | h
  · have h1 := expField_lt h
    have : f.expField r ≠ f.maxExpField := by
      unfold Fmt.expField
      have := Nat.mod_le (r / 2 ^ (f.p - 1)) (2 ^ f.ebits)
      omega
    simp [Fmt.isNaN, Fmt.isSpecial, this]
  · subst h
    have : f.manField f.infBits = 0 := by
      unfold Fmt.manField; rw [infBits_eq]; exact Nat.mul_mod_left _ _
    simp [Fmt.isNaN, this]

/-- (2) no finite float is strictly nearer to `num/den` than the returned one -/
theorem roundNE_nearest (hf : WF f) (num : Nat) {den : Nat} (hd : 0 < den)
    (hb : roundNE f num den < f.infBits) (c : Nat) (hc : c < f.infBits) :
    |valQ f (roundNE f num den) - (num : ℚ) / den| ≤ |valQ f c - (num : ℚ) / den| := by
  have cell := inCell_roundNE hf num (Nat.ne_of_gt hd)
  rw [valQ_eq_ival hf hb, valQ_eq_ival hf hc, num_den_eq f num hd, ← sub_mul, ← sub_mul, abs_mul,
    abs_mul]
  exact mul_le_mul_of_nonneg_right (cell.nearest hd hb c) (abs_nonneg _)

/-- (3) ties go to even: if another finite float is equally near, the returned pattern has an even
mantissa field (equivalently, is an even number) -/
theorem roundNE_tie_even (hf : WF f) (num : Nat) {den : Nat} (hd : 0 < den)
    (hb : roundNE f num den < f.infBits) (c : Nat) (hc : c < f.infBits) (hne : c ≠ roundNE f num den)
    (heq : |valQ f (roundNE f num den) - (num : ℚ) / den| = |valQ f c - (num : ℚ) / den|) :
    f.manField (roundNE f num den) % 2 = 0 ∧ roundNE f num den % 2 = 0 := by
  have cell := inCell_roundNE hf num (Nat.ne_of_gt hd)
  rw [valQ_eq_ival hf hb, valQ_eq_ival hf hc, num_den_eq f num hd, ← sub_mul, ← sub_mul, abs_mul,
    abs_mul] at heq
  have hu : |unitQ f| ≠ 0 := by rw [abs_ne_zero]; exact ne_of_gt (unitQ_pos f)
  have h := cell.tie_even hd hb c hne (mul_right_cancel₀ hu heq)
  refine ⟨?_, h⟩
  obtain ⟨t, ht, _⟩ := T_even hf
  unfold Fmt.manField
  rw [Nat.mod_mod_of_dvd _ ⟨t, ht⟩]; exact h

/-- (4) overflow to `+∞` exactly from the IEEE threshold `(2 − 2^−p)·2^emax` upwards (the tie goes to
infinity because the largest finite float is odd) -/
theorem roundNE_overflow (hf : WF f) (num : Nat) {den : Nat} (hd : 0 < den) :
    roundNE f num den = f.infBits ↔ (2 - (2 : ℚ) ^ (-(f.p : ℤ))) * (2 : ℚ) ^ (f.bias : ℤ) ≤ (num : ℚ) / den :=
  (roundNE_eq_inf_iff hf num hd).trans (ovf_iff_thr hf num hd)

/-- (5) rounding an exactly representable value returns it -/
theorem roundNE_of_float (hf : WF f) {b : Nat} (hb : b < f.infBits) :
    roundNE f (f.decode b).toFrac.1 (f.decode b).toFrac.2 = b := roundNE_of_float' hf hb

/-- (6) monotone -/
theorem roundNE_mono (hf : WF f) {a b c d : Nat} (hb : 0 < b) (hd : 0 < d)
    (h : (a : ℚ) / b ≤ (c : ℚ) / d) : roundNE f a b ≤ roundNE f c d := by
  apply roundNE_mono' hf hb hd
  rw [div_le_div_iff₀ (by exact_mod_cast hb) (by exact_mod_cast hd)] at h
  exact_mod_cast h

/-- the result depends only on the rational number `num/den` -/
theorem roundNE_congr (hf : WF f) {a b c d : Nat} (hb : 0 < b) (hd : 0 < d)
    (h : (a : ℚ) / b = (c : ℚ) / d) : roundNE f a b = roundNE f c d :=
  Nat.le_antisymm (roundNE_mono hf hb hd (le_of_eq h)) (roundNE_mono hf hd hb (le_of_eq h.symm))

/-- (7) scale invariance -/
theorem roundNE_scale (hf : WF f) {k : Nat} (hk : 0 < k) (num : Nat) {den : Nat} (hd : 0 < den) :
    roundNE f (k * num) (k * den) = roundNE f num den := roundNE_scale' hf hk num hd

/-- (5') any fraction whose value is exactly that of a finite float rounds to that float -/
theorem roundNE_of_valQ (hf : WF f) {b : Nat} (hb : b < f.infBits) (num : Nat) {den : Nat} (hd : 0 < den)
    (h : (num : ℚ) / den = valQ f b) : roundNE f num den = b := by
  obtain ⟨h1, h2⟩ := toFrac_decode hf hb
  rw [← roundNE_of_float hf hb]
  apply roundNE_congr hf hd h2
  rw [h, valQ_eq_ival hf hb, num_den_eq f _ h2, h1]
  have : ((f.decode b).toFrac.2 : ℚ) ≠ 0 := by exact_mod_cast Nat.ne_of_gt h2
  push_cast; field_simp

/-! ## `litBits` -/

/-- a literal whose digits are all zero is the signed zero, whatever its exponent -/
theorem litBits_zero (f : Fmt) (r b : Nat) (l : FloatLit)
    (h : ∀ d ∈ l.intDigits ++ l.fracDigits, d = 0) :
    litBits f r b l = if l.neg then f.signBit else 0 := by
  unfold litBits
  simp only [ofDigits_zeros r _ h, if_true]

/-- `litBits` never returns a NaN pattern -/
theorem litBits_not_nan (hf : WF f) {r b : Nat} (hr : 0 < r) (hb : 0 < b) (l : FloatLit) :
    f.isNaN (litBits f r b l) = false := by
  obtain ⟨x, hx, he⟩ := litBits_form hf hr hb l
  rw [he]
  split
  · rw [isNaN_add_signBit hf]; exact isNaN_of_le_inf hx
  · exact isNaN_of_le_inf hx

/-- the sign bit of `litBits` is the literal's sign (also for zero and infinity) -/
theorem litBits_sign (hf : WF f) {r b : Nat} (hr : 0 < r) (hb : 0 < b) (l : FloatLit) :
    f.isNeg (litBits f r b l) = l.neg := by
  obtain ⟨x, hx, he⟩ := litBits_form hf hr hb l
  obtain ⟨h1, h2⟩ := isNeg_of_le_inf hf hx
  rw [he]
  cases l.neg <;> simp [h1, h2]

/-! ## `shortest` -/

/-- every decimal returned by `shortest` rounds back to `bits` -/
theorem shortest_roundtrips (hf : WF f) {bits : Nat} (h0 : 0 < bits) (hfin : bits < f.infBits)
    {D : Nat} {E : Int} (h : (D, E) ∈ shortest f bits) :
    roundNE f (decFrac D E).1 (decFrac D E).2 = bits := shortest_roundtrips' hf h0 hfin h

/-- `shortest` uses the largest possible decimal exponent: every decimal `D'·10^E'` (`D' ≥ 1`) that
rounds to `bits` has `E' ≤ E`.  (`hsz` bounds the exponent range so that the `0.30103` estimate of the
search start is valid; it holds for `f32`, `f64`.) -/
theorem shortest_maximal_exponent (hf : WF f) (hsz : L f + 2 ≤ 200000) {bits : Nat} (h0 : 0 < bits)
    (hfin : bits < f.infBits) {D : Nat} {E : Int} (h : (D, E) ∈ shortest f bits)
    {D' : Nat} {E' : Int} (hD' : 1 ≤ D')
    (hrt : roundNE f (decFrac D' E').1 (decFrac D' E').2 = bits) : E' ≤ E :=
  shortest_maximal_exp hf h0 hfin h hD' hrt (up_bound hf hsz h0 hfin hD' hrt)

/-- **minimality**: no round-tripping decimal has fewer significant digits than the one returned by
`shortest` — stated as "whenever `D' < 10^n` (i.e. `D'` has at most `n` digits) also `D < 10^n`". -/
theorem shortest_minimal (hf : WF f) (hsz : L f + 2 ≤ 200000) {bits : Nat} (h0 : 0 < bits)
    (hfin : bits < f.infBits) {D : Nat} {E : Int} (h : (D, E) ∈ shortest f bits)
    {D' : Nat} {E' : Int} (hD' : 1 ≤ D')
    (hrt : roundNE f (decFrac D' E').1 (decFrac D' E').2 = bits) (n : Nat) (hn : D' < 10 ^ n) :
    D < 10 ^ n := by
  have hE := shortest_maximal_exponent hf hsz h0 hfin h hD' hrt
  have hrtD := shortest_roundtrips hf h0 hfin h
  by_contra hge
  have hge : 10 ^ n ≤ D := Nat.le_of_not_lt hge
  -- y = 1·10^(n+E) lies between D'·10^E' and D·10^E, hence rounds to `bits` as well
  have ten_pos : ∀ z : ℤ, (0 : ℚ) < (10 : ℚ) ^ z := fun z => by positivity
  have hy1 : ((decFrac D' E').1 : ℚ) / (decFrac D' E').2 ≤ ((decFrac 1 (n + E)).1 : ℚ) / (decFrac 1 (n + E)).2 := by
    rw [decFrac_Q, decFrac_Q, Nat.cast_one, one_mul, zpow_add₀ (by norm_num), zpow_natCast]
    have a1 : (D' : ℚ) ≤ 10 ^ n := by exact_mod_cast Nat.le_of_lt hn
    have a2 : (10 : ℚ) ^ E' ≤ 10 ^ E := zpow_le_zpow_right₀ (by norm_num) hE
    exact mul_le_mul a1 a2 (le_of_lt (ten_pos _)) (by positivity)
  have hy2 : ((decFrac 1 (n + E)).1 : ℚ) / (decFrac 1 (n + E)).2 ≤ ((decFrac D E).1 : ℚ) / (decFrac D E).2 := by
    rw [decFrac_Q, decFrac_Q, Nat.cast_one, one_mul, zpow_add₀ (by norm_num), zpow_natCast]
    have a1 : (10 : ℚ) ^ n ≤ D := by exact_mod_cast hge
    exact mul_le_mul_of_nonneg_right a1 (le_of_lt (ten_pos _))
  have m1 := roundNE_mono hf (decFrac_den_pos _ _) (decFrac_den_pos _ _) hy1
  have m2 := roundNE_mono hf (decFrac_den_pos _ _) (decFrac_den_pos _ _) hy2
  rw [hrt] at m1
  rw [hrtD] at m2
  have hy := shortest_maximal_exponent hf hsz h0 hfin h (le_refl 1) (Nat.le_antisymm m2 m1)
  have : n = 0 := by omega
  subst this
  omega

/-- `shortest` is total on finite positive patterns: the fuel `420` and the start exponent suffice
(for formats with `p ≤ 1000`, at most `100000` exponent values — in particular `f32`, `f64`) -/
theorem shortest_total (hf : WF f) (hp : f.p ≤ 1000) (hM : f.maxExpField ≤ 100000) {bits : Nat}
    (h0 : 0 < bits) (hfin : bits < f.infBits) : shortest f bits ≠ [] :=
  shortest_ne_nil hf hp hM h0 hfin

theorem shortest_total_f64 {bits : Nat} (h0 : 0 < bits) (hfin : bits < f64.infBits) :
    shortest f64 bits ≠ [] := shortest_total wf_f64 (by decide) (by decide) h0 hfin

theorem shortest_total_f32 {bits : Nat} (h0 : 0 < bits) (hfin : bits < f32.infBits) :
    shortest f32 bits ≠ [] := shortest_total wf_f32 (by decide) (by decide) h0 hfin

/-- **closeness**: among the round-tripping decimals `D'·10^E` with the same (maximal) exponent, the
returned `D` is nearest to the exact value of `bits` -/
theorem shortest_closest (hf : WF f) {bits : Nat} (h0 : 0 < bits) (hfin : bits < f.infBits)
    {D : Nat} {E : Int} (h : (D, E) ∈ shortest f bits) {D' : Nat}
    (hrt : roundNE f (decFrac D' E).1 (decFrac D' E).2 = bits) :
    |(D : ℚ) * (10 : ℚ) ^ E - valQ f bits| ≤ |(D' : ℚ) * (10 : ℚ) ^ E - valQ f bits| :=
  shortest_closest' hf h0 hfin h hrt

/-! ## Non-vacuity: concrete evaluations and instantiated hypotheses -/

section examples

example : roundNE f64 1 10 = 0x3fb999999999999a := by decide +kernel
example : roundNE f32 1 10 = 0x3dcccccd := by decide +kernel
-- subnormals: the smallest one; half of it (tie → 0, even); 1.5 of it (tie → 2, even)
example : roundNE f64 1 (2 ^ 1074) = 1 := by decide +kernel
example : roundNE f64 1 (2 ^ 1075) = 0 := by decide +kernel
example : roundNE f64 3 (2 ^ 1075) = 2 := by decide +kernel
-- exact ties in the normal range go to the even neighbour (down, then up)
example : roundNE f64 (2 ^ 53 + 1) 1 = 0x4340000000000000 := by decide +kernel
example : roundNE f64 (2 ^ 53 + 3) 1 = 0x4340000000000002 := by decide +kernel
-- the overflow edge: (2 − 2^−53)·2^1023 = (2^54 − 1)·2^970 goes to +∞, one below does not
example : roundNE f64 ((2 ^ 54 - 1) * 2 ^ 970) 1 = f64.infBits := by decide +kernel
example : roundNE f64 ((2 ^ 54 - 1) * 2 ^ 970 - 1) 1 = 0x7fefffffffffffff := by decide +kernel
example : roundNE f32 ((2 ^ 25 - 1) * 2 ^ 103) 1 = f32.infBits := by decide +kernel
example : shortest f64 0x3fb999999999999a = [(1, -1)] := by decide +kernel
example : shortest f64 1 = [(5, -324)] := by decide +kernel
example : shortest f64 0x7fefffffffffffff = [(17976931348623157, 292)] := by decide +kernel
example : shortest f64 0x4340000000000000 = [(9007199254740992, 0)] := by decide +kernel
example : shortest f32 0x3dcccccd = [(1, -1)] := by decide +kernel

/-- hypotheses of `roundNE_nearest` are satisfiable (0.1 against its lower neighbour) -/
example : |valQ f64 (roundNE f64 1 10) - ((1 : ℕ) : ℚ) / (10 : ℕ)| ≤
    |valQ f64 0x3fb9999999999999 - ((1 : ℕ) : ℚ) / (10 : ℕ)| :=
  roundNE_nearest wf_f64 1 (by decide) (by decide +kernel) _ (by decide +kernel)

theorem valQ_tie_example :
    valQ f64 0x4340000000000000 = 2 ^ 53 ∧ valQ f64 0x4340000000000001 = 2 ^ 53 + 2 := by
  have h0 : f64.decode 0x4340000000000000 = ⟨false, 2 ^ 52, 1⟩ := by decide +kernel
  have h1 : f64.decode 0x4340000000000001 = ⟨false, 2 ^ 52 + 1, 1⟩ := by decide +kernel
  constructor
  · simp only [valQ, h0]; norm_num
  · simp only [valQ, h1]; norm_num

/-- hypotheses of `roundNE_tie_even` are satisfiable: `2^53 + 1` is exactly half-way between
`2^53` (even pattern, returned) and `2^53 + 2` (odd pattern) -/
example : f64.manField (roundNE f64 (2 ^ 53 + 1) 1) % 2 = 0 ∧ roundNE f64 (2 ^ 53 + 1) 1 % 2 = 0 := by
  have hr : roundNE f64 (2 ^ 53 + 1) 1 = 0x4340000000000000 := by decide +kernel
  refine roundNE_tie_even wf_f64 _ (by decide) (by rw [hr]; decide +kernel) 0x4340000000000001
    (by decide +kernel) (by rw [hr]; decide) ?_
  rw [hr, valQ_tie_example.1, valQ_tie_example.2]
  norm_num

/-- `roundNE_overflow`, left to right, at the threshold itself -/
example : (2 - (2 : ℚ) ^ (-(f64.p : ℤ))) * (2 : ℚ) ^ (f64.bias : ℤ)
    ≤ (((2 ^ 54 - 1) * 2 ^ 970 : ℕ) : ℚ) / ((1 : ℕ) : ℚ) :=
  (roundNE_overflow wf_f64 _ (by decide)).mp (by decide +kernel)

example : roundNE f64 (f64.decode 0x3fb999999999999a).toFrac.1 (f64.decode 0x3fb999999999999a).toFrac.2
    = 0x3fb999999999999a := roundNE_of_float wf_f64 (by decide +kernel)

example : roundNE f64 1 10 ≤ roundNE f64 1 3 :=
  roundNE_mono wf_f64 (by decide) (by decide) (by norm_num)

example : roundNE f64 (7 * 1) (7 * 10) = roundNE f64 1 10 := roundNE_scale wf_f64 (by decide) 1 (by decide)

example : roundNE f64 (decFrac 1 (-1)).1 (decFrac 1 (-1)).2 = 0x3fb999999999999a :=
  shortest_roundtrips wf_f64 (by decide) (by decide +kernel) (by decide +kernel)

/-- `shortest_minimal` instantiated: 0.1 has a one-digit shortest form, so nothing shorter exists;
the 17-digit `D' = 10000000000000001, E' = -17` also round-trips and indeed has `E' ≤ -1` -/
example : (-17 : ℤ) ≤ -1 :=
  shortest_maximal_exponent wf_f64 (by decide) (by decide) (by decide +kernel)
    (bits := 0x3fb999999999999a) (D := 1) (by decide +kernel) (D' := 10000000000000001) (by decide)
    (by decide +kernel)

/-- `shortest_closest` instantiated: 2^-1074 prints as 5e-324; 4e-324 also round-trips but is farther -/
example : |((5 : ℕ) : ℚ) * (10 : ℚ) ^ (-324 : ℤ) - valQ f64 1| ≤
    |((4 : ℕ) : ℚ) * (10 : ℚ) ^ (-324 : ℤ) - valQ f64 1| :=
  shortest_closest wf_f64 (by decide) (by decide +kernel) (by decide +kernel) (by decide +kernel)

example : litBits f64 10 10 ⟨true, [0, 0], [0], 5⟩ = f64.signBit :=
  litBits_zero f64 10 10 _ (by decide)

end examples

end LexVerif.Props.RoundNE
