import LexVerif.Model.ParseNumber
import LexVerif.Proof.GrammarMain
/-!
# C12 — syntax flags accept exactly the documented grammar (property theorems, first instalment)

What is proved here is the iterator layer every later theorem (C10 totality, C11 prefix, C12 grammar,
C13 separators) stands on: `peek` of every component iterator, for every format and feature set,
* never moves the cursor backwards and never past the end of the buffer,
* never changes the buffer or the digit counts,
* returns exactly the byte under the cursor it leaves behind — so `Some` implies the cursor is in range,
  which is the safety argument of every `step_unchecked` that follows a `peek` in `parse.rs`;
and `parse_sign!` reports error indices inside the buffer and leaves a valid cursor.

The full statements that are *not* proved yet are kept as `def … : Prop`.
-/
namespace LexVerif.Props.C12
open LexVerif LexVerif.Model

/-- the cursor invariant of `Bytes` -/
def Bytes.Valid (b : Bytes) : Prop := b.index ≤ b.slc.length

theorem countSeps_le (c : Cfg) (l : List Nat) : countSeps c l ≤ l.length := by
  induction l with
  | nil => simp [countSeps]
  | cons x xs ih => simp only [countSeps]; split <;> simp <;> omega

/-- `peek_1!` / `peek_n!`: buffer and counts untouched, cursor monotone and in range, value = byte under the new cursor -/
theorem peekPred_spec (c : Cfg) (p : Pred) (cnt : Nat) (b : Bytes) (h : Bytes.Valid b) :
    let r := peekPred c p cnt b
    r.2.slc = b.slc ∧ r.2.ic = b.ic ∧ r.2.fc = b.fc ∧ r.2.ec = b.ec ∧
    b.index ≤ r.2.index ∧ Bytes.Valid r.2 ∧ r.1 = r.2.slc[r.2.index]? := by
  unfold Bytes.Valid at *
  simp only [peekPred]
  cases hv : b.slc[b.index]? with
  | none => simp [hv, h]
  | some v =>
    have hlt : b.index < b.slc.length := by
      rcases List.getElem?_eq_some_iff.mp hv with ⟨hl, _⟩; exact hl
    simp only
    split
    · split
      · refine ⟨rfl, rfl, rfl, rfl, ?_, ?_, rfl⟩
        · simp only; split <;> omega
        · simp only
          split
          · have := countSeps_le c (b.slc.drop (b.index + 1))
            simp only [List.length_drop] at this
            omega
          · omega
      · simp [hv, h]
    · simp [hv, h]

/-- `DigitsIter::peek` of any component iterator -/
theorem peek_spec (c : Cfg) (k : Comp) (b b' : Bytes) (v : Option Nat) (h : Bytes.Valid b)
    (hp : peek c k b = .ok (v, b')) :
    b'.slc = b.slc ∧ b'.ic = b.ic ∧ b'.fc = b.fc ∧ b'.ec = b.ec ∧
    b.index ≤ b'.index ∧ Bytes.Valid b' ∧ v = b'.slc[b'.index]? := by
  unfold peek at hp
  split at hp
  · simp only [Except.ok.injEq, Prod.mk.injEq] at hp
    obtain ⟨rfl, rfl⟩ := hp
    exact ⟨rfl, rfl, rfl, rfl, Nat.le_refl _, h, rfl⟩
  · next p _ =>
    have := peekPred_spec c p (b.iterCount c k) b h
    simp only [Except.ok.injEq] at hp
    rw [hp] at this
    exact this
  · cases hp

/-- the safety fact used by every `unsafe { iter.step_unchecked() }` after a successful `peek` -/
theorem peek_some_in_range (c : Cfg) (k : Comp) (b b' : Bytes) (x : Nat) (h : Bytes.Valid b)
    (hp : peek c k b = .ok (some x, b')) : b'.index < b'.slc.length := by
  have := (peek_spec c k b b' (some x) h hp).2.2.2.2.2.2
  rcases List.getElem?_eq_some_iff.mp this.symm with ⟨hl, _⟩
  exact hl

/-- `peek` only fails through the `unreachable!()` arm, i.e. for a component whose only separator flag is
"consecutive" — a combination `format.is_valid()` rejects -/
theorem peek_error_iff (c : Cfg) (k : Comp) (b : Bytes) :
    (∃ e, peek c k b = .error e) ↔ c.skip k = .unreachable := by
  unfold peek
  cases c.skip k <;> simp

/-- in the `noskip` build (`format` feature off) `peek` is `slc.get(index)` and never moves -/
theorem peek_noformat (c : Cfg) (k : Comp) (b : Bytes) (hf : c.feats.format = false) :
    peek c k b = .ok (b.slc[b.index]?, b) := by
  have hs : c.skip k = .noskip := by
    cases k <;> simp [Cfg.skip, Cfg.sepFlags, Cfg.flag, Cfg.specialSep, hf, SepFlags.skip]
  simp [peek, hs]

/-- release-mode `step_unchecked` adds one to the cursor and nothing else -/
theorem stepUnchecked_release (c : Cfg) (contig : Bool) (b : Bytes) (hd : c.debug = false) :
    b.stepUnchecked c contig = .ok { b with index := b.index + 1 } := by
  simp [Bytes.stepUnchecked, Bytes.stepBy, hd]

/-- `parse_sign!`: an error index is the cursor (inside the buffer); on success the cursor stays valid and
moves by at most one, and a sign was consumed only if the byte under the old cursor was `+` / `-`. -/
theorem parseSign_spec (c : Cfg) (np rq : Bool) (ip ms : String) (b : Bytes) (h : Bytes.Valid b)
    (hd : c.debug = false) :
    match parseSign c np rq ip ms b with
    | .ok (_, b') => b'.slc = b.slc ∧ Bytes.Valid b' ∧ b.index ≤ b'.index ∧ b'.index ≤ b.index + 1
    | .error (.err _ i) => i = b.index ∧ i ≤ b.slc.length
    | .error _ => False := by
  unfold Bytes.Valid at *
  have inr : ∀ v, b.first = some v → b.index < b.slc.length := by
    intro v hv
    unfold Bytes.first at hv
    rcases List.getElem?_eq_some_iff.mp hv with ⟨hl, _⟩; exact hl
  generalize hres : parseSign c np rq ip ms b = r
  unfold parseSign at hres
  split at hres
  · next hv =>
    have := inr _ hv
    cases np <;>
      simp [Bytes.step, stepUnchecked_release c _ b hd, bind, Except.bind, pure, Except.pure] at hres <;>
      subst hres <;> simp <;> omega
  · next hv =>
    have := inr _ hv
    simp [Bytes.step, stepUnchecked_release c _ b hd, bind, Except.bind, pure, Except.pure] at hres
    subst hres; simp; omega
  · cases rq <;> simp [pure, Except.pure] at hres <;> subst hres <;> simp [h]

/-- `increment_count` touches only the counts -/
theorem incCount_spec (c : Cfg) (k : Comp) (b : Bytes) :
    (b.incCount c k).slc = b.slc ∧ (b.incCount c k).index = b.index := by
  unfold Bytes.incCount
  split
  · exact ⟨rfl, rfl⟩
  · cases k <;> exact ⟨rfl, rfl⟩

/-- `parse_digits` (release build, any format / feature set / component): whenever it returns, the buffer is
unchanged, the cursor moved forward and is still inside the buffer, and it consumed at least one byte per digit. -/
theorem parseDigitsLoop_spec (c : Cfg) (k : Comp) (radix : Nat) (hd : c.debug = false) :
    ∀ (fuel : Nat) (b b' : Bytes) (ds : List Nat), Bytes.Valid b →
      parseDigitsLoop c k radix fuel b = .ok (ds, b') →
      b'.slc = b.slc ∧ Bytes.Valid b' ∧ b.index + ds.length ≤ b'.index := by
  intro fuel
  induction fuel with
  | zero => intro b b' ds _ h; simp [parseDigitsLoop] at h
  | succ n ih =>
    intro b b' ds hv h
    unfold parseDigitsLoop at h
    cases hp : peek c k b with
    | error e => simp [hp, bind, Except.bind] at h
    | ok r =>
      obtain ⟨v, b1⟩ := r
      have hs := peek_spec c k b b1 v hv hp
      simp only [hp, bind, Except.bind] at h
      cases v with
      | none =>
        simp only [pure, Except.pure, Except.ok.injEq, Prod.mk.injEq] at h
        obtain ⟨rfl, rfl⟩ := h
        exact ⟨hs.1, hs.2.2.2.2.2.1, by simpa using hs.2.2.2.2.1⟩
      | some ch =>
        have hlt := peek_some_in_range c k b b1 ch hv hp
        simp only at h
        cases hdg : charToDigit ch radix with
        | none =>
          simp only [hdg, pure, Except.pure, Except.ok.injEq, Prod.mk.injEq] at h
          obtain ⟨rfl, rfl⟩ := h
          exact ⟨hs.1, hs.2.2.2.2.2.1, by simpa using hs.2.2.2.2.1⟩
        | some d =>
          simp only [hdg, iterStep, stepUnchecked_release c _ b1 hd] at h
          cases hrec : parseDigitsLoop c k radix n (Bytes.incCount c k { b1 with index := b1.index + 1 }) with
          | error e => simp [hrec] at h
          | ok r2 =>
            obtain ⟨ds2, b2⟩ := r2
            simp only [hrec, pure, Except.pure, Except.ok.injEq, Prod.mk.injEq] at h
            obtain ⟨rfl, rfl⟩ := h
            have hi := incCount_spec c k { b1 with index := b1.index + 1 }
            have hv2 : Bytes.Valid (Bytes.incCount c k { b1 with index := b1.index + 1 }) := by
              unfold Bytes.Valid; rw [hi.1, hi.2]; simp only; omega
            have := ih _ _ _ hv2 hrec
            rw [hi.1, hi.2] at this
            refine ⟨by rw [this.1]; exact hs.1, this.2.1, ?_⟩
            have h1 := hs.2.2.2.2.1
            have h2 := this.2.2
            simp only [List.length_cons] at *
            omega

/-- … and its fuel is sufficient: with `fuel > slc.length - index` the loop never reports `fault "fuel"`. -/
theorem parseDigitsLoop_no_fuel_fault (c : Cfg) (k : Comp) (radix : Nat) (hd : c.debug = false) :
    ∀ (fuel : Nat) (b : Bytes), Bytes.Valid b → b.slc.length - b.index < fuel →
      parseDigitsLoop c k radix fuel b ≠ .error (.fault "fuel") := by
  intro fuel
  induction fuel with
  | zero => intro b _ h; omega
  | succ n ih =>
    intro b hv hf
    unfold parseDigitsLoop
    cases hp : peek c k b with
    | error e =>
      have : c.skip k = .unreachable := (peek_error_iff c k b).mp ⟨e, hp⟩
      simp [peek, this] at hp
      subst hp
      simp [bind, Except.bind]
    | ok r =>
      obtain ⟨v, b1⟩ := r
      have hs := peek_spec c k b b1 v hv hp
      simp only [bind, Except.bind]
      cases v with
      | none => simp [pure, Except.pure]
      | some ch =>
        have hlt := peek_some_in_range c k b b1 ch hv hp
        simp only
        cases hdg : charToDigit ch radix with
        | none => simp [pure, Except.pure]
        | some d =>
          simp only [iterStep, stepUnchecked_release c _ b1 hd]
          have hi := incCount_spec c k { b1 with index := b1.index + 1 }
          have hv2 : Bytes.Valid (Bytes.incCount c k { b1 with index := b1.index + 1 }) := by
            unfold Bytes.Valid; rw [hi.1, hi.2]; simp only; omega
          have hf2 : (Bytes.incCount c k { b1 with index := b1.index + 1 }).slc.length
              - (Bytes.incCount c k { b1 with index := b1.index + 1 }).index < n := by
            rw [hi.1, hi.2]; simp only
            have h1 := hs.2.2.2.2.1
            have hlen : b1.slc.length = b.slc.length := by rw [hs.1]
            omega
          have := ih _ hv2 hf2
          cases hrec : parseDigitsLoop c k radix n (Bytes.incCount c k { b1 with index := b1.index + 1 }) with
          | error e =>
            simp only [hrec] at this
            intro hcontra
            simp only [Except.error.injEq] at hcontra
            exact this (by rw [hcontra])
          | ok r2 => simp [pure, Except.pure]

/-- `parse_digits` with the fuel `parse.rs`'s model gives it -/
theorem parseDigits_spec (c : Cfg) (k : Comp) (radix : Nat) (hd : c.debug = false) (b b' : Bytes) (ds : List Nat)
    (hv : Bytes.Valid b) (h : parseDigits c k radix b = .ok (ds, b')) :
    b'.slc = b.slc ∧ Bytes.Valid b' ∧ b.index + ds.length ≤ b'.index :=
  parseDigitsLoop_spec c k radix hd _ b b' ds hv h

/-- `take_n` keeps both the sub-buffer and the advanced iterator valid -/
theorem takeN_valid (c : Cfg) (k : Comp) (n : Nat) (b sub b' : Bytes) (h : Bytes.Valid b)
    (ht : takeN c k n b = some (sub, b')) : Bytes.Valid sub ∧ Bytes.Valid b' ∧ b.index ≤ b'.index := by
  unfold Bytes.Valid at *
  unfold takeN at ht
  split at ht
  · cases ht
    simp only [List.length_take]
    omega
  · cases ht

/-! ## Full statements (targets; not proved yet) -/

/-- C10 on the syntax layer: for a valid format, in release mode, `parse_number` neither faults nor panics and
every index it reports is inside the buffer. -/
def parseNumber_total : Prop :=
  ∀ (c : Cfg) (o : Spec.POpts) (isPartial neg : Bool) (b : Bytes),
    (formatError c.feats c.fmt).isNone → c.debug = false → Bytes.Valid b →
    match parseNumber c isPartial o b neg with
    | .ok (_, count) => count ≤ b.slc.length
    | .error (.err _ i) => i ≤ b.slc.length
    | .error _ => False

/-- C11 on the syntax layer: the complete parser accepts exactly when the partial parser consumes everything. -/
def complete_iff_partial : Prop :=
  ∀ (c : Cfg) (o : Spec.POpts) (s : List Nat) (p : Parsed),
    parseFloatSyntax c o false s = .ok p ↔
      (∃ q, parseFloatSyntax c o true s = .ok q ∧
        match q, p with
        | .zero n, .zero m => n = s.length ∧ m = n
        | .number x n, .number y m => x = y ∧ n = s.length ∧ m = n
        | .special a sa n, .special a' sa' m => a = a' ∧ sa = sa' ∧ n = s.length ∧ m = n
        | _, _ => False)

/-- non-vacuity: a valid cursor, a format with separators, a skipped separator -/
example :
    peek ⟨{ format := true }, ⟨0xc + 0x5f * 2 ^ 64 + 0xfff * 2 ^ 32 + 10 * 2 ^ 104⟩, false⟩ .integer
      { slc := [95, 49], index := 0 } = .ok (some 49, { slc := [95, 49], index := 1 }) := by rfl


/-! ## The documented grammar (`Spec.Grammar`) — specification side -/

open LexVerif.Spec LexVerif.Proof.Grammar

/-- **`standard_is_fromstr`, specification half.** For every format without syntax flags, base prefix and base
suffix (STANDARD, every `from_radix` / mixed-base format), under every feature set, the documented grammar *is* the
flag-free grammar `[+-]? digits* (. digits*)? (e [+-]? digits+)?` + specials of `Spec.parseStdComplete`
(which the correspondence stream `fromstr` compares with Rust's own `str::parse`). -/
theorem grammar_standard_eq_std (feats : Features) (f : Format) (hflags : f.flagBits = 12) (hp : f.basePrefix = 0)
    (hs : f.baseSuffix = 0) (o : POpts) (wf : SpecialsWF o) (s : List Nat) :
    grammarFloatComplete feats f o s = parseStdComplete f.mantissaRadix f.exponentRadix o s := by
  unfold grammarFloatComplete
  rw [syn_of_plain feats f hflags hp hs]
  exact grammarFloatSyn_std _ _ o wf s

/-- … and with the cargo feature `format` off *every* format has that grammar (no flag is configurable) -/
theorem grammar_noformat_eq_std (feats : Features) (hf : feats.format = false) (f : Format) (o : POpts)
    (wf : SpecialsWF o) (s : List Nat) :
    grammarFloatComplete feats f o s = parseStdComplete f.mantissaRadix f.exponentRadix o s := by
  unfold grammarFloatComplete
  rw [syn_of_noformat feats f hf]
  exact grammarFloatSyn_std _ _ o wf s

/-- the default option strings are well formed -/
theorem default_specials_wf : SpecialsWF ({} : POpts) := by
  refine ⟨by decide, by decide, by decide, ?_, ?_⟩
  · intro a as b bs h1 h2
    have e1 : a = 78 := by
      have : ({} : POpts).nan = some [78, 97, 78] := rfl
      rw [this] at h1; injection h1 with h1; injection h1 with h1 _; exact h1.symm
    subst e1
    rcases h2 with h2 | h2
    · have : ({} : POpts).inf = some [105, 110, 102] := rfl
      rw [this] at h2; injection h2 with h2; injection h2 with h2 _; subst h2; decide
    · have : ({} : POpts).infinity = some [105, 110, 102, 105, 110, 105, 116, 121] := rfl
      rw [this] at h2; injection h2 with h2; injection h2 with h2 _; subst h2; decide
  · intro a b h1 h2
    have e1 : ({} : POpts).inf = some [105, 110, 102] := rfl
    have e2 : ({} : POpts).infinity = some [105, 110, 102, 105, 110, 105, 116, 121] := rfl
    rw [e1] at h1; rw [e2] at h2
    injection h1 with h1; injection h2 with h2
    subst h1; subst h2; decide

/-- non-vacuity: STANDARD itself, default options -/
example (s : List Nat) :
    grammarFloatComplete {} Format.standard {} s = parseStdComplete 10 10 {} s :=
  grammar_standard_eq_std {} Format.standard (by decide) (by decide) (by decide) {} default_specials_wf s

/-! ## Model versus grammar -/

/-- a format whose digit separator, separator flags and base prefix are all absent -/
def SepPrefixFree (f : Format) : Prop :=
  f.digitSeparator = 0 ∧ f.basePrefix = 0 ∧
  f.integerInternalSep = false ∧ f.fractionInternalSep = false ∧ f.exponentInternalSep = false ∧
  f.integerLeadingSep = false ∧ f.fractionLeadingSep = false ∧ f.exponentLeadingSep = false ∧
  f.integerTrailingSep = false ∧ f.fractionTrailingSep = false ∧ f.exponentTrailingSep = false ∧
  f.integerConsecutiveSep = false ∧ f.fractionConsecutiveSep = false ∧ f.exponentConsecutiveSep = false ∧
  f.specialSep = false

theorem byteAt_lt (f : Format) (k : Nat) : f.byteAt k ≤ 255 := by
  unfold Format.byteAt
  have := Nat.mod_lt (f.raw / 2 ^ k) (by decide : 0 < 256)
  omega

theorem exponentRadix_le (f : Format) : f.exponentRadix ≤ 255 := by
  unfold Format.exponentRadix
  split
  · exact byteAt_lt f 104
  · exact byteAt_lt f 120

/-- the standing assumptions of `Proof.Grammar*` from assumptions on the format: release build, and either the
`format` feature is off or the format has no separator / prefix; `hr8`: without `power-of-two` the radix is 10
(a consequence of `FormatValid` for consistent feature sets). -/
theorem std_of (c : Cfg) (hd : c.debug = false) (h : c.feats.format = false ∨ SepPrefixFree c.fmt)
    (hr8 : c.feats.powerOfTwo = false → c.mantissaRadix ≤ 10) : Std c := by
  refine ⟨?_, hd, ?_, hr8, byteAt_lt c.fmt 104, exponentRadix_le c.fmt⟩
  · rcases h with h | h
    · exact NoSep.of_noformat c h
    · obtain ⟨h0, _, a1, a2, a3, a4, a5, a6, a7, a8, a9, a10, a11, a12, a13⟩ := h
      constructor <;>
        simp [Cfg.digitSeparator, Cfg.sepFlags, Cfg.flag, Cfg.specialSep, SepFlags.none, *]
  · rcases h with h | h
    · simp [Cfg.basePrefix, h]
    · simp [Cfg.basePrefix, h.2.1]

/-- C12 target. For every valid format, valid options and separator-free input: the complete parser of the model
accepts iff the documented grammar derives the input, with the same value / special. -/
def accepts_iff_grammar : Prop :=
  ∀ (feats : Features) (f : Format) (o : POpts) (ty : Spec.Fmt) (s : List Nat),
    (formatError feats f).isNone → (optionsError o).isNone → isValidOptionsPunctuation feats f o.exp o.dp = true →
    checkRadix feats f = true → (∀ x ∈ s, x < 256) → separatorFree f s = true →
    parseFloatModel feats f o false ty s = (grammarFloatComplete feats f o s).render ty f.mantissaRadix f.exponentBase false
      ∨ (grammarFloatComplete feats f o s = .err ∧ (parseFloatModel feats f o false ty s).startsWith "err")

/-- **What is proved of `accepts_iff_grammar`** (syntax layer `parseFloatSyntax`, i.e. up to the `Number`):
for every feature set and every format without digit separator and base prefix — in particular every format when
the `format` feature is off, and all single-flag / flag-combination formats —, every options record whose special
strings are well-formed letters, every byte string with something after the optional sign, release build:
* accepted ⇒ `Verdict`: the grammar derives the whole input (`numberOk`) and the `Number` has the derivation's
  sign, integer digits, fraction digits and exponent (`NumberIs`; exponent as accumulated by the implementation,
  equal to the exact one below `0x10000000`), or the grammar derives the same special value with the same sign;
* rejected with an `Error` ⇒ the grammar rejects.
(`Props/C12Full.lean` closes the parts listed next — dichotomy without panic / fault, entry-point validation, value
clause under `NumberExactAt` — and proves the entry-point statement `accepts_iff_grammar_entry_partial`.)
Not covered here (kept in `accepts_iff_grammar`): panic / fault exits of the many-digit re-parse (C10
`parseNumber_total`), `numberBits n = litBits (content)` for at most `u64_step` digits (C01/C05 territory),
the entry-point validation of `parseFloatModel`, and the excluded classes below, which are *findings*:
empty input / bare sign (`body = []`), formats with a base prefix. Formats with a digit separator (any flags) are
covered on separator-free input by `accepts_iff_grammar_sep_partial` in `Props/C12Sep.lean` (the former finding
`sep-format-uncounted-8digit-block` is repaired, see `regression_sep_format_*` below). -/
theorem accepts_iff_grammar_partial (c : Cfg) (hd : c.debug = false)
    (hfmt : c.feats.format = false ∨ SepPrefixFree c.fmt)
    (hr8 : c.feats.powerOfTwo = false → c.mantissaRadix ≤ 10)
    (o : POpts) (wf : SpecialsWF o) (hlet : LettersOnly o) (s : List Nat) (hb : ∀ x ∈ s, x < 256) (fv : Bool)
    (hbody : (splitSign s).2 ≠ []) :
    (∀ p, parseFloatSyntax c o false s fv = .ok p → Verdict c o s p) ∧
    (∀ k i, parseFloatSyntax c o false s fv = .error (.err k i) →
      grammarFloatComplete c.feats c.fmt o s = .err) :=
  parseFloatSyntax_grammar (std_of c hd hfmt hr8) o wf hlet s hb fv hbody

/-- same kind of result, same sign, whole input consumed -/
def Agrees (len : Nat) : Parsed → FRes → Prop
  | .number n cnt, .num l k => cnt = len ∧ k = len ∧ n.isNegative = l.neg
  | .special .nan _ cnt, .nan k => cnt = len ∧ k = len
  | .special .inf neg cnt, .inf neg2 k => cnt = len ∧ k = len ∧ neg = neg2
  | _, _ => False

/-- a `Verdict` means the grammar accepts (with the matching kind of result) -/
theorem verdict_grammar (c : Cfg) (o : POpts) (s : List Nat) (hs : s ≠ []) (p : Parsed) (h : Verdict c o s p) :
    Agrees s.length p (grammarFloatComplete c.feats c.fmt o s) := by
  have he : s.isEmpty = false := by cases s <;> simp_all
  cases h with
  | number n P hP hok hn =>
    have : grammarFloatComplete c.feats c.fmt o s = .num (P.lit (cfgSyn c)) s.length := by
      unfold grammarFloatComplete grammarFloatSyn
      simp only [he, Bool.false_eq_true, if_false]
      rw [hP] at hok ⊢
      simp only [cfgSyn] at hok
      simp only [hok, if_true, cfgSyn]
    rw [this]
    exact ⟨rfl, rfl, by rw [hn.neg, hP]; rfl⟩
  | special t hno hsg hsp =>
    have : grammarFloatComplete c.feats c.fmt o s =
        (match t with | true => .nan s.length | false => .inf ((splitSign s).1 == some true) s.length) := by
      unfold grammarFloatComplete grammarFloatSyn
      simp only [he, Bool.false_eq_true, if_false]
      simp only [cfgSyn] at hno hsg hsp
      simp only [hno, Bool.false_eq_true, if_false, hsg, if_true, hsp]
      cases t <;> rfl
    rw [this]
    cases t
    · exact ⟨rfl, rfl, rfl⟩
    · exact ⟨rfl, rfl⟩

/-- **(a) STANDARD accepts exactly the FromStr grammar + specials, model side.** With the `format` feature off (any
radix), in the release build, for inputs with something after the optional sign: whatever the model's complete
parser accepts, `Spec.parseStdComplete` accepts with the same kind of result, sign and count; whatever it rejects
with an `Error`, `parseStdComplete` rejects. -/
theorem model_noformat_vs_std (c : Cfg) (hd : c.debug = false) (hf : c.feats.format = false)
    (hr8 : c.feats.powerOfTwo = false → c.mantissaRadix ≤ 10)
    (o : POpts) (wf : SpecialsWF o) (hlet : LettersOnly o) (s : List Nat) (hb : ∀ x ∈ s, x < 256) (fv : Bool)
    (hbody : (splitSign s).2 ≠ []) :
    (∀ p, parseFloatSyntax c o false s fv = .ok p →
      Agrees s.length p (parseStdComplete c.fmt.mantissaRadix c.fmt.exponentRadix o s)) ∧
    (∀ k i, parseFloatSyntax c o false s fv = .error (.err k i) →
      parseStdComplete c.fmt.mantissaRadix c.fmt.exponentRadix o s = .err) := by
  have hs : s ≠ [] := by intro h; subst h; exact hbody rfl
  obtain ⟨h1, h2⟩ := accepts_iff_grammar_partial c hd (Or.inl hf) hr8 o wf hlet s hb fv hbody
  rw [grammar_noformat_eq_std c.feats hf c.fmt o wf s] at h2
  refine ⟨fun p hp => ?_, h2⟩
  have := verdict_grammar c o s hs p (h1 p hp)
  rw [grammar_noformat_eq_std c.feats hf c.fmt o wf s] at this
  exact this


/-! ## Findings: negation witnesses on the model (`decide`d), one per excluded class

Each pair is "the model's complete parser says A, the documented grammar says B" for a concrete format of the
catalogue `fmtcat_pnum.py` (feature set `radix+format`) and the default options. The same inputs disagree on the
implementation (`VERIF_SETS=radix+format ./check C12 quick`). -/

def modelAccepts (c : Cfg) (o : POpts) (s : List Nat) : Bool :=
  match parseFloatSyntax c o false s with
  | .ok _ => true
  | .error _ => false

def grammarAccepts (c : Cfg) (o : POpts) (s : List Nat) : Bool :=
  match grammarFloatComplete c.feats c.fmt o s with
  | .err => false
  | _ => true

def featsRF : Features := { radix := true, powerOfTwo := true, format := true }
/-- `prefix_d_radix10` : radix 10, base prefix `d` -/
def cfgPrefixD : Cfg := ⟨featsRF, ⟨0xa0a0a0064000000000000000000000c⟩, false⟩
/-- `prefix_d_nolz` : radix 10, base prefix `d`, `no_float_leading_zeros` -/
def cfgPrefixDNolz : Cfg := ⟨featsRF, ⟨0xa0a0a0064000000000000000000200c⟩, false⟩
/-- `flag_none` : no flag set (no digits required) -/
def cfgNoFlags : Cfg := ⟨featsRF, ⟨0xa0a0a00000000000000000000000000⟩, false⟩
/-- `sepmix_frac_i` : digit separator `_`, allowed only between fraction digits -/
def cfgSepFracI : Cfg := ⟨featsRF, ⟨0xa0a0a000000005f000000020000000c⟩, false⟩
/-- `sepmix_int_i` : digit separator `_`, allowed only between integer digits -/
def cfgSepIntI : Cfg := ⟨featsRF, ⟨0xa0a0a000000005f000000010000000c⟩, false⟩

/-- finding (base prefix swallows a leading zero): `0`, `-0`, `0e5`, `0.` are rejected by a format that merely
*allows* a base prefix ("a leading `0x` will be ignored, if present"; table: `1` valid).
Stated for BOTH values of the switch `Model.prefixRepair`: the model accepts these inputs exactly when the repair
`fixes/C12-base-prefix-swallows-leading-zero.diff` is modelled (with the switch on this is the regression theorem). -/
theorem finding_prefix_zero :
    (modelAccepts cfgPrefixD {} [48] = prefixRepair ∧ grammarAccepts cfgPrefixD {} [48] = true) ∧
    (modelAccepts cfgPrefixD {} [45, 48] = prefixRepair ∧ grammarAccepts cfgPrefixD {} [45, 48] = true) ∧
    (modelAccepts cfgPrefixD {} [48, 101, 53] = prefixRepair ∧ grammarAccepts cfgPrefixD {} [48, 101, 53] = true) ∧
    (modelAccepts cfgPrefixD {} [48, 46] = prefixRepair ∧ grammarAccepts cfgPrefixD {} [48, 46] = true) := by decide

/-- finding (`no_float_leading_zeros` is switched off by the prefix code): `0012` accepted; table: `01` invalid.
Both values of `Model.prefixRepair`: rejected exactly when the repair is modelled (`is_prefix` only if the prefix byte follows). -/
theorem finding_prefix_leading_zeros :
    modelAccepts cfgPrefixDNolz {} [48, 48, 49, 50] = !prefixRepair ∧ grammarAccepts cfgPrefixDNolz {} [48, 48, 49, 50] = false := by
  decide

/-- finding (empty input accepted when no digits are required; "empty strings are still invalid") -/
theorem finding_empty_input :
    modelAccepts cfgNoFlags {} [] = true ∧ grammarAccepts cfgNoFlags {} [] = false := by decide

/-- regression (former finding `sep-format-uncounted-8digit-block`, repaired in /repo 7e8a135 + 12a2453): a format
with a digit separator in only some components used to reject `12345678` (8 digits, no separator byte: the digits
of the 8-digit fast loop were not counted); it is accepted now, as the grammar demands … -/
theorem regression_sep_format_accepts_plain_digits :
    modelAccepts cfgSepFracI {} [49, 50, 51, 52, 53, 54, 55, 56] = true ∧
    grammarAccepts cfgSepFracI {} [49, 50, 51, 52, 53, 54, 55, 56] = true := by decide

/-- … and `1.123456789` keeps its nine fraction digits and the exponent `-9` (it used to store a one-byte fraction
slice with exponent `-1`, which mis-scaled the value) -/
theorem regression_sep_format_keeps_fraction_digits :
    (match parseFloatSyntax cfgSepIntI {} false [49, 46, 49, 50, 51, 52, 53, 54, 55, 56, 57] with
      | .ok (.number n _) =>
        n.fraction == some [49, 50, 51, 52, 53, 54, 55, 56, 57] && n.exponent == -9 && n.mantissa == 1123456789
      | _ => false) = true := by decide

/-- non-vacuity of `accepts_iff_grammar_partial`: a flagged format, an accepted and a rejected input -/
example : modelAccepts ⟨featsRF, ⟨0xa0a0a0000000000000000000000400c⟩, false⟩ {} [49, 101, 53] = true ∧
    modelAccepts ⟨featsRF, ⟨0xa0a0a0000000000000000000000400c⟩, false⟩ {} [49] = false := by decide

end LexVerif.Props.C12
