import LexVerif.Model.ParseNumber
/-!
# C12 — syntax flags accept exactly the documented grammar (property theorems, first instalment)

What is proved here is the iterator layer every later theorem (C10 totality, C11 prefix, C12 grammar,
C13 separators) stands on: `peek` of every component iterator, for every format and feature set,
* never moves the cursor backwards and never past the end of the buffer,
* never changes the buffer or the digit counts,
* returns exactly the byte under the cursor it leaves behind — so `Some` implies the cursor is in range,
  which is the safety argument of every `step_unchecked` that follows a `peek` in `parse.rs`;
and `parse_sign!` reports error indices inside the buffer and leaves a valid cursor.

The full statements that are *not* proved yet are kept as `def … : Prop`.
-/
namespace LexVerif.Props.C12
open LexVerif LexVerif.Model

/-- the cursor invariant of `Bytes` -/
def Bytes.Valid (b : Bytes) : Prop := b.index ≤ b.slc.length

theorem countSeps_le (c : Cfg) (l : List Nat) : countSeps c l ≤ l.length := by
  induction l with
  | nil => simp [countSeps]
  | cons x xs ih => simp only [countSeps]; split <;> simp <;> omega

/-- `peek_1!` / `peek_n!`: buffer and counts untouched, cursor monotone and in range, value = byte under the new cursor -/
theorem peekPred_spec (c : Cfg) (p : Pred) (cnt : Nat) (b : Bytes) (h : Bytes.Valid b) :
    let r := peekPred c p cnt b
    r.2.slc = b.slc ∧ r.2.ic = b.ic ∧ r.2.fc = b.fc ∧ r.2.ec = b.ec ∧
    b.index ≤ r.2.index ∧ Bytes.Valid r.2 ∧ r.1 = r.2.slc[r.2.index]? := by
  unfold Bytes.Valid at *
  simp only [peekPred]
  cases hv : b.slc[b.index]? with
  | none => simp [hv, h]
  | some v =>
    have hlt : b.index < b.slc.length := by
      rcases List.getElem?_eq_some_iff.mp hv with ⟨hl, _⟩; exact hl
    simp only
    split
    · split
      · refine ⟨rfl, rfl, rfl, rfl, ?_, ?_, rfl⟩
        · simp only; split <;> omega
        · simp only
          split
          · have := countSeps_le c (b.slc.drop (b.index + 1))
            simp only [List.length_drop] at this
            omega
          · omega
      · simp [hv, h]
    · simp [hv, h]

/-- `DigitsIter::peek` of any component iterator -/
theorem peek_spec (c : Cfg) (k : Comp) (b b' : Bytes) (v : Option Nat) (h : Bytes.Valid b)
    (hp : peek c k b = .ok (v, b')) :
    b'.slc = b.slc ∧ b'.ic = b.ic ∧ b'.fc = b.fc ∧ b'.ec = b.ec ∧
    b.index ≤ b'.index ∧ Bytes.Valid b' ∧ v = b'.slc[b'.index]? := by
  unfold peek at hp
  split at hp
  · simp only [Except.ok.injEq, Prod.mk.injEq] at hp
    obtain ⟨rfl, rfl⟩ := hp
    exact ⟨rfl, rfl, rfl, rfl, Nat.le_refl _, h, rfl⟩
  · next p _ =>
    have := peekPred_spec c p (b.iterCount c k) b h
    simp only [Except.ok.injEq] at hp
    rw [hp] at this
    exact this
  · cases hp

/-- the safety fact used by every `unsafe { iter.step_unchecked() }` after a successful `peek` -/
theorem peek_some_in_range (c : Cfg) (k : Comp) (b b' : Bytes) (x : Nat) (h : Bytes.Valid b)
    (hp : peek c k b = .ok (some x, b')) : b'.index < b'.slc.length := by
  have := (peek_spec c k b b' (some x) h hp).2.2.2.2.2.2
  rcases List.getElem?_eq_some_iff.mp this.symm with ⟨hl, _⟩
  exact hl

/-- `peek` only fails through the `unreachable!()` arm, i.e. for a component whose only separator flag is
"consecutive" — a combination `format.is_valid()` rejects -/
theorem peek_error_iff (c : Cfg) (k : Comp) (b : Bytes) :
    (∃ e, peek c k b = .error e) ↔ c.skip k = .unreachable := by
  unfold peek
  cases c.skip k <;> simp

/-- in the `noskip` build (`format` feature off) `peek` is `slc.get(index)` and never moves -/
theorem peek_noformat (c : Cfg) (k : Comp) (b : Bytes) (hf : c.feats.format = false) :
    peek c k b = .ok (b.slc[b.index]?, b) := by
  have hs : c.skip k = .noskip := by
    cases k <;> simp [Cfg.skip, Cfg.sepFlags, Cfg.flag, Cfg.specialSep, hf, SepFlags.skip]
  simp [peek, hs]

/-- release-mode `step_unchecked` adds one to the cursor and nothing else -/
theorem stepUnchecked_release (c : Cfg) (contig : Bool) (b : Bytes) (hd : c.debug = false) :
    b.stepUnchecked c contig = .ok { b with index := b.index + 1 } := by
  simp [Bytes.stepUnchecked, Bytes.stepBy, hd]

/-- `parse_sign!`: an error index is the cursor (inside the buffer); on success the cursor stays valid and
moves by at most one, and a sign was consumed only if the byte under the old cursor was `+` / `-`. -/
theorem parseSign_spec (c : Cfg) (np rq : Bool) (ip ms : String) (b : Bytes) (h : Bytes.Valid b)
    (hd : c.debug = false) :
    match parseSign c np rq ip ms b with
    | .ok (_, b') => b'.slc = b.slc ∧ Bytes.Valid b' ∧ b.index ≤ b'.index ∧ b'.index ≤ b.index + 1
    | .error (.err _ i) => i = b.index ∧ i ≤ b.slc.length
    | .error _ => False := by
  unfold Bytes.Valid at *
  have inr : ∀ v, b.first = some v → b.index < b.slc.length := by
    intro v hv
    unfold Bytes.first at hv
    rcases List.getElem?_eq_some_iff.mp hv with ⟨hl, _⟩; exact hl
  generalize hres : parseSign c np rq ip ms b = r
  unfold parseSign at hres
  split at hres
  · next hv =>
    have := inr _ hv
    cases np <;>
      simp [Bytes.step, stepUnchecked_release c _ b hd, bind, Except.bind, pure, Except.pure] at hres <;>
      subst hres <;> simp <;> omega
  · next hv =>
    have := inr _ hv
    simp [Bytes.step, stepUnchecked_release c _ b hd, bind, Except.bind, pure, Except.pure] at hres
    subst hres; simp; omega
  · cases rq <;> simp [pure, Except.pure] at hres <;> subst hres <;> simp [h]

/-- `increment_count` touches only the counts -/
theorem incCount_spec (c : Cfg) (k : Comp) (b : Bytes) :
    (b.incCount c k).slc = b.slc ∧ (b.incCount c k).index = b.index := by
  unfold Bytes.incCount
  split
  · exact ⟨rfl, rfl⟩
  · cases k <;> exact ⟨rfl, rfl⟩

/-- `parse_digits` (release build, any format / feature set / component): whenever it returns, the buffer is
unchanged, the cursor moved forward and is still inside the buffer, and it consumed at least one byte per digit. -/
theorem parseDigitsLoop_spec (c : Cfg) (k : Comp) (radix : Nat) (hd : c.debug = false) :
    ∀ (fuel : Nat) (b b' : Bytes) (ds : List Nat), Bytes.Valid b →
      parseDigitsLoop c k radix fuel b = .ok (ds, b') →
      b'.slc = b.slc ∧ Bytes.Valid b' ∧ b.index + ds.length ≤ b'.index := by
  intro fuel
  induction fuel with
  | zero => intro b b' ds _ h; simp [parseDigitsLoop] at h
  | succ n ih =>
    intro b b' ds hv h
    unfold parseDigitsLoop at h
    cases hp : peek c k b with
    | error e => simp [hp, bind, Except.bind] at h
    | ok r =>
      obtain ⟨v, b1⟩ := r
      have hs := peek_spec c k b b1 v hv hp
      simp only [hp, bind, Except.bind] at h
      cases v with
      | none =>
        simp only [pure, Except.pure, Except.ok.injEq, Prod.mk.injEq] at h
        obtain ⟨rfl, rfl⟩ := h
        exact ⟨hs.1, hs.2.2.2.2.2.1, by simpa using hs.2.2.2.2.1⟩
      | some ch =>
        have hlt := peek_some_in_range c k b b1 ch hv hp
        simp only at h
        cases hdg : charToDigit ch radix with
        | none =>
          simp only [hdg, pure, Except.pure, Except.ok.injEq, Prod.mk.injEq] at h
          obtain ⟨rfl, rfl⟩ := h
          exact ⟨hs.1, hs.2.2.2.2.2.1, by simpa using hs.2.2.2.2.1⟩
        | some d =>
          simp only [hdg, iterStep, stepUnchecked_release c _ b1 hd] at h
          cases hrec : parseDigitsLoop c k radix n (Bytes.incCount c k { b1 with index := b1.index + 1 }) with
          | error e => simp [hrec] at h
          | ok r2 =>
            obtain ⟨ds2, b2⟩ := r2
            simp only [hrec, pure, Except.pure, Except.ok.injEq, Prod.mk.injEq] at h
            obtain ⟨rfl, rfl⟩ := h
            have hi := incCount_spec c k { b1 with index := b1.index + 1 }
            have hv2 : Bytes.Valid (Bytes.incCount c k { b1 with index := b1.index + 1 }) := by
              unfold Bytes.Valid; rw [hi.1, hi.2]; simp only; omega
            have := ih _ _ _ hv2 hrec
            rw [hi.1, hi.2] at this
            refine ⟨by rw [this.1]; exact hs.1, this.2.1, ?_⟩
            have h1 := hs.2.2.2.2.1
            have h2 := this.2.2
            simp only [List.length_cons] at *
            omega

/-- … and its fuel is sufficient: with `fuel > slc.length - index` the loop never reports `fault "fuel"`. -/
theorem parseDigitsLoop_no_fuel_fault (c : Cfg) (k : Comp) (radix : Nat) (hd : c.debug = false) :
    ∀ (fuel : Nat) (b : Bytes), Bytes.Valid b → b.slc.length - b.index < fuel →
      parseDigitsLoop c k radix fuel b ≠ .error (.fault "fuel") := by
  intro fuel
  induction fuel with
  | zero => intro b _ h; omega
  | succ n ih =>
    intro b hv hf
    unfold parseDigitsLoop
    cases hp : peek c k b with
    | error e =>
      have : c.skip k = .unreachable := (peek_error_iff c k b).mp ⟨e, hp⟩
      simp [peek, this] at hp
      subst hp
      simp [bind, Except.bind]
    | ok r =>
      obtain ⟨v, b1⟩ := r
      have hs := peek_spec c k b b1 v hv hp
      simp only [bind, Except.bind]
      cases v with
      | none => simp [pure, Except.pure]
      | some ch =>
        have hlt := peek_some_in_range c k b b1 ch hv hp
        simp only
        cases hdg : charToDigit ch radix with
        | none => simp [pure, Except.pure]
        | some d =>
          simp only [iterStep, stepUnchecked_release c _ b1 hd]
          have hi := incCount_spec c k { b1 with index := b1.index + 1 }
          have hv2 : Bytes.Valid (Bytes.incCount c k { b1 with index := b1.index + 1 }) := by
            unfold Bytes.Valid; rw [hi.1, hi.2]; simp only; omega
          have hf2 : (Bytes.incCount c k { b1 with index := b1.index + 1 }).slc.length
              - (Bytes.incCount c k { b1 with index := b1.index + 1 }).index < n := by
            rw [hi.1, hi.2]; simp only
            have h1 := hs.2.2.2.2.1
            have hlen : b1.slc.length = b.slc.length := by rw [hs.1]
            omega
          have := ih _ hv2 hf2
          cases hrec : parseDigitsLoop c k radix n (Bytes.incCount c k { b1 with index := b1.index + 1 }) with
          | error e =>
            simp only [hrec] at this
            intro hcontra
            simp only [Except.error.injEq] at hcontra
            exact this (by rw [hcontra])
          | ok r2 => simp [pure, Except.pure]

/-- `parse_digits` with the fuel `parse.rs`'s model gives it -/
theorem parseDigits_spec (c : Cfg) (k : Comp) (radix : Nat) (hd : c.debug = false) (b b' : Bytes) (ds : List Nat)
    (hv : Bytes.Valid b) (h : parseDigits c k radix b = .ok (ds, b')) :
    b'.slc = b.slc ∧ Bytes.Valid b' ∧ b.index + ds.length ≤ b'.index :=
  parseDigitsLoop_spec c k radix hd _ b b' ds hv h

/-- `take_n` keeps both the sub-buffer and the advanced iterator valid -/
theorem takeN_valid (c : Cfg) (k : Comp) (n : Nat) (b sub b' : Bytes) (h : Bytes.Valid b)
    (ht : takeN c k n b = some (sub, b')) : Bytes.Valid sub ∧ Bytes.Valid b' ∧ b.index ≤ b'.index := by
  unfold Bytes.Valid at *
  unfold takeN at ht
  split at ht
  · cases ht
    simp only [List.length_take]
    omega
  · cases ht

/-! ## Full statements (targets; not proved yet) -/

/-- C10 on the syntax layer: for a valid format, in release mode, `parse_number` neither faults nor panics and
every index it reports is inside the buffer. -/
def parseNumber_total : Prop :=
  ∀ (c : Cfg) (o : Spec.POpts) (isPartial neg : Bool) (b : Bytes),
    (formatError c.feats c.fmt).isNone → c.debug = false → Bytes.Valid b →
    match parseNumber c isPartial o b neg with
    | .ok (_, count) => count ≤ b.slc.length
    | .error (.err _ i) => i ≤ b.slc.length
    | .error _ => False

/-- C11 on the syntax layer: the complete parser accepts exactly when the partial parser consumes everything. -/
def complete_iff_partial : Prop :=
  ∀ (c : Cfg) (o : Spec.POpts) (s : List Nat) (p : Parsed),
    parseFloatSyntax c o false s = .ok p ↔
      (∃ q, parseFloatSyntax c o true s = .ok q ∧
        match q, p with
        | .zero n, .zero m => n = s.length ∧ m = n
        | .number x n, .number y m => x = y ∧ n = s.length ∧ m = n
        | .special a sa n, .special a' sa' m => a = a' ∧ sa = sa' ∧ n = s.length ∧ m = n
        | _, _ => False)

/-- non-vacuity: a valid cursor, a format with separators, a skipped separator -/
example :
    peek ⟨{ format := true }, ⟨0xc + 0x5f * 2 ^ 64 + 0xfff * 2 ^ 32 + 10 * 2 ^ 104⟩, false⟩ .integer
      { slc := [95, 49], index := 0 } = .ok (some 49, { slc := [95, 49], index := 1 }) := by rfl

end LexVerif.Props.C12
