import LexVerif.Spec.Shortest
import LexVerif.Model.FormatDecimal
/-!
# C02 — float→decimal output round-trips exactly and is shortest (property theorems)

The oracle is `Spec.shortest`; its sanity theorems are in `Props/RoundNE.lean`, the cache / log-table
theorems in `Props/TablesWrite.lean`. Here: facts about the formatting layer on which the byte-level
comparison relies.
-/
namespace LexVerif.Props.C02
open LexVerif.Spec LexVerif.Model

/-- with default options no digit is dropped or changed by the rounding step -/
theorem truncateAndRound_default (ds : List Nat) (o : WOpts) (h : o.maxDigits = none) :
    truncateAndRound ds o = (ds, false) := by
  simp [truncateAndRound, h]

/-- the interval of a float contains the float itself: `lo ≤ v ≤ hi` (units of 2^e2) -/
theorem interval_contains_value (f : Fmt) (bits : Nat) :
    (interval f bits).lo ≤ (interval f bits).v ∧ (interval f bits).v ≤ (interval f bits).hi := by
  unfold interval
  constructor
  · simp only; split <;> omega
  · simp only; omega

end LexVerif.Props.C02
