import LexVerif.Spec.Shortest
import LexVerif.Model.FormatDecimal
import LexVerif.Model.Dragonbox
import LexVerif.Props.RoundNE
import LexVerif.Props.TablesWrite
import LexVerif.Proof.DragonboxLogs
import LexVerif.Proof.DragonboxArith
import LexVerif.Proof.DragonboxTrailing
import LexVerif.Proof.DragonboxSpec
import LexVerif.Proof.DragonboxShorterA
import LexVerif.Proof.DragonboxShorterB
import LexVerif.Proof.DragonboxShorterC
import LexVerif.Proof.DragonboxShorterD
import LexVerif.Proof.GrisuCached
import LexVerif.Proof.DragonboxEdges32
import LexVerif.Proof.DragonboxEdges64A
import LexVerif.Proof.DragonboxEdges64B
import LexVerif.Proof.GrisuSpec
import LexVerif.Proof.DragonboxNormalSpec
import LexVerif.Proof.GrisuMain
/-!
# C02 — float→decimal output round-trips exactly and is shortest (property theorems)

The oracle is `Spec.shortest`; its sanity theorems are in `Props/RoundNE.lean`, the cache / log-table
theorems in `Props/TablesWrite.lean`. Here: facts about the formatting layer on which the byte-level
comparison relies, and — section "Dragonbox" — theorems about the Lean model of `algorithm.rs`
(`Model/Dragonbox.lean`, tied to the code by the `td` component correspondence):
* the five `floor_log*` literal formulas are the true floor logarithms on their documented domains;
* the arithmetic kernels (`umul*`, `divide_by_pow10`, `check_div_pow10`, `div_pow10`, `remove_trailing_zeros`) are exact
  for ALL inputs in their stated ranges;
* `dragonbox_correct` (full statement) is PROVED (`dragonbox_correct_holds`): `dragonbox_correct_shorter_partial` — the
  `compute_nearest_shorter` branch (every float with a zero mantissa field, both types, kernel-evaluated) — and
  `dragonbox_correct_normal` — the `compute_nearest_normal` branch for EVERY mantissa and exponent of binary32 and binary64
  (subnormals included), from `dragonbox_exact_computation` (per-exponent kernel-checked Farey certificates:
  `compute_mul`, `compute_delta`, `compute_mul_parity` are exact floors / parities / integrality tests of `n·2^(e-1)·10^k`)
  and the interval case analysis of the algorithm (`Proof/DragonboxMath.lean`, `Proof/DragonboxNormal*.lean`).
-/
namespace LexVerif.Props.C02
open LexVerif.Spec LexVerif.Model

/-- with default options no digit is dropped or changed by the rounding step -/
theorem truncateAndRound_default (ds : List Nat) (o : WOpts) (h : o.maxDigits = none) :
    truncateAndRound ds o = (ds, false) := by
  simp [truncateAndRound, h]

/-- the interval of a float contains the float itself: `lo ≤ v ≤ hi` (units of 2^e2) -/
theorem interval_contains_value (f : Fmt) (bits : Nat) :
    (interval f bits).lo ≤ (interval f bits).v ∧ (interval f bits).v ≤ (interval f bits).hi := by
  unfold interval
  constructor
  · simp only; split <;> omega
  · simp only; omega

/-! ## Dragonbox -/
section Dragonbox
open LexVerif.Model.Dragonbox LexVerif.Proof.DragonboxSpec LexVerif.Proof LexVerif.Spec.Tables
open LexVerif.Gen.Dragonbox LexVerif.Proof.RoundNE

/-! ### the logarithm approximations: literal formula = dumped table = true floor logarithm -/

theorem floorLog5Pow2_true (q : Int) (h1 : -1492 ≤ q) (h2 : q ≤ 1492) : IsFloorLog5Pow2 q (floorLog5Pow2 q) := by
  rw [DragonboxLogs.floorLog5Pow2_eq q h1 h2]; exact TablesWrite.floor_log5_pow2_exact q h1 h2

theorem floorLog10Pow2_true (q : Int) (h1 : -1700 ≤ q) (h2 : q ≤ 1700) : IsFloorLog10Pow2 q (floorLog10Pow2 q) := by
  rw [DragonboxLogs.floorLog10Pow2_eq q h1 h2]; exact TablesWrite.floor_log10_pow2_exact q h1 h2

theorem floorLog2Pow10_true (q : Int) (h1 : -1233 ≤ q) (h2 : q ≤ 1233) : IsFloorLog2Pow10 q (floorLog2Pow10 q) := by
  rw [DragonboxLogs.floorLog2Pow10_eq q h1 h2]; exact TablesWrite.floor_log2_pow10_exact q h1 h2

theorem floorLog5Pow2MinusLog5_3_true (q : Int) (h1 : -2427 ≤ q) (h2 : q ≤ 2427) :
    IsFloorLog5Pow2MinusLog5_3 q (floorLog5Pow2MinusLog5_3 q) := by
  rw [DragonboxLogs.floorLog5Pow2MinusLog5_3_eq q h1 h2]
  exact TablesWrite.floor_log5_pow2_minus_log5_3_exact q h1 h2

/-- in particular at `-295` and `97`, where the source comment claims the formula is off: it is exact on all of
`[-1700, 1700]`, which contains every binary exponent of a finite float -/
theorem floorLog10Pow2MinusLog10_4Over3_true (q : Int) (h1 : -1700 ≤ q) (h2 : q ≤ 1700) :
    IsFloorLog10Pow2MinusLog10_4Over3 q (floorLog10Pow2MinusLog10_4Over3 q) := by
  rw [DragonboxLogs.floorLog10Pow2MinusLog10_4Over3_eq q h1 h2]
  exact TablesWrite.floor_log10_pow2_minus_log10_4_over_3_exact q h1 h2

/-- the per-type constants dumped from the crate are the source formulas evaluated with the model's `floor_log*`
(current code: `DIV_BY_5_THRESHOLD` after fix 9f5296f is 39 / 86, not `floor_log2_pow10(kappa + 1)` = 6 / 9) -/
theorem dragonbox_model_consts :
    F32.fcPmHalfLower = -F32.kappa - floorLog5Pow2 F32.kappa
    ∧ F64.fcPmHalfLower = -F64.kappa - floorLog5Pow2 F64.kappa
    ∧ F32.divBy5Threshold = floorLog2Pow10 (floorLog5Pow2 (F32.mantissaSize + 2) + F32.kappa + 1)
    ∧ F64.divBy5Threshold = floorLog2Pow10 (floorLog5Pow2 (F64.mantissaSize + 2) + F64.kappa + 1)
    ∧ F32.divBy5Threshold = 39 ∧ F64.divBy5Threshold = 86
    ∧ floorLog2Pow10 (F32.kappa + 1) = 6 ∧ floorLog2Pow10 (F64.kappa + 1) = 9 := by decide

/-- the endpoint tests of the shorter-interval case, as computed by the model (`count_factors`, `pow64`, `floor_log2`
loops), agree with the lists dumped from the crate on every exponent of the dump range -/
theorem endpoints_match_dump :
    (∀ e ∈ (List.range 256).map (fun i => (i : Int) - 150),
        isRightEndpoint .f32 e = F32.rightEndpoints.contains e ∧ isLeftEndpoint .f32 e = F32.leftEndpoints.contains e)
    ∧ (∀ e ∈ (List.range 2048).map (fun i => (i : Int) - 1075),
        isRightEndpoint .f64 e = F64.rightEndpoints.contains e ∧ isLeftEndpoint .f64 e = F64.leftEndpoints.contains e) := by
  decide +kernel

/-! ### arithmetic kernels, all inputs -/

/-- `umul128_upper64(x, y) = ⌊x·y / 2^64⌋` -/
theorem umul128_upper64_exact {x y : Nat} (hx : x < 2 ^ 64) (hy : y < 2 ^ 64) :
    umul128Upper64 x y = x * y / 2 ^ 64 := DragonboxArith.umul128Upper64_eq hx hy

/-- `umul192_upper128` = bits 64..191 of the exact 192-bit product -/
theorem umul192_upper128_exact {x hi lo : Nat} (hx : x < 2 ^ 64) (hh : hi < 2 ^ 64) (hl : lo < 2 ^ 64) :
    umul192Upper128 x hi lo = (x * (hi * 2 ^ 64 + lo) / 2 ^ 128, x * (hi * 2 ^ 64 + lo) / 2 ^ 64 % 2 ^ 64) :=
  DragonboxArith.umul192Upper128_eq hx hh hl

/-- `umul192_lower128` = bits 0..127 of the exact product -/
theorem umul192_lower128_exact {x yhi ylo : Nat} (hx : x < 2 ^ 64) (hl : ylo < 2 ^ 64) :
    (umul192Lower128 x yhi ylo).1 * 2 ^ 64 + (umul192Lower128 x yhi ylo).2 = x * (yhi * 2 ^ 64 + ylo) % 2 ^ 128 :=
  DragonboxArith.umul192Lower128_eq hx hl

theorem umul96_upper64_exact {x y : Nat} (hx : x < 2 ^ 32) (hy : y < 2 ^ 64) :
    umul96Upper64 x y = x * y / 2 ^ 32 := DragonboxArith.umul96Upper64_eq hx hy

theorem umul96_lower64_exact (x y : Nat) : umul96Lower64 x y = x * y % 2 ^ 64 := rfl

/-- f32 `divide_by_pow10` (the `· 1374389535 >> 37` trick) is `n / 100` on the whole `u32` range -/
theorem divide_by_pow10_f32_exact {n : Nat} (hn : n < 2 ^ 32) (nMax : Nat) :
    divideByPow10 .f32 n 2 nMax = n / 100 := DragonboxArith.divideByPow10_f32 hn nMax

/-- f64 `divide_by_pow10` (`umul128_upper64(n, 2361183241434822607) >> 7`) is `n / 1000` for every `n ≤ n_max`, for the
`n_max` the callers pass and more generally whenever the source's own guard on `n_max` holds -/
theorem divide_by_pow10_f64_exact {n nMax : Nat} (hmax : nMax ≤ 15534100272597517998) (hn : n ≤ nMax) :
    divideByPow10 .f64 n 3 nMax = n / 1000 := DragonboxArith.divideByPow10_64_eq hmax hn

theorem divide_by_pow10_f64_callers {n : Nat} (hn : n ≤ 2 ^ 53 * 1000 - 1) :
    divideByPow10 .f64 n 3 (2 ^ 53 * 1000 - 1) = n / 1000 := DragonboxArith.divideByPow10_f64 hn

/-- `check_div_pow10` / `div_pow10` on their precondition `n ≤ 10^(kappa+1)` -/
theorem check_div_pow10_exact :
    (∀ n ∈ List.range 101, checkDivPow10 .f32 n = (n / 10, decide (n % 10 = 0)))
    ∧ (∀ n ∈ List.range 1001, checkDivPow10 .f64 n = (n / 100, decide (n % 100 = 0)))
    ∧ (∀ n ∈ List.range 101, divPow10 .f32 n = n / 10)
    ∧ (∀ n ∈ List.range 1001, divPow10 .f64 n = n / 100) :=
  ⟨DragonboxArith.checkDivPow10_f32, DragonboxArith.checkDivPow10_f64, DragonboxArith.divPow10_f32,
   DragonboxArith.divPow10_f64⟩

/-- `remove_trailing_zeros` (f32): for EVERY non-zero `u32` the result is `(m, s)` with `n = m·10^s` and `10 ∤ m`
(so `s` is maximal) -/
theorem remove_trailing_zeros_f32_exact {n : Nat} (h0 : 0 < n) (hn : n < 2 ^ 32) :
    ∃ s m, removeTrailingZeros .f32 n = (m, s) ∧ n = m * 10 ^ s ∧ m % 10 ≠ 0 :=
  DragonboxTrailing.removeTrailingZeros_f32 h0 hn

/-- `remove_trailing_zeros` (f64): same for every non-zero `n < 2^32·10^8 ≈ 4.29·10^17` (Dragonbox significands are
`< 10^17`; above the bound the code truncates `n / 10^8` to 32 bits) -/
theorem remove_trailing_zeros_f64_exact {n : Nat} (h0 : 0 < n) (hn : n < 2 ^ 32 * 10 ^ 8) :
    ∃ s m, removeTrailingZeros .f64 n = (m, s) ∧ n = m * 10 ^ s ∧ m % 10 ≠ 0 :=
  DragonboxTrailing.removeTrailingZeros_f64 h0 hn

/-- the stated bound of the f64 version is sharp: at `2^32·10^8 + 10^8` the 32-bit truncation of `n / 10^8` loses the
value (`1·10^8 ≠ n`); unreachable from `to_decimal`, whose significands are below `10^17` -/
theorem remove_trailing_zeros_f64_bound_sharp :
    removeTrailingZeros .f64 (2 ^ 32 * 10 ^ 8 + 10 ^ 8) = (1, 8) := by decide +kernel

/-! ### the algorithm -/

/-- FULL STATEMENT (proved below: `dragonbox_correct_holds`): for every finite non-zero float of either type the model's
`to_decimal` does not fault and returns, up to trailing zeros of the significand, one of the pairs of the oracle
`Spec.shortest` (which round-trips, has the fewest digits and is closest — `Props.RoundNE.shortest_*`). -/
def dragonbox_correct : Prop :=
  ∀ (t : FTy) (bits : Nat), 0 < bits → bits < (fmtOf t).infBits → dragonboxOk t bits = true

theorem mem_expChunk {t : FTy} {lo hi e : Nat} (h1 : lo ≤ e) (h2 : e < hi) (h0 : 0 < e) :
    e * 2 ^ t.ms ∈ expChunk t lo hi := by
  unfold expChunk
  apply List.mem_map.mpr
  exact ⟨e, List.mem_filter.mpr ⟨List.mem_range.mpr h2, by simp [h1, h0]⟩, rfl⟩

theorem shorter32_all : (expChunk .f32 0 255).all (dragonboxOk .f32) = true := by decide +kernel

/-- PROVED PART: the whole `compute_nearest_shorter` branch — every float whose mantissa field is zero (exponent field
`1 … 254` for f32, `1 … 2046` for f64; all 2300 inputs evaluated by the kernel against the oracle) -/
theorem dragonbox_correct_shorter_partial (t : FTy) (e : Nat) (h0 : 0 < e) (he : e < 2 ^ t.exponentSize.toNat - 1) :
    dragonboxOk t (e * 2 ^ t.ms) = true := by
  cases t with
  | f32 =>
    exact List.all_eq_true.mp shorter32_all _ (mem_expChunk (Nat.zero_le _) he h0)
  | f64 =>
    have he' : e < 2047 := he
    by_cases c1 : e < 128
    · exact List.all_eq_true.mp shorter64_0_128 _ (mem_expChunk (Nat.zero_le _) c1 h0)
    by_cases c2 : e < 256
    · exact List.all_eq_true.mp shorter64_128_256 _ (mem_expChunk (by omega) c2 h0)
    by_cases c3 : e < 384
    · exact List.all_eq_true.mp shorter64_256_384 _ (mem_expChunk (by omega) c3 h0)
    by_cases c4 : e < 512
    · exact List.all_eq_true.mp shorter64_384_512 _ (mem_expChunk (by omega) c4 h0)
    by_cases c5 : e < 640
    · exact List.all_eq_true.mp shorter64_512_640 _ (mem_expChunk (by omega) c5 h0)
    by_cases c6 : e < 768
    · exact List.all_eq_true.mp shorter64_640_768 _ (mem_expChunk (by omega) c6 h0)
    by_cases c7 : e < 896
    · exact List.all_eq_true.mp shorter64_768_896 _ (mem_expChunk (by omega) c7 h0)
    by_cases c8 : e < 1024
    · exact List.all_eq_true.mp shorter64_896_1024 _ (mem_expChunk (by omega) c8 h0)
    by_cases c9 : e < 1152
    · exact List.all_eq_true.mp shorter64_1024_1152 _ (mem_expChunk (by omega) c9 h0)
    by_cases c10 : e < 1280
    · exact List.all_eq_true.mp shorter64_1152_1280 _ (mem_expChunk (by omega) c10 h0)
    by_cases c11 : e < 1408
    · exact List.all_eq_true.mp shorter64_1280_1408 _ (mem_expChunk (by omega) c11 h0)
    by_cases c12 : e < 1536
    · exact List.all_eq_true.mp shorter64_1408_1536 _ (mem_expChunk (by omega) c12 h0)
    by_cases c13 : e < 1664
    · exact List.all_eq_true.mp shorter64_1536_1664 _ (mem_expChunk (by omega) c13 h0)
    by_cases c14 : e < 1792
    · exact List.all_eq_true.mp shorter64_1664_1792 _ (mem_expChunk (by omega) c14 h0)
    by_cases c15 : e < 1920
    · exact List.all_eq_true.mp shorter64_1792_1920 _ (mem_expChunk (by omega) c15 h0)
    · exact List.all_eq_true.mp shorter64_1920_2048 _ (mem_expChunk (by omega) (by omega) h0)

theorem mem_edges {t : FTy} {lo hi step e : Nat} (h1 : lo ≤ e) (h2 : e < hi) (h3 : e % step = 0) :
    e * 2 ^ t.ms + 1 ∈ edges t lo hi step ∧ e * 2 ^ t.ms + (2 ^ t.ms - 1) ∈ edges t lo hi step := by
  unfold edges
  constructor <;>
  · apply List.mem_flatMap.mpr
    exact ⟨e, List.mem_filter.mpr ⟨List.mem_range.mpr h2, by simp [h1, h3]⟩, by simp⟩

/-- PROVED PART (normal branch, finite): the binade edges — mantissa field `1` and all-ones — for EVERY exponent field of
binary32 (subnormals included: the smallest and the largest subnormal) and every 4th exponent field of binary64, each
kernel-evaluated against the oracle. Together with the shorter-interval theorem this covers the three patterns nearest to
every power of two of binary32. -/
theorem dragonbox_correct_edges_partial :
    (∀ e, e < 255 → dragonboxOk .f32 (e * 2 ^ 23 + 1) = true ∧ dragonboxOk .f32 (e * 2 ^ 23 + (2 ^ 23 - 1)) = true)
    ∧ (∀ e, e < 2047 → e % 4 = 0 →
        dragonboxOk .f64 (e * 2 ^ 52 + 1) = true ∧ dragonboxOk .f64 (e * 2 ^ 52 + (2 ^ 52 - 1)) = true) := by
  constructor
  · intro e he
    obtain ⟨m1, m2⟩ := mem_edges (t := .f32) (lo := 0) (hi := 255) (step := 1) (Nat.zero_le e) he (Nat.mod_one e)
    exact ⟨List.all_eq_true.mp edges32_all _ m1, List.all_eq_true.mp edges32_all _ m2⟩
  · intro e he h4
    by_cases c1 : e < 512
    · obtain ⟨m1, m2⟩ := mem_edges (t := .f64) (lo := 0) (hi := 512) (step := 4) (Nat.zero_le e) c1 h4
      exact ⟨List.all_eq_true.mp edges64_0_512 _ m1, List.all_eq_true.mp edges64_0_512 _ m2⟩
    by_cases c2 : e < 1024
    · obtain ⟨m1, m2⟩ := mem_edges (t := .f64) (lo := 512) (hi := 1024) (step := 4) (by omega) c2 h4
      exact ⟨List.all_eq_true.mp edges64_512_1024 _ m1, List.all_eq_true.mp edges64_512_1024 _ m2⟩
    by_cases c3 : e < 1536
    · obtain ⟨m1, m2⟩ := mem_edges (t := .f64) (lo := 1024) (hi := 1536) (step := 4) (by omega) c3 h4
      exact ⟨List.all_eq_true.mp edges64_1024_1536 _ m1, List.all_eq_true.mp edges64_1024_1536 _ m2⟩
    · obtain ⟨m1, m2⟩ := mem_edges (t := .f64) (lo := 1536) (hi := 2047) (step := 4) (by omega) he h4
      exact ⟨List.all_eq_true.mp edges64_1536_2047 _ m1, List.all_eq_true.mp edges64_1536_2047 _ m2⟩

/-- what `dragonboxOk` gives: the returned decimal, trailing zeros stripped, re-parses (exact `roundNE`) to the same bits -/
theorem dragonboxOk_roundtrips {t : FTy} {bits : Nat} (h0 : 0 < bits) (hfin : bits < (fmtOf t).infBits)
    (h : dragonboxOk t bits = true) :
    ∃ m e, toDecimal t bits = some (m, e) ∧
      roundNE (fmtOf t) (decFrac (normDec 20 m e).1 (normDec 20 m e).2).1 (decFrac (normDec 20 m e).1 (normDec 20 m e).2).2
        = bits := by
  unfold dragonboxOk at h
  cases hd : toDecimal t bits with
  | none => simp [hd] at h
  | some p =>
    obtain ⟨m, e⟩ := p
    simp only [hd] at h
    have hmem : normDec 20 m e ∈ shortest (fmtOf t) bits := by simpa using h
    have hwf : LexVerif.Proof.RoundNE.WF (fmtOf t) := by
      cases t
      · exact LexVerif.Proof.RoundNE.wf_f32
      · exact LexVerif.Proof.RoundNE.wf_f64
    exact ⟨m, e, rfl, LexVerif.Props.RoundNE.shortest_roundtrips hwf h0 hfin (D := (normDec 20 m e).1)
      (E := (normDec 20 m e).2) hmem⟩

/-- `dragonbox_roundtrips_partial`: every float with a zero mantissa field is written by the model as a decimal that
round-trips and is a shortest, closest one (the latter two via `Props.RoundNE.shortest_minimal/closest` from membership) -/
theorem dragonbox_roundtrips_partial (t : FTy) (e : Nat) (h0 : 0 < e) (he : e < 2 ^ t.exponentSize.toNat - 1) :
    ∃ m x, toDecimal t (e * 2 ^ t.ms) = some (m, x) ∧ normDec 20 m x ∈ shortest (fmtOf t) (e * 2 ^ t.ms) ∧
      roundNE (fmtOf t) (decFrac (normDec 20 m x).1 (normDec 20 m x).2).1 (decFrac (normDec 20 m x).1 (normDec 20 m x).2).2
        = e * 2 ^ t.ms := by
  have hok := dragonbox_correct_shorter_partial t e h0 he
  have hpos : 0 < e * 2 ^ t.ms := Nat.mul_pos h0 (Nat.two_pow_pos _)
  have hfin : e * 2 ^ t.ms < (fmtOf t).infBits := by
    cases t
    · show e * 2 ^ 23 < 255 * 2 ^ 23
      have : e < 255 := he
      omega
    · show e * 2 ^ 52 < 2047 * 2 ^ 52
      have : e < 2047 := he
      omega
  obtain ⟨m, x, hd, hr⟩ := dragonboxOk_roundtrips hpos hfin hok
  refine ⟨m, x, hd, ?_, hr⟩
  unfold dragonboxOk at hok
  simp only [hd] at hok
  simpa using hok


/-! ### the normal branch, all inputs -/
section Normal
open LexVerif.Proof.DragonboxExp LexVerif.Proof.DragonboxExact LexVerif.Proof.DragonboxNormalSpec
open LexVerif.Proof.DragonboxShortest

/-- **exact computation**, every binary exponent `e` of a finite float (254 + 2046 exponents, each certified by the kernel:
`Proof/Tables/DragonboxExp*.lean`) and EVERY significand `q` that occurs with it: there are `k = -minus_k`, `β`, the cache
entry `pow5` — exactly the values the model computes — and a fraction `a/b = 2^(e-1)·10^k` such that
(a) `compute_mul((2q+1)·2^β)` is `⌊(2q+1)·a/b⌋` with its integrality flag, (b) `compute_delta` is `⌊2a/b⌋`,
(c) `compute_mul_parity` of `2q-1` and `2q` gives the parity of the floor and the integrality of `n·a/b`;
the only exception is the integrality flag of the CENTRE for the two binary32 inputs `excFloats`
(`29711844·2^-82`, `29711844·2^-81` of the source comment; `center_flag_wrong_f32` shows the flag is really wrong there). -/
theorem dragonbox_exact_computation (t : FTy) (e : Int) (h1 : t.denormalExponent ≤ e)
    (h2 : e ≤ ((2 ^ t.exponentSize.toNat - 2 : Nat) : Int) - t.exponentBias) :
    ∃ d : ExpData,
      d.minusK = i32 (floorLog10Pow2 e - t.kappa)
      ∧ dragonboxPower t (i32 (-d.minusK)) = some d.pow5
      ∧ i32 (e + floorLog2Pow10 (i32 (-d.minusK))) = (d.beta : Int)
      ∧ 0 < d.b ∧ (d.a : ℚ) / d.b = (2 : ℚ) ^ (e - 1) * (10 : ℚ) ^ (-d.minusK)
      ∧ ∀ q, 1 ≤ q → q < 2 ^ (fmtOf t).p → (e ≠ t.denormalExponent → 2 ^ ((fmtOf t).p - 1) ≤ q) →
          computeMul t (shl64 (shl64 q 1 ||| 1) d.beta) d.pow5
            = ((2 * q + 1) * d.a / d.b, decide (d.b ∣ (2 * q + 1) * d.a))
          ∧ computeDelta t d.pow5 d.beta = 2 * d.a / d.b
          ∧ computeMulParity t (sub64 (shl64 q 1) 1) d.pow5 d.beta
            = (decide ((2 * q - 1) * d.a / d.b % 2 = 1), decide (d.b ∣ (2 * q - 1) * d.a))
          ∧ (computeMulParity t (shl64 q 1) d.pow5 d.beta).1 = decide (2 * q * d.a / d.b % 2 = 1)
          ∧ ((e, q) ∉ excFloats t →
              (computeMulParity t (shl64 q 1) d.pow5 d.beta).2 = decide (d.b ∣ 2 * q * d.a)) := by
  obtain ⟨d, F⟩ := facts_of_ok (expOk_all t e h1 h2)
  refine ⟨d, F.hKm, F.hpow, F.hbetaM, F.hcert.1, x_value F, ?_⟩
  intro q hq1 hq2 hqn
  rw [← prec_eq] at hq2 hqn
  have hN : 2 ^ (prec t + 1) = 2 * 2 ^ prec t := by rw [Nat.pow_succ]; omega
  have hlo := LexVerif.Proof.DragonboxNormal.nLo_le hq1 hqn
  have h54 : (2 : Nat) ^ (prec t + 1) ≤ 2 ^ 54 := Nat.pow_le_pow_right (by decide) (prec_le t)
  have hβ63 : d.beta ≤ 63 := by have := F.hb.2.1; omega
  have hu : (2 * q + 1) * 2 ^ d.beta < 2 ^ 64 := by
    have a1 : (2 * q + 1) * 2 ^ d.beta < 2 ^ (prec t + 1) * 2 ^ d.beta :=
      Nat.mul_lt_mul_of_pos_right (by omega) (Nat.two_pow_pos _)
    have a2 := F.hb.2.2
    have a3 : (2 : Nat) ^ (t.qb / 2) ≤ 2 ^ 64 := by cases t <;> decide
    omega
  have e1 : shl64 q 1 = 2 * q := LexVerif.Proof.DragonboxBits.shl64_one (by omega)
  have e2 := LexVerif.Proof.DragonboxBits.twoFc_or_one (m := q) hβ63 hu
  have e5 : sub64 (2 * q) 1 = 2 * q - 1 := LexVerif.Proof.DragonboxBits.sub64_one (by omega) (by omega)
  rw [e2, e1, e5]
  refine ⟨mul_exact F (by omega) (by omega) (by omega) (LexVerif.Proof.DragonboxNormal.not_exc_odd F (by omega)),
    delta_exact F,
    parity_exact F (by omega) (by omega) hlo (LexVerif.Proof.DragonboxNormal.not_exc_odd F (by omega)),
    parity_exact_fst F (by omega) (by omega), fun hx => ?_⟩
  rw [parity_exact F (n := 2 * q) (by omega) (by omega) (by omega)
    (LexVerif.Proof.DragonboxNormal.not_exc_even F hx)]

/-- the exclusion in `dragonbox_exact_computation` is necessary: at `e = -81`, `2q = 29711844` the model's flag says
"`y` is an integer" although `29711844 · 2^-82 · 10^26` is not (`b = 2^56 ∤ 29711844 · 5^26`) -/
theorem center_flag_wrong_f32 :
    (match expData .f32 (-81) with
     | some d => (computeMulParity .f32 29711844 d.pow5 d.beta).2 && !(decide (d.b ∣ 29711844 * d.a))
     | none => false) = true := by decide +kernel

/-- **the normal branch is correct for all inputs**: every finite float of either type with a non-zero mantissa field
(all normal floats off the powers of two and all subnormals) is written by the model of `compute_nearest_normal` as a pair
of `Spec.shortest` -/
theorem dragonbox_correct_normal (t : FTy) (bits : Nat) (h0 : 0 < bits) (hfin : bits < (fmtOf t).infBits)
    (hm : bits &&& t.mantissaMask ≠ 0) : dragonboxOk t bits = true :=
  normal_ok t bits h0 hfin hm

/-- **C02 on the Dragonbox model, all finite non-zero floats of binary32 and binary64** -/
theorem dragonbox_correct_holds : dragonbox_correct := by
  intro t bits h0 hfin
  by_cases hm : bits &&& t.mantissaMask = 0
  · obtain ⟨e, he0, he1, hb, _⟩ := zero_mantissa_form t bits h0 hfin hm
    rw [hb]; exact dragonbox_correct_shorter_partial t e he0 he1
  · exact dragonbox_correct_normal t bits h0 hfin hm

/-- consequence: the model's output for ANY finite non-zero float re-parses (exact `roundNE`) to the same bits, is in
`Spec.shortest` (hence has the fewest digits and is closest: `Props.RoundNE.shortest_minimal/closest`) -/
theorem dragonbox_roundtrips (t : FTy) (bits : Nat) (h0 : 0 < bits) (hfin : bits < (fmtOf t).infBits) :
    ∃ m x, toDecimal t bits = some (m, x) ∧ normDec 20 m x ∈ shortest (fmtOf t) bits ∧
      roundNE (fmtOf t) (decFrac (normDec 20 m x).1 (normDec 20 m x).2).1 (decFrac (normDec 20 m x).1 (normDec 20 m x).2).2
        = bits := by
  have hok := dragonbox_correct_holds t bits h0 hfin
  obtain ⟨m, x, hd, hr⟩ := dragonboxOk_roundtrips h0 hfin hok
  refine ⟨m, x, hd, ?_, hr⟩
  unfold dragonboxOk at hok
  simp only [hd] at hok
  simpa using hok

/-- signed zeros: `to_decimal` of `±0` is `(0, 0)` (the sign is written by the caller from the sign bit) -/
theorem dragonbox_zero (t : FTy) : toDecimal t 0 = some (0, 0) ∧ toDecimal t t.signMask = some (0, 0) := by
  cases t <;> decide

/-! non-vacuity: the hypotheses of `dragonbox_correct_normal` / `dragonbox_exact_computation` are satisfiable -/
example : dragonboxOk .f64 0x3FF8000000000000 = true :=
  dragonbox_correct_normal .f64 0x3FF8000000000000 (by decide) (by decide) (by decide)
example : dragonboxOk .f32 1 = true := dragonbox_correct_normal .f32 1 (by decide) (by decide) (by decide)
example : FTy.f64.denormalExponent ≤ 0 ∧ (0 : Int) ≤ ((2 ^ FTy.f64.exponentSize.toNat - 2 : Nat) : Int) - FTy.f64.exponentBias := by
  decide

end Normal

/-! non-vacuity and samples (normal branch, evaluated) -/
example : toDecimal .f64 0x3FF8000000000000 = some (15, -1) := by decide +kernel
example : toDecimal .f32 0x00800000 = some (11754944, -45) := by decide +kernel
example : dragonboxOk .f64 0x7FEFFFFFFFFFFFFF = true := by decide +kernel
/-- 8.55e21 (the endpoint family fixed by 9f5296f) is now written with 3 digits by the model -/
example : toDecimal .f64 0x447CF7C4F4A7C4B0 ≠ none ∧ dragonboxOk .f64 (0x447CF7C4F4A7C4B0) = true := by decide +kernel
example : 0 < 1 ∧ (1 : Nat) < 2 ^ FTy.f64.exponentSize.toNat - 1 := by decide

end Dragonbox

/-! ## Grisu (`compact` builds) -/
section Grisu
open LexVerif.Model.Dragonbox LexVerif.Proof.DragonboxSpec LexVerif.Proof.GrisuSpec LexVerif.Proof
open LexVerif.Gen.Grisu

/-- the model of `cached_grisu_power` — which replaces the `f64` multiplication by `ONE_LOG_TEN` with its exact rational
value — returns on EVERY admissible argument `-1140 … 1089` what the compiled crate returned (R dump): together with
`Props.TablesWrite.grisu_cached` (row, binary exponent and the window `-60 ≤ e + e_c + 64 ≤ -32` are right) -/
theorem grisu_cached_power_model (i : Nat) (h : i < LexVerif.Proof.Tables.Grisu.cachedRows.length) :
    LexVerif.Model.Grisu.cachedGrisuPower (cachedLo + i) =
      some (⟨LexVerif.Proof.Tables.Grisu.cachedRows[i].1,
              (LexVerif.Proof.Tables.Grisu.cachedRows[i].2.1 : Int) - cachedBinExpBias⟩,
            (LexVerif.Proof.Tables.Grisu.cachedRows[i].2.2 : Int) - cachedKBias) :=
  GrisuCached.cachedGrisuPower_eq_dump i h

/-- FULL STATEMENT (proved below: `grisu_roundtrip_holds`): for every finite non-zero float the model's `grisu` yields
1…17 (f64) / 1…9 (f32) decimal digit characters without a leading zero whose value `digits·10^k` rounds back to the float -/
def grisu_roundtrip : Prop :=
  ∀ (t : FTy) (bits : Nat), 0 < bits → bits < (fmtOf t).infBits → grisuOk t bits = true

/-- PROVED PART: kernel-evaluated instances — all 254 powers of two of binary32, 128 powers of two of binary64 spread
over the whole exponent range, the extreme subnormal / normal patterns and binade-boundary neighbours of both types.
(Everything else is covered by the `gr` component correspondence and the exact re-parse of every output.) -/
theorem grisu_roundtrip_partial :
    (∀ e, 0 < e → e < 255 → grisuOk .f32 (e * 2 ^ 23) = true)
    ∧ (∀ i, i < 128 → grisuOk .f64 ((16 * i + 1) * 2 ^ 52) = true)
    ∧ grisuOk .f64 1 = true ∧ grisuOk .f64 0x7FEFFFFFFFFFFFFF = true
    ∧ grisuOk .f32 1 = true ∧ grisuOk .f32 0x7F7FFFFF = true := by
  refine ⟨?_, ?_, ?_, ?_, ?_, ?_⟩
  · intro e h0 he
    exact List.all_eq_true.mp grisu_pow2_f32 _ (mem_expChunk (t := .f32) (Nat.zero_le _) he h0)
  · intro i hi
    have h := List.all_eq_true.mp grisu_samples_f64 ((16 * i + 1) * 2 ^ 52)
    apply h
    apply List.mem_append_left
    exact List.mem_map.mpr ⟨i, List.mem_range.mpr hi, rfl⟩
  · exact List.all_eq_true.mp grisu_samples_f64 1 (by simp)
  · exact List.all_eq_true.mp grisu_samples_f64 0x7FEFFFFFFFFFFFFF (by simp)
  · exact List.all_eq_true.mp grisu_samples_f32 1 (by simp)
  · exact List.all_eq_true.mp grisu_samples_f32 0x7F7FFFFF (by simp)

/-- **C02 on the Grisu model (`compact` builds), all finite non-zero floats of binary32 and binary64**: from the
kernel-checked per-(exponent, shift) certificates of the cached powers (`Proof/Tables/GrisuExp*.lean`: window `-60 … -32`,
`|c̃ − 10^k/2^e| ≤ 1/2`), `mul` = correctly rounded 64×64 product, the error analysis of the three products (the shrunk
interval `[m⁻·c̃ + 1, m⁺·c̃ − 1]` lies strictly inside the scaled rounding interval), and the loop invariants of
`generate_digits` / `round_digit` (`Proof/GrisuDigits*.lean`). -/
theorem grisu_roundtrip_holds : grisu_roundtrip :=
  fun t bits h0 hfin => LexVerif.Proof.GrisuMain.grisu_ok t bits h0 hfin

/-- unfolded: the digits are decimal digit characters, 1 … 17 / 9 of them, no leading zero, and re-parse exactly -/
theorem grisu_roundtrips (t : FTy) (bits : Nat) (h0 : 0 < bits) (hfin : bits < (fmtOf t).infBits) :
    ∃ ds k, LexVerif.Model.Grisu.grisu t bits = some (ds, k)
      ∧ (∀ c ∈ ds, 48 ≤ c ∧ c ≤ 57) ∧ 1 ≤ ds.length ∧ ds.length ≤ maxDigits t ∧ ds.head? ≠ some 48
      ∧ roundNE (fmtOf t) (decFracN (ofDigits 10 (ds.map (· - 48))) k).1 (decFracN (ofDigits 10 (ds.map (· - 48))) k).2
          = bits := by
  have h := grisu_roundtrip_holds t bits h0 hfin
  unfold grisuOk at h
  cases hg : LexVerif.Model.Grisu.grisu t bits with
  | none => rw [hg] at h; simp at h
  | some p =>
    obtain ⟨ds, k⟩ := p
    rw [hg] at h
    simp only [Bool.and_eq_true, List.all_eq_true, decide_eq_true_eq, beq_iff_eq, bne_iff_ne, ne_eq] at h
    obtain ⟨⟨⟨⟨a, b⟩, c⟩, d⟩, e⟩ := h
    exact ⟨ds, k, rfl, a, c, b, d, e⟩

example : LexVerif.Model.Grisu.grisu .f64 0x3FF8000000000000 = some ([49, 53], -1) := by decide +kernel
example : grisuOk .f32 0x3DCCCCCD = true := grisu_roundtrip_holds .f32 0x3DCCCCCD (by decide) (by decide)

end Grisu

end LexVerif.Props.C02
