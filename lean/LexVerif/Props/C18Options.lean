import LexVerif.Model.OptionsValid
import LexVerif.Spec.OptionsValid
import LexVerif.Proof.GrammarSpecial
/-!
# C18 (options part) — the option validators are sound and complete w.r.t. the documented constraints
-/
namespace LexVerif.Props.C18
open LexVerif.Spec LexVerif.Model.OptionsValid
open LexVerif.Model (WOpts)

theorem isValidAscii_spec (c : Nat) : LexVerif.Model.FormatError.isValidAscii c = true ↔ ValidAscii c := by
  simp [LexVerif.Model.FormatError.isValidAscii, ValidAscii]

theorem isValidLetter_spec (c : Nat) : isValidLetter c = true ↔ Letter c := by
  simp [isValidLetter, Letter]

theorem isValidLetterSlice_spec (s : List Nat) : isValidLetterSlice s = true ↔ ∀ c ∈ s, Letter c := by
  induction s with
  | nil => simp [isValidLetterSlice]
  | cons c cs ih =>
    simp only [isValidLetterSlice, List.mem_cons, forall_eq_or_imp, ← isValidLetter_spec]
    cases h : isValidLetter c <;> simp [ih, isValidLetter_spec]

theorem firstIs_spec (s : List Nat) (a b : Nat) : firstIs s a b = true ↔ (s.head? = some a ∨ s.head? = some b) := by
  cases s <;> simp [firstIs]

/-- the three tests every validator applies to a present string, in any order -/
theorem specialString_spec (s : List Nat) (a b : Nat) :
    (s.length ≠ 0 ∧ s.length ≤ 50 ∧ firstIs s a b = true ∧ isValidLetterSlice s = true) ↔ SpecialString a b s := by
  unfold SpecialString
  rw [firstIs_spec, isValidLetterSlice_spec]
  constructor
  · rintro ⟨h1, h2, h3, h4⟩; exact ⟨by intro h; subst h; simp at h1, h2, h3, h4⟩
  · rintro ⟨h1, h2, h3, h4⟩; exact ⟨by intro h; exact h1 (List.length_eq_zero_iff.mp h), h2, h3, h4⟩

theorem stringBlock_none_iff (s : Option (List Nat)) (a b : Nat) (i l : String) :
    ParseFloat.stringBlock s a b i l = none ↔ OptSpecial a b s := by
  unfold OptSpecial
  cases s with
  | none => simp [ParseFloat.stringBlock]
  | some x =>
    simp only [ParseFloat.stringBlock, Option.isSome_some, if_true, unwrapStr, Option.some.injEq, forall_eq']
    rw [← specialString_spec]
    by_cases h1 : x.isEmpty = true
    · have : x.length = 0 := by simpa using h1
      simp [h1, this]
    · have h1' : x.length ≠ 0 := by simpa using h1
      by_cases h2 : firstIs x a b = true
      · by_cases h3 : isValidLetterSlice x = true
        · by_cases h4 : x.length > maxSpecialStringLength
          · have : ¬ x.length ≤ 50 := by unfold maxSpecialStringLength at h4; omega
            simp [h1, h2, h3, h4, this]
          · have : x.length ≤ 50 := by unfold maxSpecialStringLength at h4; omega
            simp [h1, h2, h3, h4, this, h1']
        · simp [h1, h2, h3]
      · simp [h1, h2]

theorem infinityBlock_none_iff (o : POpts) :
    ParseFloat.infinityBlock o = none ↔
      (OptSpecial 73 105 o.infinity ∧ ∀ x, o.infinity = some x → (unwrapStr o.inf).length ≤ x.length) := by
  unfold OptSpecial
  cases hinf : o.infinity with
  | none => simp [ParseFloat.infinityBlock, hinf]
  | some x =>
    simp only [ParseFloat.infinityBlock, hinf, Option.isSome_some, if_true, Option.some.injEq, forall_eq']
    rw [← specialString_spec]
    generalize (unwrapStr o.inf).length = n
    simp only [unwrapStr]
    by_cases h1 : x.isEmpty = true
    · have h0 : x.length = 0 := by simpa using h1
      exact ⟨fun h => by simp [h1] at h, fun h => absurd h0 h.1.1⟩
    · have h1' : x.length ≠ 0 := by simpa using h1
      by_cases h2 : firstIs x 73 105 = true
      · by_cases h3 : isValidLetterSlice x = true
        · by_cases h4 : x.length > maxSpecialStringLength
          · have h4' : ¬ x.length ≤ 50 := by unfold maxSpecialStringLength at h4; omega
            exact ⟨fun h => by simp [h1, h2, h3, h4] at h, fun h => absurd h.1.2.1 h4'⟩
          · have h4' : x.length ≤ 50 := by unfold maxSpecialStringLength at h4; omega
            by_cases h5 : x.length < n
            · exact ⟨fun h => by simp [h1, h2, h3, h4, h5] at h, fun h => by omega⟩
            · exact ⟨fun _ => ⟨⟨h1', h4', h2, h3⟩, by omega⟩, fun _ => by simp [h1, h2, h3, h4, h5]⟩
        · exact ⟨fun h => by simp [h1, h2, h3] at h, fun h => absurd h.1.2.2.2 h3⟩
      · exact ⟨fun h => by simp [h1, h2] at h, fun h => absurd h.1.2.2.1 h2⟩

/-- **`build()` succeeds exactly on the documented-valid parse options** -/
theorem parseOptions_build_ok_iff_valid (o : POpts) :
    ParseFloat.build o = .ok () ↔ ParseOptionsValid o := by
  unfold ParseFloat.build ParseOptionsValid
  rw [← isValidAscii_spec, ← isValidAscii_spec, ← stringBlock_none_iff o.nan 78 110 "InvalidNanString" "NanStringTooLong",
    ← stringBlock_none_iff o.inf 73 105 "InvalidInfString" "InfStringTooLong"]
  by_cases a1 : LexVerif.Model.FormatError.isValidAscii o.exp = true
  case neg => simp [a1]
  by_cases a2 : LexVerif.Model.FormatError.isValidAscii o.dp = true
  case neg => simp [a1, a2]
  cases b1 : ParseFloat.stringBlock o.nan 78 110 "InvalidNanString" "NanStringTooLong" with
  | some e => simp [a1, a2]
  | none =>
    cases b2 : ParseFloat.stringBlock o.inf 73 105 "InvalidInfString" "InfStringTooLong" with
    | some e =>
      by_cases c : (o.inf.isSome && o.infinity.isNone) = true <;> simp [a1, a2, c]
    | none =>
      have key := infinityBlock_none_iff o
      cases hinf : o.inf with
      | none =>
        simp only [hinf, unwrapStr, List.length_nil, Nat.zero_le, implies_true, and_true] at key
        cases b3 : ParseFloat.infinityBlock o with
        | some e =>
          have : ¬ OptSpecial 73 105 o.infinity := fun h => by rw [key.mpr h] at b3; cases b3
          simp [a1, a2, this]
        | none => simp [a1, a2, key.mp b3]
      | some a =>
        cases hinfy : o.infinity with
        | none => simp [a1, a2]
        | some y =>
          simp only [hinf, hinfy, unwrapStr, Option.some.injEq, forall_eq'] at key
          cases b3 : ParseFloat.infinityBlock o with
          | some e =>
            have : ¬ (OptSpecial 73 105 (some y) ∧ a.length ≤ y.length) := fun h => by rw [key.mpr h] at b3; cases b3
            simp [a1, a2]
            intro h; exact Nat.lt_of_not_le fun h' => this ⟨h, h'⟩
          | none =>
            have := key.mp b3
            simp [a1, a2, this.1, this.2]
/-- shape shared by the `*_is_valid` functions on a present string `x`, with an extra length test `extra` -/
theorem validChain (x : List Nat) (a b : Nat) (extra : Bool) :
    (if (x.length == 0 || decide (x.length > maxSpecialStringLength)) = true then false
      else if (!firstIs x a b) = true then false
      else if extra = true then false
      else if (!isValidLetterSlice x) = true then false else true) = true ↔
    (SpecialString a b x ∧ extra = false) := by
  rw [← specialString_spec]
  unfold maxSpecialStringLength
  by_cases h0 : x.length = 0
  · simp [h0]
  by_cases h1 : x.length > 50
  · have : ¬ x.length ≤ 50 := by omega
    simp [h1, this]
  have h1' : x.length ≤ 50 := by omega
  by_cases h2 : firstIs x a b = true
  · by_cases h3 : isValidLetterSlice x = true <;> cases extra <;> simp [h0, h1, h1', h2, h3]
  · simp [h0, h1, h2]

theorem nanStrIsValid_spec (o : POpts) : ParseFloat.nanStrIsValid o = true ↔ OptSpecial 78 110 o.nan := by
  unfold ParseFloat.nanStrIsValid OptSpecial
  cases h : o.nan with
  | none => simp
  | some x =>
    have := validChain x 78 110 false
    simp only [Bool.false_eq_true, if_false, and_true] at this
    simpa [unwrapStr] using this

theorem infStrIsValid_spec (o : POpts) :
    ParseFloat.infStrIsValid o = true ↔
      ∀ a, o.inf = some a → SpecialString 73 105 a ∧ ∃ b, o.infinity = some b ∧ a.length ≤ b.length := by
  unfold ParseFloat.infStrIsValid
  cases hi : o.inf with
  | none => cases hy : o.infinity <;> simp
  | some a =>
    cases hy : o.infinity with
    | none => simp
    | some y =>
      have := validChain a 73 105 (decide (a.length > y.length))
      simp only [decide_eq_true_eq, decide_eq_false_iff_not, Nat.not_lt] at this
      simpa [unwrapStr] using this

theorem infinityStringIsValid_spec (o : POpts) :
    ParseFloat.infinityStringIsValid o = true ↔
      (o.inf.isSome = true → o.infinity.isSome = true) ∧
      ∀ y, o.infinity = some y → SpecialString 73 105 y ∧ (unwrapStr o.inf).length ≤ y.length := by
  unfold ParseFloat.infinityStringIsValid
  cases hy : o.infinity with
  | none => cases hi : o.inf <;> simp
  | some y =>
    have := validChain y 73 105 (decide (y.length < (unwrapStr o.inf).length))
    simp only [decide_eq_true_eq, decide_eq_false_iff_not, Nat.not_lt] at this
    simpa [unwrapStr] using this

/-- `is_valid` accepts exactly the documented-valid parse options -/
theorem parseOptions_isValid_iff_valid (o : POpts) : ParseFloat.isValid o = true ↔ ParseOptionsValid o := by
  unfold ParseFloat.isValid ParseOptionsValid
  rw [← isValidAscii_spec, ← isValidAscii_spec, ← nanStrIsValid_spec]
  by_cases a1 : LexVerif.Model.FormatError.isValidAscii o.exp = true
  case neg => simp [a1]
  by_cases a2 : LexVerif.Model.FormatError.isValidAscii o.dp = true
  case neg => simp [a1, a2]
  by_cases a3 : ParseFloat.nanStrIsValid o = true
  case neg => simp [a1, a2, a3]
  have k1 := infStrIsValid_spec o
  have k2 := infinityStringIsValid_spec o
  simp only [a1, a2, a3, Bool.not_true, Bool.false_eq_true, if_false, true_and]
  unfold OptSpecial
  cases hi : o.inf with
  | none =>
    simp only [hi, unwrapStr, List.length_nil, Nat.zero_le, and_true, Option.isSome_none, Bool.false_eq_true,
      false_implies, true_and, reduceCtorEq, false_implies, implies_true] at k1 k2 ⊢
    by_cases v : ParseFloat.infinityStringIsValid o = true
    · simp [k1.mpr trivial, v]; exact k2.mp v
    · have : ¬ ∀ y, o.infinity = some y → SpecialString 73 105 y := fun h => v (k2.mpr h)
      simp [k1.mpr trivial, v, this]
  | some a =>
    cases hy : o.infinity with
    | none =>
      have : ParseFloat.infStrIsValid o = false := by
        have : ¬ ParseFloat.infStrIsValid o = true := fun h => by
          have := (k1.mp h) a hi; rw [hy] at this; obtain ⟨_, b, hb, _⟩ := this; cases hb
        simpa using this
      simp [this]
    | some y =>
      simp only [hi, hy, unwrapStr, Option.some.injEq, forall_eq', Option.isSome_some, implies_true, true_and,
        exists_eq_left'] at k1 k2 ⊢
      by_cases v1 : ParseFloat.infStrIsValid o = true
      · by_cases v2 : ParseFloat.infinityStringIsValid o = true
        · simp [v1, v2, (k1.mp v1).1, (k1.mp v1).2, (k2.mp v2).1]
        · have : ¬ SpecialString 73 105 y := fun h => v2 (k2.mpr ⟨h, (k1.mp v1).2⟩)
          simp [v1, v2, this]
      · have : ¬ (SpecialString 73 105 a ∧ a.length ≤ y.length) := fun h => v1 (k1.mpr h)
        simp [v1]
        intro h1 _; exact Nat.lt_of_not_le fun h3 => this ⟨h1, h3⟩

/-- **`is_valid` and `build` agree for parse options** -/
theorem parseOptions_isValid_iff_build_ok (o : POpts) : ParseFloat.isValid o = true ↔ ParseFloat.build o = .ok () := by
  rw [parseOptions_isValid_iff_valid, parseOptions_build_ok_iff_valid]
/-! ## write options -/

/-- the numeric constraints `build` tests and `is_valid` omits -/
def WriteNumericValid (o : WOpts) : Prop :=
  (∀ mx mn, o.maxDigits = some mx → o.minDigits = some mn → mn ≤ mx) ∧
  (∀ p, o.posBreak = some p → 0 < p) ∧ (∀ n, o.negBreak = some n → n < 0)

theorem write_nanStrIsValid_spec (o : WOpts) : WriteFloat.nanStrIsValid o = true ↔ OptSpecial 78 110 o.nan := by
  unfold WriteFloat.nanStrIsValid OptSpecial
  cases h : o.nan with
  | none => simp
  | some x =>
    have := validChain x 78 110 false
    simp only [Bool.false_eq_true, if_false, and_true] at this
    simpa [unwrapStr] using this

theorem write_infStrIsValid_spec (o : WOpts) : WriteFloat.infStrIsValid o = true ↔ OptSpecial 73 105 o.inf := by
  unfold WriteFloat.infStrIsValid OptSpecial
  cases h : o.inf with
  | none => simp
  | some x =>
    have := validChain x 73 105 false
    simp only [Bool.false_eq_true, if_false, and_true] at this
    simpa [unwrapStr] using this

/-- `is_valid` of the write options tests punctuation and special strings only -/
theorem writeOptions_isValid_iff_strings (o : WOpts) : WriteFloat.isValid o = true ↔ WriteOptionsStringsValid o := by
  unfold WriteFloat.isValid WriteOptionsStringsValid
  rw [← isValidAscii_spec, ← isValidAscii_spec, ← write_nanStrIsValid_spec, ← write_infStrIsValid_spec]
  by_cases a1 : LexVerif.Model.FormatError.isValidAscii o.exp = true
  case neg => simp [a1]
  by_cases a2 : LexVerif.Model.FormatError.isValidAscii o.dp = true
  case neg => simp [a1, a2]
  by_cases a3 : WriteFloat.nanStrIsValid o = true
  case neg => simp [a1, a2, a3]
  by_cases a4 : WriteFloat.infStrIsValid o = true <;> simp [a1, a2, a3, a4]

theorem numeric_spec (o : WOpts) (hz : WriteFloat.NonZero o) (hm : ∀ m, o.minDigits = some m → m < 2 ^ 64) :
    (¬ WriteFloat.unwrapOrMaxUsize o.maxDigits < WriteFloat.unwrapOrZeroUsize o.minDigits ∧
      ¬ WriteFloat.unwrapOrZeroI32 o.negBreak > 0 ∧ ¬ WriteFloat.unwrapOrZeroI32 o.posBreak < 0) ↔
    WriteNumericValid o := by
  obtain ⟨z1, z2, z3, z4⟩ := hz
  unfold WriteNumericValid
  cases h1 : o.maxDigits <;> cases h2 : o.minDigits <;> cases h3 : o.posBreak <;> cases h4 : o.negBreak <;>
    simp [WriteFloat.unwrapOrMaxUsize, WriteFloat.unwrapOrZeroUsize, WriteFloat.unwrapOrZeroI32] <;>
    simp [h1, h2, h3, h4] at z1 z2 z3 z4 hm <;> omega

/-- **`build()` of the write options succeeds exactly on the documented-valid options**
(`NonZero`: type invariant of the `Option<NonZero…>` fields; `min_significant_digits` is a `usize`) -/
theorem writeOptions_build_ok_iff_valid (o : WOpts) (hz : WriteFloat.NonZero o)
    (hm : ∀ m, o.minDigits = some m → m < 2 ^ 64) :
    WriteFloat.build o = .ok () ↔ WriteOptionsValid o := by
  have hn := numeric_spec o hz hm
  unfold WriteNumericValid at hn
  unfold WriteFloat.build WriteOptionsValid
  rw [← isValidAscii_spec, ← isValidAscii_spec, ← stringBlock_none_iff o.nan 78 110 "InvalidNanString" "NanStringTooLong",
    ← stringBlock_none_iff o.inf 73 105 "InvalidInfString" "InfStringTooLong", ← hn]
  cases b1 : ParseFloat.stringBlock o.nan 78 110 "InvalidNanString" "NanStringTooLong" with
  | some e => simp
  | none =>
    cases b2 : ParseFloat.stringBlock o.inf 73 105 "InvalidInfString" "InfStringTooLong" with
    | some e => simp
    | none =>
      simp only [true_and]
      by_cases c1 : WriteFloat.unwrapOrMaxUsize o.maxDigits < WriteFloat.unwrapOrZeroUsize o.minDigits
      case pos => simp [c1]
      by_cases c2 : WriteFloat.unwrapOrZeroI32 o.negBreak > 0
      case pos => simp [c1, c2]
      by_cases c3 : WriteFloat.unwrapOrZeroI32 o.posBreak < 0
      case pos => simp [c1, c2, c3]
      by_cases a1 : LexVerif.Model.FormatError.isValidAscii o.exp = true
      case neg => simp [c1, c2, c3, a1]
      by_cases a2 : LexVerif.Model.FormatError.isValidAscii o.dp = true <;> simp [c1, c2, c3, a1, a2]

/-- **exact relation between `is_valid` and `build` for write options**: `build` additionally tests the digit
counts and the exponent breaks -/
theorem writeOptions_build_ok_iff_isValid_and_numeric (o : WOpts) (hz : WriteFloat.NonZero o)
    (hm : ∀ m, o.minDigits = some m → m < 2 ^ 64) :
    WriteFloat.build o = .ok () ↔ (WriteFloat.isValid o = true ∧ WriteNumericValid o) := by
  rw [writeOptions_build_ok_iff_valid o hz hm, writeOptions_isValid_iff_strings]
  unfold WriteOptionsValid WriteOptionsStringsValid WriteNumericValid
  constructor
  · rintro ⟨a, b, c, d, e, f, g⟩; exact ⟨⟨a, b, c, d⟩, e, f, g⟩
  · rintro ⟨⟨a, b, c, d⟩, e, f, g⟩; exact ⟨a, b, c, d, e, f, g⟩

/-- **`is_valid` is NOT equivalent to `build().is_ok()` for write options**: three decided witnesses
(`is_valid() = true` while `build()` returns the error) -/
theorem writeOptions_isValid_not_build_ok :
    (WriteFloat.isValid { maxDigits := some 3, minDigits := some 5 } = true ∧
      WriteFloat.build { maxDigits := some 3, minDigits := some 5 } = .error "InvalidFloatPrecision") ∧
    (WriteFloat.isValid { negBreak := some 1 } = true ∧
      WriteFloat.build { negBreak := some 1 } = .error "InvalidNegativeExponentBreak") ∧
    (WriteFloat.isValid { posBreak := some (-1) } = true ∧
      WriteFloat.build { posBreak := some (-1) } = .error "InvalidPositiveExponentBreak") :=
  ⟨⟨rfl, rfl⟩, ⟨rfl, rfl⟩, rfl, rfl⟩

/-- non-vacuity: the default options of both crates are valid -/
example : ParseFloat.build {} = .ok () ∧ WriteFloat.build {} = .ok () := ⟨rfl, rfl⟩
example : ParseOptionsValid {} := (parseOptions_build_ok_iff_valid {}).mp rfl

/-! ## integer options -/
theorem integerOptions_always_valid (p : ParseInteger.Opts) (w : WriteInteger.Opts) :
    ParseInteger.isValid p = true ∧ ParseInteger.build p = .ok () ∧
    WriteInteger.isValid w = true ∧ WriteInteger.build w = .ok () := ⟨rfl, rfl, rfl, rfl⟩

/-! ## why validation matters to the parser: the XOR-0x20 fold -/

open LexVerif.Proof.Grammar in
/-- `starts_with_uncased` compares `input ^ pattern` against `0` and `0x20`. That is ASCII case-insensitive equality
**because** `build` has forced every configured special string to consist of letters: for valid options and every
byte string `l`, the XOR prefix test against each configured string equals the case-folded prefix test. -/
theorem xor_fold_is_case_fold (o : POpts) (hv : ParseFloat.build o = .ok ()) (t : List Nat)
    (ht : o.nan = some t ∨ o.inf = some t ∨ o.infinity = some t) (l : List Nat) (hl : ∀ x ∈ l, x < 256) :
    pfx xorEq l t = pfx LexVerif.Spec.eqUncased l t := by
  obtain ⟨-, -, h1, h2, h3, -⟩ := (parseOptions_build_ok_iff_valid o).mp hv
  have hs : ∀ c ∈ t, Letter c := by
    rcases ht with h | h | h
    · exact (h1 t h).2.2.2
    · exact (h2 t h).2.2.2
    · exact (h3 t h).2.2.2
  apply pfx_xor t _ l hl
  intro y hy
  have := hs y hy
  unfold Letter at this
  simp only [LexVerif.Model.isValidLetter, Bool.or_eq_true, Bool.and_eq_true, decide_eq_true_eq]
  omega

/-- without validation the fold is not case folding: `'@' ^ '`' = 0x20` -/
example : LexVerif.Proof.Grammar.xorEq 64 96 = true ∧ LexVerif.Spec.eqUncased 64 96 = false := by decide


end LexVerif.Props.C18
