import LexVerif.Spec.Decimal
/-!
# C01 — decimal string→float parsing is correctly rounded (property theorems)

The oracle is `Spec.litBits` (exact rational value, `roundNE`). Theorems about the oracle itself are in
`Props/RoundNE.lean`; table theorems (Eisel–Lemire powers, small powers, limits) in `Props/TablesParse.lean`.
-/
namespace LexVerif.Props.C01
open LexVerif.Spec

/-- zero mantissa digits give a correctly signed zero whatever the exponent (underflow/overflow clause) -/
theorem litBits_zero (f : Fmt) (r b : Nat) (l : FloatLit)
    (h : ofDigits r (l.intDigits ++ l.fracDigits) = 0) :
    litBits f r b l = if l.neg then f.signBit else 0 := by
  unfold litBits
  simp [h]

/-- `roundNE` of zero is +0 -/
theorem roundNE_zero (f : Fmt) (den : Nat) : roundNE f 0 den = 0 := by
  simp [roundNE]

end LexVerif.Props.C01
