import LexVerif.Spec.Decimal
import LexVerif.Props.TablesParse
import LexVerif.Proof.FastPathExact
import LexVerif.Proof.LemireExact
import LexVerif.Proof.LemireStable
import LexVerif.Proof.LemireNegSmall
import LexVerif.Proof.LemireFallback
import LexVerif.Proof.BellSound
/-!
# C01 — decimal string→float parsing is correctly rounded (property theorems)

The oracle is `Spec.litBits` (exact rational value, `roundNE`). Theorems about the oracle itself are in
`Props/RoundNE.lean`; table theorems (Eisel–Lemire powers, small powers, limits) in `Props/TablesParse.lean`.

Algorithm level (models `Model.FastPath`, `Model.Lemire`, tied to the code by the component ops
`fp`/`cf`/`lm`, see `Model/Ops/ParseAlgos.lean`):

* `fastPath_exact` — **complete**: whenever `try_fast_path` answers, the answer is `roundNE (m·10^e)`, signed;
* `lemire_sound` — the **full** statement, a `Prop` (not proved: the general range needs the
  Mushtak–Lemire continued-fraction analysis of the truncated 128-bit table);
* `lemire_sound_partial` — proved: a zero mantissa, both cut-offs (`q < SMALLEST_POWER_OF_TEN`,
  `q > LARGEST_POWER_OF_TEN`), and the whole exact-product range `0 ≤ q ≤ 27` for every `w < 2^64`;
* `lemire_wrapper` — proved: the `many_digits` two-pass wrapper is correct relative to `compute_float`
  on `w` and `w + 1`;
* `bellerophon_sound` (`compact` builds) — **complete** on the model: a valid answer is `roundNE` of the true
  value, truncated mantissas included (every exponent; early exits, error accounting of both multiplications
  against the *truncated* table, the booked truncation error `8 << min(ctlz+1, 20)` of /repo commit 5dc6041,
  the `error_is_accurate` decision, the rounding).
-/
namespace LexVerif.Props.C01
open LexVerif.Spec LexVerif.Model LexVerif.Proof.Tables
open LexVerif.Proof.RoundNE LexVerif.Proof.ExtRound LexVerif.Proof.FastPathExact LexVerif.Proof.Lemire
open LexVerif.Props.TablesParse

/-- zero mantissa digits give a correctly signed zero whatever the exponent (underflow/overflow clause) -/
theorem litBits_zero (f : Fmt) (r b : Nat) (l : FloatLit)
    (h : ofDigits r (l.intDigits ++ l.fracDigits) = 0) :
    litBits f r b l = if l.neg then f.signBit else 0 := by
  unfold litBits
  simp [h]

/-- `roundNE` of zero is +0 -/
theorem roundNE_zero (f : Fmt) (den : Nat) : roundNE f 0 den = 0 := by
  simp [roundNE]

/-! ## the fast path -/

/-- the table theorems give `FastTables` for every radix of a feature set -/
theorem fastTables_of {S : SmallSet} {f : Fmt} (hpow : FloatPowStmt S f)
    (hlim : ∀ r ∈ S.radices, limitsOk S f r = true) (hint : IntPowStmt S)
    {r : Nat} (hr : r ∈ S.radices) (hri : r ∈ S.intRadices) (hpos : 0 < r)
    (hml : S.mantissaLimit f r ≤ S.f64MantissaLimit r) : FastTables S f r :=
  { pow := (hpow r hr).2, lim := hlim r hr, int := fun e he => ((hint r hri).2.2 e he).1, rpos := hpos,
    powSize := (hpow r hr).1, intSize := Int.lt_of_le_of_lt hml (hint r hri).2.1 }

theorem lim_f64 {S : SmallSet} (h : ∀ r ∈ S.radices, (limitsOk S f32 r && limitsOk S f64 r) = true) :
    ∀ r ∈ S.radices, limitsOk S f64 r = true := fun r hr => by
  have := h r hr; simp only [Bool.and_eq_true] at this; exact this.2
theorem lim_f32 {S : SmallSet} (h : ∀ r ∈ S.radices, (limitsOk S f32 r && limitsOk S f64 r) = true) :
    ∀ r ∈ S.radices, limitsOk S f32 r = true := fun r hr => by
  have := h r hr; simp only [Bool.and_eq_true] at this; exact this.1

/-- the three `Gen.SmallPowers` instances (feature sets `default`, `radix`/`power-of-two`, `compact`) -/
def IsSmallSet (S : SmallSet) : Prop := S = SmallSet.Default ∨ S = SmallSet.Radix ∨ S = SmallSet.CompactRadix

theorem fastTables_decimal {S : SmallSet} (hS : IsSmallSet S) :
    FastTables S f64 10 ∧ FastTables S f32 10 := by
  rcases hS with h | h | h <;> subst h
  · exact ⟨fastTables_of small_f64_powers_default (lim_f64 limits_ok_default) small_int_powers_default
        (by decide) (by decide) (by decide) (by decide),
      fastTables_of small_f32_powers_default (lim_f32 limits_ok_default) small_int_powers_default
        (by decide) (by decide) (by decide) (by decide)⟩
  · exact ⟨fastTables_of small_f64_powers_radix (lim_f64 limits_ok_radix) small_int_powers_radix
        (by decide) (by decide) (by decide) (by decide),
      fastTables_of small_f32_powers_radix (lim_f32 limits_ok_radix) small_int_powers_radix
        (by decide) (by decide) (by decide) (by decide)⟩
  · exact ⟨fastTables_of small_f64_powers_compact (lim_f64 limits_ok_compact) small_int_powers_compact
        (by decide) (by decide) (by decide) (by decide),
      fastTables_of small_f32_powers_compact (lim_f32 limits_ok_compact) small_int_powers_compact
        (by decide) (by decide) (by decide) (by decide)⟩

/-- **C01.3 `fastPath_exact`** (decimal, binary64): whenever `Number::try_fast_path` answers `Some(v)` — normal
or disguised fast path, any sign — `v` is the correctly rounded value of `mantissa · 10^exponent`.
Assumption (stated in `Model.ExtFloat`): hardware `u64 → f64`, `*`, `/` are IEEE round-to-nearest-even. -/
theorem fastPath_exact_f64 {S : SmallSet} (hS : IsSmallSet S) (expBase : Nat) (n : Num) (v : Nat)
    (h : FastPath.tryFastPath S FTy.f64 10 expBase n = .some v) :
    v = roundSigned f64 n.isNegative (powFrac 10 n.exponent n.mantissa).1 (powFrac 10 n.exponent n.mantissa).2 :=
  LexVerif.Proof.FastPathExact.fastPath_exact layout_f64 (fastTables_decimal hS).1 expBase n v h

/-- the same for binary32 -/
theorem fastPath_exact_f32 {S : SmallSet} (hS : IsSmallSet S) (expBase : Nat) (n : Num) (v : Nat)
    (h : FastPath.tryFastPath S FTy.f32 10 expBase n = .some v) :
    v = roundSigned f32 n.isNegative (powFrac 10 n.exponent n.mantissa).1 (powFrac 10 n.exponent n.mantissa).2 :=
  LexVerif.Proof.FastPathExact.fastPath_exact layout_f32 (fastTables_decimal hS).2 expBase n v h

/-- the fast path never panics (checked table indices stay inside the tables) -/
theorem fastPath_no_panic {S : SmallSet} (hS : IsSmallSet S) (F : FTy) (hF : F = FTy.f64 ∨ F = FTy.f32)
    (expBase : Nat) (n : Num) : FastPath.tryFastPath S F 10 expBase n ≠ .panic := by
  rcases hF with h | h <;> subst h
  · exact LexVerif.Proof.FastPathExact.fastPath_no_panic (fastTables_decimal hS).1 expBase n
  · exact LexVerif.Proof.FastPathExact.fastPath_no_panic (fastTables_decimal hS).2 expBase n

/-- non-vacuity: the fast path does answer — normal (`12345e10`), division (`5e-3`), disguised (`-12345e30`,
`max_exponent = 22`, shift 8), and declines a mantissa above `2^53` -/
example : FastPath.tryFastPath SmallSet.Default FTy.f64 10 10 ⟨12345, 10, false, false⟩ = .some 0x42dc11bc59710000 ∧
    FastPath.tryFastPath SmallSet.Default FTy.f64 10 10 ⟨5, -3, false, false⟩ = .some 0x3f747ae147ae147b ∧
    FastPath.tryFastPath SmallSet.Default FTy.f64 10 10 ⟨12345, 30, true, false⟩ = .some 0xc703053e72afbcad ∧
    FastPath.tryFastPath SmallSet.Default FTy.f64 10 10 ⟨2 ^ 53 + 1, 0, false, false⟩ = .none ∧
    FastPath.tryFastPath SmallSet.Radix FTy.f32 10 10 ⟨16777216, 10, false, false⟩ = .some 0x5c1502f9 := by
  decide +kernel

/-! ## Eisel–Lemire -/

/-- the two float types the Eisel–Lemire path is instantiated with -/
def IsLemireFloat (F : FTy) : Prop := F = FTy.f64 ∨ F = FTy.f32

/-- `q` is an `i64` -/
def IsI64 (q : Int) : Prop := -(2 ^ 63 : Int) ≤ q ∧ q < (2 ^ 63 : Int)

/-- the float obtained by truncating the (un-biased) extended float `fp` — what the slow path starts from -/
def roundedDown (F : FTy) (fp : ExtendedFloat80) : Nat :=
  extendedToFloat F (Bellerophon.round F { fp with exp := fp.exp - invalidFp } Bellerophon.roundDown)

/-- an undecided result brackets the value: with `b` the extended float rounded **down** to the float format, the
correctly rounded value is `b` or the next float, `b ≤ roundNE x ≤ b + 1` (as bit patterns).
This is exactly what `slow_radix` relies on (`negative_digit_comp` compares the digits with `b + ½ulp` and returns
`b` or its successor; `positive_digit_comp` ignores the estimate). The stricter `b ≤ x < next(b)` is **not** what
the fall-back of `compute_float` guarantees: with an all-ones low word the true product may carry into `hi`, so
`x` can reach `next(b)` (by less than one unit of the 128-bit product). -/
def Bracket (F : FTy) (fp : ExtendedFloat80) (num den : Nat) : Prop :=
  roundedDown F fp ≤ roundNE F.fmt num den ∧ roundNE F.fmt num den ≤ roundedDown F fp + 1

/-- **C01.5 `lemire_sound` — full statement** (kept as a `Prop`): for every `i64` exponent and every `u64` mantissa,
non-lossy `compute_float` never panics and answers either with a valid float that is `roundNE (w·10^q)`, or with an
invalid-marked extended float that brackets it.
Proved: the valid-answer half for every `q ≥ 0` and below/above the cut-offs (`lemire_sound_nonneg`,
`lemire_sound_partial`). `lemire_sound_reduction` reduces the rest to two named sub-lemmas, `LemireNegSound`
(valid answers for `SMALLEST_POWER_OF_TEN ≤ q ≤ −1`) and `LemireFallbackBrackets` (the invalid-marked answers). -/
def lemire_sound : Prop :=
  ∀ F, IsLemireFloat F → ∀ (q : Int) (w : Nat), IsI64 q → w < 2 ^ 64 →
    ∃ fp, Lemire.computeFloat F q w false = .ok fp ∧
      (0 ≤ fp.exp → extendedToFloat F fp = roundNE F.fmt (powFrac 10 q w).1 (powFrac 10 q w).2) ∧
      (fp.exp < 0 → Bracket F fp (powFrac 10 q w).1 (powFrac 10 q w).2)

/-- the part of the `(q, w)` plane covered by `lemire_sound_partial` -/
def LemirePartialDomain (F : FTy) (q : Int) (w : Nat) : Prop :=
  w = 0 ∨ q < F.C.smallestPowerOfTen ∨ q > F.C.largestPowerOfTen ∨ (0 ≤ q ∧ q ≤ 27)

theorem ext_zero_of {F p eb} (lay : Layout F p eb) : extendedToFloat F ⟨0, 0⟩ = 0 :=
  LexVerif.Proof.BinaryCorrect.ext_zero lay

theorem ext_inf_of {F p eb} (lay : Layout F p eb) :
    extendedToFloat F ⟨0, F.C.infinitePower⟩ = F.fmt.infBits := by
  have hT : 0 < 2 ^ (p - 1) := Nat.two_pow_pos _
  have hbits : F.C.bits.toNat = p + eb := by rw [lay.bits]; rfl
  have hTT : 2 ^ p = 2 * 2 ^ (p - 1) := LexVerif.Proof.Lemire.two_pow_pred (by have := lay.hp; omega)
  have hpow : 2 ^ (p + eb) = 2 ^ eb * (2 * 2 ^ (p - 1)) := by rw [← hTT, ← Nat.pow_add, Nat.add_comm]
  have h1 : (2 ^ eb - 1) * 2 ^ (p - 1) < 2 ^ eb * 2 ^ (p - 1) :=
    Nat.mul_lt_mul_of_pos_right (by have := Nat.two_pow_pos eb; omega) hT
  have h2 : 2 ^ eb * (2 * 2 ^ (p - 1)) = 2 * (2 ^ eb * 2 ^ (p - 1)) := by ac_rfl
  have := ext_of_fields F (p - 1) (p + eb) lay.msNat hbits 0 (2 ^ eb - 1) hT
    (by rw [Nat.add_zero, hpow, h2]; omega) lay.hp64
  rw [lay.infp, this, Nat.add_zero, lay.fmt]; rfl

theorem lemLayout_of {F : FTy} (hF : IsLemireFloat F) :
    ∃ p eb sm lg a b, LemLayout F p eb sm lg a b ∧ (27 : Int) ≤ lg ∧ b < 28 := by
  rcases hF with h | h <;> subst h
  · exact ⟨_, _, _, _, _, _, lemLayout_f64, by decide, by decide⟩
  · exact ⟨_, _, _, _, _, _, lemLayout_f32, by decide, by decide⟩

/-- **C01.5 `lemire_sound_partial`** — proved part of `lemire_sound`: on `LemirePartialDomain` (zero mantissa;
below `SMALLEST_POWER_OF_TEN`; above `LARGEST_POWER_OF_TEN`; the exact-product range `0 ≤ q ≤ 27` where
`5^q < 2^64`) and for **every** `w < 2^64`, `compute_float` answers with a *valid* float and that float is
`roundNE (w·10^q)`.  Missing for the full statement: `q ∈ [−342, −1] ∪ [28, 308]`, where the table row is a
truncation and correctness of the `lo`/`hi` tests needs the continued-fraction bounds of Mushtak–Lemire. -/
theorem lemire_sound_partial (F : FTy) (hF : IsLemireFloat F) (q : Int) (w : Nat) (hw : w < 2 ^ 64)
    (hdom : LemirePartialDomain F q w) :
    ∃ fp, Lemire.computeFloat F q w false = .ok fp ∧ 0 ≤ fp.exp ∧
      extendedToFloat F fp = roundNE F.fmt (powFrac 10 q w).1 (powFrac 10 q w).2 := by
  obtain ⟨p, eb, sm, lg, a, b, LL, hlg, _⟩ := lemLayout_of hF
  by_cases hw0 : w = 0
  · subst hw0
    refine ⟨⟨0, 0⟩, ?_, Int.le_refl _, ?_⟩
    · unfold Lemire.computeFloat; rw [if_pos (Or.inl rfl)]; rfl
    · rw [ext_zero_of LL.lay, LexVerif.Proof.BinaryCorrect.powFrac_zero]
  · rcases hdom with h | h | h | ⟨h1, h2⟩
    · exact absurd h hw0
    · obtain ⟨c1, c2⟩ := cutoff_zero LL q w false hw h
      exact ⟨_, c1, Int.le_refl _, by rw [c2, ext_zero_of LL.lay]⟩
    · obtain ⟨c1, c2⟩ := cutoff_inf LL q w false hw0 h
      refine ⟨_, c1, ?_, by rw [c2, ext_inf_of LL.lay]⟩
      show 0 ≤ F.C.infinitePower
      rw [LL.lay.infp]; omega
    · obtain ⟨qn, rfl⟩ : ∃ qn : Nat, q = (qn : Int) := ⟨q.toNat, by omega⟩
      obtain ⟨fp, e1, e2, e3⟩ := computeFloat_exact LL qn (by omega) (by omega) w hw0 hw
      refine ⟨fp, e1, e2, ?_⟩
      rw [e3]
      unfold powFrac
      rw [if_pos (by omega)]
      simp only [Int.toNat_natCast]

/-- **C01.5 `lemire_sound_nonneg`** — the valid-answer half of `lemire_sound` for **every** `q ≥ 0` (and, trivially,
beyond the cut-offs): `compute_float` answers, and a valid answer is `roundNE (w·10^q)`.
`0 ≤ q ≤ 27`: exact product. `28 ≤ q ≤ LARGEST_POWER_OF_TEN`: truncated rows, by the **stability** argument of
`Proof.LemireStable` — `compute_product_approx` returns a lower bound of the 192-bit product tight to one unit (second
multiplication) or to `2^64` units with the masked bits of `hi` not all ones; the rows up to `q = 55` are exact, and
beyond the code falls back when the low word is all ones; hence the `p + 1` upper bits are those of `w·5^q`, and an
exact tie is impossible because `5^q > 2^64`. No continued-fraction bound is used. -/
theorem lemire_sound_nonneg (F : FTy) (hF : IsLemireFloat F) (q : Int) (hq : 0 ≤ q) (w : Nat) (hw : w < 2 ^ 64) :
    ∃ fp, Lemire.computeFloat F q w false = .ok fp ∧
      (0 ≤ fp.exp → extendedToFloat F fp = roundNE F.fmt (powFrac 10 q w).1 (powFrac 10 q w).2) := by
  obtain ⟨p, eb, sm, lg, a, b, LL, hlg, hb28⟩ := lemLayout_of hF
  by_cases hdom : LemirePartialDomain F q w
  · obtain ⟨fp, e1, _, e3⟩ := lemire_sound_partial F hF q w hw hdom
    exact ⟨fp, e1, fun _ => e3⟩
  · have hw0 : w ≠ 0 := fun h => hdom (Or.inl h)
    have hlarge : ¬ q > F.C.largestPowerOfTen := fun h => hdom (Or.inr (Or.inr (Or.inl h)))
    have h28 : ¬ q ≤ 27 := fun h => hdom (Or.inr (Or.inr (Or.inr ⟨hq, h⟩)))
    rw [LL.largest] at hlarge
    obtain ⟨qn, rfl⟩ : ∃ qn : Nat, q = (qn : Int) := ⟨q.toNat, by omega⟩
    have hlg308 := LL.lg308
    obtain ⟨fp, e1, e2, _⟩ := LexVerif.Proof.Lemire.computeFloat_trunc_pos LL hb28 qn (by omega) (by omega) (by omega)
      w hw0 hw
    refine ⟨fp, e1, fun hv => ?_⟩
    rw [e2 hv]
    unfold powFrac
    rw [if_pos (by omega)]
    simp only [Int.toNat_natCast]

/-- `compute_float` is right (`CFSound`) for every `q ≥ 0` -/
theorem cfSound_nonneg (F : FTy) (hF : IsLemireFloat F) (q : Int) (hq : 0 ≤ q) (w : Nat) (hw : w < 2 ^ 64) :
    CFSound F q w := by
  intro fp h hv
  obtain ⟨fp2, e1, e2⟩ := lemire_sound_nonneg F hF q hq w hw
  rw [e1] at h; injection h with h; subst h; exact e2 hv

/-- valid answers for negative exponents inside the table, `SMALLEST_POWER_OF_TEN ≤ q ≤ −1` (**proved**:
`lemire_neg_sound`). Three sub-cases:
* `q ≤ −28`, normal result (`Proof.LemireNeg`): the rows are reciprocals truncated down — the stability argument of
  `Proof.LemireStable` with denominator `5^|q|`; no tie (`5^28 ∤ w`);
* `q ≤ −28`, subnormal result or zero (`cfRound_sub`): the further shift drops sticky bits that cannot matter;
* `−27 ≤ q ≤ −1` (`Proof.LemireNegSmall`): the rows are reciprocals rounded **up**; a borrow when `lo = 0` is excluded
  by divisibility (`N` and the boundary are multiples of `2^129`, `2^127` apart at most); the round-to-even test is
  exact: a tie shows as `lo = 0` and forces `5^|q|·2^p ≤ w` (the window), the pattern `lo ≤ 1` is a tie after the second
  multiplication and impossible without it (`tieRowOk`, a kernel-evaluated check per row of the window). -/
def LemireNegSound : Prop :=
  ∀ F, IsLemireFloat F → ∀ (q : Int) (w : Nat), F.C.smallestPowerOfTen ≤ q → q < 0 → w < 2 ^ 64 → CFSound F q w

/-- **`LemireNegSound` holds**: `compute_float` is right for every negative exponent inside the table. -/
theorem lemire_neg_sound : LemireNegSound := by
  intro F hF q w hsm hq hw fp hcf hv
  by_cases hw0 : w = 0
  · obtain ⟨fp2, e1, _, e3⟩ := lemire_sound_partial F hF q w hw (Or.inl hw0)
    rw [e1] at hcf; injection hcf with hcf; subst hcf; exact e3
  · obtain ⟨e, rfl⟩ : ∃ e : Nat, q = -(e : Int) := ⟨(-q).toNat, by omega⟩
    have hpf : powFrac 10 (-(e : Int)) w = (w, 10 ^ e) := by
      unfold powFrac; rw [if_neg (by omega)]; simp
    rw [hpf]
    have key : ∀ {p eb sm lg rlo rhi}, LemLayout F p eb sm lg rlo rhi → rlo < 28 → 2 ^ 64 ≤ 5 ^ (rlo + 1) * 2 ^ p →
        (∀ e, 1 ≤ e → e ≤ rlo → LexVerif.Proof.Lemire.tieRowOk p e = true) → 91 ≤ 2 ^ (eb - 1) - 1 →
        extendedToFloat F fp = roundNE F.fmt w (10 ^ e) := by
      intro p eb sm lg rlo rhi LL hrlo hwin htc hbias
      rw [LL.smallest] at hsm
      by_cases h27 : e ≤ 27
      · obtain ⟨fp2, e1, _, e3⟩ := LexVerif.Proof.Lemire.computeFloat_neg_small LL hwin htc hbias e (by omega) h27
          (by omega) w hw0 hw
        rw [e1] at hcf; injection hcf with hcf; subst hcf; exact e3
      · obtain ⟨fp2, e1, e2, _⟩ := LexVerif.Proof.Lemire.computeFloat_trunc_neg LL hrlo e (by omega) (by omega) w hw0 hw
        rw [e1] at hcf; injection hcf with hcf; subst hcf; exact e2 hv
    rcases hF with h | h <;> subst h
    · exact key lemLayout_f64 (by decide) (by decide) LexVerif.Proof.Lemire.tieRows_f64 (by decide)
    · exact key lemLayout_f32 (by decide) (by decide) LexVerif.Proof.Lemire.tieRows_f32 (by decide)

/-- `compute_float` is right (`CFSound`) for **every** exponent and mantissa -/
theorem cfSound_all (F : FTy) (hF : IsLemireFloat F) (q : Int) (w : Nat) (hw : w < 2 ^ 64) : CFSound F q w := by
  by_cases h0 : 0 ≤ q
  · exact cfSound_nonneg F hF q h0 w hw
  · by_cases hsm : F.C.smallestPowerOfTen ≤ q
    · exact lemire_neg_sound F hF q w hsm (by omega) hw
    · intro fp hcf _
      obtain ⟨fp2, e1, _, e3⟩ := lemire_sound_partial F hF q w hw (Or.inr (Or.inl (by omega)))
      rw [e1] at hcf; injection hcf with hcf; subst hcf; exact e3

/-- non-vacuity of the negative range: an exact tie in the window (`9007199254740993·10^3 / 10^3`, to even), a normal
result at `q = −300`, a subnormal one at `q = −330`, underflow to zero at `q = −342`; `f32`: window and subnormal -/
example : Lemire.computeFloat FTy.f64 (-3) 9007199254740993000 false = .ok ⟨0, 1076⟩ ∧
    Lemire.computeFloat FTy.f64 (-300) 12345678901234567 false = .ok ⟨3764213625273715, 79⟩ ∧
    Lemire.computeFloat FTy.f64 (-330) 12345678901234567 false = .ok ⟨2498793228, 0⟩ ∧
    Lemire.computeFloat FTy.f64 (-342) 3 false = .ok ⟨0, 0⟩ ∧
    Lemire.computeFloat FTy.f32 (-10) 16777217 false = .ok ⟨6022912, 117⟩ ∧
    Lemire.computeFloat FTy.f32 (-50) 16777217 false = .ok ⟨120, 0⟩ := by
  decide +kernel

/-- the invalid-marked answers (`lo` all ones outside `[−27, 55]`) bracket the value (**proved**:
`lemire_fallback_brackets`): the exact value lies in `[hi, hi + 2)` units of the upper word, so `roundNE` is the
rounded-down estimate or its successor — in the subnormal and normal range, below it (`b = 0`) and above it
(`b = +∞`). -/
def LemireFallbackBrackets : Prop :=
  ∀ F, IsLemireFloat F → ∀ (q : Int) (w : Nat) (fp : ExtendedFloat80), IsI64 q → w < 2 ^ 64 →
    Lemire.computeFloat F q w false = .ok fp → fp.exp < 0 →
    Bracket F fp (powFrac 10 q w).1 (powFrac 10 q w).2

/-- **`lemire_sound` reduced to its two open sub-lemmas** (everything else is proved) -/
theorem lemire_sound_reduction (hneg : LemireNegSound) (hfb : LemireFallbackBrackets) : lemire_sound := by
  intro F hF q w hq hw
  obtain ⟨p, eb, sm, lg, a, b, LL, _, _⟩ := lemLayout_of hF
  have hnp := LexVerif.Proof.Lemire.computeFloat_no_panic LL q w false
  cases hcf : Lemire.computeFloat F q w false with
  | panic => exact absurd hcf hnp
  | ok fp =>
    refine ⟨fp, rfl, fun hv => ?_, fun hi => hfb F hF q w fp hq hw hcf hi⟩
    by_cases h0 : 0 ≤ q
    · exact cfSound_nonneg F hF q h0 w hw fp hcf hv
    · by_cases hsm : F.C.smallestPowerOfTen ≤ q
      · exact hneg F hF q w hsm (by omega) hw fp hcf hv
      · obtain ⟨fp2, e1, _, e3⟩ := lemire_sound_partial F hF q w hw (Or.inr (Or.inl (by omega)))
        rw [e1] at hcf; injection hcf with hcf; subst hcf; exact e3

/-- **the `many_digits` wrapper** (`lemire()`): if `compute_float` is right on `w` and on `w + 1`
(`CFSound`, e.g. by `lemire_sound_partial`), then a *valid* answer of `lemire` for the truncated mantissa `w`
is `roundNE x` for **every** `x` with `w·10^q ≤ x ≤ (w+1)·10^q` — in particular for the value of the
untruncated literal.  (`roundNE` is monotone; the wrapper answers only when both passes agree.) -/
theorem lemire_wrapper (F : FTy) (hF : IsLemireFloat F) (q : Int) (w : Nat) (neg : Bool) (hq : IsI64 q)
    (hw : w + 1 < 2 ^ 64) (S0 : CFSound F q w) (S1 : CFSound F q (w + 1)) {fp : ExtendedFloat80}
    (h : Lemire.lemire F ⟨w, q, neg, true⟩ false = .ok fp) (hv : 0 ≤ fp.exp)
    (num den : Nat) (hd : 0 < den)
    (hlo : (powFrac 10 q w).1 * den ≤ num * (powFrac 10 q w).2)
    (hhi : num * (powFrac 10 q (w + 1)).2 ≤ (powFrac 10 q (w + 1)).1 * den) :
    extendedToFloat F fp = roundNE F.fmt num den := by
  obtain ⟨p, eb, sm, lg, a, b, LL, _, _⟩ := lemLayout_of hF
  exact LexVerif.Proof.Lemire.lemire_wrapper LL q w neg hq.1 hq.2 hw S0 S1 h hv num den hd hlo hhi

/-- an invalid-marked answer of `compute_float` is an estimate of the value (`Proof.LemireStable.EstOK`): normalised
mantissa, small un-biased exponent, value within `[mant, mant + 4)` at that exponent -/
theorem lemire_invalid_facts (F : FTy) (hF : IsLemireFloat F) (q : Int) (w : Nat) (fp : ExtendedFloat80)
    (hw : w < 2 ^ 64) (hcf : Lemire.computeFloat F q w false = .ok fp) (hinv : fp.exp < 0) :
    ∃ p eb, Layout F p eb ∧ LexVerif.Proof.Lemire.EstOK F p fp (powFrac 10 q w).1 (powFrac 10 q w).2 ∧
      LexVerif.Proof.Lemire.LossyOK F q w (powFrac 10 q w).1 (powFrac 10 q w).2 := by
  have key : ∀ {p eb sm lg rlo rhi}, LemLayout F p eb sm lg rlo rhi → (27 : Int) ≤ lg → rhi < 28 → rlo < 28 →
      2 ^ 64 ≤ 5 ^ (rlo + 1) * 2 ^ p →
      (∀ e, 1 ≤ e → e ≤ rlo → LexVerif.Proof.Lemire.tieRowOk p e = true) → 91 ≤ 2 ^ (eb - 1) - 1 →
      LexVerif.Proof.Lemire.EstOK F p fp (powFrac 10 q w).1 (powFrac 10 q w).2 ∧
        LexVerif.Proof.Lemire.LossyOK F q w (powFrac 10 q w).1 (powFrac 10 q w).2 := by
    intro p eb sm lg rlo rhi LL hlg hrhi hrlo hwin htc hbias
    by_cases hdom : LemirePartialDomain F q w
    · obtain ⟨fp2, e1, e2, _⟩ := lemire_sound_partial F hF q w hw hdom
      rw [e1] at hcf; injection hcf with hcf; subst hcf; omega
    · have hw0 : w ≠ 0 := fun h => hdom (Or.inl h)
      have hlarge : ¬ q > F.C.largestPowerOfTen := fun h => hdom (Or.inr (Or.inr (Or.inl h)))
      have hsmall : ¬ q < F.C.smallestPowerOfTen := fun h => hdom (Or.inr (Or.inl h))
      have h27 : ¬ (0 ≤ q ∧ q ≤ 27) := fun h => hdom (Or.inr (Or.inr (Or.inr h)))
      rw [LL.largest] at hlarge
      rw [LL.smallest] at hsmall
      have hlg308 := LL.lg308
      by_cases h0 : 0 ≤ q
      · obtain ⟨qn, rfl⟩ : ∃ qn : Nat, q = (qn : Int) := ⟨q.toNat, by omega⟩
        obtain ⟨fp2, e1, _, e3⟩ := LexVerif.Proof.Lemire.computeFloat_trunc_pos LL hrhi qn (by omega) (by omega)
          (by omega) w hw0 hw
        rw [e1] at hcf; injection hcf with hcf; subst hcf
        have hpf : powFrac 10 (qn : Int) w = (w * 10 ^ qn, 1) := by
          unfold powFrac; rw [if_pos (by omega)]; simp
        rw [hpf]
        exact e3 hinv
      · obtain ⟨e, rfl⟩ : ∃ e : Nat, q = -(e : Int) := ⟨(-q).toNat, by omega⟩
        have hpf : powFrac 10 (-(e : Int)) w = (w, 10 ^ e) := by
          unfold powFrac; rw [if_neg (by omega)]; simp
        rw [hpf]
        by_cases he27 : e ≤ 27
        · obtain ⟨fp2, e1, e2, _⟩ := LexVerif.Proof.Lemire.computeFloat_neg_small LL hwin htc hbias e (by omega) he27
            (by omega) w hw0 hw
          rw [e1] at hcf; injection hcf with hcf; subst hcf; omega
        · obtain ⟨fp2, e1, _, e3⟩ := LexVerif.Proof.Lemire.computeFloat_trunc_neg LL hrlo e (by omega) (by omega) w hw0 hw
          rw [e1] at hcf; injection hcf with hcf; subst hcf
          exact e3 hinv
  rcases hF with h | h <;> subst h
  · exact ⟨_, _, layout_f64, key lemLayout_f64 (by decide) (by decide) (by decide) (by decide)
      LexVerif.Proof.Lemire.tieRows_f64 (by decide)⟩
  · exact ⟨_, _, layout_f32, key lemLayout_f32 (by decide) (by decide) (by decide) (by decide)
      LexVerif.Proof.Lemire.tieRows_f32 (by decide)⟩

/-- the estimate half of `lemire_invalid_facts` -/
theorem lemire_invalid_estOK (F : FTy) (hF : IsLemireFloat F) (q : Int) (w : Nat) (fp : ExtendedFloat80)
    (hw : w < 2 ^ 64) (hcf : Lemire.computeFloat F q w false = .ok fp) (hinv : fp.exp < 0) :
    ∃ p eb, Layout F p eb ∧ LexVerif.Proof.Lemire.EstOK F p fp (powFrac 10 q w).1 (powFrac 10 q w).2 := by
  obtain ⟨p, eb, lay, hest, _⟩ := lemire_invalid_facts F hF q w fp hw hcf hinv
  exact ⟨p, eb, lay, hest⟩

/-- **`LemireFallbackBrackets` holds** (`Proof.LemireFallback`) -/
theorem lemire_fallback_brackets : LemireFallbackBrackets := by
  intro F hF q w fp _ hw hcf hinv
  obtain ⟨p, eb, lay, hest, _⟩ := lemire_invalid_facts F hF q w fp hw hcf hinv
  have hden : 0 < (powFrac 10 q w).2 := by
    unfold powFrac; split
    · exact Nat.one_pos
    · exact Nat.pow_pos (by decide)
  exact LexVerif.Proof.Lemire.bracket_of_estOK lay fp _ _ hden hest

/-- what the slow path may assume about the estimate Eisel–Lemire hands over (`SlowDomain.negSide` of
`Props.C01SlowMain`: normalised mantissa, exponent far inside `±2^20`), together with the bracket -/
theorem lemire_estimate_facts (F : FTy) (hF : IsLemireFloat F) (q : Int) (w : Nat) (fp : ExtendedFloat80)
    (hw : w < 2 ^ 64) (hcf : Lemire.computeFloat F q w false = .ok fp) (hinv : fp.exp < 0) :
    2 ^ 63 ≤ fp.mant ∧ fp.mant < 2 ^ 64 ∧ -(4096 : Int) ≤ fp.exp - invalidFp ∧ fp.exp - invalidFp ≤ 4096 ∧
      Bracket F fp (powFrac 10 q w).1 (powFrac 10 q w).2 := by
  obtain ⟨p, eb, lay, hest, _⟩ := lemire_invalid_facts F hF q w fp hw hcf hinv
  have hden : 0 < (powFrac 10 q w).2 := by
    unfold powFrac; split
    · exact Nat.one_pos
    · exact Nat.pow_pos (by decide)
  exact ⟨hest.1, hest.2.1, hest.2.2.1, hest.2.2.2.1, LexVerif.Proof.Lemire.bracket_of_estOK lay fp _ _ hden hest⟩

/-- **C01.5 `lemire_sound` — proved, unconditional**: for every `i64` exponent and every `u64` mantissa, non-lossy
`compute_float` never panics and answers either with a valid float that is `roundNE (w·10^q)`, or with an
invalid-marked extended float that brackets it. -/
theorem lemire_sound_proved : lemire_sound := lemire_sound_reduction lemire_neg_sound lemire_fallback_brackets

/-- the wrapper for **every** `q ≥ 0`: a valid answer of `lemire` for a truncated mantissa is `roundNE` of every value in
`[w, w + 1]·10^q` — unconditional (`cfSound_nonneg`) -/
theorem lemire_wrapper_nonneg (F : FTy) (hF : IsLemireFloat F) (q : Int) (hq0 : 0 ≤ q) (hq : IsI64 q)
    (w : Nat) (neg : Bool) (hw : w + 1 < 2 ^ 64) {fp : ExtendedFloat80}
    (h : Lemire.lemire F ⟨w, q, neg, true⟩ false = .ok fp) (hv : 0 ≤ fp.exp)
    (num den : Nat) (hd : 0 < den)
    (hlo : (powFrac 10 q w).1 * den ≤ num * (powFrac 10 q w).2)
    (hhi : num * (powFrac 10 q (w + 1)).2 ≤ (powFrac 10 q (w + 1)).1 * den) :
    extendedToFloat F fp = roundNE F.fmt num den :=
  lemire_wrapper F hF q w neg hq hw (cfSound_nonneg F hF q hq0 w (by omega)) (cfSound_nonneg F hF q hq0 (w + 1) hw)
    h hv num den hd hlo hhi

/-- the wrapper for **every** exponent: a valid answer of `lemire` for a truncated mantissa is `roundNE` of every value
in `[w, w + 1]·10^q` — unconditional (`cfSound_all`) -/
theorem lemire_wrapper_all (F : FTy) (hF : IsLemireFloat F) (q : Int) (hq : IsI64 q)
    (w : Nat) (neg : Bool) (hw : w + 1 < 2 ^ 64) {fp : ExtendedFloat80}
    (h : Lemire.lemire F ⟨w, q, neg, true⟩ false = .ok fp) (hv : 0 ≤ fp.exp)
    (num den : Nat) (hd : 0 < den)
    (hlo : (powFrac 10 q w).1 * den ≤ num * (powFrac 10 q w).2)
    (hhi : num * (powFrac 10 q (w + 1)).2 ≤ (powFrac 10 q (w + 1)).1 * den) :
    extendedToFloat F fp = roundNE F.fmt num den :=
  lemire_wrapper F hF q w neg hq hw (cfSound_all F hF q w (by omega)) (cfSound_all F hF q (w + 1) hw)
    h hv num den hd hlo hhi

/-- non-vacuity of the truncated-row range: valid answers at `q = 280` (f64), `q = 28` with a 19-digit mantissa,
`q = 30` (f32) -/
example : Lemire.computeFloat FTy.f64 280 12345678901234567 false = .ok ⟨2297654681327541, 2006⟩ ∧
    Lemire.computeFloat FTy.f64 28 9999999999999999999 false = .ok ⟨426781030260828, 1179⟩ ∧
    Lemire.computeFloat FTy.f32 30 87654321 false = .ok ⟨254775, 253⟩ := by
  decide +kernel

/-- `compute_float` never panics: the checked index into `POWER_OF_FIVE_128` is always in range -/
theorem computeFloat_no_panic (F : FTy) (hF : IsLemireFloat F) (q : Int) (w : Nat) (lossy : Bool) :
    Lemire.computeFloat F q w lossy ≠ .panic := by
  obtain ⟨p, eb, sm, lg, a, b, LL, _, _⟩ := lemLayout_of hF
  exact LexVerif.Proof.Lemire.computeFloat_no_panic LL q w lossy

/-- the wrapper instantiated on the proved domain: a truncated 19-digit mantissa at `0 ≤ q ≤ 27` -/
theorem lemire_wrapper_exact_range (F : FTy) (hF : IsLemireFloat F) (q : Int) (hq0 : 0 ≤ q) (hq27 : q ≤ 27)
    (w : Nat) (neg : Bool) (hw : w + 1 < 2 ^ 64) {fp : ExtendedFloat80}
    (h : Lemire.lemire F ⟨w, q, neg, true⟩ false = .ok fp) (hv : 0 ≤ fp.exp)
    (num den : Nat) (hd : 0 < den)
    (hlo : (powFrac 10 q w).1 * den ≤ num * (powFrac 10 q w).2)
    (hhi : num * (powFrac 10 q (w + 1)).2 ≤ (powFrac 10 q (w + 1)).1 * den) :
    extendedToFloat F fp = roundNE F.fmt num den := by
  have hI : IsI64 q := ⟨by omega, by omega⟩
  have S : ∀ m, m < 2 ^ 64 → CFSound F q m := by
    intro m hm fp' h' _
    obtain ⟨fp2, e1, _, e3⟩ := lemire_sound_partial F hF q m hm (Or.inr (Or.inr (Or.inr ⟨hq0, hq27⟩)))
    rw [e1] at h'; injection h' with h'; subst h'; exact e3
  exact lemire_wrapper F hF q w neg hI hw (S w (by omega)) (S (w + 1) hw) h hv num den hd hlo hhi

/-! non-vacuity: `compute_float` evaluated on each part of the proved domain, and one undecided answer -/
example : LemirePartialDomain FTy.f64 (-343) 5 ∧ LemirePartialDomain FTy.f64 309 5 ∧
    LemirePartialDomain FTy.f64 27 (2 ^ 64 - 1) ∧ LemirePartialDomain FTy.f32 (-66) 1 := by
  refine ⟨Or.inr (Or.inl (by decide)), Or.inr (Or.inr (Or.inl (by decide))),
    Or.inr (Or.inr (Or.inr (by decide))), Or.inr (Or.inl (by decide))⟩
/-- `9007199254740993 = 2^53 + 1` is a tie at `q = 0` (even neighbour below), `…995` rounds up; the largest
mantissa at the largest exact exponent; an exponent-cut-off -/
example : Lemire.computeFloat FTy.f64 0 9007199254740993 false = .ok ⟨0, 1076⟩ ∧
    Lemire.computeFloat FTy.f64 0 9007199254740995 false = .ok ⟨2, 1076⟩ ∧
    Lemire.computeFloat FTy.f64 27 (2 ^ 64 - 1) false = .ok ⟨2772357986812930, 1176⟩ ∧
    Lemire.computeFloat FTy.f32 27 (2 ^ 64 - 1) false = .ok ⟨0, 255⟩ ∧
    Lemire.computeFloat FTy.f64 (-343) 5 false = .ok ⟨0, 0⟩ := by decide +kernel
/-- the wrapper's hypothesis is satisfiable: `lemire` answers validly for a truncated mantissa … -/
example : Lemire.lemire FTy.f64 ⟨1234567890123456789, 5, false, true⟩ false = .ok ⟨2854998426820717, 1099⟩ := by
  decide +kernel
/-- … and declines when `w` and `w + 1` round differently (marker: negative exponent) -/
example : Lemire.lemire FTy.f64 ⟨9007199254740993, 0, false, true⟩ false = .ok ⟨9223372036854776832, -31703⟩ := by
  decide +kernel

/-! ## Bellerophon (decimal, `compact` builds) -/

/-- **C01.5' `bellerophon_sound`** (**complete** on the model): a valid non-lossy answer of `bellerophon` for
the mantissa `w` is `roundNE x` for the true value `x` of the literal: `x = w·10^e` when nothing was truncated,
any `x ∈ [w, w+1)·10^e` when `many_digits` is set (`TrueValue`). Hypothesis for truncated mantissas:
`w ≥ 2^44` — `parse_number` sets `many_digits` only after accumulating 19 digits (`w ≥ 10^18`), and below `2^44`
the cap `min(ctlz + 1, 20)` of the booked truncation error would be reached.
Ingredients: the table facts of `Proof.BellTables.bellCheck` (kernel-evaluated on the model's accessors,
i.e. tables **and** exponent formula), `mul` = exact product rounded half-up, the error accounting against the
*truncated* large powers (`scale_bound`), and `error_is_accurate` ⇒ same rounding for every value within the
booked errors (`accurate_round`; the booked eighths are compared as whole units, which is what covers the
under-booked table error). -/
theorem bellerophon_sound (F : FTy) (hF : IsLemireFloat F) (n : Num) (hw : n.mantissa < 2 ^ 64)
    (hmw : n.manyDigits = true → 2 ^ 44 ≤ n.mantissa) (num den : Nat) (hd : 0 < den)
    (htv : LexVerif.Proof.Bell.TrueValue 10 n num den) {fp : ExtendedFloat80}
    (h : Bellerophon.bellerophon F (Gen.Bellerophon.CompactRadix.powers 10) n false = .ok fp) (hv : 0 ≤ fp.exp) :
    extendedToFloat F fp = roundNE F.fmt num den := by
  have hc := LexVerif.Proof.Bell.bellFacts_of
    (LexVerif.Proof.Bell.bellCheck_compact 10 (by decide))
  rcases hF with h' | h' <;> subst h'
  · exact LexVerif.Proof.Bell.bellerophon_sound_all layout_f64 (by decide) hc n hw hmw num den hd htv h hv
  · exact LexVerif.Proof.Bell.bellerophon_sound_all layout_f32 (by decide) hc n hw hmw num den hd htv h hv

/-- the untruncated case in closed form -/
theorem bellerophon_sound_untruncated (F : FTy) (hF : IsLemireFloat F) (n : Num) (hmany : n.manyDigits = false)
    (hw : n.mantissa < 2 ^ 64) {fp : ExtendedFloat80}
    (h : Bellerophon.bellerophon F (Gen.Bellerophon.CompactRadix.powers 10) n false = .ok fp) (hv : 0 ≤ fp.exp) :
    extendedToFloat F fp =
      roundNE F.fmt (powFrac 10 n.exponent n.mantissa).1 (powFrac 10 n.exponent n.mantissa).2 := by
  have hc := LexVerif.Proof.Bell.bellFacts_of
    (LexVerif.Proof.Bell.bellCheck_compact 10 (by decide))
  rcases hF with h' | h' <;> subst h'
  · exact LexVerif.Proof.Bell.bellerophon_untruncated_sound layout_f64 (by decide) hc n hmany hw h hv
  · exact LexVerif.Proof.Bell.bellerophon_untruncated_sound layout_f32 (by decide) hc n hmany hw h hv

/-- `bellerophon` never panics (remainder by `step`, three checked table indices) -/
theorem bellerophon_no_panic (F : FTy) (n : Num) (lossy : Bool) :
    Bellerophon.bellerophon F (Gen.Bellerophon.CompactRadix.powers 10) n lossy ≠ .panic :=
  LexVerif.Proof.Bell.bellerophon_no_panic
    (LexVerif.Proof.Bell.bellFacts_of (LexVerif.Proof.Bell.bellCheck_compact 10 (by decide))) n lossy

/-- the hypothesis on truncated mantissas holds for what `parse_number` produces: 19 significant digits -/
example : (2 : Nat) ^ 44 ≤ 10 ^ 18 := by decide

/-- non-vacuity of the truncated case: `3000000000000000000…e7` with more digits following (`many_digits`):
`bellerophon` answers validly, and `TrueValue` holds e.g. for the literal `30000000000000000005e6` -/
example : Bellerophon.bellerophon FTy.f64 (Gen.Bellerophon.CompactRadix.powers 10)
      ⟨3000000000000000000, 7, false, true⟩ false = .ok ⟨2481319682245593, 1107⟩ ∧
    LexVerif.Proof.Bell.TrueValue 10 ⟨3000000000000000000, 7, false, true⟩ (30000000000000000005 * 10 ^ 6) 1 := by
  refine ⟨by decide +kernel, ?_⟩
  unfold LexVerif.Proof.Bell.TrueValue
  decide +kernel

/-- non-vacuity: a decided and an undecided decimal case (values from the compiled crate, op `bel`) -/
example : Bellerophon.bellerophon FTy.f64 (Gen.Bellerophon.CompactRadix.powers 10) ⟨12345, 10, false, false⟩ false =
      .ok ⟨3397200372629504, 1069⟩ ∧
    Bellerophon.bellerophon FTy.f64 (Gen.Bellerophon.CompactRadix.powers 10)
        ⟨9007199254740993, 0, false, false⟩ false = .ok ⟨9223372036854776832, -31703⟩ ∧
    Bellerophon.bellerophon FTy.f64 (Gen.Bellerophon.CompactRadix.powers 10)
        ⟨9007199254740993, 300, false, false⟩ false = .ok ⟨0, 2047⟩ := by
  decide +kernel

end LexVerif.Props.C01
