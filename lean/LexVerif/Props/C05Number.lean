import LexVerif.Props.C01Number
/-!
# C05 — the syntax layer for every radix (same exponent base): `NumberExact` and the truncated words

`Props.C01Number` proves, for radix 10, that the `Number` the syntax layer builds denotes the digit content (`mantissa`,
`exponent`, digit slices), untruncated (`number_exact_of_syntax`) and truncated (`number_truncated_of_syntax`). The proofs do
not depend on the radix being 10 but on `radix^u64_step ≤ 2^64` (the mantissa word holds `u64_step` digits without
wrapping); here they are restated for an arbitrary radix `r` with exponent base `r` and `stp = u64_step(r)`.
(The theorems are the decimal ones with `10 ↦ r`, `19 ↦ stp`.)
-/
namespace LexVerif.Props.C05Number
open LexVerif LexVerif.Spec LexVerif.Model LexVerif.Model.ParseFloatAlgo
open LexVerif.Proof.Sep LexVerif.Proof.Slow LexVerif.Proof.Pipeline LexVerif.Proof.RoundNE
open LexVerif.Props.C01Main LexVerif.Props.C01SlowDomain LexVerif.Props.C12 LexVerif.Props.C01Number
open LexVerif.Props.C01 (IsI64)

/-! ## scaling of the implicit exponent (mixed bases) -/

theorem scaleVal_zero (c : Cfg) : scaleVal c 0 = 0 := by
  unfold scaleVal; split <;> simp

theorem litFrac_eq2 (r b : Nat) (l : FloatLit) :
    litFrac r b l = (ofDigits r (l.intDigits ++ l.fracDigits) * b ^ l.exp.toNat,
      r ^ l.fracDigits.length * b ^ (-l.exp).toNat) := by
  unfold litFrac
  split
  · have : (-l.exp).toNat = 0 := by omega
    rw [this, Nat.pow_zero, Nat.mul_one]
  · have : l.exp.toNat = 0 := by omega
    rw [this, Nat.pow_zero, Nat.mul_one]

/-- **what an accepted, untruncated `parse_number` returns** (any format on separator-free input without base prefix,
release build, any exponent base: the implicit exponent is scaled by `scaleVal`) -/
theorem parseNumber_facts_s (c : Cfg) (hS : RelClass c) (hpre : c.basePrefix = 0)
    (hre : c.exponentRadix ≤ 255)
    (isPartial : Bool) (o : POpts) (b : Bytes) (neg fv : Bool) (hn : NoSep c b.slc) (n : Number) (cnt : Nat)
    (h : parseNumber c isPartial o b neg fv = .ok (n, cnt)) (hmany : n.manyDigits = false) :
    n.integer = (b.slc.drop b.index).take (digitsPrefix c.mantissaRadix (b.slc.drop b.index)).length ∧
    n.fraction = (if hasPoint o c b then some ((b.slc.drop (intEnd c b + 1)).take (fracRun o c b).length) else none) ∧
    n.mantissa = foldMantissa c.mantissaRadix (foldMantissa c.mantissaRadix 0
      (digitsPrefix c.mantissaRadix (b.slc.drop b.index))) (fracRun o c b) ∧
    (n.exponent = scaleVal c (-((fracRun o c b).length : Int)) + n.explicitExp ∨
      ((digitsPrefix c.mantissaRadix (b.slc.drop b.index)).length + (fracRun o c b).length = 0 ∧ n.exponent = 0)) ∧
    -(2 ^ 40 : Int) ≤ n.explicitExp ∧ n.explicitExp ≤ 2 ^ 40 ∧
    ((digitsPrefix c.mantissaRadix (b.slc.drop b.index)).length + (fracRun o c b).length ≤ u64Step c.feats c.mantissaRadix ∨
      (digitsPrefix c.mantissaRadix (b.slc.drop b.index)).length + (fracRun o c b).length -
        u64Step c.feats c.mantissaRadix - zerosPrefix (b.slc.drop b.index) -
        zerosPrefix (b.slc.drop
          (if (b.slc[b.index + zerosPrefix (b.slc.drop b.index)]? == some o.dp) = true
            then b.index + zerosPrefix (b.slc.drop b.index) + 1
            else b.index + zerosPrefix (b.slc.drop b.index))) = 0) := by
  rw [parseNumber_tail c hS.debug] at h
  simp only [bind, Except.bind] at h
  rw [integerPhase_rel c hS b b false hn (LexVerif.Proof.Grammar.prefixPhase_none hpre b)] at h
  unfold intClosed at h
  dsimp only at h
  unfold fracRun hasPoint intEnd
  generalize hdsI : digitsPrefix c.mantissaRadix (b.slc.drop b.index) = dsI at *
  by_cases e1 : (c.feats.format && c.requiredIntegerDigits && decide (dsI.length = 0)) = true
  · rw [if_pos e1] at h; cases h
  rw [if_neg e1] at h
  by_cases e2 : (c.feats.format && !false && c.noFloatLeadingZeros &&
      decide ((List.take dsI.length (List.drop b.index b.slc)).length > 1) &&
      decide ((List.take dsI.length (List.drop b.index b.slc)).head? = some 48)) = true
  · rw [if_pos e2] at h; cases h
  rw [if_neg e2] at h
  simp only at h
  rw [fractionPhase_rel c hS o _ _ (by simpa using hn)] at h
  unfold fracClosed at h
  simp only [adv_slc, adv_index] at h
  have hfirst : (adv c Comp.integer dsI.length b).firstIsCased o.dp = (b.slc[b.index + dsI.length]? == some o.dp) := by
    simp [Bytes.firstIsCased, Bytes.first]
  rw [hfirst] at h
  by_cases hdot : (b.slc[b.index + dsI.length]? == some o.dp) = true
  · rw [if_pos hdot] at h
    simp only [hdot, if_true]
    generalize hdsF : digitsPrefix c.mantissaRadix (b.slc.drop (b.index + dsI.length + 1)) = dsF at *
    by_cases e3 : (c.feats.format && c.requiredFractionDigits && decide (dsF.length = 0)) = true
    · rw [if_pos e3] at h; cases h
    rw [if_neg e3] at h
    simp only at h
    obtain ⟨f1, f2, f3, f4, f5, f6, f7⟩ := tailOf_facts c hS hre isPartial o neg _ _ (by simpa using hn)
      (by simp only; exact (hn.drop _).take _) (by
        intro fd hfd
        simp only [Option.some.injEq] at hfd
        rw [← hfd]; exact (hn.drop _).take _) n cnt h hmany
    simp only at f1 f2 f3 f4 f5 f6 f7
    exact ⟨f1, f2, f3, f4, f5, f6, f7⟩
  · rw [if_neg hdot] at h
    simp only [hdot, Bool.false_eq_true, if_false]
    simp only at h
    obtain ⟨f1, f2, f3, f4, f5, f6, f7⟩ := tailOf_facts c hS hre isPartial o neg _ _ (by simpa using hn)
      (by simp only; exact (hn.drop _).take _) (by intro fd hfd; cases hfd) n cnt h hmany
    simp only at f1 f2 f3 f4 f5 f6 f7
    refine ⟨f1, f2, by rw [f3]; rfl, ?_, f5, f6, by simpa using f7⟩
    simpa [scaleVal_zero] using f4

/-- the facts about one accepted untruncated decimal `Number` -/
theorem number_exact_of_parse_r (r stp : Nat) (hr2 : 2 ≤ r) (hstp : 1 ≤ stp) (hfit : r ^ stp ≤ 2 ^ 64) (c : Cfg) (hstep : u64Step c.feats r = stp) (hS : RelClass c) (hpre : c.basePrefix = 0) (hr : c.mantissaRadix = r)
    (bs k : Nat) (hk5 : k ≤ 5) (hrk : r = bs ^ k) (hb : c.exponentBase = bs) (hsc : ∀ x : Int, scaleVal c x = x * k) (hre : c.exponentRadix ≤ 255)
    (isPartial : Bool) (o : POpts) (hdp : charToDigit o.dp r = none) (b : Bytes) (neg fv : Bool)
    (hn : NoSep c b.slc) (h256 : ∀ x ∈ b.slc, x < 256) (hlen : b.slc.length < 2 ^ 60) (n : Number) (cnt : Nat)
    (h : parseNumber c isPartial o b neg fv = .ok (n, cnt)) (hmany : n.manyDigits = false) :
    NumberExactAt c n ∧ PlainSlices c n ∧ (sigBytes n.integer n.fraction).length ≤ stp ∧
    (-(5 * (b.slc.length : Int)) - 2 ^ 40 ≤ n.exponent ∧ n.exponent ≤ 2 ^ 40) := by
  obtain ⟨F1, F2, F3, F4, F5, F6, F7⟩ := parseNumber_facts_s c hS hpre hre isPartial o b neg fv hn n cnt h hmany
  simp only [hsc] at F4
  rw [hr] at F1 F3 F4 F7
  rw [hstep] at F7
  unfold fracRun hasPoint intEnd at *
  rw [hr] at F2 F3 F4 F7
  have h40 : (2 : Int) ^ 40 = 1099511627776 := by norm_num
  have h60 : (2 : Nat) ^ 60 = 1152921504606846976 := by norm_num
  have h63 : (2 : Int) ^ 63 = 9223372036854775808 := by norm_num
  generalize hs : b.slc = s at *
  generalize hrest : s.drop b.index = rest at *
  generalize hdsI : digitsPrefix r rest = dsI at *
  -- the integer slice
  obtain ⟨ri1, ri2, ri3, ri4⟩ := run_slice r rest
  rw [hdsI] at ri1 ri2 ri3 ri4
  have hzi : zerosPrefix rest ≤ dsI.length := by rw [← hdsI]; exact zerosPrefix_le_run (by omega) rest
  generalize hzI : zerosPrefix rest = zi at *
  have hmemrest : ∀ x ∈ rest, x < 256 := fun x hx => h256 x (by rw [← hrest] at hx; exact List.mem_of_mem_drop hx)
  -- the fraction slice, in both cases
  obtain ⟨fbytes, dsF, hfrac, hnF, hdvF, hvalF, hF3, hmemF, hsig, hpl⟩ :
      ∃ (fbytes : List Nat) (dsF : List Nat),
        n.fraction.getD [] = fbytes ∧ fbytes.length = dsF.length ∧ dv r fbytes = dsF ∧ ValidDigits r fbytes ∧
        n.mantissa = foldMantissa r (foldMantissa r 0 dsI) dsF ∧ (∀ x ∈ fbytes, x < 256) ∧
        (sigBytes n.integer n.fraction).length ≤ stp ∧
        ((n.exponent = -(dsF.length : Int) * k + n.explicitExp ∨ (dsI.length + dsF.length = 0 ∧ n.exponent = 0)) ∧
          (numberLit c n).fracDigits = dsF ∧ (∀ fr, n.fraction = some fr → fr = fbytes)) := by
    by_cases hpt : (s[b.index + dsI.length]? == some o.dp) = true
    · simp only [hpt, if_true] at F2 F3 F4 F7
      generalize hk : b.index + dsI.length + 1 = k at *
      obtain ⟨rf1, rf2, rf3, rf4⟩ := run_slice r (s.drop k)
      generalize hdsF : digitsPrefix r (s.drop k) = dsF at *
      have hmemF : ∀ x ∈ (s.drop k).take dsF.length, x < 256 := fun x hx =>
        h256 x (List.mem_of_mem_drop (List.mem_of_mem_take hx))
      refine ⟨(s.drop k).take dsF.length, dsF, (by rw [F2]; rfl), rf1, rf2, rf3, F3, hmemF, ?_, F4, ?_, ?_⟩
      · -- the count of significant digits
        rw [F1, F2]
        unfold sigBytes
        simp only
        rw [skipZeros_eq_drop, zerosPrefix_take rest dsI.length (by omega), hzI]
        by_cases hall : zi = dsI.length
        · -- integer digits all zero: the fraction's leading zeros are skipped too
          have hnil : List.drop zi (List.take dsI.length rest) = [] := by
            apply List.eq_nil_of_length_eq_zero
            rw [List.length_drop, ri1]; omega
          rw [if_pos hnil, skipZeros_eq_drop, List.length_drop, rf1]
          have hzf : zerosPrefix (s.drop k) ≤ dsF.length := by rw [← hdsF]; exact zerosPrefix_le_run (by omega) _
          rw [zerosPrefix_take _ _ hzf]
          rcases F7 with h7 | h7
          · omega
          · have hi1 : (s[b.index + zi]? == some o.dp) = true := by rw [hall]; exact hpt
            rw [if_pos hi1, hall, hk] at h7
            omega
        · have hne : List.drop zi (List.take dsI.length rest) ≠ [] := by
            intro h0
            have := congrArg List.length h0
            rw [List.length_drop, ri1] at this
            simp at this; omega
          rw [if_neg hne, List.length_append, List.length_drop, ri1, rf1]
          rcases F7 with h7 | h7
          · omega
          · -- the byte after the leading zeros is a non-zero digit, not the decimal point
            have hget : s[b.index + zi]? = rest[zi]? := by rw [← hrest, List.getElem?_drop]
            have hnotdp : ¬ (s[b.index + zi]? == some o.dp) = true := by
              intro hc
              rw [hget] at hc
              have hx : rest[zi]? = some o.dp := by simpa using hc
              have := in_run r rest zi o.dp (by rw [hdsI]; omega) hx
              rw [hdp] at this; cases this
            rw [if_neg hnotdp] at h7
            have hz0 : zerosPrefix (s.drop (b.index + zi)) = 0 := by
              have : s.drop (b.index + zi) = rest.drop zi := by rw [← hrest, List.drop_drop]
              rw [this, ← hzI]; exact zerosPrefix_drop_self rest
            rw [hz0] at h7
            omega
      · show (match n.fraction with | some fd => sliceDigits c .fraction fd | none => []) = dsF
        rw [F2]
        simp only
        rw [sliceDigits_run c hS .fraction _ ((hn.drop _).take _), hr, rf4]
      · intro fr hfr; rw [F2] at hfr; injection hfr with hfr; exact hfr.symm
    · simp only [hpt, Bool.false_eq_true, if_false, List.length_nil, Nat.add_zero] at F2 F3 F4 F7
      refine ⟨[], [], (by rw [F2]; rfl), rfl, rfl, (by intro x hx; cases hx), (by simpa [foldMantissa] using F3),
        (by intro x hx; cases hx), ?_, (by simpa using F4), ?_, ?_⟩
      · rw [F1, F2]
        unfold sigBytes
        simp only
        rw [skipZeros_eq_drop, zerosPrefix_take rest dsI.length (by omega), hzI, List.length_drop, ri1]
        rcases F7 with h7 | h7
        · omega
        · by_cases hall : zi = dsI.length
          · omega
          · have hget : s[b.index + zi]? = rest[zi]? := by rw [← hrest, List.getElem?_drop]
            have hnotdp : ¬ (s[b.index + zi]? == some o.dp) = true := by
              intro hc
              rw [hget] at hc
              have hx : rest[zi]? = some o.dp := by simpa using hc
              have := in_run r rest zi o.dp (by rw [hdsI]; omega) hx
              rw [hdp] at this; cases this
            rw [if_neg hnotdp] at h7
            have hz0 : zerosPrefix (s.drop (b.index + zi)) = 0 := by
              have : s.drop (b.index + zi) = rest.drop zi := by rw [← hrest, List.drop_drop]
              rw [this, ← hzI]; exact zerosPrefix_drop_self rest
            rw [hz0] at h7
            omega
      · show (match n.fraction with | some fd => sliceDigits c .fraction fd | none => []) = []
        rw [F2]
      · intro fr hfr; rw [F2] at hfr; cases hfr
  obtain ⟨hexp, hfd, hfrsome⟩ := hpl
  have hint : (numberLit c n).intDigits = dsI := by
    show sliceDigits c .integer n.integer = dsI
    rw [F1, sliceDigits_run c hS .integer _ (by rw [← hrest]; exact (hn.drop _).take _), hr, ri4]
  -- PlainSlices
  have hps : PlainSlices c n := by
    refine ⟨by rw [hr, F1]; exact ri3, ?_, ?_, ?_, by rw [hint, hr, F1, ri2], by rw [hfd, hr, hfrac, hdvF]⟩
    · intro fr hfr; rw [hr, hfrsome fr hfr]; exact hvalF
    · intro x hx; rw [F1] at hx; exact hmemrest x (List.mem_of_mem_take hx)
    · intro fr hfr x hx; rw [hfrsome fr hfr] at hx; exact hmemF x hx
  have hbound : -(5 * (s.length : Int)) - 2 ^ 40 ≤ n.exponent ∧ n.exponent ≤ 2 ^ 40 := by
    have hnFle : dsF.length ≤ s.length := by
      rw [← hnF, ← hfrac]
      cases hfr : n.fraction with
      | none => simp
      | some fr =>
        have := hfrsome fr hfr
        simp only [Option.getD_some]
        by_cases hpt : (s[b.index + dsI.length]? == some o.dp) = true
        · simp only [hpt, if_true] at F2
          rw [hfr] at F2; injection F2 with F2
          rw [F2, List.length_take, List.length_drop]; omega
        · simp only [hpt, Bool.false_eq_true, if_false] at F2
          rw [hfr] at F2; cases F2
    have hTb : dsF.length * k ≤ dsF.length * 5 := Nat.mul_le_mul_left _ hk5
    have hTc : (dsF.length : Int) * (k : Int) = ((dsF.length * k : Nat) : Int) := by push_cast; rfl
    rcases hexp with he | ⟨_, he⟩
    · rw [he, Int.neg_mul, hTc]; constructor <;> omega
    · rw [he]; constructor <;> omega
  refine ⟨?_, hps, hsig, hbound⟩
  -- NumberExactAt
  obtain ⟨z, hz⟩ := sig_decomp n.integer n.fraction
  have hvs : ValidDigits r (sigBytes n.integer n.fraction) := by
    have := valid_sigBytes hps.validInt hps.validFrac
    rwa [hr] at this
  have hD : ofDigits r (dsI ++ dsF) = ofDigits r (dv r (sigBytes n.integer n.fraction)) := by
    have : dsI ++ dsF = dv r (n.integer ++ n.fraction.getD []) := by
      rw [hfrac, F1]; unfold dv; rw [List.map_append]; unfold dv at ri2 hdvF; rw [ri2, hdvF]
    rw [this, hz, ofDigits_dv_zeros]
  have hDlt : ofDigits r (dsI ++ dsF) < r ^ stp := by
    rw [hD]
    exact Nat.lt_of_lt_of_le (ofDigits_dv_lt hvs) (Nat.pow_le_pow_right (by omega) hsig)
  have hmant : n.mantissa = ofDigits r (dsI ++ dsF) := by
    rw [hF3, ← foldMantissa_append]
    by_cases hnil : dsI ++ dsF = []
    · rw [hnil]; rfl
    · rw [foldMantissa_eq r _ 0 hnil, Nat.zero_mul, Nat.zero_add]
      have : horner r (dsI ++ dsF) 0 = ofDigits r (dsI ++ dsF) := rfl
      rw [this]
      exact Nat.mod_eq_of_lt (Nat.lt_of_lt_of_le hDlt (by unfold pow2_64; exact hfit))
  have hnFlen : dsF.length < 2 ^ 60 := by
    rw [← hnF, ← hfrac]
    cases hfr : n.fraction with
    | none => simp
    | some fr =>
      have := hfrsome fr hfr
      simp only [Option.getD_some]
      by_cases hpt : (s[b.index + dsI.length]? == some o.dp) = true
      · simp only [hpt, if_true] at F2
        rw [hfr] at F2; injection F2 with F2
        rw [F2, List.length_take, List.length_drop]; omega
      · simp only [hpt, Bool.false_eq_true, if_false] at F2
        rw [hfr] at F2; cases F2
  refine ⟨by rw [hmant]; exact Nat.lt_of_lt_of_le hDlt hfit, ?_, ?_⟩
  · -- `IsI64 exponent`
    unfold IsI64
    have hTb : dsF.length * k ≤ dsF.length * 5 := Nat.mul_le_mul_left _ hk5
    have hTc : (dsF.length : Int) * (k : Int) = ((dsF.length * k : Nat) : Int) := by push_cast; rfl
    rcases hexp with he | ⟨_, he⟩
    · rw [he, Int.neg_mul, hTc]; constructor <;> omega
    · rw [he]; constructor <;> omega
  · -- the value
    rw [hr, hb, powFrac_eq, litFrac_eq2]
    unfold RatEq
    simp only [hint, hfd]
    have hE : (numberLit c n).exp = n.explicitExp := rfl
    rw [hE, hmant]
    rcases hexp with he | ⟨h0, he⟩
    · have hTc : (dsF.length : Int) * (k : Int) = ((dsF.length * k : Nat) : Int) := by push_cast; rfl
      have hpw : r ^ dsF.length = bs ^ (dsF.length * k) := by rw [hrk, ← Nat.pow_mul, Nat.mul_comm]
      rw [he, Int.neg_mul, hTc, hpw]
      generalize dsF.length * k = T
      have e1 : (-(T : Int) + n.explicitExp).toNat + (T + (-n.explicitExp).toNat) =
          n.explicitExp.toNat + (-(-(T : Int) + n.explicitExp)).toNat := by omega
      calc ofDigits r (dsI ++ dsF) * bs ^ (-(T : Int) + n.explicitExp).toNat *
            (bs ^ T * bs ^ (-n.explicitExp).toNat)
          = ofDigits r (dsI ++ dsF) *
              bs ^ ((-(T : Int) + n.explicitExp).toNat + (T + (-n.explicitExp).toNat)) := by
            rw [Nat.pow_add, Nat.pow_add]; ring
        _ = ofDigits r (dsI ++ dsF) * bs ^ (n.explicitExp.toNat + (-(-(T : Int) + n.explicitExp)).toNat) := by
            rw [e1]
        _ = ofDigits r (dsI ++ dsF) * bs ^ n.explicitExp.toNat * bs ^ (-(-(T : Int) + n.explicitExp)).toNat := by
            rw [Nat.pow_add]; ring
    · have hnil : dsI ++ dsF = [] := List.eq_nil_of_length_eq_zero (by rw [List.length_append]; exact h0)
      rw [hnil]
      simp [ofDigits]

/-- the class of formats `NumberExact` is about gives the closed-form class of the phase lemmas -/
theorem relClass_of_r (c : Cfg) (hd : c.debug = false) (hclass : c.feats.format = false ∨ SepPrefixFree c.fmt)
    (hr8 : c.feats.powerOfTwo = false → c.mantissaRadix ≤ 10) : RelClass c ∧ c.basePrefix = 0 ∧ c.digitSeparator = 0 ∧ c.exponentRadix ≤ 255 := by
  have hs := std_of c hd hclass hr8
  exact ⟨⟨hd, fun k => by rw [hs.nosep.skip k]; decide, hr8⟩, hs.noprefix, hs.nosep.sep0, hs.expRadix⟩

theorem syntax_to_parse_r (c : Cfg) (hd : c.debug = false)
    (hclass : c.feats.format = false ∨ SepPrefixFree c.fmt) (hr8 : c.feats.powerOfTwo = false → c.mantissaRadix ≤ 10)
    (o : POpts) (isPartial : Bool) (s : List Nat) (fv : Bool) (n : Number) (cnt : Nat)
    (hp : parseFloatSyntax c o isPartial s fv = .ok (.number n cnt)) :
    ∃ (p : Bool) (b : Bytes) (neg : Bool) (cnt' : Nat), b.slc = s ∧ parseNumber c p o b neg fv = .ok (n, cnt') := by
  obtain ⟨hS, hpre, hsep, hre⟩ := relClass_of_r c hd hclass hr8
  have hns : ∀ l, NoSep c l := noSep_of_sep_zero c hsep
  unfold parseFloatSyntax at hp
  simp only [bind, Except.bind] at hp
  cases hsg : parseMantissaSign c (Bytes.new s) with
  | error e => rw [hsg] at hp; cases hp
  | ok r1 =>
    rw [hsg] at hp
    simp only at hp
    have hslc1 : r1.2.slc = s := parseSign_slc c hd _ _ _ _ _ r1 hsg
    cases hic : isConsumed c .integer r1.2 with
    | error e => rw [hic] at hp; cases hp
    | ok r2 =>
      rw [hic] at hp
      simp only at hp
      have hsame := isConsumed_same c hS r1.2 (hns _) r2 hic
      have hslc2 : r2.2.slc = s := by rw [hsame, hslc1]
      have key : ∀ p cnt', parseNumber c p o r2.2 r1.1 fv = .ok (n, cnt') →
          ∃ (p : Bool) (b : Bytes) (neg : Bool) (cnt' : Nat), b.slc = s ∧ parseNumber c p o b neg fv = .ok (n, cnt') :=
        fun p cnt' hpn => ⟨p, r2.2, r1.1, cnt', hslc2, hpn⟩
      split at hp
      · split at hp <;> cases hp
      · split at hp
        · -- partial parser
          cases hpn : parseNumber c true o r2.2 r1.1 fv with
          | ok v =>
            rw [hpn] at hp
            simp only [pure, Except.pure, Except.ok.injEq, Parsed.number.injEq] at hp
            exact key true v.2 (by rw [hpn, ← hp.1])
          | error e =>
            rw [hpn] at hp
            cases e with
            | err k i =>
              simp only at hp
              cases hsp : parsePositiveSpecial c o r2.2 with
              | error e2 => rw [hsp] at hp; cases hp
              | ok sp =>
                rw [hsp] at hp
                cases sp with
                | none => cases hp
                | some v => simp [pure, Except.pure] at hp
            | panic t => cases hp
            | fault t => cases hp
        · -- complete parser
          cases hpc : parseCompleteNumber c o r2.2 r1.1 fv with
          | ok v =>
            rw [hpc] at hp
            simp only [pure, Except.pure, Except.ok.injEq, Parsed.number.injEq] at hp
            unfold parseCompleteNumber at hpc
            simp only [bind, Except.bind] at hpc
            cases hpn : parseNumber c false o r2.2 r1.1 fv with
            | error e => rw [hpn] at hpc; cases hpc
            | ok w =>
              rw [hpn] at hpc
              simp only at hpc
              split at hpc
              · simp only [pure, Except.pure, Except.ok.injEq] at hpc
                exact key false w.2 (by rw [hpn, ← hp.1, ← hpc])
              · cases hpc
          | error e =>
            rw [hpc] at hp
            cases e with
            | err k i =>
              simp only at hp
              cases hsp : parseSpecialComplete c o r2.2 with
              | error e2 => rw [hsp] at hp; cases hp
              | ok sp =>
                rw [hsp] at hp
                cases sp with
                | none => cases hp
                | some v => simp [pure, Except.pure] at hp
            | panic t => cases hp
            | fault t => cases hp

/-- `manyClosed`'s second zero count, by cases on where the integer digits end -/
theorem zfTerm_cases_r (r : Nat) (hr2 : 2 ≤ r) (o : POpts) (hdp : charToDigit o.dp r = none) (s : List Nat) (i : Nat) :
    let rest := s.drop i
    let nI := (digitsPrefix r rest).length
    let zi := zerosPrefix rest
    let zf := zerosPrefix (s.drop (if (s[i + zi]? == some o.dp) = true then i + zi + 1 else i + zi))
    (zi < nI → zf = 0) ∧
    (zi = nI → (s[i + nI]? == some o.dp) = true → zf = zerosPrefix (s.drop (i + nI + 1))) ∧
    (zi = nI → ¬ (s[i + nI]? == some o.dp) = true → zf = 0) := by
  intro rest nI zi zf
  have hget : ∀ j, s[i + j]? = rest[j]? := fun j => by simp only [rest, List.getElem?_drop]
  have hdrop : ∀ j, s.drop (i + j) = rest.drop j := fun j => by simp only [rest, List.drop_drop]
  refine ⟨?_, ?_, ?_⟩
  · intro hlt
    have hnotdp : ¬ (s[i + zi]? == some o.dp) = true := by
      intro hc
      rw [hget] at hc
      have hx : rest[zi]? = some o.dp := by simpa using hc
      have := in_run r rest zi o.dp hlt hx
      rw [hdp] at this; cases this
    simp only [zf, if_neg hnotdp, hdrop]
    exact zerosPrefix_drop_self rest
  · intro he hpt
    simp only [zf, he, if_pos hpt]
  · intro he hpt
    simp only [zf, he, if_neg hpt, hdrop]
    -- the byte after the digit run is not a digit, so not `'0'`
    cases hh : (rest.drop nI) with
    | nil => exact zp_nil
    | cons x xs =>
      have := after_run r rest x (by simp only [nI] at hh; rw [hh]; rfl)
      have hx : x ≠ 48 := by
        intro h48; rw [h48, charToDigit_48 (by omega)] at this; cases this
      exact zp_cons_ne xs hx

theorem foldMantissa_small_r (r : Nat) (ds : List Nat) (h : ofDigits r ds < 2 ^ 64) : foldMantissa r 0 ds = ofDigits r ds := by
  by_cases hnil : ds = []
  · rw [hnil]; rfl
  · rw [foldMantissa_eq r _ 0 hnil, Nat.zero_mul, Nat.zero_add]
    have : horner r ds 0 = ofDigits r ds := rfl
    rw [this]
    exact Nat.mod_eq_of_lt (by unfold pow2_64; exact h)

/-- value of a non-empty prefix of a digit string whose first byte is a non-zero digit -/
theorem ofDigits_take_pos_r (r : Nat) (hr2 : 2 ≤ r) {bs : List Nat} {c0 : Nat} {cs : List Nat} (hbs : bs = c0 :: cs) (h48 : c0 ≠ 48)
    (hc : c0 < 256) (k : Nat) (hk : 0 < k) : r ^ ((bs.take k).length - 1) ≤ ofDigits r (dv r (bs.take k)) := by
  obtain ⟨k', rfl⟩ : ∃ k', k = k' + 1 := ⟨k - 1, by omega⟩
  rw [hbs, List.take_succ_cons]
  simp only [dv, List.map_cons, List.length_cons, Nat.add_sub_cancel]
  rw [ofDigits_cons, List.length_map]
  have hd := digitVal_ne_zero (radix := r) hc h48
  have : 1 * r ^ (cs.take k').length ≤ Binary.digitVal c0 r * r ^ (cs.take k').length :=
    Nat.mul_le_mul_right _ (by omega)
  omega

/-- **the truncated words**: whatever branch `manyCore` took, the `mantissa` is the value of the first stp significant
digits and the `exponent` places them: `exponent = N − stp + explicit − #fraction digits` (`N` significant digits) -/
theorem many_words_r (r stp : Nat) (hr2 : 2 ≤ r) (hstp : 1 ≤ stp) (hfit : r ^ stp ≤ 2 ^ 64) (int : List Nat) (frac : Option (List Nat)) (E : Int) (mant : Nat) (expo : Int)
    (hvi : ValidDigits r int) (hvf : ∀ fr, frac = some fr → ValidDigits r fr)
    (h256i : ∀ x ∈ int, x < 256) (h256f : ∀ fr, frac = some fr → ∀ x ∈ fr, x < 256)
    (hN : stp < (sigBytes int frac).length)
    (hcase :
      ((u64Spec r (int.drop (zerosPrefix int)) 0 stp).2.2 = 0 ∧
        mant = (u64Spec r (int.drop (zerosPrefix int)) 0 stp).2.1 ∧
        expo = ((int.length : Int) - ((zerosPrefix int + (u64Spec r (int.drop (zerosPrefix int)) 0 stp).1 : Nat) : Int)) + E) ∨
      ((u64Spec r (int.drop (zerosPrefix int)) 0 stp).2.2 ≠ 0 ∧ ∃ fd, frac = some fd ∧
        mant = (u64Spec r (fd.drop (if (u64Spec r (int.drop (zerosPrefix int)) 0 stp).2.1 = 0 then zerosPrefix fd else 0))
          (u64Spec r (int.drop (zerosPrefix int)) 0 stp).2.1 (u64Spec r (int.drop (zerosPrefix int)) 0 stp).2.2).2.1 ∧
        expo = (-(((if (u64Spec r (int.drop (zerosPrefix int)) 0 stp).2.1 = 0 then zerosPrefix fd else 0) +
          (u64Spec r (fd.drop (if (u64Spec r (int.drop (zerosPrefix int)) 0 stp).2.1 = 0 then zerosPrefix fd else 0))
            (u64Spec r (int.drop (zerosPrefix int)) 0 stp).2.1 (u64Spec r (int.drop (zerosPrefix int)) 0 stp).2.2).1 : Nat) : Int)) + E)) :
    mant = ofDigits r (dv r ((sigBytes int frac).take stp)) ∧
    expo = ((sigBytes int frac).length : Int) - stp + E - ((frac.getD []).length : Int) := by
  have hzle : zerosPrefix int ≤ int.length := by
    have := zerosPrefix_le_run (r := r) (by omega) int
    exact Nat.le_trans this (digitsPrefix_length_le r int)
  generalize hz : zerosPrefix int = z at *
  generalize hA : int.drop z = A at *
  have hAlen : A.length = int.length - z := by rw [← hA, List.length_drop]
  have hvA : ValidDigits r A := by rw [← hA]; exact valid_drop hvi z
  have hskip : Binary.skipZeros int = A := by rw [skipZeros_eq_drop, hz, hA]
  obtain ⟨s1, s2⟩ := u64Spec_step r A 0 stp
  have sv := u64Spec_value r A 0 stp
  -- small values do not wrap
  have hsmall : ∀ l : List Nat, ValidDigits r l → l.length ≤ stp → foldMantissa r 0 (dv r l) = ofDigits r (dv r l) := by
    intro l hv hl
    apply foldMantissa_small_r r
    have := ofDigits_dv_lt hv
    have h19 : r ^ l.length ≤ r ^ stp := Nat.pow_le_pow_right (by omega) hl
    omega
  have htake_len : ∀ (l : List Nat) k, (l.take k).length ≤ k := fun l k => by rw [List.length_take]; omega
  rcases hcase with ⟨hu0, hm, he⟩ | ⟨hu0, fd, hfd, hm, he⟩
  · -- all stp digits come from the integer part
    have hA19 : stp ≤ A.length := by omega
    have hAne : A ≠ [] := by intro h0; rw [h0] at hA19; simp at hA19; omega
    have hsig : sigBytes int frac = A ++ frac.getD [] := by
      unfold sigBytes
      cases frac with
      | none => simp [hskip]
      | some fr => simp only [hskip, if_neg hAne, Option.getD_some]
    rw [hsig, List.take_append_of_le_length hA19]
    refine ⟨?_, ?_⟩
    · rw [hm, sv, Nat.min_eq_left hA19, hsmall _ (valid_take hvA stp) (htake_len _ _)]
    · rw [he, s2, List.length_append, Nat.min_eq_left hA19]
      push_cast
      omega
  · have hAlt : A.length < stp := by omega
    have hk1 : min stp A.length = A.length := Nat.min_eq_right (by omega)
    rw [hk1, List.take_of_length_le (Nat.le_refl _), hsmall A hvA (by omega)] at sv
    have hvfd := hvf fd hfd
    by_cases hAnil : A = []
    · -- no significant integer digit: the fraction's leading zeros are skipped
      have hu1 : (u64Spec r A 0 stp).2.1 = 0 := by rw [sv, hAnil]; rfl
      rw [hu1] at hm he
      simp only [if_true] at hm he
      have hsig : sigBytes int frac = fd.drop (zerosPrefix fd) := by
        unfold sigBytes; rw [hfd]; simp only [hskip, hAnil, if_true, skipZeros_eq_drop]
      rw [hsig] at hN ⊢
      rw [s1, s2, hk1, hAnil] at hm he
      simp only [List.length_nil, Nat.sub_zero] at hm he
      obtain ⟨t1, t2⟩ := u64Spec_step r (fd.drop (zerosPrefix fd)) 0 stp
      have tv := u64Spec_value r (fd.drop (zerosPrefix fd)) 0 stp
      have hmin : min stp (fd.drop (zerosPrefix fd)).length = stp := Nat.min_eq_left (by omega)
      rw [hmin] at tv
      refine ⟨?_, ?_⟩
      · rw [hm, tv, hsmall _ (valid_take (valid_drop hvfd _) stp) (htake_len _ _)]
      · rw [he, t2, hmin, hfd]
        simp only [Option.getD_some, List.length_drop] at hN ⊢
        push_cast
        have hzf : zerosPrefix fd ≤ fd.length := by
          have := zerosPrefix_le_run (r := r) (by omega) fd
          exact Nat.le_trans this (digitsPrefix_length_le r fd)
        omega
    · -- some significant integer digits, the rest from the fraction
      obtain ⟨c0, cs, hAc⟩ : ∃ c0 cs, A = c0 :: cs := by
        cases A with
        | nil => exact absurd rfl hAnil
        | cons c0 cs => exact ⟨c0, cs, rfl⟩
      have h48 : c0 ≠ 48 := skipZeros_head (by rw [hskip, hAc])
      have hc0 : c0 < 256 := h256i c0 (by
        have : c0 ∈ int.drop z := by rw [hA, hAc]; exact List.mem_cons_self ..
        exact List.mem_of_mem_drop this)
      have hpos := ofDigits_take_pos_r r hr2 hAc h48 hc0 A.length (by rw [hAc]; simp)
      rw [List.take_of_length_le (Nat.le_refl _)] at hpos
      have hu1 : (u64Spec r A 0 stp).2.1 ≠ 0 := by
        rw [sv]
        have : 0 < r ^ (A.length - 1) := Nat.pow_pos (by omega)
        omega
      rw [if_neg hu1] at hm he
      simp only [List.drop_zero, Nat.zero_add] at hm he
      have hsig : sigBytes int frac = A ++ fd := by
        unfold sigBytes; rw [hfd]; simp only [hskip, if_neg hAnil]
      rw [hsig, List.length_append] at hN
      rw [hsig]
      rw [s1, s2, hk1] at hm he
      obtain ⟨t1, t2⟩ := u64Spec_step r fd (u64Spec r A 0 stp).2.1 (stp - A.length)
      have tv := u64Spec_value r fd (u64Spec r A 0 stp).2.1 (stp - A.length)
      have hmin : min (stp - A.length) fd.length = stp - A.length := Nat.min_eq_left (by omega)
      rw [hmin] at tv
      have htk : (A ++ fd).take stp = A ++ fd.take (stp - A.length) := by
        rw [List.take_append, List.take_of_length_le (by omega)]
      refine ⟨?_, ?_⟩
      · rw [hm, tv, sv, htk]
        have hvall : ValidDigits r (A ++ fd.take (stp - A.length)) := valid_append hvA (valid_take hvfd _)
        have hlen19 : (A ++ fd.take (stp - A.length)).length ≤ stp := by
          rw [List.length_append, List.length_take]; omega
        rw [← hsmall A hvA (by omega), ← foldMantissa_append, ← hsmall _ hvall hlen19]
        unfold dv; rw [List.map_append]
      · rw [he, t2, hmin, hfd, List.length_append]
        simp only [Option.getD_some]
        push_cast
        omega

/-- **the truncated `Number`** (decimal, separator/prefix-free, release): for an accepted `parse_number` with
`many_digits = true`, the slices are plain, there are more than stp significant digits, `mantissa = w` is the value of
the first stp of them (`r^18 ≤ w < r^stp`) and `exponent = q` is such that the exact value `V` of the digit content
satisfies `w·r^q ≤ V < (w+1)·r^q` -/
theorem number_truncated_of_parse_r (r stp : Nat) (hr2 : 2 ≤ r) (hstp : 1 ≤ stp) (hfit : r ^ stp ≤ 2 ^ 64) (c : Cfg) (hstep : u64Step c.feats r = stp) (hS : RelClass c) (hpre : c.basePrefix = 0) (hr : c.mantissaRadix = r)
    (bs k : Nat) (hk5 : k ≤ 5) (hrk : r = bs ^ k) (hb : c.exponentBase = bs) (hsc : ∀ x : Int, scaleVal c x = x * k) (hre : c.exponentRadix ≤ 255) (hbc : c.bytesContiguous = true)
    (isPartial : Bool) (o : POpts) (hdp : charToDigit o.dp r = none) (b : Bytes) (neg fv : Bool)
    (hn : NoSep c b.slc) (h256 : ∀ x ∈ b.slc, x < 256) (hlen : b.slc.length < 2 ^ 60) (n : Number) (cnt : Nat)
    (h : parseNumber c isPartial o b neg fv = .ok (n, cnt)) (hmany : n.manyDigits = true) :
    PlainSlices c n ∧ stp < (sigBytes n.integer n.fraction).length ∧
    n.mantissa = ofDigits r (dv r ((sigBytes n.integer n.fraction).take stp)) ∧
    r ^ (stp - 1) ≤ n.mantissa ∧ n.mantissa < r ^ stp ∧
    n.exponent = (((sigBytes n.integer n.fraction).length : Int) - stp - ((n.fraction.getD []).length : Int)) * k + n.explicitExp ∧
    -(2 ^ 40 : Int) ≤ n.explicitExp ∧ n.explicitExp ≤ 2 ^ 40 ∧
    n.integer.length ≤ b.slc.length ∧ (n.fraction.getD []).length ≤ b.slc.length := by
  obtain ⟨ip, fp, ht, hstart, hnI, hids, hnF, hfrac, _, _⟩ := parseNumber_split c hS hpre isPartial o b neg fv hn n cnt h
  obtain ⟨explicit, ex0, endIdx, x2, x3, hpos, hmc⟩ := tailOf_many c hS hre isPartial o neg ip fp
    (by rw [hstart]; exact hn) (by rw [hids]; exact (hn.drop _).take _)
    (by
      intro fd hfd
      rw [hfrac] at hfd
      split at hfd
      · injection hfd with hfd; rw [← hfd]; exact (hn.drop _).take _
      · cases hfd) n cnt ht hmany
  rw [hbc] at hmc
  simp only [Bool.not_true, Bool.and_false] at hmc
  obtain ⟨m1, m2, m3, mcase⟩ := manyCore_facts _ _ _ _ _ _ _ _ _ _ _ _ hpos n cnt hmc
  rw [hstart, hnI, hnF, hr, hstep] at hpos
  rw [hr, hstep, hids, hnI, hfrac] at mcase
  rw [hids] at m1
  rw [hfrac] at m2
  unfold fracRun hasPoint intEnd at *
  rw [hr] at hpos mcase m1 m2
  simp only [hsc] at mcase
  have hz := zfTerm_cases_r r hr2 o hdp b.slc b.index
  simp only at hz
  generalize hs : b.slc = s at *
  generalize hrest : s.drop b.index = rest at *
  generalize hdsI : digitsPrefix r rest = dsI at *
  obtain ⟨ri1, ri2, ri3, ri4⟩ := run_slice r rest
  rw [hdsI] at ri1 ri2 ri3 ri4
  have hzi : zerosPrefix rest ≤ dsI.length := by rw [← hdsI]; exact zerosPrefix_le_run (by omega) rest
  have hztake : zerosPrefix (rest.take dsI.length) = zerosPrefix rest := zerosPrefix_take rest dsI.length hzi
  have hmemrest : ∀ x ∈ rest, x < 256 := fun x hx => h256 x (by rw [← hrest] at hx; exact List.mem_of_mem_drop hx)
  have h60 : (2 : Nat) ^ 60 = 1152921504606846976 := by norm_num
  -- the two cases of the decimal point give the fraction slice
  obtain ⟨frac, hfr, hvf, h256f, hfd, hNgt⟩ :
      ∃ frac : Option (List Nat), n.fraction = frac ∧ (∀ fr, frac = some fr → ValidDigits r fr) ∧
        (∀ fr, frac = some fr → ∀ x ∈ fr, x < 256) ∧
        (numberLit c n).fracDigits = dv r (frac.getD []) ∧
        stp < (sigBytes (rest.take dsI.length) frac).length := by
    by_cases hpt : (s[b.index + dsI.length]? == some o.dp) = true
    · simp only [hpt, if_true] at m2 hpos mcase
      generalize hk : b.index + dsI.length + 1 = k at *
      obtain ⟨rf1, rf2, rf3, rf4⟩ := run_slice r (s.drop k)
      generalize hdsF : digitsPrefix r (s.drop k) = dsF at *
      refine ⟨some ((s.drop k).take dsF.length), m2, ?_, ?_, ?_, ?_⟩
      · intro fr hfr; injection hfr with hfr; rw [← hfr]; exact rf3
      · intro fr hfr x hx; injection hfr with hfr; rw [← hfr] at hx
        exact h256 x (List.mem_of_mem_drop (List.mem_of_mem_take hx))
      · show (match n.fraction with | some fd => sliceDigits c .fraction fd | none => []) = _
        rw [m2]
        simp only [Option.getD_some]
        rw [sliceDigits_run c hS .fraction _ ((hn.drop _).take _), hr, rf4, rf2]
      · -- more than stp significant digits
        unfold sigBytes
        simp only
        rw [skipZeros_eq_drop, hztake]
        by_cases hall : zerosPrefix rest = dsI.length
        · have hnil : List.drop (zerosPrefix rest) (List.take dsI.length rest) = [] := by
            apply List.eq_nil_of_length_eq_zero
            rw [List.length_drop, ri1]; omega
          rw [if_pos hnil, skipZeros_eq_drop, List.length_drop, rf1]
          have hzf : zerosPrefix (s.drop k) ≤ dsF.length := by rw [← hdsF]; exact zerosPrefix_le_run (by omega) _
          rw [zerosPrefix_take _ _ hzf]
          have := hz.2.1 hall hpt
          rw [this, hall] at hpos
          omega
        · have hne : List.drop (zerosPrefix rest) (List.take dsI.length rest) ≠ [] := by
            intro h0
            have := congrArg List.length h0
            rw [List.length_drop, ri1] at this
            simp at this; omega
          rw [if_neg hne, List.length_append, List.length_drop, ri1, rf1]
          have := hz.1 (by omega)
          rw [this] at hpos
          omega
    · simp only [hpt, Bool.false_eq_true, if_false, List.length_nil, Nat.add_zero] at m2 hpos mcase
      refine ⟨none, m2, (by intro fr hfr; cases hfr), (by intro fr hfr; cases hfr), ?_, ?_⟩
      · show (match n.fraction with | some fd => sliceDigits c .fraction fd | none => []) = _
        rw [m2]; rfl
      · unfold sigBytes
        simp only
        rw [skipZeros_eq_drop, hztake, List.length_drop, ri1]
        by_cases hall : zerosPrefix rest = dsI.length
        · have := hz.2.2 hall hpt
          rw [this, hall] at hpos
          omega
        · have := hz.1 (by omega)
          rw [this] at hpos
          omega
  have hint : (numberLit c n).intDigits = dsI := by
    show sliceDigits c .integer n.integer = dsI
    rw [m1, sliceDigits_run c hS .integer _ (by rw [← hrest]; exact (hn.drop _).take _), hr, ri4]
  have hps : PlainSlices c n := by
    refine ⟨by rw [hr, m1]; exact ri3, ?_, ?_, ?_, by rw [hint, hr, m1, ri2], by rw [hfd, hr, hfr]⟩
    · intro fr hfr'; rw [hr]; exact hvf fr (by rw [← hfr, hfr'])
    · intro x hx; rw [m1] at hx; exact hmemrest x (List.mem_of_mem_take hx)
    · intro fr hfr' x hx; exact h256f fr (by rw [← hfr, hfr']) x hx
  -- the words
  rw [m1, hfr]
  have mc' : _ := mcase
  rw [← m2, hfr] at mc'
  have hk0 : (k : Int) ≠ 0 := by
    intro h0
    have hk00 : k = 0 := by exact_mod_cast h0
    rw [hk00, Nat.pow_zero] at hrk
    omega
  have conv : ∀ X : Int, n.exponent = X * k + explicit → (n.exponent - explicit) / k + explicit = X + explicit := by
    intro X h
    rw [h, Int.add_sub_cancel, Int.mul_ediv_cancel _ hk0]
  obtain ⟨X, hX⟩ : ∃ X : Int, n.exponent = X * k + explicit := by
    rcases mc' with ⟨_, _, a3⟩ | ⟨_, fd, _, _, a4⟩
    · exact ⟨_, a3⟩
    · exact ⟨_, a4⟩
  obtain ⟨w1, w2⟩ := many_words_r r stp hr2 hstp hfit (rest.take dsI.length) frac explicit n.mantissa
    ((n.exponent - explicit) / k + explicit) ri3 hvf
    (fun x hx => hmemrest x (List.mem_of_mem_take hx)) h256f hNgt (by
      have e : ((rest.take dsI.length).length : Int) = (dsI.length : Int) := by rw [ri1]
      rw [e]
      rcases mc' with ⟨a1, a2, a3⟩ | ⟨a1, fd, a2, a3, a4⟩
      · exact Or.inl ⟨a1, a2, conv _ a3⟩
      · exact Or.inr ⟨a1, fd, a2, a3, conv _ a4⟩)
  have hXv : X = ((sigBytes (rest.take dsI.length) frac).length : Int) - stp - ((frac.getD []).length : Int) := by
    have := conv X hX
    rw [w2] at this
    omega
  have hvs : ValidDigits r (sigBytes (rest.take dsI.length) frac) := valid_sigBytes ri3 hvf
  have htlen : ((sigBytes (rest.take dsI.length) frac).take stp).length = stp := by
    rw [List.length_take]; omega
  have hwlt : n.mantissa < r ^ stp := by
    rw [w1]
    have := ofDigits_dv_lt (valid_take hvs stp)
    rwa [htlen] at this
  have hwge : r ^ (stp - 1) ≤ n.mantissa := by
    rw [w1]
    obtain ⟨c0, cs, hsg⟩ : ∃ c0 cs, sigBytes (rest.take dsI.length) frac = c0 :: cs := by
      cases hsg : sigBytes (rest.take dsI.length) frac with
      | nil => rw [hsg] at hNgt; simp at hNgt
      | cons c0 cs => exact ⟨c0, cs, rfl⟩
    have h48 := sigBytes_head hsg
    have hc0 : c0 < 256 := by
      have hm : c0 ∈ sigBytes (rest.take dsI.length) frac := by rw [hsg]; exact List.mem_cons_self ..
      rcases mem_sigBytes hm with h | ⟨fr, hfr', h⟩
      · exact hmemrest c0 (List.mem_of_mem_take h)
      · exact h256f fr hfr' c0 h
    have := ofDigits_take_pos_r r hr2 hsg h48 hc0 stp (by omega)
    rw [htlen] at this
    exact this
  have hl1 : (rest.take dsI.length).length ≤ s.length := by
    rw [List.length_take, ← hrest, List.length_drop]; omega
  have hl2 : (frac.getD []).length ≤ s.length := by
    rw [← hfr, m2]
    split
    · simp only [Option.getD_some, List.length_take, List.length_drop]; omega
    · simp
  exact ⟨hps, hNgt, w1, hwge, hwlt, by rw [hX, hXv, m3], by rw [m3]; exact x2, by rw [m3]; exact x3, hl1, hl2⟩

/-- **`NumberExact`, proved** (with the two side conditions the statement in `Props.C01Main` lacks: the decimal point of
the options is not a digit — implied by `is_valid_options_punctuation` — and the input is shorter than `2^60` bytes):
every untruncated decimal `Number` the syntax layer produces for a format without digit separator and base prefix is
exact, its digit slices are plain, and it has at most stp significant digits. -/
theorem number_exact_of_syntax_r (r stp : Nat) (hr2 : 2 ≤ r) (hstp : 1 ≤ stp) (hfit : r ^ stp ≤ 2 ^ 64) (c : Cfg) (hstep : u64Step c.feats r = stp) (hr8 : c.feats.powerOfTwo = false → c.mantissaRadix ≤ 10) (hd : c.debug = false)
    (hclass : c.feats.format = false ∨ SepPrefixFree c.fmt) (hr : c.mantissaRadix = r) (bs k : Nat) (hk5 : k ≤ 5) (hrk : r = bs ^ k) (hb : c.exponentBase = bs) (hsc : ∀ x : Int, scaleVal c x = x * k)
    (o : POpts) (hdp : charToDigit o.dp r = none) (isPartial : Bool) (s : List Nat) (fv : Bool)
    (h256 : ∀ x ∈ s, x < 256) (hlen : s.length < 2 ^ 60) (n : Number) (cnt : Nat)
    (hp : parseFloatSyntax c o isPartial s fv = .ok (.number n cnt)) (hmany : n.manyDigits = false) :
    NumberExactAt c n ∧ PlainSlices c n ∧ (sigBytes n.integer n.fraction).length ≤ stp ∧
    (-(5 * (s.length : Int)) - 2 ^ 40 ≤ n.exponent ∧ n.exponent ≤ 2 ^ 40) := by
  obtain ⟨hS, hpre, hsep, hre⟩ := relClass_of_r c hd hclass hr8
  obtain ⟨p, b, neg, cnt', hslc, hpn⟩ := syntax_to_parse_r c hd hclass hr8 o isPartial s fv n cnt hp
  have hres := number_exact_of_parse_r r stp hr2 hstp hfit c hstep hS hpre hr bs k hk5 hrk hb hsc hre p o hdp b neg fv (noSep_of_sep_zero c hsep _)
    (by rw [hslc]; exact h256) (by rw [hslc]; exact hlen) n cnt' hpn hmany
  rw [hslc] at hres
  exact hres

/-- the truncated counterpart: see `number_truncated_of_parse_r` -/
theorem number_truncated_of_syntax_r (r stp : Nat) (hr2 : 2 ≤ r) (hstp : 1 ≤ stp) (hfit : r ^ stp ≤ 2 ^ 64) (c : Cfg) (hstep : u64Step c.feats r = stp) (hr8 : c.feats.powerOfTwo = false → c.mantissaRadix ≤ 10) (hd : c.debug = false)
    (hclass : c.feats.format = false ∨ SepPrefixFree c.fmt) (hr : c.mantissaRadix = r) (bs k : Nat) (hk5 : k ≤ 5) (hrk : r = bs ^ k) (hb : c.exponentBase = bs) (hsc : ∀ x : Int, scaleVal c x = x * k)
    (o : POpts) (hdp : charToDigit o.dp r = none) (isPartial : Bool) (s : List Nat) (fv : Bool)
    (h256 : ∀ x ∈ s, x < 256) (hlen : s.length < 2 ^ 60) (n : Number) (cnt : Nat)
    (hp : parseFloatSyntax c o isPartial s fv = .ok (.number n cnt)) (hmany : n.manyDigits = true) :
    PlainSlices c n ∧ stp < (sigBytes n.integer n.fraction).length ∧
    n.mantissa = ofDigits r (dv r ((sigBytes n.integer n.fraction).take stp)) ∧
    r ^ (stp - 1) ≤ n.mantissa ∧ n.mantissa < r ^ stp ∧
    n.exponent = (((sigBytes n.integer n.fraction).length : Int) - stp - ((n.fraction.getD []).length : Int)) * k + n.explicitExp ∧
    -(2 ^ 40 : Int) ≤ n.explicitExp ∧ n.explicitExp ≤ 2 ^ 40 ∧
    n.integer.length ≤ s.length ∧ (n.fraction.getD []).length ≤ s.length := by
  obtain ⟨hS, hpre, hsep, hre⟩ := relClass_of_r c hd hclass hr8
  obtain ⟨p, b, neg, cnt', hslc, hpn⟩ := syntax_to_parse_r c hd hclass hr8 o isPartial s fv n cnt hp
  have hres := number_truncated_of_parse_r r stp hr2 hstp hfit c hstep hS hpre hr bs k hk5 hrk hb hsc hre (by simp [Cfg.bytesContiguous, hsep]) p o hdp b neg fv
    (noSep_of_sep_zero c hsep _) (by rw [hslc]; exact h256) (by rw [hslc]; exact hlen) n cnt' hpn hmany
  rw [hslc] at hres
  exact hres


/-! ## the decimal point of valid options is not a digit of the mantissa radix -/

theorem charToValidDigit_mono {ch r R : Nat} (hch : ch < 256) (hle : r ≤ R) (h : R ≤ charToValidDigit ch R) :
    r ≤ charToValidDigit ch r := by
  unfold charToValidDigit at h ⊢
  split_ifs at h ⊢ <;> omega

theorem charToDigit_none_mono {ch r R : Nat} (hch : ch < 256) (hle : r ≤ R) (h : charToDigit ch R = none) :
    charToDigit ch r = none := by
  unfold charToDigit at h ⊢
  dsimp only at h ⊢
  split at h
  · cases h
  · rename_i hge
    rw [if_neg (by have := charToValidDigit_mono hch hle (by omega); omega)]

theorem dp_not_digit_r (feats : Features) (fmt : Format) (o : POpts)
    (hv : isValidOptionsPunctuation feats fmt o.exp o.dp = true) : charToDigit o.dp fmt.mantissaRadix = none := by
  unfold isValidOptionsPunctuation at hv
  split at hv
  · cases hv
  · rename_i hc
    simp only [Bool.or_eq_true, Bool.not_eq_true', not_or, Bool.not_eq_false] at hc
    have h1 := hc.1
    unfold isValidControl isValidOptionalControl at h1
    simp only [Bool.and_eq_true, decide_eq_true_eq, Option.isNone_iff_eq_none, Bool.or_eq_true] at h1
    obtain ⟨hne0, ⟨⟨hnone, _⟩, _⟩, hasc⟩ := h1
    have hlt : o.dp < 256 := by
      rcases hasc with h | h
      · unfold isValidAscii at h
        simp only [Bool.or_eq_true, Bool.and_eq_true, decide_eq_true_eq] at h
        omega
      · omega
    exact charToDigit_none_mono hlt (by split <;> omega) hnone

end LexVerif.Props.C05Number
