import LexVerif.Proof.Tables.LemireNeg
import LexVerif.Proof.Tables.LemirePos
import LexVerif.Proof.Tables.SmallRadix
import LexVerif.Proof.Tables.SmallCompact
import LexVerif.Proof.Tables.SmallDefault
import LexVerif.Proof.Tables.Limits
import LexVerif.Proof.Tables.LargePowers
import LexVerif.Proof.Tables.BellRadixA
import LexVerif.Proof.Tables.BellRadixB
import LexVerif.Proof.Tables.BellRadixC
import LexVerif.Proof.Tables.BellCompactA
import LexVerif.Proof.Tables.BellCompactB
import LexVerif.Proof.Tables.BellCompactC
import LexVerif.Proof.Tables.BellLog2RadixA
import LexVerif.Proof.Tables.BellLog2RadixB
import LexVerif.Proof.Tables.BellLog2RadixC
import LexVerif.Proof.Tables.BellLog2CompactA
import LexVerif.Proof.Tables.BellLog2CompactB
import LexVerif.Proof.Tables.BellLog2CompactC
import LexVerif.Proof.Tables.FloatConsts
/-!
# Props.TablesParse — the R tie of the string→float side (C01, C05, C19)

Every pre-computed table, `match radix` dispatch function, limit and constant the float parser depends
on — as the crate compiled from the *current* `/repo` contains it (`Gen.*`, regenerated on every run by
`extractors/parse_tables.py`) — equals its mathematical closed form (`Spec.PowerTables`, predicates in
`Proof/Tables/*Defs.lean`) on **every** row. The heavy kernel evaluations live in
`Proof/Tables/*.lean` (one module per chunk so that lake checks them in parallel); this module restates
them as `∀` statements. A changed table entry or dispatch arm makes the corresponding
`Proof.Tables` theorem fail; `#eval tableBad …` / `radixBad …` then names the row.

Feature sets: `radix` (= `std,radix`), `compact` (= `std,compact,radix`), `default` (= `std`).
Known deviations kept explicit: Bellerophon mantissas are
truncated rather than nearest (witness), `SMALLEST_POWER_OF_TEN` of `f32` is not tight.
-/
namespace LexVerif.Props.TablesParse
open LexVerif.Spec LexVerif.Spec.PowerTables LexVerif.Gen LexVerif.Proof.Tables

/-! ## Eisel–Lemire -/

/-- All 651 rows of `POWER_OF_FIVE_128`: `row.0·2^64 + row.1 = lemireRow (−342 + i)`. -/
theorem lemire_table : ∀ i (h : i < Lemire.powerOfFive128.size),
    lemireRowOk i Lemire.powerOfFive128[i] = true :=
  of_tableAll_split 342 lemire_rows_neg lemire_rows_pos

theorem lemire_table_shape :
    Lemire.smallestPowerOfFive = -342 ∧ Lemire.largestPowerOfFive = 308 ∧ Lemire.nPowersOfFive = 651 ∧
    Lemire.powerOfFive128.size = 651 ∧ Lemire.powerTab.size = 651 := lemire_shape

/-- `lemire::power(q) = ⌊q·log2 10⌋ + 63` for every `q ∈ [−342, 308]`. -/
theorem lemire_power : ∀ i (h : i < Lemire.powerTab.size),
    Lemire.powerTab[i] = floorLog2Pow 10 (Lemire.smallestPowerOfFive + i) + 63 := by
  intro i h
  have := of_tableAll lemire_power_all i h
  simpa [lemirePowerOk] using this

/-! ## small powers -/

/-- `int_pow_fast_path(e, r) = r^e` for every entry of every radix; the table holds exactly
`0 ..= u64_power_limit(r)`, which covers `mantissa_limit(r)`. -/
def IntPowStmt (S : SmallSet) : Prop :=
    ∀ r ∈ S.intRadices, (S.intPow r).size = S.u64PowerLimit r + 1 ∧
      S.f64MantissaLimit r < ((S.intPow r).size : Int) ∧
      ∀ e (he : e < (S.intPow r).size), (S.intPow r)[e] = r ^ e ∧ (S.intPow r)[e] < 2 ^ 64

theorem intPow_of {S : SmallSet} (h : S.intRadices.all (intPowTableOk S) = true) : IntPowStmt S := by
  intro r hr
  have h1 := (List.all_eq_true.mp h) r hr
  simp only [intPowTableOk, Bool.and_eq_true, beq_iff_eq, decide_eq_true_eq] at h1
  refine ⟨h1.1.2, h1.2, ?_⟩
  intro e he
  have := of_tableAll h1.1.1 e he
  simpa [intPowOk] using this

/-- `pow_fast_path(e, r)`: the bit pattern is `roundNE (r^e)` and decodes to exactly `r^e` for
`e ≤ exponent_limit(r).1` (all of which the table holds), padding `0.0` beyond (`floatPowOk`). -/
def FloatPowStmt (S : SmallSet) (f : Fmt) : Prop :=
    ∀ r ∈ S.radices, (S.exponentLimit f r).2 < ((S.floatPow f r).size : Int) ∧
      ∀ e (he : e < (S.floatPow f r).size),
        floatPowOk f (S.exponentLimit f r).2 r e (S.floatPow f r)[e] = true

theorem floatPow_of {S : SmallSet} {f : Fmt} (h : S.radices.all (floatPowTableOk S f) = true) :
    FloatPowStmt S f := by
  intro r hr
  have h1 := (List.all_eq_true.mp h) r hr
  simp only [floatPowTableOk, Bool.and_eq_true, decide_eq_true_eq] at h1
  exact ⟨h1.2, of_tableAll h1.1⟩

/-- what `floatPowOk` says for an exponent the fast path may use -/
theorem floatPowOk_inRange {f : Fmt} {hi : Int} {r e v : Nat} (h : floatPowOk f hi r e v = true)
    (he : (e : Int) ≤ hi) : roundNE f (r ^ e) 1 = v ∧ exactlyRepr f v (r ^ e) = true := by
  simpa [floatPowOk, he] using h

/-- `get_small_int_power(e, r) = r^e` for every entry of every radix; the table holds exactly
`0 ..= u64_power_limit(r)` which covers `mantissa_limit(r)`. Feature set `radix`. -/
theorem small_int_powers_radix : IntPowStmt SmallSet.Radix := intPow_of small_int_pow_radix
/-- `f32::pow_fast_path(e, r)`: `roundNE (r^e)` and exactly `r^e` for `e ≤ exponent_limit(r).1`, padding `0.0` beyond. -/
theorem small_f32_powers_radix : FloatPowStmt SmallSet.Radix f32 := floatPow_of small_f32_pow_radix
theorem small_f64_powers_radix : FloatPowStmt SmallSet.Radix f64 := floatPow_of small_f64_pow_radix
/-- `compact`: no tables; `wrapping_pow` / `powf` / `powd` evaluated on the same ranges give the same exact values. -/
theorem small_int_powers_compact : IntPowStmt SmallSet.CompactRadix := intPow_of small_int_pow_compact
theorem small_f32_powers_compact : FloatPowStmt SmallSet.CompactRadix f32 := floatPow_of small_f32_pow_compact
theorem small_f64_powers_compact : FloatPowStmt SmallSet.CompactRadix f64 := floatPow_of small_f64_pow_compact
theorem small_int_powers_default : IntPowStmt SmallSet.Default := intPow_of small_int_pow_default
theorem small_f32_powers_default : FloatPowStmt SmallSet.Default f32 := floatPow_of small_f32_pow_default
theorem small_f64_powers_default : FloatPowStmt SmallSet.Default f64 := floatPow_of small_f64_pow_default

/-! ## limits, steps, max_digits -/

theorem all_mem {l : List Nat} {p : Nat → Bool} (h : l.all p = true) : ∀ r ∈ l, p r = true :=
  List.all_eq_true.mp h

/-- `exponent_limit`, `mantissa_limit`, `min/max_exponent_fast_path`, `max_exponent_disguised_fast_path`
for f32 and f64, every legal radix (closed forms: `exponentLimitOk`, `mantissaLimitOk`). -/
theorem limits_ok_radix : ∀ r ∈ SmallSet.Radix.radices,
    (limitsOk SmallSet.Radix f32 r && limitsOk SmallSet.Radix f64 r) = true := all_mem limits_radix
theorem limits_ok_compact : ∀ r ∈ SmallSet.CompactRadix.radices,
    (limitsOk SmallSet.CompactRadix f32 r && limitsOk SmallSet.CompactRadix f64 r) = true := all_mem limits_compact
theorem limits_ok_default : ∀ r ∈ SmallSet.Default.radices,
    (limitsOk SmallSet.Default f32 r && limitsOk SmallSet.Default f64 r) = true := all_mem limits_default
/-- `u32_power_limit(r) = ⌊log_r(2^32−1)⌋`, `u64_power_limit(r) = ⌊log_r(2^64−1)⌋`. -/
theorem power_limits_ok_radix : ∀ r ∈ SmallSet.Radix.intRadices,
    (powerLimitOk 32 r (SmallSet.Radix.u32PowerLimit r) && powerLimitOk 64 r (SmallSet.Radix.u64PowerLimit r)) = true :=
  all_mem power_limits_radix
theorem power_limits_ok_compact : ∀ r ∈ SmallSet.CompactRadix.intRadices,
    (powerLimitOk 32 r (SmallSet.CompactRadix.u32PowerLimit r) && powerLimitOk 64 r (SmallSet.CompactRadix.u64PowerLimit r)) = true :=
  all_mem power_limits_compact
theorem power_limits_ok_default : ∀ r ∈ SmallSet.Default.intRadices,
    (powerLimitOk 32 r (SmallSet.Default.u32PowerLimit r) && powerLimitOk 64 r (SmallSet.Default.u64PowerLimit r)) = true :=
  all_mem power_limits_default
/-- `u64_step(r) = ⌊log_r 2^64⌋`; `min_step`/`max_step` for 8…128 bits, signed and unsigned. -/
theorem steps_ok_radix : stepsOk SmallSet.Radix = true := steps_radix
theorem steps_ok_compact : stepsOk SmallSet.CompactRadix = true := steps_compact
theorem steps_ok_default : stepsOk SmallSet.Default = true := steps_default
/-- `max_digits(r)`: `None` for odd radices and powers of two, otherwise the documented formula, which
exceeds the significant-digit count of every midpoint by at least one. -/
theorem max_digits_ok_radix : ∀ r ∈ SmallSet.Radix.radices,
    (maxDigitsOk f32 r (SmallSet.Radix.f32MaxDigits r) && maxDigitsOk f64 r (SmallSet.Radix.f64MaxDigits r)) = true :=
  all_mem max_digits_radix
theorem max_digits_ok_compact : ∀ r ∈ SmallSet.CompactRadix.radices,
    (maxDigitsOk f32 r (SmallSet.CompactRadix.f32MaxDigits r) && maxDigitsOk f64 r (SmallSet.CompactRadix.f64MaxDigits r)) = true :=
  all_mem max_digits_compact
theorem max_digits_ok_default : ∀ r ∈ SmallSet.Default.radices,
    (maxDigitsOk f32 r (SmallSet.Default.f32MaxDigits r) && maxDigitsOk f64 r (SmallSet.Default.f64MaxDigits r)) = true :=
  all_mem max_digits_default

/-! ## large powers, split_radix -/

/-- `split_radix(r) = (odd, shift)`: `odd·2^shift = r` (`(0, log2 r)` for powers of two) and the large
power selected for `odd` denotes `odd^step`, for all 35 radices. (Needed the exclusion `r ≠ 12` until
/repo commit 64f91ce fixed `split_radix(12) = (6, 1)`, which selected `35^60` for base 6.) -/
theorem split_radix_ok : ∀ r, 2 ≤ r → r ≤ 36 → splitRadixOk LargeSet.Radix r = true :=
  of_radixAll split_radix_radix

/-- why the odd part matters: a base without its own arm selects the radix-35 power. -/
theorem large_power_fallthrough_witness :
    LargeSet.Radix.largeStep 6 = 60 ∧
    limbsVal 64 (LargeSet.Radix.largeLimbs 6).toList = 35 ^ 60 ∧
    limbsVal 64 (LargeSet.Radix.largeLimbs 6).toList ≠ 6 ^ 60 := large_power_fallthrough

theorem split_radix_ok_compact : ∀ r, 2 ≤ r → r ≤ 36 → splitRadixOk LargeSet.CompactRadix r = true :=
  of_radixAll split_radix_compact
theorem split_radix_ok_default : ∀ r ∈ [2, 5, 10], splitRadixOk LargeSet.Default r = true :=
  all_mem split_radix_default
/-- every odd base 3, 5, …, 35: the limbs denote `base^step`. -/
theorem large_powers_ok : ∀ b, 3 ≤ b → b ≤ 36 → b % 2 = 1 → largeEntryOk LargeSet.Radix b = true := by
  intro b h3 h36 hodd
  apply (List.all_eq_true.mp large_powers_radix) b
  simp only [List.mem_filter, List.mem_range, Bool.and_eq_true, decide_eq_true_eq, beq_iff_eq]
  omega
/-- `integral_binary_factor(r) = ⌈log2 r⌉` (non powers of two). -/
theorem binary_factor_ok : ∀ r, 2 ≤ r → r ≤ 36 → binaryFactorOk LargeSet.Radix r = true :=
  of_radixAll binary_factor_radix
theorem binary_factor_ok_compact : ∀ r, 2 ≤ r → r ≤ 36 → binaryFactorOk LargeSet.CompactRadix r = true :=
  of_radixAll binary_factor_compact
theorem binary_factor_ok_default : binaryFactorOk LargeSet.Default 10 = true := binary_factor_default
theorem bigint_sizes :
    bigintSizeOk LargeSet.Radix SmallSet.Radix = true ∧
    bigintSizeOk LargeSet.CompactRadix SmallSet.CompactRadix = true ∧
    bigintSizeOk LargeSet.Default SmallSet.Default = true :=
  ⟨bigint_size_radix, bigint_size_compact, bigint_size_default⟩

/-! ## Bellerophon -/

theorem three_ranges {p : Nat → Bool}
    (a : ((List.range 13).filter (2 ≤ ·)).all p = true)
    (b : ((List.range 25).filter (13 ≤ ·)).all p = true)
    (c : ((List.range 37).filter (25 ≤ ·)).all p = true) :
    ∀ r, 2 ≤ r → r ≤ 36 → p r = true := by
  intro r h2 h36
  by_cases h13 : r < 13
  · exact of_rangeAll a r h2 h13
  · by_cases h25 : r < 25
    · exact of_rangeAll b r (by omega) h25
    · exact of_rangeAll c r (by omega) (by omega)

/-- Every radix with a table (`radix` build: all but powers of two and 10): `small[i]`, `large[i]` are
the truncated normalised 64-bit mantissas of `r^i`, `r^(i·step−bias)`, the accessor exponents are the
true binary exponents, `small_int[i] = r^i`, `step = ⌊log_r 10^10⌋`, `step ∣ bias`, and the index range
covers binary64 (below: zero; above: infinity). Radices without a table get the empty tables. -/
theorem bellerophon_tables_radix :
    ∀ r, 2 ≤ r → r ≤ 36 → bellRadixOk false Bellerophon.Radix.powers r = true :=
  three_ranges bell_radix_a bell_radix_b bell_radix_c
/-- the same for `compact+radix`, which adds the decimal table. -/
theorem bellerophon_tables_compact :
    ∀ r, 2 ≤ r → r ≤ 36 → bellRadixOk true Bellerophon.CompactRadix.powers r = true :=
  three_ranges bell_compact_a bell_compact_b bell_compact_c
/-- `(log2·k) >> log2_shift = ⌊k·log2 r⌋` for every `k` in `[−bias, large.len·step − bias)`. -/
theorem bellerophon_log2_radix :
    ∀ r, 2 ≤ r → r ≤ 36 → bellRadixLog2Ok false Bellerophon.Radix.powers r = true :=
  three_ranges bell_log2_radix_a bell_log2_radix_b bell_log2_radix_c
theorem bellerophon_log2_compact :
    ∀ r, 2 ≤ r → r ≤ 36 → bellRadixLog2Ok true Bellerophon.CompactRadix.powers r = true :=
  three_ranges bell_log2_compact_a bell_log2_compact_b bell_log2_compact_c

/-- readable corollary: each large mantissa of the decimal (`compact`) table -/
theorem bellerophon_decimal_large : ∀ i (h : i < (Bellerophon.CompactRadix.powers 10).large.size),
    (Bellerophon.CompactRadix.powers 10).large[i] =
      (extTrunc (powQ 10 (i * 10 - 350)).1 (powQ 10 (i * 10 - 350)).2).1 := by
  have h := bellerophon_tables_compact 10 (by decide) (by decide)
  have hb : bellHasTable true 10 = true := by decide
  simp only [bellRadixOk, hb, if_true, Bool.and_eq_true] at h
  intro i hi
  have := of_tableAll h.1.2 i hi
  have hs : (Bellerophon.CompactRadix.powers 10).step = 10 := by decide
  have hbias : (Bellerophon.CompactRadix.powers 10).bias = 350 := by decide
  simpa [bellLargeOk, hs, hbias] using this

/-- the mantissas are truncations, **not** nearest (docs claim ≤ 0.5 ulp): 38 of 66 decimal rows differ. -/
theorem bellerophon_truncated_witness :
    bellLargeOk (Bellerophon.CompactRadix.powers 10) 10 0 ((Bellerophon.CompactRadix.powers 10).large[0]!) = true ∧
    bellLargeNearestOk (Bellerophon.CompactRadix.powers 10) 10 0 ((Bellerophon.CompactRadix.powers 10).large[0]!) = false ∧
    bellNotNearestCount Bellerophon.CompactRadix.powers 10 = 38 := bell_truncated_not_nearest

/-! ## float constants -/

theorem float_constants_f32 :
    layoutOk f32 FloatConstSet.F32 = true ∧ lemireConstsOk f32 FloatConstSet.F32 = true ∧
    fastPathConstsOk f32 FloatConstSet.F32 = true := float_consts_f32
theorem float_constants_f64 :
    layoutOk f64 FloatConstSet.F64 = true ∧ lemireConstsOk f64 FloatConstSet.F64 = true ∧
    fastPathConstsOk f64 FloatConstSet.F64 = true := float_consts_f64
theorem mask_functions :
    tableAll (fun n v => v == 2 ^ n - 1) FloatConsts.lowerNMask = true ∧ FloatConsts.lowerNMask.size = 65 ∧
    tableAll (fun n v => v == if n = 0 then 0 else 2 ^ (n - 1)) FloatConsts.lowerNHalfway = true ∧
    FloatConsts.lowerNHalfway.size = 65 ∧
    tableAll (fun n v => v == 2 ^ n) FloatConsts.nthBit = true ∧ FloatConsts.nthBit.size = 64 ∧
    FloatConsts.invalidFp = -2 ^ 15 := masks_ok

/-! non-vacuity: the quantified sets are the ones expected -/
example : SmallSet.Radix.radices.length = 35 ∧ SmallSet.CompactRadix.radices.length = 35 ∧
    SmallSet.Default.radices = [10] ∧ SmallSet.Default.intRadices = [5, 10] ∧
    SmallSet.Radix.tabled = true ∧ SmallSet.CompactRadix.tabled = false ∧
    LargeSet.Radix.hasLarge = true ∧ LargeSet.CompactRadix.hasLarge = false ∧
    (Bellerophon.Radix.powers 3).large.size = 69 ∧ (Bellerophon.CompactRadix.powers 10).large.size = 66 := by
  decide +kernel

end LexVerif.Props.TablesParse
