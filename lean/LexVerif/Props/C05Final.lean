import LexVerif.Props.C01Final
import LexVerif.Props.C05
import LexVerif.Proof.BinaryWide
/-!
# Props.C05Final — the non-decimal pipeline: `parseFloatAlgoModel slowModel = parseFloatModel` for every radix class

The analogue of `Props.C01Final.C01_decimal_full_proved` for the radices other than 10.

* **power-of-two radices** (2, 4, 8, 16, 32; exponent base a power of two — same base and the mixed-base pairs): the
  moderate path is `binary`. Untruncated mantissa: `binary` always decides and is right (`pipeline_binary`).
  Truncated: a valid answer is right (`binary_truncated_correct`), an undecided one is resolved by `slow_binary`
  (`slowBinary_correct`) — `numberToFloat_pow2_truncated`.
* **generic radices** (the 29 radices with Bellerophon tables, `radix` builds, `compact` or not): the moderate path is
  `bellerophon` in every build. A valid answer is right (`bellerophon_radix_sound`), an invalid-marked one is a two-sided
  estimate that brackets the value (`Proof.BellEstimate`, `Proof.BellBracket`) — `moderateContract_bell`; what
  `slow_radix` makes of it is the hypothesis `hslow` (`digit_comp` for the even radices: proved on its domain in
  `Props.C01Slow`; `byte_comp` for the odd ones: `Props.C05Bytes`).
-/
namespace LexVerif.Props.C05Final
open LexVerif.Spec LexVerif.Model LexVerif.Model.ParseFloatAlgo
open LexVerif.Proof.RoundNE LexVerif.Proof.ExtRound LexVerif.Proof.Pipeline LexVerif.Proof.Bell
open LexVerif.Props.C01 (IsLemireFloat IsI64 Bracket)
open LexVerif.Props.C01Main LexVerif.Props.C01SlowMain LexVerif.Props.C01Final LexVerif.Props.C05
open LexVerif.Proof.BinaryWide (ExpWide)

/-! ## generic radices: Bellerophon -/

/-- a generic radix of a `radix` build: one of the 29 radices with Bellerophon tables, exponent base = radix -/
structure GenericClass (c : Cfg) : Prop where
  radix : c.feats.radix = true
  mem : c.mantissaRadix ∈ bellRadicesRadix
  base : c.exponentBase = c.mantissaRadix

theorem generic_not_pow2 {r : Nat} (h : r ∈ bellRadicesRadix) : isPowerTwo r = false ∧ r ≠ 10 ∧ 2 ≤ r ∧ r ≤ 36 := by
  have hall : ∀ x ∈ bellRadicesRadix, isPowerTwo x = false ∧ x ≠ 10 ∧ 2 ≤ x ∧ x ≤ 36 := by decide
  exact hall r h

theorem backend_generic (feats : Features) (hr : feats.radix = true) {r : Nat} (h : r ∈ bellRadicesRadix) :
    backend feats r = .bellerophon := by
  obtain ⟨h2, h10, _, _⟩ := generic_not_pow2 h
  unfold backend
  rw [hr, h2]
  simp only [if_true, Bool.false_eq_true, if_false, h10]
  split
  · split <;> rfl
  · rfl

theorem isBellTable_generic (feats : Features) {r : Nat} (h : r ∈ bellRadicesRadix) :
    IsBellTable (Bellerophon.powersOf feats r) r := by
  unfold Bellerophon.powersOf IsBellTable
  split
  · exact Or.inr ⟨List.mem_cons_of_mem _ h, rfl⟩
  · exact Or.inl ⟨h, rfl⟩

theorem moderatePath_generic (c : Cfg) (G : GenericClass c) (F : FTy) (n : Num) :
    moderatePath c F n false = Bellerophon.bellerophon F (Bellerophon.powersOf c.feats c.mantissaRadix) n false := by
  unfold moderatePath
  rw [backend_generic _ G.radix G.mem]

theorem radixSet_of_radix (feats : Features) (hr : feats.radix = true) : IsRadixSet (smallSetOf feats) := by
  unfold smallSetOf IsRadixSet
  split
  · exact Or.inr rfl
  · rw [hr, Bool.true_or]; exact Or.inl rfl

theorem mem_radices {S : LexVerif.Proof.Tables.SmallSet} (hS : IsRadixSet S) {r : Nat} (h2 : 2 ≤ r) (h36 : r ≤ 36) :
    r ∈ S.radices := by
  rcases hS with h | h <;> subst h
  · have hall : ∀ x < 37, 2 ≤ x → x ∈ LexVerif.Proof.Tables.SmallSet.Radix.radices := by decide
    exact hall r (by omega) h2
  · have hall : ∀ x < 37, 2 ≤ x → x ∈ LexVerif.Proof.Tables.SmallSet.CompactRadix.radices := by decide
    exact hall r (by omega) h2

theorem bellFacts_generic (feats : Features) {r : Nat} (h : r ∈ bellRadicesRadix) :
    BellFacts r (Bellerophon.powersOf feats r) := by
  rcases isBellTable_generic feats h with ⟨hr, he⟩ | ⟨hr, he⟩
  · rw [he]; exact bellFacts_of (bellCheck_radix r hr)
  · rw [he]; exact bellFacts_of (bellCheck_compact r hr)

/-- **the moderate-path contract of the generic radices — unconditional**: `bellerophon` answers; a valid answer is the
correctly rounded `mantissa·radix^exponent`; an invalid-marked one brackets it -/
theorem moderateContract_bell {F : FTy} (hF : IsLemireFloat F) (c : Cfg) (G : GenericClass c)
    (n : Number) (hmany : n.manyDigits = false) (hw : n.mantissa < 2 ^ 64) : ModerateContract c F n := by
  obtain ⟨p, eb, lay⟩ := layout_of hF
  obtain ⟨_, _, h2, h36⟩ := generic_not_pow2 G.mem
  have hmp := moderatePath_generic c G F (numOf n)
  have hT := isBellTable_generic c.feats G.mem
  have hc := bellFacts_generic c.feats G.mem
  have hp53 : p ≤ 53 := by
    have hfmt := lay.fmt
    rcases hF with h | h <;> subst h
    · have h1 : FTy.f64.fmt.p = p := by rw [hfmt]
      have : FTy.f64.fmt.p = 53 := rfl
      omega
    · have h1 : FTy.f32.fmt.p = p := by rw [hfmt]
      have : FTy.f32.fmt.p = 24 := rfl
      omega
  cases hbel : Bellerophon.bellerophon F (Bellerophon.powersOf c.feats c.mantissaRadix) (numOf n) false with
  | panic => exact absurd hbel (bellerophon_no_panic_radix F _ _ hT (numOf n) false)
  | ok fp =>
    have hden := powFrac_den_pos (show 0 < c.mantissaRadix by omega) n.exponent n.mantissa
    have htv : TrueValue c.mantissaRadix (numOf n) (powFrac c.mantissaRadix n.exponent n.mantissa).1
        (powFrac c.mantissaRadix n.exponent n.mantissa).2 := by
      unfold TrueValue
      have e1 : (numOf n).manyDigits = false := hmany
      simp only [e1, Bool.false_eq_true, if_false]
      exact ⟨Nat.le_refl _, Nat.le_refl _⟩
    have hmw : (numOf n).manyDigits = true → 2 ^ 44 ≤ (numOf n).mantissa := by
      intro h; have e1 : (numOf n).manyDigits = false := hmany; rw [e1] at h; exact absurd h (by decide)
    refine ⟨fp, by rw [hmp, hbel], fun hv => ?_, fun hinv => ?_⟩
    · rw [G.base]
      exact bellerophon_radix_sound_untruncated F hF _ _ hT (numOf n) hmany hw hbel hv
    · rw [G.base]
      obtain ⟨_, _, hE⟩ := bellerophon_invalid_est lay hc (numOf n) hw hmw _ _ hden htv hbel hinv
      have e1 : (numOf n).manyDigits = false := hmany
      simp only [e1, Bool.false_eq_true, if_false, Nat.add_zero] at hE
      have h16 : 4 * 4 ≤ 2 ^ (64 - p) := by
        calc 4 * 4 ≤ 2 ^ 11 := by decide
          _ ≤ 2 ^ (64 - p) := Nat.pow_le_pow_right (by decide) (by omega)
      have h8 : 2 * 8 ≤ 2 ^ (64 - p) := by
        calc 2 * 8 ≤ 2 ^ 11 := by decide
          _ ≤ 2 ^ (64 - p) := Nat.pow_le_pow_right (by decide) (by omega)
      exact bracket_of_est2 lay 4 8 h16 h8 (by decide) _ _ _ hden hE

/-- **a generic-radix `Number`, untruncated**: fast path (`fastPath_exact_radix`), Bellerophon (`moderateContract_bell`);
`hslow`: what `slow_radix` returns for the bracketing estimate of an invalid-marked answer -/
theorem numberToFloat_generic_exact {F : FTy} (hF : IsLemireFloat F) (slow : SlowRadix) (c : Cfg) (G : GenericClass c)
    (n : Number) (hmany : n.manyDigits = false) (hx : NumberExactAt c n)
    (hslow : ∀ fp, moderatePath c F (numOf n) false = .ok fp → fp.exp < 0 →
      Bracket F fp (litFrac c.mantissaRadix c.exponentBase (numberLit c n)).1
        (litFrac c.mantissaRadix c.exponentBase (numberLit c n)).2 →
      extendedToFloat F (slow c F n { fp with exp := fp.exp - invalidFp }) =
        roundNE F.fmt (litFrac c.mantissaRadix c.exponentBase (numberLit c n)).1
          (litFrac c.mantissaRadix c.exponentBase (numberLit c n)).2) :
    numberToFloat slow c F n false = some (litBits F.fmt c.mantissaRadix c.exponentBase (numberLit c n)) := by
  obtain ⟨h2p, _, h2, h36⟩ := generic_not_pow2 G.mem
  obtain ⟨hw, _, hre⟩ := hx
  have hS := radixSet_of_radix c.feats G.radix
  apply numberToFloat_of_contracts slow hF c h2 h36 (by rw [G.base]; exact h2) n hmany hre
    (fastContract_radix hF c hS (mem_radices hS h2 h36) n) (moderateContract_bell hF c G n hmany hw)
  intro fp hm hneg hbr
  have hsp : slowPath slow c F n { fp with exp := fp.exp - invalidFp } =
      slow c F n { fp with exp := fp.exp - invalidFp } := by
    unfold slowPath
    rw [h2p, Bool.and_false]
    simp
  rw [hsp]
  exact hslow fp hm hneg hbr

/-- the booked truncation error of a mantissa of at least 55 bits is at most 513 units -/
theorem clz_small55 {w : Nat} (h1 : 2 ^ 55 ≤ w) (h2 : w < 2 ^ 64) : 2 * 2 ^ clz64 w + 1 ≤ 513 := by
  obtain ⟨_, _, hlt, _⟩ := LexVerif.Proof.BinaryCorrect.clz_norm (M := w) (by
    have := Nat.two_pow_pos 55; omega) h2
  have : 2 ^ 55 * 2 ^ clz64 w < 2 ^ 55 * 2 ^ 9 := by
    calc 2 ^ 55 * 2 ^ clz64 w ≤ w * 2 ^ clz64 w := Nat.mul_le_mul_right _ h1
      _ < 2 ^ 64 := hlt
      _ = 2 ^ 55 * 2 ^ 9 := by norm_num
  have h5 := Nat.lt_of_mul_lt_mul_left this
  have h4 : clz64 w < 9 := (Nat.pow_lt_pow_iff_right (by decide : 1 < 2)).mp h5
  have h16 : 2 ^ clz64 w ≤ 2 ^ 8 := Nat.pow_le_pow_right (by decide) (by omega)
  omega

/-- the booked truncation error of a mantissa of at least 54 bits is at most 1025 units -/
theorem clz_small54 {w : Nat} (h1 : 2 ^ 54 ≤ w) (h2 : w < 2 ^ 64) : 2 * 2 ^ clz64 w + 1 ≤ 1025 := by
  obtain ⟨_, _, hlt, _⟩ := LexVerif.Proof.BinaryCorrect.clz_norm (M := w) (by
    have := Nat.two_pow_pos 54; omega) h2
  have : 2 ^ 54 * 2 ^ clz64 w < 2 ^ 54 * 2 ^ 10 := by
    calc 2 ^ 54 * 2 ^ clz64 w ≤ w * 2 ^ clz64 w := Nat.mul_le_mul_right _ h1
      _ < 2 ^ 64 := hlt
      _ = 2 ^ 54 * 2 ^ 10 := by norm_num
  have h5 := Nat.lt_of_mul_lt_mul_left this
  have h4 : clz64 w < 10 := (Nat.pow_lt_pow_iff_right (by decide : 1 < 2)).mp h5
  have h16 : 2 ^ clz64 w ≤ 2 ^ 9 := Nat.pow_le_pow_right (by decide) (by omega)
  omega

/-- **a generic-radix `Number`, truncated mantissa** (at least 55 bits, as every `u64_step`-digit mantissa has): the value
of all the digits is a true value of the `Number` (`htv`); a valid answer of `bellerophon` is right, an invalid-marked one
brackets the value; `hslow`: what `slow_radix` returns for it -/
theorem numberToFloat_generic_truncated {F : FTy} (hF : IsLemireFloat F) (slow : SlowRadix) (c : Cfg) (G : GenericClass c)
    (n : Number) (hmany : n.manyDigits = true) (hw : n.mantissa < 2 ^ 64) (hw54 : 2 ^ 54 ≤ n.mantissa)
    (hw55 : F = FTy.f64 → 2 ^ 55 ≤ n.mantissa)
    (htv : TrueValue c.mantissaRadix (numOf n) (litFrac c.mantissaRadix c.exponentBase (numberLit c n)).1
      (litFrac c.mantissaRadix c.exponentBase (numberLit c n)).2)
    (hslow : ∀ fp, moderatePath c F (numOf n) false = .ok fp → fp.exp < 0 →
      Bracket F fp (litFrac c.mantissaRadix c.exponentBase (numberLit c n)).1
        (litFrac c.mantissaRadix c.exponentBase (numberLit c n)).2 →
      extendedToFloat F (slow c F n { fp with exp := fp.exp - invalidFp }) =
        roundNE F.fmt (litFrac c.mantissaRadix c.exponentBase (numberLit c n)).1
          (litFrac c.mantissaRadix c.exponentBase (numberLit c n)).2) :
    numberToFloat slow c F n false = some (numberBits c F.fmt n) := by
  obtain ⟨p, eb, lay⟩ := layout_of hF
  obtain ⟨h2p, _, h2, h36⟩ := generic_not_pow2 G.mem
  have hb2 : 2 ≤ c.exponentBase := by rw [G.base]; exact h2
  have hmp := moderatePath_generic c G F (numOf n)
  have hT := isBellTable_generic c.feats G.mem
  have hc := bellFacts_generic c.feats G.mem
  have hp53 : p ≤ 53 := by
    have hfmt := lay.fmt
    rcases hF with h | h <;> subst h
    · have h1 : FTy.f64.fmt.p = p := by rw [hfmt]
      have : FTy.f64.fmt.p = 53 := rfl
      omega
    · have h1 : FTy.f32.fmt.p = p := by rw [hfmt]
      have : FTy.f32.fmt.p = 24 := rfl
      omega
  have hlitpos := litFrac_den_pos (show 0 < c.mantissaRadix by omega) (show 0 < c.exponentBase by omega) (numberLit c n)
  have hmw : (numOf n).manyDigits = true → 2 ^ 44 ≤ (numOf n).mantissa := by
    intro _
    have : (2 : Nat) ^ 44 ≤ 2 ^ 54 := by decide
    exact Nat.le_trans this hw54
  -- the specification side
  have hbits : numberBits c F.fmt n = litBits F.fmt c.mantissaRadix c.exponentBase (numberLit c n) := by
    unfold numberBits numberLit
    simp only [hmany, if_true]
    rfl
  have hlit := litBits_exact lay h2 (by omega) hb2 (numberLit c n) (numberLit_digits_lt c n)
  have hfast : FastPath.tryFastPath (smallSetOf c.feats) F c.mantissaRadix c.exponentBase (numOf n) = .none := by
    unfold FastPath.tryFastPath FastPath.isFastPath
    have : (numOf n).manyDigits = true := hmany
    simp [this]
  cases hbel : Bellerophon.bellerophon F (Bellerophon.powersOf c.feats c.mantissaRadix) (numOf n) false with
  | panic => exact absurd hbel (bellerophon_no_panic_radix F _ _ hT (numOf n) false)
  | ok fp =>
    have hm : moderatePath c F (numOf n) false = .ok fp := by rw [hmp, hbel]
    unfold numberToFloat
    rw [hfast]
    simp only
    rw [hm]
    simp only
    by_cases hv : 0 ≤ fp.exp
    · have hsound := bellerophon_radix_sound F hF _ _ hT (numOf n) hw hmw _ _ hlitpos htv hbel hv
      rw [if_neg (by omega), toNative_eq F fp n.isNegative hsound, hbits, hlit]
      rfl
    · have hinv : fp.exp < 0 := by omega
      obtain ⟨_, _, hE⟩ := bellerophon_invalid_est lay hc (numOf n) hw hmw _ _ hlitpos htv hbel hinv
      obtain ⟨CH, hch, h8, hCH0⟩ : ∃ CH, (8 + if (numOf n).manyDigits then 2 * 2 ^ clz64 (numOf n).mantissa + 1 else 0) ≤ CH ∧
          2 * CH ≤ 2 ^ (64 - p) ∧ 0 < CH := by
        have e1 : (numOf n).manyDigits = true := hmany
        have e2 : (numOf n).mantissa = n.mantissa := rfl
        rw [e1, if_pos rfl, e2]
        rcases hF with h | h
        · refine ⟨521, ?_, ?_, by decide⟩
          · have := clz_small55 (hw55 h) hw; omega
          · calc 2 * 521 ≤ 2 ^ 11 := by decide
              _ ≤ 2 ^ (64 - p) := Nat.pow_le_pow_right (by decide) (by omega)
        · refine ⟨1033, ?_, ?_, by decide⟩
          · have := clz_small54 hw54 hw; omega
          · have hp24 : p = 24 := by
              have hfmt := lay.fmt
              subst h
              have h1 : FTy.f32.fmt.p = p := by rw [hfmt]
              have : FTy.f32.fmt.p = 24 := rfl
              omega
            calc 2 * 1033 ≤ 2 ^ 40 := by decide
              _ ≤ 2 ^ (64 - p) := Nat.pow_le_pow_right (by decide) (by omega)
      have h16 : 4 * 4 ≤ 2 ^ (64 - p) := by
        calc 4 * 4 ≤ 2 ^ 11 := by decide
          _ ≤ 2 ^ (64 - p) := Nat.pow_le_pow_right (by decide) (by omega)
      have hbr : Bracket F fp (litFrac c.mantissaRadix c.exponentBase (numberLit c n)).1
          (litFrac c.mantissaRadix c.exponentBase (numberLit c n)).2 :=
        bracket_of_est2 lay 4 CH h16 h8 hCH0 _ _ _ hlitpos (C01Compact.est2_mono hE hch)
      have hsp : slowPath slow c F n { fp with exp := fp.exp - invalidFp } =
          slow c F n { fp with exp := fp.exp - invalidFp } := by
        unfold slowPath
        rw [h2p, Bool.and_false]
        simp
      rw [if_pos hinv, hsp, toNative_eq F _ n.isNegative (hslow fp hm hinv hbr), hbits, hlit]
      rfl

/-! ## power-of-two radices: `binary` and `slow_binary` -/

theorem binary_no_panic (F : FTy) (b : Nat) (n : Num) (lossy : Bool) : Binary.binary F b n lossy ≠ .panic := by
  unfold Binary.binary
  simp only []
  repeat' split
  all_goals simp

/-- `binary` does not read the sign -/
theorem binary_sign (F : FTy) (b m : Nat) (e : Int) (neg many lossy : Bool) :
    Binary.binary F b ⟨m, e, neg, many⟩ lossy = Binary.binary F b ⟨m, e, false, many⟩ lossy := rfl

/-! ## `binary` outside `±2^27` (the saturating `calculate_power2` of /repo commit 220c4cc) -/

/-- outside `±2^27`, inside `ExpWide`: `binary` answers `+∞` / `0`, and so rounds every value `≥ base^e` /
`< 2^64·base^e` (all values a mantissa word `1 ≤ M < 2^64`, truncated or not, can stand for) -/
theorem binary_out_of_range {F : FTy} (hF : IsLemireFloat F) {base : Nat} (hb : IsPow2 base) (n : Num) (lossy : Bool)
    (h0 : n.mantissa ≠ 0) (hm : n.mantissa < 2 ^ 64) (he : ExpWide n.exponent) (hout : ¬ ExpInRange n.exponent) :
    ∃ fp, Binary.binary F base n lossy = .ok fp ∧ 0 ≤ fp.exp ∧
      ∀ num den, 0 < den → (0 < n.exponent → base ^ n.exponent.toNat * den ≤ num) →
        (n.exponent < 0 → num * base ^ (-n.exponent).toNat < 2 ^ 64 * den) →
        extendedToFloat F fp = roundNE F.fmt num den := by
  obtain ⟨p, eb, lay⟩ := layout_of hF
  obtain ⟨lg, hlg⟩ := LexVerif.Proof.BinaryCorrect.isPow2Base_of base hb
  have h27 : (2 : Int) ^ 27 = 134217728 := by decide
  have h59 : (2 : Int) ^ 59 = 576460752303423488 := by decide
  have h27n : (2 : Nat) ^ 27 = 134217728 := by decide
  have h59n : (2 : Nat) ^ 59 = 576460752303423488 := by decide
  unfold ExpInRange at hout
  obtain ⟨he1, he2⟩ := he
  by_cases hhi : (2 ^ 27 : Int) < n.exponent
  · refine ⟨_, LexVerif.Proof.BinaryWide.binary_hi lay hb n lossy h0 hm hhi he2, ?_, ?_⟩
    · show 0 ≤ F.C.infinitePower; rw [lay.infp]; omega
    · intro num den hd h1 _
      rw [LexVerif.Proof.BinaryCorrect.ext_infinite lay]
      exact (LexVerif.Proof.BinaryWide.roundNE_hi lay hlg n.exponent.toNat (by omega) (by omega) num den hd
        (h1 (by omega))).symm
  · have hlo : n.exponent < -(2 ^ 27 : Int) := by omega
    refine ⟨_, LexVerif.Proof.BinaryWide.binary_lo lay hb n lossy h0 hm he1 hlo, Int.le_refl _, ?_⟩
    intro num den hd _ h2
    rw [LexVerif.Proof.BinaryCorrect.ext_zero lay]
    exact (LexVerif.Proof.BinaryWide.roundNE_lo lay hlg (-n.exponent).toNat (by omega) num den hd (h2 (by omega))).symm

/-- **power-of-two radices, untruncated mantissa, every exponent of `ExpWide`**: `pipeline_binary` inside `±2^27`, the
saturated answers `+∞` / `0` outside -/
theorem pipeline_binary_wide (slow : SlowRadix) {F : FTy} (hF : IsLemireFloat F) (c : Cfg)
    (hp : c.feats.powerOfTwo = true) (hr : IsPow2 c.mantissaRadix) (hb : IsPow2 c.exponentBase)
    (n : Number) (hmany : n.manyDigits = false) (hw : n.mantissa < 2 ^ 64) (he : ExpWide n.exponent)
    (hx : RatEq (powFrac c.exponentBase n.exponent n.mantissa)
      (litFrac c.mantissaRadix c.exponentBase (numberLit c n))) :
    numberToFloat slow c F n false = some (litBits F.fmt c.mantissaRadix c.exponentBase (numberLit c n)) := by
  by_cases hin : ExpInRange n.exponent
  · exact pipeline_binary slow hF c hp hr hb n hmany hw hin hx
  obtain ⟨p, eb, lay⟩ := layout_of hF
  have hS := radixSet_of_pow2 c.feats hp
  have hr2 : 2 ≤ c.mantissaRadix ∧ c.mantissaRadix ≤ 36 := by
    rcases hr with h | h | h | h | h <;> rw [h] <;> omega
  have hb2 : 2 ≤ c.exponentBase := by
    rcases hb with h | h | h | h | h <;> rw [h] <;> omega
  have hmp : moderatePath c F (numOf n) false = Binary.binary F c.exponentBase (numOf n) false := by
    unfold moderatePath
    rw [backend_binary _ hp hr]
  by_cases h0 : n.mantissa = 0
  · apply numberToFloat_decided slow hF c hr2.1 hr2.2 hb2 n hmany hx
      (fastContract_radix hF c hS (pow2_mem_radices hS hr) n) (fp := ⟨0, 0⟩) ?_ (Int.le_refl _) ?_
    · rw [hmp, LexVerif.Proof.BinaryCorrect.binary_eq]
      have e : (numOf n).mantissa = 0 := h0
      rw [if_pos e]
    · rw [h0, LexVerif.Proof.BinaryCorrect.powFrac_zero, LexVerif.Proof.BinaryCorrect.ext_zero lay]
  · obtain ⟨fp, hbin, hv, hval⟩ := binary_out_of_range hF hb (numOf n) false h0 hw he hin
    apply numberToFloat_decided slow hF c hr2.1 hr2.2 hb2 n hmany hx
      (fastContract_radix hF c hS (pow2_mem_radices hS hr) n) (fp := fp) (by rw [hmp]; exact hbin) hv
    have e3 : (numOf n).exponent = n.exponent := rfl
    rw [e3] at hval
    apply hval _ _ (powFrac_den_pos (by omega) _ _)
    · intro hpos
      unfold powFrac
      rw [if_pos (by omega), Nat.mul_one]
      exact Nat.le_mul_of_pos_left _ (Nat.pos_of_ne_zero h0)
    · intro hneg
      unfold powFrac
      rw [if_neg (by omega)]
      exact Nat.mul_lt_mul_of_pos_right hw (Nat.pow_pos (by omega))

/-- what the syntax layer owes for a **truncated** `Number` of a power-of-two radix: the mantissa word holds the first
`u64_step` significant digits, more follow, and the value of the digit slices with the explicit exponent is
`(all significant digits)·base^exponent / radix^(number of digits beyond u64_step)` -/
structure TruncPow2At (c : Cfg) (n : Number) : Prop where
  exp : ExpWide n.exponent
  valid : ∀ x ∈ n.integer ++ n.fraction.getD [], x < 256 ∧ Binary.digitVal x c.mantissaRadix < c.mantissaRadix
  long : (smallSetOf c.feats).u64Step c.mantissaRadix < (sigDigits c.mantissaRadix n.integer n.fraction).length
  mant : n.mantissa = LexVerif.Proof.SlowBinary.valOf c.mantissaRadix 0
    ((sigDigits c.mantissaRadix n.integer n.fraction).take ((smallSetOf c.feats).u64Step c.mantissaRadix))
  value : RatEq (litFrac c.mantissaRadix c.exponentBase (numberLit c n))
    ((powFrac c.exponentBase n.exponent
        (LexVerif.Proof.SlowBinary.valOf c.mantissaRadix 0 (sigDigits c.mantissaRadix n.integer n.fraction))).1,
      (powFrac c.exponentBase n.exponent
        (LexVerif.Proof.SlowBinary.valOf c.mantissaRadix 0 (sigDigits c.mantissaRadix n.integer n.fraction))).2 *
        c.mantissaRadix ^ ((sigDigits c.mantissaRadix n.integer n.fraction).length -
          (smallSetOf c.feats).u64Step c.mantissaRadix))

open LexVerif.Proof.SlowBinary in
theorem dropWhile_head {α : Type} (p : α → Bool) : ∀ (l : List α) (d : α) (rest : List α),
    l.dropWhile p = d :: rest → p d = false
  | [], _, _, h => by simp at h
  | x :: xs, d, rest, h => by
    rw [List.dropWhile_cons] at h
    split at h
    · exact dropWhile_head p xs d rest h
    · rename_i hx
      injection h with h1 _
      rw [← h1]; simpa using hx

theorem u64Step_pow2 (feats : Features) (hp : feats.powerOfTwo = true) {r : Nat} (hr : IsPow2 r) :
    r ^ (smallSetOf feats).u64Step r ≤ 2 ^ 64 ∧ 2 ^ 64 < r ^ ((smallSetOf feats).u64Step r + 1) ∧
    2 ^ 55 ≤ r ^ ((smallSetOf feats).u64Step r - 1) ∧ 1 ≤ (smallSetOf feats).u64Step r := by
  have hS := radixSet_of_pow2 feats hp
  rcases hS with h | h <;> rw [h] <;> rcases hr with h | h | h | h | h <;> subst h <;> decide

open LexVerif.Proof.SlowBinary in
/-- **a power-of-two-radix `Number`, truncated mantissa**: a valid answer of `binary` is `roundNE` of the whole literal
(`binary_truncated_correct`); an undecided one — the first `u64_step` digits exactly half-way above an even
significand — is resolved by `slow_binary` (`slowBinary_correct`). No hypothesis beyond the syntax facts `TruncPow2At`. -/
theorem numberToFloat_pow2_truncated (slow : SlowRadix) {F : FTy} (hF : IsLemireFloat F) (c : Cfg)
    (hp : c.feats.powerOfTwo = true) (hr : IsPow2 c.mantissaRadix) (hb : IsPow2 c.exponentBase)
    (n : Number) (hmany : n.manyDigits = true) (T : TruncPow2At c n) :
    numberToFloat slow c F n false = some (numberBits c F.fmt n) := by
  obtain ⟨p, eb, lay⟩ := layout_of hF
  obtain ⟨hfit, hmax, h55, hstep1⟩ := u64Step_pow2 c.feats hp hr
  have hr2 : 2 ≤ c.mantissaRadix ∧ c.mantissaRadix ≤ 36 := by
    rcases hr with h | h | h | h | h <;> rw [h] <;> omega
  have hb2 : 2 ≤ c.exponentBase := by
    rcases hb with h | h | h | h | h <;> rw [h] <;> omega
  have hp53 : p ≤ 53 := by
    have hfmt := lay.fmt
    rcases hF with h | h <;> subst h
    · have h1 : FTy.f64.fmt.p = p := by rw [hfmt]
      have : FTy.f64.fmt.p = 53 := rfl
      omega
    · have h1 : FTy.f32.fmt.p = p := by rw [hfmt]
      have : FTy.f32.fmt.p = 24 := rfl
      omega
  have hfp : F.fmt.p = p := by rw [lay.fmt]
  have hlitpos := litFrac_den_pos (show 0 < c.mantissaRadix by omega) (show 0 < c.exponentBase by omega) (numberLit c n)
  obtain ⟨hexp, hvalid, hlong, hmant, hvalue⟩ := T
  generalize hstep : (smallSetOf c.feats).u64Step c.mantissaRadix = step at *
  generalize hds : sigDigits c.mantissaRadix n.integer n.fraction = ds at *
  -- digits
  have hdlt : ∀ d ∈ ds, d < c.mantissaRadix := by
    intro d hd
    rw [← hds] at hd
    unfold sigDigits at hd
    have := (List.dropWhile_suffix _).subset hd
    obtain ⟨x, hx, rfl⟩ := List.mem_map.mp this
    exact (hvalid x hx).2
  have hsplit : valOf c.mantissaRadix 0 ds =
      n.mantissa * c.mantissaRadix ^ (ds.length - step) + valOf c.mantissaRadix 0 (ds.drop step) := by
    conv => lhs; rw [← List.take_append_drop step ds]
    rw [valOf_append, valOf_split, ← hmant, List.length_drop]
  have htail : valOf c.mantissaRadix 0 (ds.drop step) < c.mantissaRadix ^ (ds.length - step) := by
    have := valOf_lt c.mantissaRadix (ds.drop step) (fun d hd => hdlt d (List.mem_of_mem_drop hd)) 0 0
      (by simp)
    rwa [List.length_drop, Nat.zero_add] at this
  have hw : n.mantissa < 2 ^ 64 := by
    rw [hmant]
    have := valOf_lt c.mantissaRadix (ds.take step) (fun d hd => hdlt d (List.mem_of_mem_take hd)) 0 0
      (by simp)
    rw [List.length_take, Nat.min_eq_left (by omega), Nat.zero_add] at this
    omega
  have hw55 : 2 ^ 55 ≤ n.mantissa := by
    cases hdd : ds with
    | nil => rw [hdd] at hlong; simp at hlong
    | cons d rest =>
      have hd0 : d ≠ 0 := by
        have := dropWhile_head (· == 0) _ d rest (by rw [← hdd, ← hds]; rfl)
        simpa using this
      obtain ⟨s', hs'⟩ : ∃ s', step = s' + 1 := ⟨step - 1, by omega⟩
      rw [hmant, hdd, hs', List.take_succ_cons]
      have h1 := valOf_ge_head c.mantissaRadix d (rest.take s')
      have hl : (rest.take s').length = s' := by
        rw [List.length_take, Nat.min_eq_left]
        rw [hdd] at hlong; simp at hlong; omega
      rw [hl] at h1
      have h2 : 1 * c.mantissaRadix ^ s' ≤ d * c.mantissaRadix ^ s' := Nat.mul_le_mul_right _ (by omega)
      have h3 : step - 1 = s' := by omega
      rw [h3] at h55
      omega
  have hM0 : n.mantissa ≠ 0 := by have := Nat.two_pow_pos 55; omega
  -- the specification side
  have hbits : numberBits c F.fmt n = litBits F.fmt c.mantissaRadix c.exponentBase (numberLit c n) := by
    unfold numberBits numberLit
    simp only [hmany, if_true]
    rfl
  have hlit := litBits_exact lay hr2.1 (by omega) hb2 (numberLit c n) (numberLit_digits_lt c n)
  have hfast : FastPath.tryFastPath (smallSetOf c.feats) F c.mantissaRadix c.exponentBase (numOf n) = .none := by
    unfold FastPath.tryFastPath FastPath.isFastPath
    have : (numOf n).manyDigits = true := hmany
    simp [this]
  have hmp : moderatePath c F (numOf n) false = Binary.binary F c.exponentBase (numOf n) false := by
    unfold moderatePath
    rw [backend_binary _ hp hr]
  have hpfpos : 0 < (powFrac c.exponentBase n.exponent (valOf c.mantissaRadix 0 ds)).2 *
      c.mantissaRadix ^ (ds.length - step) :=
    Nat.mul_pos (powFrac_den_pos (by omega) _ _) (Nat.pow_pos (by omega))
  have hcg := roundNE_congr' lay.wf hlitpos hpfpos hvalue
  by_cases hin : ExpInRange n.exponent
  swap
  · -- outside `±2^27`: `binary` answers `+∞` / `0`, which is what the whole literal rounds to
    obtain ⟨fp, hbin, hv, hval⟩ := binary_out_of_range hF hb (numOf n) false hM0 hw hexp hin
    have e3 : (numOf n).exponent = n.exponent := rfl
    rw [e3] at hval
    have hK : c.mantissaRadix ^ (ds.length - step) ≤ valOf c.mantissaRadix 0 ds := by
      rw [hsplit]
      calc c.mantissaRadix ^ (ds.length - step) = 1 * c.mantissaRadix ^ (ds.length - step) := (Nat.one_mul _).symm
        _ ≤ n.mantissa * c.mantissaRadix ^ (ds.length - step) := Nat.mul_le_mul_right _ (by omega)
        _ ≤ _ := Nat.le_add_right _ _
    have hKu : valOf c.mantissaRadix 0 ds < 2 ^ 64 * c.mantissaRadix ^ (ds.length - step) := by
      rw [hsplit]
      calc n.mantissa * c.mantissaRadix ^ (ds.length - step) + valOf c.mantissaRadix 0 (ds.drop step)
          < n.mantissa * c.mantissaRadix ^ (ds.length - step) + c.mantissaRadix ^ (ds.length - step) := by omega
        _ = (n.mantissa + 1) * c.mantissaRadix ^ (ds.length - step) := by ring
        _ ≤ 2 ^ 64 * c.mantissaRadix ^ (ds.length - step) := Nat.mul_le_mul_right _ (by omega)
    have hsound : extendedToFloat F fp = roundNE F.fmt (litFrac c.mantissaRadix c.exponentBase (numberLit c n)).1
        (litFrac c.mantissaRadix c.exponentBase (numberLit c n)).2 := by
      rw [hcg]
      apply hval _ _ hpfpos
      · intro hpos
        unfold powFrac
        rw [if_pos (by omega)]
        simp only [Nat.one_mul]
        rw [Nat.mul_comm]
        exact Nat.mul_le_mul_right _ hK
      · intro hneg
        unfold powFrac
        rw [if_neg (by omega)]
        simp only
        calc valOf c.mantissaRadix 0 ds * c.exponentBase ^ (-n.exponent).toNat
            < 2 ^ 64 * c.mantissaRadix ^ (ds.length - step) * c.exponentBase ^ (-n.exponent).toNat :=
              Nat.mul_lt_mul_of_pos_right hKu (Nat.pow_pos (by omega))
          _ = 2 ^ 64 * (c.exponentBase ^ (-n.exponent).toNat * c.mantissaRadix ^ (ds.length - step)) := by ring
    unfold numberToFloat
    rw [hfast]
    simp only
    rw [hmp, hbin]
    simp only
    rw [if_neg (by omega), toNative_eq F fp n.isNegative hsound, hbits, hlit]
    rfl
  have hexp := hin
  cases hbin : Binary.binary F c.exponentBase (numOf n) false with
  | panic => exact absurd hbin (binary_no_panic _ _ _ _)
  | ok fp =>
    unfold numberToFloat
    rw [hfast]
    simp only
    rw [hmp, hbin]
    simp only
    by_cases hv : 0 ≤ fp.exp
    · -- `binary` decides
      have hclz : clz64 n.mantissa < 11 := by
        obtain ⟨_, _, hlt, _⟩ := LexVerif.Proof.BinaryCorrect.clz_norm hM0 hw
        have : 2 ^ 55 * 2 ^ clz64 n.mantissa < 2 ^ 55 * 2 ^ 9 := by
          calc 2 ^ 55 * 2 ^ clz64 n.mantissa ≤ n.mantissa * 2 ^ clz64 n.mantissa := Nat.mul_le_mul_right _ hw55
            _ < 2 ^ 64 := hlt
            _ = 2 ^ 55 * 2 ^ 9 := by norm_num
        have h5 := Nat.lt_of_mul_lt_mul_left this
        have := (Nat.pow_lt_pow_iff_right (by decide : 1 < 2)).mp h5
        omega
      have hcs : clz64 (numOf n).mantissa <
          shiftOf F.fmt.p (Binary.calculatePower2 F c.exponentBase (numOf n).exponent (clz64 (numOf n).mantissa)) := by
        have : 64 - F.fmt.p ≤ shiftOf F.fmt.p
            (Binary.calculatePower2 F c.exponentBase (numOf n).exponent (clz64 (numOf n).mantissa)) := by
          unfold shiftOf; split <;> omega
        have e : (numOf n).mantissa = n.mantissa := rfl
        rw [e] at this ⊢
        omega
      have hsound := binary_truncated_correct hF hb (numOf n) hw hexp (c.mantissaRadix ^ (ds.length - step))
        (valOf c.mantissaRadix 0 (ds.drop step)) htail (by
          intro h; have e : (numOf n).manyDigits = true := hmany; rw [e] at h; exact absurd h (by decide))
        hM0 hcs hbin hv
      have e2 : (numOf n).mantissa * c.mantissaRadix ^ (ds.length - step) + valOf c.mantissaRadix 0 (ds.drop step) =
          valOf c.mantissaRadix 0 ds := hsplit.symm
      have e3 : (numOf n).exponent = n.exponent := rfl
      rw [e2, e3, ← hcg] at hsound
      rw [if_neg (by omega), toNative_eq F fp n.isNegative hsound, hbits, hlit]
      rfl
    · -- `slow_binary`
      have hinv : fp.exp < 0 := by omega
      have hsp : slowPath slow c F n { fp with exp := fp.exp - invalidFp } =
          Binary.slowBinary F c.feats.compact c.mantissaRadix c.exponentBase step n.exponent n.integer n.fraction := by
        unfold slowPath
        have h2 : isPowerTwo c.mantissaRadix = true := by
          rcases hr with h | h | h | h | h <;> rw [h] <;> decide
        rw [hp, h2, hstep]
        simp
      have hslow := slowBinary_correct F hF c.feats.compact c.mantissaRadix hr c.exponentBase hb step hfit hmax
        n.exponent hexp n.integer n.fraction hvalid (by
          rw [hds, ← hmant]
          refine ⟨fp, ?_, hinv⟩
          rw [← binary_sign F c.exponentBase n.mantissa n.exponent n.isNegative true false]
          have e : numOf n = ⟨n.mantissa, n.exponent, n.isNegative, true⟩ := by unfold numOf; rw [hmany]
          rw [← e]; exact hbin)
      rw [hds, ← hcg] at hslow
      rw [if_pos hinv, hsp, toNative_eq F _ n.isNegative hslow, hbits, hlit]
      rfl

/-! ## API level -/

/-- the radix classes of this file -/
inductive RadixClass (c : Cfg) : Prop
  | pow2 (hp : c.feats.powerOfTwo = true) (hr : IsPow2 c.mantissaRadix) (hb : IsPow2 c.exponentBase)
  | generic (G : GenericClass c)

/-- what the syntax layer owes for one `Number` of a non-decimal radix (the analogue of
`C01Number.number_exact_of_syntax` / `number_truncated_of_syntax`, which are proved for radix 10):
untruncated — exact words (power-of-two radices: with an exponent inside `±2^59`, `ExpWide`); truncated, power-of-two radix — `TruncPow2At`; truncated,
generic radix — a mantissa word of at least 55 bits and the value of all the digits in `[w, w+1)·radix^exponent` -/
def SyntaxFacts (c : Cfg) (n : Number) : Prop :=
  (n.manyDigits = false → NumberExactAt c n ∧ (IsPow2 c.mantissaRadix → ExpWide n.exponent)) ∧
  (n.manyDigits = true → IsPow2 c.mantissaRadix → TruncPow2At c n) ∧
  (n.manyDigits = true → GenericClass c → n.mantissa < 2 ^ 64 ∧ 2 ^ 54 ≤ n.mantissa ∧
    (c.mantissaRadix ≠ 31 → 2 ^ 55 ≤ n.mantissa) ∧
    TrueValue c.mantissaRadix (numOf n) (litFrac c.mantissaRadix c.exponentBase (numberLit c n)).1
      (litFrac c.mantissaRadix c.exponentBase (numberLit c n)).2)

/-- what `slow_radix` owes for one `Number` of a generic radix: called with the un-biased estimate of an invalid-marked
answer of `bellerophon` that brackets the value of the digits, it returns the nearest float -/
def SlowFacts (slow : SlowRadix) (c : Cfg) (F : FTy) (n : Number) : Prop :=
  ∀ fp, moderatePath c F (numOf n) false = .ok fp → fp.exp < 0 →
    Bracket F fp (litFrac c.mantissaRadix c.exponentBase (numberLit c n)).1
      (litFrac c.mantissaRadix c.exponentBase (numberLit c n)).2 →
    extendedToFloat F (slow c F n { fp with exp := fp.exp - invalidFp }) =
      roundNE F.fmt (litFrac c.mantissaRadix c.exponentBase (numberLit c n)).1
        (litFrac c.mantissaRadix c.exponentBase (numberLit c n)).2

/-- **C05, one `Number`**: every radix class, truncated or not -/
theorem numberToFloat_radix (slow : SlowRadix) {F : FTy} (hF : IsLemireFloat F) (c : Cfg) (R : RadixClass c)
    (n : Number) (hsyn : SyntaxFacts c n) (hslow : GenericClass c → SlowFacts slow c F n)
    (h31 : c.mantissaRadix = 31 → F = FTy.f64 → n.manyDigits = true → 2 ^ 55 ≤ n.mantissa) :
    numberToFloat slow c F n false = some (numberBits c F.fmt n) := by
  obtain ⟨s1, s2, s3⟩ := hsyn
  cases hmany : n.manyDigits with
  | false =>
    obtain ⟨hx, he⟩ := s1 hmany
    rcases R with ⟨hp, hr, hb⟩ | ⟨G⟩
    · have hr2 : 2 ≤ c.mantissaRadix ∧ c.mantissaRadix ≤ 36 := by
        rcases hr with h | h | h | h | h <;> rw [h] <;> omega
      have hb2 : 2 ≤ c.exponentBase := by
        rcases hb with h | h | h | h | h <;> rw [h] <;> omega
      rw [pipeline_binary_wide slow hF c hp hr hb n hmany hx.1 (he hr) hx.2.2]
      rw [(spec_forms hF c hr2.1 hr2.2 hb2 n hmany hx.2.2).2]
    · obtain ⟨_, _, h2, h36⟩ := generic_not_pow2 G.mem
      rw [numberToFloat_generic_exact hF slow c G n hmany hx (hslow G)]
      rw [(spec_forms hF c h2 h36 (by rw [G.base]; exact h2) n hmany hx.2.2).2]
  | true =>
    rcases R with ⟨hp, hr, hb⟩ | ⟨G⟩
    · exact numberToFloat_pow2_truncated slow hF c hp hr hb n hmany (s2 hmany hr)
    · obtain ⟨hw, hw54, hw55, htv⟩ := s3 hmany G
      exact numberToFloat_generic_truncated hF slow c G n hmany hw hw54 (fun hf => by
        by_cases h : c.mantissaRadix = 31
        · exact h31 h hf hmany
        · exact hw55 h) htv (hslow G)

/-- **`C05_radix_main`** — API level: for every radix class (power-of-two radices with every supported exponent base;
the 29 generic radices of `radix` builds, `compact` or not), `f32`/`f64`, complete and partial parser, the pipeline with
the modelled slow path prints what the specification prints (`Spec.litBits` with radix / base). Residual hypotheses,
per `Number` the input produces: `hsyn` (`SyntaxFacts`, the syntax layer for non-decimal radices) and, for generic radices
only, `hslow` (`SlowFacts`: `digit_comp` / `byte_comp` on the bracketing estimate). Power-of-two radices need `hsyn` only. -/
theorem C05_radix_main (feats : Features) (fmt : Format) (R : RadixClass ⟨feats, fmt, false⟩)
    (o : POpts) {F : FTy} (hF : IsLemireFloat F) (isPartial : Bool) (s : List Nat)
    (hsyn : ∀ n cnt, parseFloatSyntax ⟨feats, fmt, false⟩ o isPartial s (formatError feats fmt).isNone =
      .ok (.number n cnt) → SyntaxFacts ⟨feats, fmt, false⟩ n)
    (hslow : ∀ n cnt, parseFloatSyntax ⟨feats, fmt, false⟩ o isPartial s (formatError feats fmt).isNone =
      .ok (.number n cnt) → GenericClass ⟨feats, fmt, false⟩ → SlowFacts slowModel ⟨feats, fmt, false⟩ F n)
    (h31 : fmt.mantissaRadix = 31 → F = FTy.f64 → ∀ n cnt, parseFloatSyntax ⟨feats, fmt, false⟩ o isPartial s
      (formatError feats fmt).isNone = .ok (.number n cnt) → n.manyDigits = true → 2 ^ 55 ≤ n.mantissa) :
    parseFloatAlgoModel slowModel feats fmt o isPartial F s = parseFloatModel feats fmt o isPartial F.fmt s := by
  apply parseFloatAlgoModel_eq_valid
  intro _ n cnt hp
  exact numberToFloat_radix slowModel hF ⟨feats, fmt, false⟩ R n (hsyn n cnt hp) (hslow n cnt hp)
    (fun h hf => h31 h hf n cnt hp)

/-- **the full statement** (a `Prop`): the same without residual hypotheses, for the separator-free format classes of C12
and inputs of bytes shorter than `2^60`. `Props.C05Syntax` discharges `SyntaxFacts` for the classes with exponent base =
radix (`C05_generic_main`: `SlowFacts` left; `C05_pow2_main`: the range of the exponent word left). -/
def C05_radix_full : Prop :=
  ∀ (feats : Features) (fmt : Format), RadixClass ⟨feats, fmt, false⟩ →
    (feats.format = false ∨ C12.SepPrefixFree fmt) →
    ∀ (o : POpts) (F : FTy), IsLemireFloat F → ∀ (isPartial : Bool) (s : List Nat),
      (∀ x ∈ s, x < 256) → s.length < 2 ^ 60 →
      parseFloatAlgoModel slowModel feats fmt o isPartial F s = parseFloatModel feats fmt o isPartial F.fmt s

/-- non-vacuity of the classes: hexadecimal with a binary exponent; radix 3 -/
example : RadixClass ⟨{ powerOfTwo := true }, ⟨0x0a02100000000000000000000000000c⟩, false⟩ :=
  .pow2 rfl (by unfold IsPow2; decide) (by unfold IsPow2; decide)

end LexVerif.Props.C05Final
