import LexVerif.Props.C01Trunc
import LexVerif.Proof.BellBracket
/-!
# Props.C01Compact — `compact` builds: Bellerophon hands its estimate to the slow path

In a `compact` build the moderate path of the decimal parser is `bellerophon`. A valid answer is right
(`Props.C01.bellerophon_sound`). An invalid-marked one is the scaled, normalised extended float itself, a **two-sided**
estimate of the true value (`Proof.BellEstimate`: `mant − 4 < value < mant + 8 (+ 2·2^ctlz + 1)` units), which still
brackets the value (`Proof.BellBracket.bracket_of_est2`) and bounds both big integers of `negative_digit_comp`
(`C01Trunc.neg_guard_bounds`). `slowDomain_core`: every condition of the slow-path model's domain from such an estimate;
`slowDomain_bell`: for what `bellerophon` hands over, truncated mantissa or not.
-/
namespace LexVerif.Props.C01Compact
open LexVerif.Spec LexVerif.Model LexVerif.Model.ParseFloatAlgo
open LexVerif.Proof.RoundNE LexVerif.Proof.ExtRound LexVerif.Proof.Pipeline LexVerif.Proof.Lemire LexVerif.Proof.Bell
open LexVerif.Props.C01 (IsLemireFloat IsI64 Bracket)
open LexVerif.Props.C01Main LexVerif.Props.C01SlowMain LexVerif.Props.C01SlowDomain LexVerif.Proof.Slow
open LexVerif.Props.C01Trunc

/-- **`SlowDomain` and the weak bracket from a two-sided estimate**: the scientific exponent `sciV` puts the leading digit
where the digits and the explicit exponent put it (`hkey`); `(M, cnt)` is what `parse_mantissa` keeps; `est` is a
two-sided estimate of the value of all the digits (`hestLit`) and of `M / 10^j` (`hestM`). -/
theorem slowDomain_core {F : FTy} (hF : IsLemireFloat F) {p eb : Nat} (lay : Layout F p eb) (c : Cfg)
    (hr : c.mantissaRadix = 10) (hb : c.exponentBase = 10) (n : Number) (hs : PlainSlices c n)
    (hne : sigBytes n.integer n.fraction ≠ [])
    (sciV : Int) (hsci : sciOf c n = sciV) (hs1 : -360 ≤ sciV) (hs2 : sciV + 1 ≤ 400)
    (hkey : sciV + 1 - ((sigBytes n.integer n.fraction).length : Int) =
      n.explicitExp - ((n.fraction.getD []).length : Int))
    (d : Nat) (hd : (Slow.envOf c.feats).S.maxDigits F.fmt 10 = some d)
    (M cnt : Nat) (hmo : C01Slow.mantissaOf 10 d (sigBytes n.integer n.fraction) = (M, cnt))
    (hMlt : M < 10 ^ cnt) (hcnt : cnt ≤ 770)
    (est : ExtendedFloat80) (hexp : est.exp < 2 ^ 20)
    (cl ch : Nat) (hcl : 4 * cl ≤ 2 ^ (64 - p)) (hcl62 : cl ≤ 2 ^ 62) (hch : 2 * ch ≤ 2 ^ (64 - p)) (hch0 : 0 < ch)
    (hestLit : Est2 F p est cl ch (litFrac 10 10 (numberLit c n)).1 (litFrac 10 10 (numberLit c n)).2)
    (hestM : sciV + 1 - (cnt : Int) < 0 → Est2 F p est cl ch M (10 ^ (-(sciV + 1 - (cnt : Int))).toNat)) :
    SlowDomain c F p n est d ∧
    C01Slow.WeakBracket F est (litFrac 10 10 (numberLit c n)).1 (litFrac 10 10 (numberLit c n)).2 := by
  have FN := floatNums_of hF lay
  have hp := lay.hp
  have hp53 := FN.p53
  have h27 : (2 : Int) ^ 27 = 134217728 := by norm_num
  have h20 : (2 : Int) ^ 20 = 1048576 := by norm_num
  -- the digits
  have hvs : ValidDigits 10 (sigBytes n.integer n.fraction) := by
    have := valid_sigBytes hs.validInt hs.validFrac
    rwa [hr] at this
  have hbs : ∀ x ∈ sigBytes n.integer n.fraction, x < 256 := by
    intro x hx
    rcases mem_sigBytes hx with h | ⟨fr, hfr, h⟩
    · exact hs.bytesInt x h
    · exact hs.bytesFrac fr hfr x h
  obtain ⟨z, hz⟩ := sig_decomp n.integer n.fraction
  have hD : ofDigits 10 ((numberLit c n).intDigits ++ (numberLit c n).fracDigits) =
      ofDigits 10 (dv 10 (sigBytes n.integer n.fraction)) := by
    rw [hs.intDigits, hs.fracDigits, hr]
    have : dv 10 n.integer ++ dv 10 (n.fraction.getD []) = dv 10 (n.integer ++ n.fraction.getD []) := by
      unfold dv; rw [List.map_append]
    rw [this, hz, ofDigits_dv_zeros]
  have hfl : (numberLit c n).fracDigits.length = (n.fraction.getD []).length := by
    rw [hs.fracDigits, dv_length]
  have hE : (numberLit c n).exp = n.explicitExp := rfl
  generalize hsig : sigBytes n.integer n.fraction = sig at *
  generalize hS : ofDigits 10 (dv 10 sig) = S at *
  generalize hfle : (n.fraction.getD []).length = fl at *
  have hV : litFrac 10 10 (numberLit c n) = (S * 10 ^ n.explicitExp.toNat, 10 ^ fl * 10 ^ (-n.explicitExp).toNat) := by
    rw [litFrac_eq, hD, hfl, hE]
  have hlitpos : 0 < (litFrac 10 10 (numberLit c n)).2 := litFrac_den_pos (by decide) (by decide) _
  constructor
  · constructor
    · rw [hr]; exact envRadix_decimal c.feats
    · rw [hr]; exact hd
    · exact hs.validInt
    · exact hs.validFrac
    · rw [hsig]; exact hne
    · rw [hsig]; exact hbs
    · rw [hsci]; omega
    · rw [hsci]; omega
    · -- value
      rw [hr, hb, hsig, hsci]
      unfold C01Slow.sigValue C01Slow.digitExponent
      rw [hV, powFrac_eq, hS]
      unfold RatEq
      simp only
      have e1 : n.explicitExp.toNat + (-(sciV + 1 - ↑sig.length)).toNat =
          (sciV + 1 - ↑sig.length).toNat + (fl + (-n.explicitExp).toNat) := by omega
      calc S * 10 ^ n.explicitExp.toNat * 10 ^ (-(sciV + 1 - ↑sig.length)).toNat
          = S * 10 ^ (n.explicitExp.toNat + (-(sciV + 1 - ↑sig.length)).toNat) := by
            rw [Nat.pow_add]; ring
        _ = S * 10 ^ ((sciV + 1 - ↑sig.length).toNat + (fl + (-n.explicitExp).toNat)) := by rw [e1]
        _ = S * 10 ^ (sciV + 1 - ↑sig.length).toNat * (10 ^ fl * 10 ^ (-n.explicitExp).toNat) := by
            rw [Nat.pow_add, Nat.pow_add]; ring
    · -- the capacity guard of `positive_digit_comp`
      rw [hr, hsig, hsci, hmo]
      intro hpos
      unfold C01Slow.digitExponent at hpos ⊢
      simp only at hpos ⊢
      exact C01Slow.positive_guard_decimal (envRadix_decimal c.feats) hMlt (by omega)
    · -- negative exponent
      rw [hr, hsig, hsci, hmo]
      intro hneg
      unfold C01Slow.digitExponent at hneg ⊢
      simp only at hneg ⊢
      obtain ⟨f1, f2, lo, hi⟩ := hestM hneg
      refine ⟨f1, f2, hexp, ?_⟩
      have hM770 : M < 10 ^ 770 := Nat.lt_of_lt_of_le hMlt (Nat.pow_le_pow_right (by decide) hcnt)
      have hLb : (F.C.exponentBias : Int) = (L F.fmt : Int) + 1 := by
        rw [lay.bias, LexVerif.Proof.BinaryCorrect.L_eq lay]
        have := lay.hL127
        omega
      have hcap := cap_ge c.feats
      have hcapp : 2 ^ 3968 ≤ 2 ^ (64 * (Slow.envOf c.feats).L.bigintLimbs) :=
        Nat.pow_le_pow_right (by decide) (by omega)
      -- the estimate is at most twice the value
      have lo2 : est.mant * 2 ^ (est.exp + 64 - ↑p - 1).toNat * 10 ^ (-(sciV + 1 - (cnt : Int))).toNat ≤
          2 * (M * 2 ^ L F.fmt * 2 ^ shiftOf p est.exp) := by
        have h2 : 2 * (cl * 2 ^ (est.exp + 64 - ↑p - 1).toNat * 10 ^ (-(sciV + 1 - (cnt : Int))).toNat) ≤
            est.mant * 2 ^ (est.exp + 64 - ↑p - 1).toNat * 10 ^ (-(sciV + 1 - (cnt : Int))).toNat := by
          have : 2 * cl ≤ est.mant := by
            have : (2 : Nat) ^ 63 = 2 * 2 ^ 62 := by norm_num
            omega
          calc 2 * (cl * 2 ^ (est.exp + 64 - ↑p - 1).toNat * 10 ^ (-(sciV + 1 - (cnt : Int))).toNat)
              = (2 * cl) * 2 ^ (est.exp + 64 - ↑p - 1).toNat * 10 ^ (-(sciV + 1 - (cnt : Int))).toNat := by ring
            _ ≤ est.mant * 2 ^ (est.exp + 64 - ↑p - 1).toNat * 10 ^ (-(sciV + 1 - (cnt : Int))).toNat :=
                Nat.mul_le_mul_right _ (Nat.mul_le_mul_right _ this)
        omega
      have hS3 : 64 - p ≤ shiftOf p est.exp := by
        unfold shiftOf; split <;> omega
      have hSch : ch ≤ 2 ^ shiftOf p est.exp := by
        have : 2 ^ (64 - p) ≤ 2 ^ shiftOf p est.exp := Nat.pow_le_pow_right (by decide) hS3
        omega
      by_cases hfin' : C01Slow.roundedDown F est < F.fmt.infBits
      · refine Or.inl ⟨hfin', ?_⟩
        obtain ⟨kq1, kq2⟩ := roundedDown_kq lay est f1 f2 hfin'
        have hQ0 : est.mant / 2 ^ shiftOf p est.exp = 0 → (est.exp + 64 - ↑p - 1).toNat = 0 := by
          intro h0
          by_cases hp2 : -est.exp + 1 ≤ 64
          · obtain ⟨qa, _, _, _, _⟩ := LexVerif.Proof.BinaryCorrect.quot_bounds hp (by omega) f1 f2 est.exp hp2
            apply Classical.byContradiction; intro hK
            have := (qa (by omega)).2.1
            have := Nat.two_pow_pos (p - 1)
            omega
          · omega
        have hQ53 : est.mant / 2 ^ shiftOf p est.exp < 2 ^ 53 := by
          have : 2 * 2 ^ (p - 1) ≤ 2 ^ 53 := by
            rw [← Nat.pow_succ']
            exact Nat.pow_le_pow_right (by decide) (by omega)
          omega
        generalize hj : (-(sciV + 1 - (cnt : Int))).toNat = j at *
        generalize hK : (est.exp + 64 - ↑p - 1).toNat = K at *
        generalize hQ : est.mant / 2 ^ shiftOf p est.exp = Q at *
        obtain ⟨g1, g2⟩ := neg_guard_bounds Q K (shiftOf p est.exp) est.mant M j (L F.fmt) ch
          ((K : Int) - F.C.exponentBias - (sciV + 1 - (cnt : Int))) (by omega) hQ.symm hSch hQ0 hQ53
          (by omega) hM770 lo2 hi
        unfold C01Slow.NegGuard
        simp only [hK, hQ, hj]
        exact ⟨Nat.lt_of_lt_of_le g1 hcapp, Nat.lt_of_lt_of_le g2 hcapp⟩
      · -- the estimate rounds down to `+∞`
        have hinfpos := LexVerif.Proof.RoundNE.infBits_pos lay.wf
        have hfp : F.fmt.p = p := by rw [lay.fmt]
        have hfe : F.fmt.ebits = eb := by rw [lay.fmt]
        have hinf : F.fmt.infBits = (2 ^ eb - 1) * 2 ^ (p - 1) := by rw [lay.fmt]; rfl
        have hp2 : -est.exp + 1 ≤ 64 := by
          apply Classical.byContradiction; intro hcon
          rw [C01Slow.roundedDown_tiny lay est f2 (by omega)] at hfin'
          omega
        obtain ⟨qa, qb, _, _, _⟩ := LexVerif.Proof.BinaryCorrect.quot_bounds hp (by omega) f1 f2 est.exp hp2
        have hrd : C01Slow.roundedDown F est =
            encode F.fmt (est.exp + 64 - ↑p - 1).toNat (est.mant / 2 ^ shiftOf p est.exp) := by
          unfold C01Slow.roundedDown
          exact round_down_bits lay est f1 f2 hp2
        have hov : F.fmt.infBits ≤ (est.exp + 64 - ↑p - 1).toNat * 2 ^ (p - 1) +
            est.mant / 2 ^ shiftOf p est.exp := by
          rw [hrd] at hfin'
          unfold encode at hfin'
          rw [hfp] at hfin'
          split at hfin'
          · assumption
          · omega
        have heq : C01Slow.roundedDown F est = F.fmt.infBits := by
          rw [hrd]; unfold encode; rw [hfp, if_pos hov]
        refine Or.inr ⟨heq, ?_⟩
        have heb := lay.heb
        have h2eb : 2 ^ eb = 2 * 2 ^ (eb - 1) := by
          rw [← Nat.pow_succ']; congr 1; omega
        have hTpos := Nat.two_pow_pos (p - 1)
        have hebpos := Nat.two_pow_pos (eb - 1)
        generalize hK : (est.exp + 64 - ↑p - 1).toNat = K at *
        have hK2 : 2 * (2 ^ (eb - 1) - 1) ≤ K := by
          rw [hinf] at hov
          apply Classical.byContradiction; intro hcon
          have h1 : K + 3 ≤ 2 ^ eb := by omega
          have h2 : (K + 3) * 2 ^ (p - 1) ≤ 2 ^ eb * 2 ^ (p - 1) := Nat.mul_le_mul_right _ h1
          have h3 : (2 ^ eb - 1) * 2 ^ (p - 1) + 2 ^ (p - 1) = 2 ^ eb * 2 ^ (p - 1) := by
            rw [← Nat.succ_mul]; congr 1; omega
          have h4 : (K + 3) * 2 ^ (p - 1) = K * 2 ^ (p - 1) + 3 * 2 ^ (p - 1) := by ring
          omega
        have hKpos : 0 < K := by
          have : 2 ≤ 2 ^ (eb - 1) := by
            calc 2 = 2 ^ 1 := rfl
              _ ≤ 2 ^ (eb - 1) := Nat.pow_le_pow_right (by decide) (by omega)
          omega
        obtain ⟨hSf, _, hmant⟩ := qa hKpos
        generalize hj : (-(sciV + 1 - (cnt : Int))).toNat = j at *
        obtain ⟨g1, g2⟩ := neg_guard_inf_bounds p (2 ^ (eb - 1) - 1) K est.mant M j (L F.fmt)
          (shiftOf p est.exp) hp lay.hpb hK2 hmant (LexVerif.Proof.BinaryCorrect.L_eq lay) hM770 lo2
        unfold C01Slow.NegGuardInf
        rw [hfe, lay.bias]
        have e1 : ((2 ^ eb - 2 : Nat) : Int) - ((2 ^ (eb - 1) - 1 + (p - 1) : Nat) : Int) -
            (sciV + 1 - (cnt : Int)) =
            ((2 * (2 ^ (eb - 1) - 1) : Nat) : Int) - ((2 ^ (eb - 1) - 1 + (p - 1) : Nat) : Int) + j := by
          have : 2 ^ eb - 2 = 2 * (2 ^ (eb - 1) - 1) := by omega
          rw [this]; omega
        rw [e1]
        simp only [hj]
        exact ⟨Nat.lt_of_lt_of_le g1 hcapp, Nat.lt_of_lt_of_le g2 hcapp⟩
  · exact bracket_of_est2 lay cl ch hcl hch hch0 est _ _ hlitpos hestLit

/-! ## what `bellerophon` hands over -/

/-- the decimal tables of a `compact` build -/
abbrev compactP : Gen.Bellerophon.Powers := Gen.Bellerophon.CompactRadix.powers 10

/-- `bellPrepare` gets past its early exits only inside the table -/
theorem bellPrepare_mid_range {F : FTy} (n : Num) {fp : ExtendedFloat80} {e : Nat}
    (h : Bellerophon.bellPrepare F compactP n = .mid fp e) :
    n.mantissa ≠ 0 ∧ -350 ≤ n.exponent ∧ n.exponent ≤ 309 := by
  have hbias : compactP.bias = 350 := by decide
  have hstep : compactP.step = 10 := by decide
  have hsize : compactP.large.size = 66 := by decide
  have h31 : (2 : Int) ^ 31 = 2147483648 := by norm_num
  unfold Bellerophon.bellPrepare Bellerophon.litExpCut at h
  simp only [] at h
  split at h
  · exact absurd h (by simp)
  · rename_i c1
    split at h
    · exact absurd h (by simp)
    · rename_i c2
      have hw1 : wrapI32 n.exponent = n.exponent := LexVerif.Proof.Slow.wrapI32_eq (by omega) (by omega)
      rw [hw1, hbias, hstep] at h
      have hw2 : wrapI32 (n.exponent + 350) = n.exponent + 350 := LexVerif.Proof.Slow.wrapI32_eq (by omega) (by omega)
      rw [hw2] at h
      rw [if_neg (by decide)] at h
      split at h
      · exact absurd h (by simp)
      · rename_i c3
        split at h
        · exact absurd h (by simp)
        · rename_i c4
          rw [hsize] at c4
          refine ⟨fun h0 => c1 (Or.inl h0), by omega, ?_⟩
          have h2 : Int.tdiv (n.exponent + 350) 10 < 66 := by omega
          have := Int.lt_tdiv_add_one_mul_self (n.exponent + 350) (show (0 : Int) < 10 by decide)
          omega

/-- an invalid-marked answer of `bellerophon` comes from inside the table: `−350 ≤ exponent ≤ 309`, mantissa non-zero -/
theorem bell_invalid_range {F : FTy} (hF : IsLemireFloat F) (n : Num) {fp : ExtendedFloat80}
    (h : Bellerophon.bellerophon F compactP n false = .ok fp) (hinv : fp.exp < 0) :
    n.mantissa ≠ 0 ∧ -350 ≤ n.exponent ∧ n.exponent ≤ 309 := by
  have hinfp : 0 ≤ F.C.infinitePower := by rcases hF with h | h <;> subst h <;> decide
  unfold Bellerophon.bellerophon at h
  cases hprep : Bellerophon.bellPrepare F compactP n with
  | zero => rw [hprep] at h; simp only [] at h; injection h with h; subst h; exact absurd hinv (by decide)
  | inf => rw [hprep] at h; simp only [] at h; injection h with h; subst h; simp only at hinv; omega
  | panic => rw [hprep] at h; exact absurd h (by simp)
  | mid fp0 e => exact bellPrepare_mid_range n hprep

theorem est2_mono {F : FTy} {p : Nat} {est : ExtendedFloat80} {cl ch ch' num den : Nat}
    (h : Est2 F p est cl ch num den) (hle : ch ≤ ch') : Est2 F p est cl ch' num den := by
  obtain ⟨h1, h2, h3, h4⟩ := h
  refine ⟨h1, h2, h3, Nat.lt_of_lt_of_le h4 ?_⟩
  exact Nat.mul_le_mul_right _ (Nat.mul_le_mul_right _ (by omega))

/-- the booked truncation error of a 19-digit mantissa is at most 33 units -/
theorem clz_small {w : Nat} (h1 : 2 ^ 59 ≤ w) (h2 : w < 2 ^ 64) : 2 * 2 ^ clz64 w + 1 ≤ 33 := by
  obtain ⟨_, _, hlt, _⟩ := LexVerif.Proof.BinaryCorrect.clz_norm (M := w) (by
    have := Nat.two_pow_pos 59; omega) h2
  have : 2 ^ 59 * 2 ^ clz64 w < 2 ^ 59 * 2 ^ 5 := by
    calc 2 ^ 59 * 2 ^ clz64 w ≤ w * 2 ^ clz64 w := Nat.mul_le_mul_right _ h1
      _ < 2 ^ 64 := hlt
      _ = 2 ^ 59 * 2 ^ 5 := by norm_num
  have h5 := Nat.lt_of_mul_lt_mul_left this
  have h4 : clz64 w < 5 := (Nat.pow_lt_pow_iff_right (by decide : 1 < 2)).mp h5
  have h16 : 2 ^ clz64 w ≤ 2 ^ 4 := Nat.pow_le_pow_right (by decide) (by omega)
  omega

/-- **`SlowDomain` and the bracket for what `bellerophon` hands over** (`compact` builds, decimal): the `Number`'s words
and the digits are related by `hkey`; `(M, cnt)` is what `parse_mantissa` keeps; the value of all the digits and `M / 10^j`
are true values of the `Number` in the sense of `Proof.Bell.TrueValue` (equal to `w·10^q`, or in `[w, w+1)·10^q` for a
truncated mantissa). -/
theorem slowDomain_bell {F : FTy} (hF : IsLemireFloat F) {p eb : Nat} (lay : Layout F p eb) (c : Cfg)
    (hr : c.mantissaRadix = 10) (hb : c.exponentBase = 10) (n : Number) (hs : PlainSlices c n)
    (hne : sigBytes n.integer n.fraction ≠ [])
    (hw64 : n.mantissa < 2 ^ 64) (hmw : n.manyDigits = true → 2 ^ 59 ≤ n.mantissa)
    (hkey : ∀ T : Nat, 10 ^ T ≤ n.mantissa → n.mantissa < 10 ^ (T + 1) →
      n.exponent + T + 1 - ((sigBytes n.integer n.fraction).length : Int) =
        n.explicitExp - ((n.fraction.getD []).length : Int))
    (d : Nat) (hd : (Slow.envOf c.feats).S.maxDigits F.fmt 10 = some d)
    (M cnt : Nat) (hmo : C01Slow.mantissaOf 10 d (sigBytes n.integer n.fraction) = (M, cnt))
    (hMlt : M < 10 ^ cnt) (hcnt : cnt ≤ 770)
    (htvLit : TrueValue 10 (numOf n) (litFrac 10 10 (numberLit c n)).1 (litFrac 10 10 (numberLit c n)).2)
    (htvM : ∀ T : Nat, 10 ^ T ≤ n.mantissa → n.mantissa < 10 ^ (T + 1) → n.exponent + T + 1 - (cnt : Int) < 0 →
      TrueValue 10 (numOf n) M (10 ^ (-(n.exponent + T + 1 - (cnt : Int))).toNat))
    (fp : ExtendedFloat80) (hbel : Bellerophon.bellerophon F compactP (numOf n) false = .ok fp) (hinv : fp.exp < 0) :
    SlowDomain c F p n { fp with exp := fp.exp - invalidFp } d ∧
    Bracket F fp (litFrac 10 10 (numberLit c n)).1 (litFrac 10 10 (numberLit c n)).2 := by
  have FN := floatNums_of hF lay
  have hp53 := FN.p53
  have h30 : (2 : Int) ^ 30 = 1073741824 := by norm_num
  have h20 : (2 : Int) ^ 20 = 1048576 := by norm_num
  obtain ⟨hw0, hq1, hq2⟩ := bell_invalid_range hF (numOf n) hbel hinv
  have hw0' : n.mantissa ≠ 0 := hw0
  have hq1' : -350 ≤ n.exponent := hq1
  have hq2' : n.exponent ≤ 309 := hq2
  have hc := bellFacts_of (bellCheck_compact 10 (by decide))
  obtain ⟨T, t1, t2, t3⟩ := scientificExponent_spec (radix := 10) (by decide) (by decide)
    (Nat.pos_of_ne_zero hw0') hw64 (e := n.exponent) (by omega) (by omega)
  have hT19 : T ≤ 19 := by
    have : 10 ^ T < 10 ^ 20 := Nat.lt_of_le_of_lt t1 (Nat.lt_trans hw64 pow10_20)
    have := (Nat.pow_lt_pow_iff_right (by decide : 1 < 10)).mp this
    omega
  have hsci : sciOf c n = n.exponent + T := by unfold sciOf; rw [hr, t3]
  have hmw44 : (numOf n).manyDigits = true → 2 ^ 44 ≤ (numOf n).mantissa := by
    intro hm
    have := hmw hm
    have h4459 : (2 : Nat) ^ 44 ≤ 2 ^ 59 := by decide
    exact Nat.le_trans h4459 this
  have hch41 : (8 + if (numOf n).manyDigits then 2 * 2 ^ clz64 (numOf n).mantissa + 1 else 0) ≤ 41 := by
    by_cases hm : (numOf n).manyDigits = true
    · rw [if_pos hm]
      have := clz_small (hmw hm) hw64
      have e : (numOf n).mantissa = n.mantissa := rfl
      rw [e]; omega
    · rw [if_neg hm]; omega
  have hlitpos : 0 < (litFrac 10 10 (numberLit c n)).2 := litFrac_den_pos (by decide) (by decide) _
  obtain ⟨e1, e2, hE2⟩ := bellerophon_invalid_est lay hc (numOf n) hw64 hmw44 _ _ hlitpos htvLit hbel hinv
  have h16 : 4 * 4 ≤ 2 ^ (64 - p) := by
    calc 4 * 4 ≤ 2 ^ 11 := by decide
      _ ≤ 2 ^ (64 - p) := Nat.pow_le_pow_right (by decide) (by omega)
  have h82 : 2 * 41 ≤ 2 ^ (64 - p) := by
    calc 2 * 41 ≤ 2 ^ 11 := by decide
      _ ≤ 2 ^ (64 - p) := Nat.pow_le_pow_right (by decide) (by omega)
  obtain ⟨D, hwb⟩ := slowDomain_core hF lay c hr hb n hs hne (n.exponent + T) hsci (by omega) (by omega)
    (hkey T t1 t2) d hd M cnt hmo hMlt hcnt { fp with exp := fp.exp - invalidFp } (by dsimp only; omega)
    4 41 h16 (by decide) h82 (by decide) (est2_mono hE2 hch41)
    (fun hneg => est2_mono (bellerophon_invalid_est lay hc (numOf n) hw64 hmw44 _ _ (Nat.pow_pos (by decide))
      (htvM T t1 t2 hneg) hbel hinv).2.2 hch41)
  exact ⟨D, hwb⟩

/-! ## the two kinds of `Number` -/

/-- `S = w·10^A + tail`, `tail < 10^A`, `q = A + E − fl`: `S·10^(E − fl)` is a true value of the truncated `⟨w, q⟩` -/
theorem interval_tv (S w A fl : Nat) (q E : Int) (neg : Bool) (hS1 : w * 10 ^ A ≤ S) (hS2 : S < (w + 1) * 10 ^ A)
    (hq : q = (A : Int) + E - fl) :
    TrueValue 10 ⟨w, q, neg, true⟩ (S * 10 ^ E.toNat) (10 ^ fl * 10 ^ (-E).toNat) := by
  unfold TrueValue
  simp only [if_true]
  rw [powFrac_eq, powFrac_eq]
  dsimp only
  have hexp : q.toNat + (fl + (-E).toNat) = A + E.toNat + (-q).toNat := by omega
  generalize q.toNat = a at *
  generalize (-q).toNat = b at *
  generalize E.toNat = e1 at *
  generalize (-E).toNat = e2 at *
  have k1 : w * 10 ^ a * (10 ^ fl * 10 ^ e2) = w * 10 ^ A * (10 ^ e1 * 10 ^ b) := by
    calc w * 10 ^ a * (10 ^ fl * 10 ^ e2) = w * 10 ^ (a + (fl + e2)) := by rw [Nat.pow_add, Nat.pow_add]; ring
      _ = w * 10 ^ A * (10 ^ e1 * 10 ^ b) := by rw [hexp, Nat.pow_add, Nat.pow_add]; ring
  have k2 : (w + 1) * 10 ^ a * (10 ^ fl * 10 ^ e2) = (w + 1) * 10 ^ A * (10 ^ e1 * 10 ^ b) := by
    calc (w + 1) * 10 ^ a * (10 ^ fl * 10 ^ e2) = (w + 1) * 10 ^ (a + (fl + e2)) := by
          rw [Nat.pow_add, Nat.pow_add]; ring
      _ = (w + 1) * 10 ^ A * (10 ^ e1 * 10 ^ b) := by rw [hexp, Nat.pow_add, Nat.pow_add]; ring
  have hpos : 0 < 10 ^ e1 * 10 ^ b := Nat.mul_pos (Nat.pow_pos (by decide)) (Nat.pow_pos (by decide))
  constructor
  · rw [k1]
    calc w * 10 ^ A * (10 ^ e1 * 10 ^ b) ≤ S * (10 ^ e1 * 10 ^ b) := Nat.mul_le_mul_right _ hS1
      _ = S * 10 ^ e1 * 10 ^ b := by ring
  · rw [k2]
    calc S * 10 ^ e1 * 10 ^ b = S * (10 ^ e1 * 10 ^ b) := by ring
      _ < (w + 1) * 10 ^ A * (10 ^ e1 * 10 ^ b) := Nat.mul_lt_mul_of_pos_right hS2 hpos

/-- an exact value is a true value of the untruncated `⟨w, q⟩` -/
theorem exact_tv (w : Nat) (q : Int) (neg : Bool) (num den : Nat)
    (h : (powFrac 10 q w).1 * den = num * (powFrac 10 q w).2) : TrueValue 10 ⟨w, q, neg, false⟩ num den := by
  unfold TrueValue
  simp only [Bool.false_eq_true, if_false]
  exact ⟨Nat.le_of_eq h, Nat.le_of_eq h.symm⟩

/-- **untruncated `Number`s of a `compact` build** -/
theorem slowDomain_bell_exact {F : FTy} (hF : IsLemireFloat F) {p eb : Nat} (lay : Layout F p eb) (c : Cfg)
    (hr : c.mantissaRadix = 10) (hb : c.exponentBase = 10) (n : Number) (hmany : n.manyDigits = false)
    (hx : NumberExactAt c n) (hs : PlainSlices c n) (hfew : (sigBytes n.integer n.fraction).length ≤ 19)
    (fp : ExtendedFloat80) (hbel : Bellerophon.bellerophon F compactP (numOf n) false = .ok fp) (hinv : fp.exp < 0) :
    ∃ d, SlowDomain c F p n { fp with exp := fp.exp - invalidFp } d ∧
      Bracket F fp (litFrac 10 10 (numberLit c n)).1 (litFrac 10 10 (numberLit c n)).2 := by
  obtain ⟨hw, hq, hre⟩ := hx
  obtain ⟨hw0, _, _⟩ := bell_invalid_range hF (numOf n) hbel hinv
  have hw0' : n.mantissa ≠ 0 := hw0
  obtain ⟨d, hd, hd19⟩ := maxDigits_decimal c.feats hF
  have hnum : numOf n = ⟨n.mantissa, n.exponent, n.isNegative, false⟩ := by unfold numOf; rw [hmany]
  -- the digits
  have hvs : ValidDigits 10 (sigBytes n.integer n.fraction) := by
    have := valid_sigBytes hs.validInt hs.validFrac
    rwa [hr] at this
  have hbs : ∀ x ∈ sigBytes n.integer n.fraction, x < 256 := by
    intro x hx
    rcases mem_sigBytes hx with h | ⟨fr, hfr, h⟩
    · exact hs.bytesInt x h
    · exact hs.bytesFrac fr hfr x h
  obtain ⟨z, hz⟩ := sig_decomp n.integer n.fraction
  have hD : ofDigits 10 ((numberLit c n).intDigits ++ (numberLit c n).fracDigits) =
      ofDigits 10 (dv 10 (sigBytes n.integer n.fraction)) := by
    rw [hs.intDigits, hs.fracDigits, hr]
    have : dv 10 n.integer ++ dv 10 (n.fraction.getD []) = dv 10 (n.integer ++ n.fraction.getD []) := by
      unfold dv; rw [List.map_append]
    rw [this, hz, ofDigits_dv_zeros]
  have hfl : (numberLit c n).fracDigits.length = (n.fraction.getD []).length := by
    rw [hs.fracDigits, dv_length]
  have hE : (numberLit c n).exp = n.explicitExp := rfl
  have hV : litFrac 10 10 (numberLit c n) =
      (ofDigits 10 (dv 10 (sigBytes n.integer n.fraction)) * 10 ^ n.explicitExp.toNat,
        10 ^ (n.fraction.getD []).length * 10 ^ (-n.explicitExp).toNat) := by
    rw [litFrac_eq, hD, hfl, hE]
  rw [hr, hb, powFrac_eq, hV] at hre
  unfold RatEq at hre
  simp only at hre
  have hm0 : 0 < n.mantissa := Nat.pos_of_ne_zero hw0'
  have hS0 : ofDigits 10 (dv 10 (sigBytes n.integer n.fraction)) ≠ 0 := by
    intro h0
    rw [h0, Nat.zero_mul, Nat.zero_mul] at hre
    have : 0 < n.mantissa * 10 ^ n.exponent.toNat *
        (10 ^ (n.fraction.getD []).length * 10 ^ (-n.explicitExp).toNat) :=
      Nat.mul_pos (Nat.mul_pos hm0 (Nat.pow_pos (by decide)))
        (Nat.mul_pos (Nat.pow_pos (by decide)) (Nat.pow_pos (by decide)))
    omega
  have hne : sigBytes n.integer n.fraction ≠ [] := by
    intro h0; rw [h0] at hS0; exact hS0 rfl
  obtain ⟨sb1, sb2⟩ := sig_value_bounds (radix := 10) (by decide) (integer := n.integer) (fraction := n.fraction)
    hne hvs hbs
  have hlen : 1 ≤ (sigBytes n.integer n.fraction).length := List.length_pos_iff.mpr hne
  have hmant : C01Slow.mantissaOf 10 d (sigBytes n.integer n.fraction) =
      (ofDigits 10 (dv 10 (sigBytes n.integer n.fraction)), (sigBytes n.integer n.fraction).length) := by
    unfold C01Slow.mantissaOf; rw [if_pos (by omega)]
  generalize hsig : sigBytes n.integer n.fraction = sig at *
  generalize hS : ofDigits 10 (dv 10 sig) = S at *
  generalize hfle : (n.fraction.getD []).length = fl at *
  have hkey : ∀ T : Nat, 10 ^ T ≤ n.mantissa → n.mantissa < 10 ^ (T + 1) →
      n.exponent + T + 1 - (sig.length : Int) = n.explicitExp - (fl : Int) := by
    intro T t1 t2
    have hu := exp_unique (r := 10) (by decide) (a := n.mantissa) (b := S)
      (P := n.exponent.toNat + (fl + (-n.explicitExp).toNat)) (Q := n.explicitExp.toNat + (-n.exponent).toNat)
      (A := T) (B := sig.length - 1) (by
        rw [Nat.pow_add, Nat.pow_add, Nat.pow_add]
        calc n.mantissa * (10 ^ n.exponent.toNat * (10 ^ fl * 10 ^ (-n.explicitExp).toNat))
            = n.mantissa * 10 ^ n.exponent.toNat * (10 ^ fl * 10 ^ (-n.explicitExp).toNat) := by ring
          _ = S * 10 ^ n.explicitExp.toNat * 10 ^ (-n.exponent).toNat := hre
          _ = S * (10 ^ n.explicitExp.toNat * 10 ^ (-n.exponent).toNat) := by ring)
      t1 t2 sb1 (by rw [Nat.sub_add_cancel hlen]; exact sb2)
    omega
  refine ⟨d, ?_⟩
  apply slowDomain_bell hF lay c hr hb n hs (by rw [hsig]; exact hne) hw
    (by rw [hmany]; intro h; exact absurd h (by decide))
    (by rw [hsig, hfle]; exact hkey) d hd S sig.length (by rw [hsig]; exact hmant) sb2 (by omega) ?_ ?_ fp hbel hinv
  · -- the value of the digits
    rw [hnum, hV]
    apply exact_tv
    rw [powFrac_eq]
    exact hre
  · -- `S / 10^j`
    intro T t1 t2 hneg
    rw [hnum]
    apply exact_tv
    rw [powFrac_eq]
    dsimp only
    have hk := hkey T t1 t2
    have e3 : n.explicitExp.toNat + (-(n.exponent + ↑T + 1 - (sig.length : Int))).toNat =
        fl + (-n.explicitExp).toNat := by omega
    have hpos : 0 < 10 ^ fl * 10 ^ (-n.explicitExp).toNat :=
      Nat.mul_pos (Nat.pow_pos (by decide)) (Nat.pow_pos (by decide))
    apply Nat.eq_of_mul_eq_mul_right hpos
    calc n.mantissa * 10 ^ n.exponent.toNat * 10 ^ (-(n.exponent + ↑T + 1 - (sig.length : Int))).toNat *
          (10 ^ fl * 10 ^ (-n.explicitExp).toNat)
        = n.mantissa * 10 ^ n.exponent.toNat * (10 ^ fl * 10 ^ (-n.explicitExp).toNat) *
            10 ^ (-(n.exponent + ↑T + 1 - (sig.length : Int))).toNat := by ring
      _ = S * 10 ^ n.explicitExp.toNat * 10 ^ (-n.exponent).toNat *
            10 ^ (-(n.exponent + ↑T + 1 - (sig.length : Int))).toNat := by rw [hre]
      _ = S * 10 ^ (-n.exponent).toNat *
            10 ^ (n.explicitExp.toNat + (-(n.exponent + ↑T + 1 - (sig.length : Int))).toNat) := by
          rw [Nat.pow_add]; ring
      _ = S * 10 ^ (-n.exponent).toNat * (10 ^ fl * 10 ^ (-n.explicitExp).toNat) := by
          rw [e3, Nat.pow_add]

/-- the value of all the digits of a truncated `Number` is one of its true values -/
theorem litFrac_tv_truncated (c : Cfg) (hr : c.mantissaRadix = 10) (n : Number) (hmany : n.manyDigits = true)
    (hs : PlainSlices c n) (hN : 19 < (sigBytes n.integer n.fraction).length)
    (hw : n.mantissa = ofDigits 10 (dv 10 ((sigBytes n.integer n.fraction).take 19)))
    (hq : n.exponent = ((sigBytes n.integer n.fraction).length : Int) - 19 + n.explicitExp -
      ((n.fraction.getD []).length : Int)) :
    TrueValue 10 (numOf n) (litFrac 10 10 (numberLit c n)).1 (litFrac 10 10 (numberLit c n)).2 := by
  have hnum : numOf n = ⟨n.mantissa, n.exponent, n.isNegative, true⟩ := by unfold numOf; rw [hmany]
  have hvs : ValidDigits 10 (sigBytes n.integer n.fraction) := by
    have := valid_sigBytes hs.validInt hs.validFrac
    rwa [hr] at this
  obtain ⟨z, hz⟩ := sig_decomp n.integer n.fraction
  have hD : ofDigits 10 ((numberLit c n).intDigits ++ (numberLit c n).fracDigits) =
      ofDigits 10 (dv 10 (sigBytes n.integer n.fraction)) := by
    rw [hs.intDigits, hs.fracDigits, hr]
    have : dv 10 n.integer ++ dv 10 (n.fraction.getD []) = dv 10 (n.integer ++ n.fraction.getD []) := by
      unfold dv; rw [List.map_append]
    rw [this, hz, ofDigits_dv_zeros]
  have hfl : (numberLit c n).fracDigits.length = (n.fraction.getD []).length := by
    rw [hs.fracDigits, dv_length]
  have hE : (numberLit c n).exp = n.explicitExp := rfl
  have hV : litFrac 10 10 (numberLit c n) =
      (ofDigits 10 (dv 10 (sigBytes n.integer n.fraction)) * 10 ^ n.explicitExp.toNat,
        10 ^ (n.fraction.getD []).length * 10 ^ (-n.explicitExp).toNat) := by
    rw [litFrac_eq, hD, hfl, hE]
  have hSsplit := C01Number.ofDigits_dv_take_drop 10 (sigBytes n.integer n.fraction) 19
  have hStail := ofDigits_dv_lt (valid_drop hvs 19)
  rw [← hw, List.length_drop] at hSsplit
  rw [List.length_drop] at hStail
  generalize hsig : sigBytes n.integer n.fraction = sig at *
  generalize hS : ofDigits 10 (dv 10 sig) = S at *
  generalize hfle : (n.fraction.getD []).length = fl at *
  generalize htl : ofDigits 10 (dv 10 (List.drop 19 sig)) = tl at *
  have hS1 : n.mantissa * 10 ^ (sig.length - 19) ≤ S := by omega
  have hS2 : S < (n.mantissa + 1) * 10 ^ (sig.length - 19) := by
    have : (n.mantissa + 1) * 10 ^ (sig.length - 19) = n.mantissa * 10 ^ (sig.length - 19) + 10 ^ (sig.length - 19) := by
      ring
    omega
  rw [hnum, hV]
  exact interval_tv S n.mantissa (sig.length - 19) fl n.exponent n.explicitExp n.isNegative hS1 hS2 (by omega)

/-- **truncated `Number`s of a `compact` build** -/
theorem slowDomain_bell_truncated {F : FTy} (hF : IsLemireFloat F) {p eb : Nat} (lay : Layout F p eb) (c : Cfg)
    (hr : c.mantissaRadix = 10) (hb : c.exponentBase = 10) (n : Number) (hmany : n.manyDigits = true)
    (hs : PlainSlices c n) (hN : 19 < (sigBytes n.integer n.fraction).length)
    (hw : n.mantissa = ofDigits 10 (dv 10 ((sigBytes n.integer n.fraction).take 19)))
    (hw1 : 10 ^ 18 ≤ n.mantissa) (hw2 : n.mantissa < 10 ^ 19)
    (hq : n.exponent = ((sigBytes n.integer n.fraction).length : Int) - 19 + n.explicitExp -
      ((n.fraction.getD []).length : Int))
    (fp : ExtendedFloat80) (hbel : Bellerophon.bellerophon F compactP (numOf n) false = .ok fp) (hinv : fp.exp < 0) :
    ∃ d, SlowDomain c F p n { fp with exp := fp.exp - invalidFp } d ∧
      Bracket F fp (litFrac 10 10 (numberLit c n)).1 (litFrac 10 10 (numberLit c n)).2 := by
  obtain ⟨d, hd, hd19, hd769⟩ := maxDigits_decimal_le c.feats hF
  have hw64 : n.mantissa < 2 ^ 64 := Nat.lt_trans hw2 pow10_19
  have hw59 : 2 ^ 59 ≤ n.mantissa := by
    have : (2 : Nat) ^ 59 ≤ 10 ^ 18 := by decide
    omega
  have hnum : numOf n = ⟨n.mantissa, n.exponent, n.isNegative, true⟩ := by unfold numOf; rw [hmany]
  have hvs : ValidDigits 10 (sigBytes n.integer n.fraction) := by
    have := valid_sigBytes hs.validInt hs.validFrac
    rwa [hr] at this
  obtain ⟨z, hz⟩ := sig_decomp n.integer n.fraction
  have hD : ofDigits 10 ((numberLit c n).intDigits ++ (numberLit c n).fracDigits) =
      ofDigits 10 (dv 10 (sigBytes n.integer n.fraction)) := by
    rw [hs.intDigits, hs.fracDigits, hr]
    have : dv 10 n.integer ++ dv 10 (n.fraction.getD []) = dv 10 (n.integer ++ n.fraction.getD []) := by
      unfold dv; rw [List.map_append]
    rw [this, hz, ofDigits_dv_zeros]
  have hfl : (numberLit c n).fracDigits.length = (n.fraction.getD []).length := by
    rw [hs.fracDigits, dv_length]
  have hE : (numberLit c n).exp = n.explicitExp := rfl
  have hV : litFrac 10 10 (numberLit c n) =
      (ofDigits 10 (dv 10 (sigBytes n.integer n.fraction)) * 10 ^ n.explicitExp.toNat,
        10 ^ (n.fraction.getD []).length * 10 ^ (-n.explicitExp).toNat) := by
    rw [litFrac_eq, hD, hfl, hE]
  obtain ⟨M, cnt, hmo, hc19, hcd, hM1, hM2⟩ := mantissaOf_interval (d := d) hvs hd19 hN
  rw [← hw] at hM1 hM2
  have hSsplit := C01Number.ofDigits_dv_take_drop 10 (sigBytes n.integer n.fraction) 19
  have hStail := ofDigits_dv_lt (valid_drop hvs 19)
  rw [← hw, List.length_drop] at hSsplit
  rw [List.length_drop] at hStail
  have hne : sigBytes n.integer n.fraction ≠ [] := by
    intro h0; rw [h0] at hN; simp at hN
  generalize hsig : sigBytes n.integer n.fraction = sig at *
  generalize hS : ofDigits 10 (dv 10 sig) = S at *
  generalize hfle : (n.fraction.getD []).length = fl at *
  generalize htl : ofDigits 10 (dv 10 (List.drop 19 sig)) = tl at *
  have hMlt : M < 10 ^ cnt := by
    calc M < (n.mantissa + 1) * 10 ^ (cnt - 19) := hM2
      _ ≤ 10 ^ 19 * 10 ^ (cnt - 19) := Nat.mul_le_mul_right _ (by omega)
      _ = 10 ^ cnt := by rw [← Nat.pow_add]; congr 1; omega
  have hS1 : n.mantissa * 10 ^ (sig.length - 19) ≤ S := by omega
  have hS2 : S < (n.mantissa + 1) * 10 ^ (sig.length - 19) := by
    have : (n.mantissa + 1) * 10 ^ (sig.length - 19) = n.mantissa * 10 ^ (sig.length - 19) + 10 ^ (sig.length - 19) := by
      ring
    omega
  have hT18 : ∀ T : Nat, 10 ^ T ≤ n.mantissa → n.mantissa < 10 ^ (T + 1) → T = 18 := by
    intro T t1 t2
    have a1 : 10 ^ T < 10 ^ 19 := Nat.lt_of_le_of_lt t1 hw2
    have a2 : 10 ^ 18 < 10 ^ (T + 1) := Nat.lt_of_le_of_lt hw1 t2
    have := (Nat.pow_lt_pow_iff_right (by decide : 1 < 10)).mp a1
    have := (Nat.pow_lt_pow_iff_right (by decide : 1 < 10)).mp a2
    omega
  refine ⟨d, ?_⟩
  apply slowDomain_bell hF lay c hr hb n hs (by rw [hsig]; exact hne) hw64 (fun _ => hw59)
    (by
      rw [hsig, hfle]
      intro T t1 t2
      have := hT18 T t1 t2
      omega)
    d hd M cnt (by rw [hsig]; exact hmo) hMlt (by omega) ?_ ?_ fp hbel hinv
  · rw [hnum, hV]
    exact interval_tv S n.mantissa (sig.length - 19) fl n.exponent n.explicitExp n.isNegative hS1 hS2 (by omega)
  · intro T t1 t2 hneg
    have hT := hT18 T t1 t2
    have := interval_tv M n.mantissa (cnt - 19) 0 n.exponent (n.exponent + ↑T + 1 - (cnt : Int)) n.isNegative
      hM1 hM2 (by omega)
    have hdz : (n.exponent + ↑T + 1 - (cnt : Int)).toNat = 0 := by omega
    rw [hdz] at this
    simp only [Nat.pow_zero, Nat.mul_one, Nat.one_mul] at this
    rw [hnum]
    exact this

end LexVerif.Props.C01Compact
