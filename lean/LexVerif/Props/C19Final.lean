import LexVerif.Props.C19
import LexVerif.Props.C01Final
/-!
# Props.C19Final — lossy float parsing on the pipeline model changes only the magnitude, by at most one pattern

`Model.ParseFloatAlgo.parseFloatAlgoModel … (lossy := true)` is `parse_complete` / `parse_partial` with `options.lossy()`:
the same syntax layer (the `lossy` flag is not an input of it), `try_fast_path`, the moderate path with `lossy = true`
(which always answers with a valid float), no slow path. The specification side is the oracle `parseFloatModel`
(`Spec.litBits`; by `Props.C01Final.C01_decimal_full_proved` it is also what the non-lossy pipeline prints).

* `LossyRel`: the two printed results are the same string (errors, special values, `ok 0`), or both are `ok <bits> <count>`
  with the same count and `Close` bits — same sign, magnitudes at most one pattern apart (`CloseDown`: the lossy one is
  the correct one or the pattern just **below**);
* `lossyRel_of_numbers`: the API statement reduced to one obligation per parsed `Number`;
* `lossy_number_core`: fast-path answers are untouched; a moderate-path answer within one pattern is `Close`;
* decimal: `C19_decimal_lossy` (non-`compact`: Eisel–Lemire, `CloseDown`; `compact`: Bellerophon, `Close`), every
  separator-free format class of C12, every digit count, both float types, complete and partial parser —
  `C19_lossy_decimal_proved`;
* `C19_decimal_decided`: the lossy result **equals** the oracle whenever the input is untruncated and Eisel–Lemire
  decides (in particular on every fast-path input and whenever the value is exactly representable);
* radices: `lossy_number_pow2`, `lossy_number_bellerophon` per `Number` (the syntax layer's exactness for non-decimal
  radices is a hypothesis there).

What is **not** true and therefore not stated: that an infinite correct result is preserved — the lossy parser rounds
the first 19 digits only, so `2^1024 − 2^970` written out (309 digits, a tie that rounds to `+∞`) parses to the largest
finite double under `lossy` (`lossy_overflow_witness`).
-/
namespace LexVerif.Props.C19Final
open LexVerif.Spec LexVerif.Model LexVerif.Model.ParseFloatAlgo
open LexVerif.Proof.RoundNE LexVerif.Proof.ExtRound LexVerif.Proof.Pipeline
open LexVerif.Props.C01 (IsLemireFloat IsI64)
open LexVerif.Props.C01Main

/-! ## the relation -/

/-- bits of the same sign whose magnitudes are finite-or-infinite patterns at most one apart -/
def Close (F : FTy) (vl ve : Nat) : Prop :=
  ∃ ml me sgn, vl = ml + sgn ∧ ve = me + sgn ∧ (sgn = 0 ∨ sgn = F.fmt.signBit) ∧
    me ≤ F.fmt.infBits ∧ ml ≤ me + 1 ∧ me ≤ ml + 1

/-- … and the lossy magnitude is the correct one or the pattern just below it (so a correct `±0` is preserved) -/
def CloseDown (F : FTy) (vl ve : Nat) : Prop :=
  ∃ ml me sgn, vl = ml + sgn ∧ ve = me + sgn ∧ (sgn = 0 ∨ sgn = F.fmt.signBit) ∧
    me ≤ F.fmt.infBits ∧ ml ≤ me ∧ me ≤ ml + 1

theorem CloseDown.close {F : FTy} {vl ve : Nat} (h : CloseDown F vl ve) : Close F vl ve := by
  obtain ⟨ml, me, sgn, h1, h2, h3, h4, h5, h6⟩ := h
  exact ⟨ml, me, sgn, h1, h2, h3, h4, by omega, h6⟩

theorem close_refl {F : FTy} (neg : Bool) {m : Nat} (hm : m ≤ F.fmt.infBits) :
    CloseDown F (m + if neg then F.fmt.signBit else 0) (m + if neg then F.fmt.signBit else 0) :=
  ⟨m, m, _, rfl, rfl, by cases neg <;> simp, hm, Nat.le_refl _, Nat.le_succ _⟩

/-- a correct zero is preserved by a downward-close lossy result -/
theorem closeDown_zero {F : FTy} {vl ve sgn : Nat} (h : CloseDown F vl ve) (hz : ve = sgn)
    (hs : sgn = 0 ∨ sgn = F.fmt.signBit) (hinf : F.fmt.infBits < F.fmt.signBit) : vl = ve := by
  obtain ⟨ml, me, s2, h1, h2, h3, h4, h5, h6⟩ := h
  have : me = 0 ∧ s2 = sgn := by
    rcases hs with hs | hs <;> rcases h3 with h3 | h3 <;> omega
  omega

/-- the relation between the oracle's line and the lossy pipeline's line -/
def LossyRel (R : Nat → Nat → Prop) (exact lossy : String) : Prop :=
  exact = lossy ∨ ∃ (vl ve : Nat) (cnt : String),
    lossy = s!"ok {toHex vl} {cnt}" ∧ exact = s!"ok {toHex ve} {cnt}" ∧ R vl ve

theorem LossyRel.same (R : Nat → Nat → Prop) (a : String) : LossyRel R a a := Or.inl rfl

/-! ## API level: one obligation per parsed `Number` -/

/-- **the `lossy` flag is not an input of the syntax layer**: acceptance, errors, counts, special values and `ok 0` are
shared verbatim by `parseFloatModel` and the lossy pipeline; the two lines can differ only in the bits of a parsed
`Number`. -/
theorem lossyRel_of_numbers (R : Nat → Nat → Prop) (slow : SlowRadix) (feats : Features) (fmt : Format) (o : POpts)
    (isPartial : Bool) (F : FTy) (s : List Nat)
    (h : isValidOptionsPunctuation feats fmt o.exp o.dp = true → ∀ n cnt,
      parseFloatSyntax ⟨feats, fmt, false⟩ o isPartial s (formatError feats fmt).isNone = .ok (.number n cnt) →
      ∃ vl, numberToFloat slow ⟨feats, fmt, false⟩ F n true = some vl ∧
        R vl (numberBits ⟨feats, fmt, false⟩ F.fmt n)) :
    LossyRel R (parseFloatModel feats fmt o isPartial F.fmt s)
      (parseFloatAlgoModel slow feats fmt o isPartial F s true) := by
  unfold parseFloatAlgoModel parseFloatModel
  cases optionsError o with
  | some e => exact LossyRel.same _ _
  | none =>
    simp only []
    split
    · exact LossyRel.same _ _
    · split
      · exact LossyRel.same _ _
      · rename_i hval
        split
        · exact LossyRel.same _ _
        · cases hp : parseFloatSyntax ⟨feats, fmt, false⟩ o isPartial s (formatError feats fmt).isNone with
          | error e => exact LossyRel.same _ _
          | ok q =>
            simp only []
            cases q with
            | zero k => exact LossyRel.same _ _
            | special sp neg k => cases sp <;> exact LossyRel.same _ _
            | number n cnt =>
              obtain ⟨vl, h1, h2⟩ := h (by simpa using hval) n cnt hp
              unfold renderParsedAlgo renderParsed
              simp only []
              rw [h1]
              exact Or.inr ⟨vl, _, _, rfl, rfl, h2⟩

/-! ## one `Number` -/

theorem wf_of {F : FTy} (hF : IsLemireFloat F) : WF F.fmt := by
  rcases hF with h | h <;> subst h
  · exact wf_f64
  · exact wf_f32

theorem toNative_bits (F : FTy) (fp : ExtendedFloat80) (neg : Bool) :
    toNative F fp neg = extendedToFloat F fp + (if neg then F.fmt.signBit else 0) := by
  unfold toNative FastPath.withSign
  cases neg <;> simp

/-- **the lossy pipeline for one `Number`**: a fast-path answer is returned as it is (the fast path does not look at
`lossy`); otherwise the valid answer of the lossy moderate path is returned with the sign — the slow path is not
consulted -/
theorem lossy_number_core (slow : SlowRadix) {F : FTy} (c : Cfg) (n : Number) (num den : Nat)
    (hfnp : FastPath.tryFastPath (smallSetOf c.feats) F c.mantissaRadix c.exponentBase (numOf n) ≠ .panic)
    (hfast : ∀ v, FastPath.tryFastPath (smallSetOf c.feats) F c.mantissaRadix c.exponentBase (numOf n) = .some v →
      v = roundSigned F.fmt n.isNegative num den)
    {fp : ExtendedFloat80} (hm : moderatePath c F (numOf n) true = .ok fp) (hv : 0 ≤ fp.exp) :
    ∃ vl, numberToFloat slow c F n true = some vl ∧
      (vl = roundSigned F.fmt n.isNegative num den ∨
        vl = extendedToFloat F fp + (if n.isNegative then F.fmt.signBit else 0)) := by
  unfold numberToFloat
  split
  · rename_i v hv'
    exact ⟨v, rfl, Or.inl (hfast v hv')⟩
  · rename_i hp; exact absurd hp hfnp
  · rw [hm]
    simp only []
    rw [if_neg (by omega)]
    exact ⟨_, rfl, Or.inr (toNative_bits F fp n.isNegative)⟩

/-- from "the lossy magnitude is the correct one or the one below" to `CloseDown` -/
theorem closeDown_of {F : FTy} (hF : IsLemireFloat F) (neg : Bool) (num den ml vl : Nat) (hd : 0 < den)
    (h : vl = roundSigned F.fmt neg num den ∨ vl = ml + (if neg then F.fmt.signBit else 0))
    (h1 : ml ≤ roundNE F.fmt num den) (h2 : roundNE F.fmt num den ≤ ml + 1) :
    CloseDown F vl (roundSigned F.fmt neg num den) := by
  have hinf := roundNE_le_infBits (wf_of hF) num hd
  rcases h with h | h
  · rw [h]; unfold roundSigned; exact close_refl neg hinf
  · rw [h]; unfold roundSigned
    exact ⟨ml, _, _, rfl, rfl, by cases neg <;> simp, hinf, h1, h2⟩

theorem close_of {F : FTy} (hF : IsLemireFloat F) (neg : Bool) (num den ml vl : Nat) (hd : 0 < den)
    (h : vl = roundSigned F.fmt neg num den ∨ vl = ml + (if neg then F.fmt.signBit else 0))
    (h1 : ml ≤ roundNE F.fmt num den + 1) (h2 : roundNE F.fmt num den ≤ ml + 1) :
    Close F vl (roundSigned F.fmt neg num den) := by
  have hinf := roundNE_le_infBits (wf_of hF) num hd
  rcases h with h | h
  · rw [h]; unfold roundSigned; exact (close_refl neg hinf).close
  · rw [h]; unfold roundSigned
    exact ⟨ml, _, _, rfl, rfl, by cases neg <;> simp, hinf, h1, h2⟩

/-! ## decimal, Eisel–Lemire builds -/

theorem lemire_lossy_eq (F : FTy) (n : Num) :
    Lemire.lemire F n true = Lemire.computeFloat F n.exponent n.mantissa true := by
  unfold Lemire.lemire
  cases Lemire.computeFloat F n.exponent n.mantissa true <;> simp

theorem moderatePath_lemire_lossy (c : Cfg) (hcompact : c.feats.compact = false) (hr : c.mantissaRadix = 10)
    (F : FTy) (n : Num) :
    moderatePath c F n true = Lemire.computeFloat F n.exponent n.mantissa true := by
  unfold moderatePath
  rw [hr, backend_lemire _ hcompact]
  simp only []
  exact lemire_lossy_eq F n

theorem fast_none_of_many (S : Proof.Tables.SmallSet) (F : FTy) (r b : Nat) (n : Num) (h : n.manyDigits = true) :
    FastPath.tryFastPath S F r b n = .none := by
  unfold FastPath.tryFastPath FastPath.isFastPath
  rw [h]
  simp

/-- the two relative errors — the computed product (`2^−61`) and the truncation to 19 digits (`≤ 10^−18`) — stay
below `2^−58` together -/
theorem rel_compose (P Q w : Nat) (hw : 10 ^ 18 ≤ w) (h : P * (w * 2 ^ 61) < Q * ((2 ^ 61 + 1) * (w + 1))) :
    P * 2 ^ 58 ≤ Q * (2 ^ 58 + 1) := by
  have hk : (2 ^ 61 + 1) * (w + 1) * 2 ^ 58 ≤ (2 ^ 58 + 1) * (w * 2 ^ 61) := by
    have e1 : (2 ^ 61 + 1) * (w + 1) * 2 ^ 58 = 2 ^ 58 * (2 ^ 61 + 1) * w + 2 ^ 58 * (2 ^ 61 + 1) := by ring
    have e2 : (2 ^ 58 + 1) * (w * 2 ^ 61) = (2 ^ 58 + 1) * 2 ^ 61 * w := by ring
    rw [e1, e2]
    have e3 : (2 ^ 58 + 1) * 2 ^ 61 = 2 ^ 58 * (2 ^ 61 + 1) + 7 * 2 ^ 58 := by norm_num
    rw [e3, Nat.add_mul]
    have e4 : 2 ^ 58 * (2 ^ 61 + 1) ≤ 7 * 2 ^ 58 * 10 ^ 18 := by norm_num
    have e5 : 7 * 2 ^ 58 * 10 ^ 18 ≤ 7 * 2 ^ 58 * w := Nat.mul_le_mul_left _ hw
    exact Nat.add_le_add_left (Nat.le_trans e4 e5) _
  have hα : 0 < w * 2 ^ 61 := Nat.mul_pos (by omega) (Nat.two_pow_pos _)
  apply Nat.le_of_lt
  apply Nat.lt_of_mul_lt_mul_right (a := w * 2 ^ 61)
  calc P * 2 ^ 58 * (w * 2 ^ 61) = P * (w * 2 ^ 61) * 2 ^ 58 := by ring
    _ < Q * ((2 ^ 61 + 1) * (w + 1)) * 2 ^ 58 := Nat.mul_lt_mul_of_pos_right h (Nat.two_pow_pos _)
    _ = Q * ((2 ^ 61 + 1) * (w + 1) * 2 ^ 58) := by ring
    _ ≤ Q * ((2 ^ 58 + 1) * (w * 2 ^ 61)) := Nat.mul_le_mul_left _ hk
    _ = Q * (2 ^ 58 + 1) * (w * 2 ^ 61) := by ring

open LexVerif.Proof.Bell in
/-- **lossy Eisel–Lemire for one decimal `Number`** (untruncated, or truncated to 19 digits `≥ 10^18`): the result is
`roundNE` of the true value `num/den` (`TrueValue`) or the pattern just below, with the sign of the literal -/
theorem lossy_number_lemire (slow : SlowRadix) {F : FTy} (hF : IsLemireFloat F) (c : Cfg)
    (hcompact : c.feats.compact = false) (hr : c.mantissaRadix = 10) (hb : c.exponentBase = 10) (n : Number)
    (hw : n.mantissa < 2 ^ 64) (hq : IsI64 n.exponent) (hw18 : n.manyDigits = true → 10 ^ 18 ≤ n.mantissa)
    (num den : Nat) (hd : 0 < den) (htv : TrueValue 10 (numOf n) num den) :
    ∃ vl, numberToFloat slow c F n true = some vl ∧ CloseDown F vl (roundSigned F.fmt n.isNegative num den) := by
  have hf := wf_of hF
  obtain ⟨fp, n', d', h1, h2, hd', h3, hlo, hhi⟩ := C19.lossy_lemire_value F hF n.exponent hq n.mantissa hw
  have hden : 0 < (powFrac 10 n.exponent n.mantissa).2 := powFrac_den_pos (by decide) _ _
  obtain ⟨tv1, tv2⟩ := htv
  have hmn : (numOf n).mantissa = n.mantissa := rfl
  have hen : (numOf n).exponent = n.exponent := rfl
  have hmd : (numOf n).manyDigits = n.manyDigits := rfl
  rw [hmn, hen] at tv1
  rw [hmn, hen, hmd] at tv2
  have hp58 : 2 ^ F.fmt.p ≤ 2 ^ 58 := by rcases hF with h | h <;> subst h <;> decide
  generalize hA : powFrac 10 n.exponent n.mantissa = A at *
  -- x' ≤ w·10^q ≤ X
  have hmono : roundNE F.fmt n' d' ≤ roundNE F.fmt num den := by
    apply roundNE_mono' hf hd' hd
    apply Nat.le_of_mul_le_mul_right _ hden
    calc n' * den * A.2 = n' * A.2 * den := by ring
      _ ≤ A.1 * d' * den := Nat.mul_le_mul_right _ hlo
      _ = A.1 * den * d' := by ring
      _ ≤ num * A.2 * d' := Nat.mul_le_mul_right _ tv1
      _ = num * d' * A.2 := by ring
  cases hmany : n.manyDigits with
  | false =>
    rw [hmany] at tv2
    simp only [Bool.false_eq_true, if_false] at tv2
    have hstep : roundNE F.fmt num den ≤ roundNE F.fmt n' d' + 1 := by
      apply roundNE_step hf hd' hd (show 2 ^ F.fmt.p ≤ 2 ^ 61 from Nat.le_trans hp58 (by decide))
      apply Nat.le_of_mul_le_mul_right _ hden
      calc num * d' * 2 ^ 61 * A.2 = num * A.2 * (d' * 2 ^ 61) := by ring
        _ ≤ A.1 * den * (d' * 2 ^ 61) := Nat.mul_le_mul_right _ tv2
        _ = A.1 * d' * 2 ^ 61 * den := by ring
        _ ≤ n' * A.2 * (2 ^ 61 + 1) * den := Nat.mul_le_mul_right _ hhi
        _ = n' * den * (2 ^ 61 + 1) * A.2 := by ring
    have hfc := fastContract_decimal hF c hr n
    have hcg : roundNE F.fmt A.1 A.2 = roundNE F.fmt num den :=
      roundNE_congr' hf hden hd (Nat.le_antisymm tv1 tv2)
    obtain ⟨vl, e1, e2⟩ := lossy_number_core slow c n num den hfc.1 (fun v hv => by
        rw [hfc.2 v hv, hb, hA]
        unfold roundSigned
        rw [hcg])
      (by rw [moderatePath_lemire_lossy c hcompact hr]; exact h1) h2
    exact ⟨vl, e1, closeDown_of hF _ num den (roundNE F.fmt n' d') vl hd (by rw [h3] at e2; exact e2) hmono hstep⟩
  | true =>
    rw [hmany] at tv2
    simp only [if_true] at tv2
    have hw1 := hw18 hmany
    have hB2 : (powFrac 10 n.exponent (n.mantissa + 1)).2 = A.2 := by
      rw [← hA]; unfold powFrac; split <;> rfl
    have hB1 : (powFrac 10 n.exponent (n.mantissa + 1)).1 * n.mantissa = A.1 * (n.mantissa + 1) := by
      rw [← hA]; unfold powFrac; split
      · simp only []; ring
      · simp only []; ring
    rw [hB2] at tv2
    have hstep : roundNE F.fmt num den ≤ roundNE F.fmt n' d' + 1 := by
      apply roundNE_step hf hd' hd hp58
      apply rel_compose (num * d') (n' * den) n.mantissa hw1
      have hA2 : 0 < A.2 := hden
      apply Nat.lt_of_mul_lt_mul_right (a := A.2)
      calc num * d' * (n.mantissa * 2 ^ 61) * A.2 = (num * A.2) * n.mantissa * (d' * 2 ^ 61) := by ring
        _ < ((powFrac 10 n.exponent (n.mantissa + 1)).1 * den) * n.mantissa * (d' * 2 ^ 61) :=
          Nat.mul_lt_mul_of_pos_right (Nat.mul_lt_mul_of_pos_right tv2 (by omega))
            (Nat.mul_pos hd' (Nat.two_pow_pos _))
        _ = ((powFrac 10 n.exponent (n.mantissa + 1)).1 * n.mantissa) * den * (d' * 2 ^ 61) := by ring
        _ = (A.1 * d' * 2 ^ 61) * ((n.mantissa + 1) * den) := by rw [hB1]; ring
        _ ≤ (n' * A.2 * (2 ^ 61 + 1)) * ((n.mantissa + 1) * den) := Nat.mul_le_mul_right _ hhi
        _ = n' * den * ((2 ^ 61 + 1) * (n.mantissa + 1)) * A.2 := by ring
    have hnone := fast_none_of_many (smallSetOf c.feats) F c.mantissaRadix c.exponentBase (numOf n) hmany
    obtain ⟨vl, e1, e2⟩ := lossy_number_core slow c n num den (by rw [hnone]; simp)
      (fun v hv => by rw [hnone] at hv; exact absurd hv (by simp))
      (by rw [moderatePath_lemire_lossy c hcompact hr]; exact h1) h2
    exact ⟨vl, e1, closeDown_of hF _ num den (roundNE F.fmt n' d') vl hd (by rw [h3] at e2; exact e2) hmono hstep⟩

/-! ## decimal, API level -/

open LexVerif.Proof.Bell in
/-- an exact untruncated `Number`: its digit content is its true value -/
theorem tv_of_ratEq (c : Cfg) (hr : c.mantissaRadix = 10) (hb : c.exponentBase = 10) (n : Number)
    (hmany : n.manyDigits = false)
    (hx : RatEq (powFrac c.exponentBase n.exponent n.mantissa) (litFrac c.mantissaRadix c.exponentBase (numberLit c n))) :
    TrueValue 10 (numOf n) (litFrac 10 10 (numberLit c n)).1 (litFrac 10 10 (numberLit c n)).2 := by
  unfold RatEq at hx
  rw [hr, hb] at hx
  unfold TrueValue
  have hmn : (numOf n).mantissa = n.mantissa := rfl
  have hen : (numOf n).exponent = n.exponent := rfl
  have hmd : (numOf n).manyDigits = n.manyDigits := rfl
  rw [hmn, hen, hmd, hmany]
  simp only [Bool.false_eq_true, if_false]
  exact ⟨Nat.le_of_eq hx, Nat.le_of_eq hx.symm⟩

/-- the oracle's bits of a decimal `Number` are `roundSigned` of its digit content -/
theorem numberBits_decimal {F : FTy} (hF : IsLemireFloat F) (c : Cfg) (hr : c.mantissaRadix = 10)
    (hb : c.exponentBase = 10) (n : Number)
    (hx : n.manyDigits = false →
      RatEq (powFrac c.exponentBase n.exponent n.mantissa) (litFrac c.mantissaRadix c.exponentBase (numberLit c n))) :
    numberBits c F.fmt n =
      roundSigned F.fmt n.isNegative (litFrac 10 10 (numberLit c n)).1 (litFrac 10 10 (numberLit c n)).2 := by
  obtain ⟨p, eb, lay⟩ := layout_of hF
  have hlit := litBits_exact lay (r := 10) (b := 10) (by decide) (by decide) (by decide) (numberLit c n)
    (by have := numberLit_digits_lt c n; rwa [hr] at this)
  have hneg : (numberLit c n).neg = n.isNegative := rfl
  rw [hneg] at hlit
  cases hmany : n.manyDigits with
  | false =>
    have := (spec_forms hF c (by omega) (by omega) (by omega) n hmany (hx hmany)).2
    rw [this, hr, hb, hlit]
  | true =>
    have hbits : numberBits c F.fmt n = litBits F.fmt 10 10 (numberLit c n) := by
      unfold numberBits numberLit
      simp only [hmany, if_true, hr, hb]
      rfl
    rw [hbits, hlit]

/-- **C19, decimal, Eisel–Lemire builds**: for every non-`compact` build, every separator-free format class of C12,
all options, `f32`/`f64`, complete and partial parser and every input (any number of digits), the lossy pipeline prints
the oracle's line, or `ok` with the same count and bits of the same sign whose magnitude is the correctly rounded one or
the pattern just below it. -/
theorem C19_decimal_lossy_lemire (slow : SlowRadix) (feats : Features) (hcompact : feats.compact = false)
    (fmt : Format) (hr : fmt.mantissaRadix = 10) (hb : fmt.exponentBase = 10)
    (hclass : feats.format = false ∨ C12.SepPrefixFree fmt)
    (o : POpts) {F : FTy} (hF : IsLemireFloat F) (isPartial : Bool) (s : List Nat)
    (h256 : ∀ x ∈ s, x < 256) (hlen : s.length < 2 ^ 60) :
    LossyRel (CloseDown F) (parseFloatModel feats fmt o isPartial F.fmt s)
      (parseFloatAlgoModel slow feats fmt o isPartial F s true) := by
  apply lossyRel_of_numbers
  intro hval n cnt hp
  have hdp := C01Final.dp_not_digit feats fmt o (by omega) hval
  have hr' : (⟨feats, fmt, false⟩ : Cfg).mantissaRadix = 10 := hr
  have hb' : (⟨feats, fmt, false⟩ : Cfg).exponentBase = 10 := hb
  have hlpos := litFrac_den_pos (r := 10) (b := 10) (by decide) (by decide) (numberLit ⟨feats, fmt, false⟩ n)
  cases hmany : n.manyDigits with
  | false =>
    obtain ⟨hx, _, _⟩ := C01Number.number_exact_of_syntax ⟨feats, fmt, false⟩ rfl hclass hr hb o hdp isPartial s _
      h256 hlen n cnt hp hmany
    rw [numberBits_decimal hF _ hr' hb' n (fun _ => hx.2.2)]
    exact lossy_number_lemire slow hF ⟨feats, fmt, false⟩ hcompact hr' hb' n hx.1 hx.2.1
      (fun h => by rw [hmany] at h; exact absurd h (by decide)) _ _ hlpos
      (tv_of_ratEq _ hr' hb' n hmany hx.2.2)
  | true =>
    obtain ⟨hs, hN, hw, hw1, hwlt, hq, hE1, hE2, hl1, hl2⟩ := C01Number.number_truncated_of_syntax ⟨feats, fmt, false⟩
      rfl hclass hr hb o hdp isPartial s _ h256 hlen n cnt hp hmany
    rw [numberBits_decimal hF _ hr' hb' n (fun h => by rw [hmany] at h; exact absurd h (by decide))]
    have hw64 : n.mantissa < 2 ^ 64 := by
      have : (10 : Nat) ^ 19 < 2 ^ 64 := by decide
      omega
    have hI : IsI64 n.exponent := by
      obtain ⟨z, hz⟩ := C01SlowDomain.sig_decomp n.integer n.fraction
      have hsl : (LexVerif.Proof.Slow.sigBytes n.integer n.fraction).length ≤ n.integer.length + (n.fraction.getD []).length := by
        have := congrArg List.length hz
        rw [List.length_append, List.length_append, List.length_replicate] at this
        omega
      unfold IsI64
      have h40 : (2 : Int) ^ 40 = 1099511627776 := by norm_num
      have h60 : (2 : Nat) ^ 60 = 1152921504606846976 := by norm_num
      have h63 : (2 : Int) ^ 63 = 9223372036854775808 := by norm_num
      rw [hq, h63]
      rw [h40] at hE1 hE2
      rw [h60] at hl1 hl2
      constructor <;> omega
    exact lossy_number_lemire slow hF ⟨feats, fmt, false⟩ hcompact hr' hb' n hw64 hI (fun _ => hw1) _ _ hlpos
      (C01Compact.litFrac_tv_truncated _ hr' n hmany hs hN hw hq)

/-! ## Bellerophon: decimal in `compact` builds, and every generic radix -/

open LexVerif.Proof.Bell in
/-- **lossy Bellerophon for one `Number`**, any radix with Bellerophon tables (`IsBellTable`: 10 under `compact`, the 29
generic radices in `radix` builds): the result is `roundNE` of the true value or an adjacent pattern, with the sign of
the literal. The fast-path contract is a hypothesis (`fastContract_decimal`, `fastContract_radix`). -/
theorem lossy_number_bellerophon (slow : SlowRadix) {F : FTy} (hF : IsLemireFloat F) (c : Cfg)
    (hback : backend c.feats c.mantissaRadix = .bellerophon)
    (hP : C05.IsBellTable (Bellerophon.powersOf c.feats c.mantissaRadix) c.mantissaRadix)
    (n : Number) (hw : n.mantissa < 2 ^ 64) (hw55 : n.manyDigits = true → 2 ^ 55 ≤ n.mantissa)
    (hfnp : FastPath.tryFastPath (smallSetOf c.feats) F c.mantissaRadix c.exponentBase (numOf n) ≠ .panic)
    (num den : Nat) (hd : 0 < den)
    (hfast : ∀ v, FastPath.tryFastPath (smallSetOf c.feats) F c.mantissaRadix c.exponentBase (numOf n) = .some v →
      v = roundSigned F.fmt n.isNegative num den)
    (htv : TrueValue c.mantissaRadix (numOf n) num den) :
    ∃ vl, numberToFloat slow c F n true = some vl ∧ Close F vl (roundSigned F.fmt n.isNegative num den) := by
  obtain ⟨fp, h1, h2, h3, h4⟩ := C19.lossy_bellerophon_neighbour F hF _ c.mantissaRadix hP (numOf n) hw hw55 num den hd htv
  have hm : moderatePath c F (numOf n) true = .ok fp := by
    unfold moderatePath; rw [hback]; exact h1
  obtain ⟨vl, e1, e2⟩ := lossy_number_core slow c n num den hfnp hfast hm h2
  exact ⟨vl, e1, close_of hF _ num den _ vl hd e2 h3 h4⟩

open LexVerif.Proof.Bell in
/-- **C19, decimal, `compact` builds** (moderate path: Bellerophon): the lossy pipeline prints the oracle's line, or `ok`
with the same count and bits of the same sign at most one pattern away from the correctly rounded ones. -/
theorem C19_decimal_lossy_compact (slow : SlowRadix) (feats : Features) (hcompact : feats.compact = true)
    (fmt : Format) (hr : fmt.mantissaRadix = 10) (hb : fmt.exponentBase = 10)
    (hclass : feats.format = false ∨ C12.SepPrefixFree fmt)
    (o : POpts) {F : FTy} (hF : IsLemireFloat F) (isPartial : Bool) (s : List Nat)
    (h256 : ∀ x ∈ s, x < 256) (hlen : s.length < 2 ^ 60) :
    LossyRel (Close F) (parseFloatModel feats fmt o isPartial F.fmt s)
      (parseFloatAlgoModel slow feats fmt o isPartial F s true) := by
  apply lossyRel_of_numbers
  intro hval n cnt hp
  have hdp := C01Final.dp_not_digit feats fmt o (by omega) hval
  have hr' : (⟨feats, fmt, false⟩ : Cfg).mantissaRadix = 10 := hr
  have hb' : (⟨feats, fmt, false⟩ : Cfg).exponentBase = 10 := hb
  have hlpos := litFrac_den_pos (r := 10) (b := 10) (by decide) (by decide) (numberLit ⟨feats, fmt, false⟩ n)
  have hf := wf_of hF
  have hback : backend (⟨feats, fmt, false⟩ : Cfg).feats (⟨feats, fmt, false⟩ : Cfg).mantissaRadix = .bellerophon := by
    rw [hr']; exact backend_bellerophon_compact _ hcompact
  have hP : C05.IsBellTable (Bellerophon.powersOf (⟨feats, fmt, false⟩ : Cfg).feats
      (⟨feats, fmt, false⟩ : Cfg).mantissaRadix) (⟨feats, fmt, false⟩ : Cfg).mantissaRadix := by
    rw [hr']
    refine Or.inr ⟨by decide, ?_⟩
    unfold Bellerophon.powersOf
    simp only [hcompact, if_true]
  cases hmany : n.manyDigits with
  | false =>
    obtain ⟨hx, _, _⟩ := C01Number.number_exact_of_syntax ⟨feats, fmt, false⟩ rfl hclass hr hb o hdp isPartial s _
      h256 hlen n cnt hp hmany
    rw [numberBits_decimal hF _ hr' hb' n (fun _ => hx.2.2)]
    have htv := tv_of_ratEq _ hr' hb' n hmany hx.2.2
    have hfc := fastContract_decimal hF ⟨feats, fmt, false⟩ hr' n
    refine lossy_number_bellerophon slow hF ⟨feats, fmt, false⟩ hback hP n hx.1
      (fun h => by rw [hmany] at h; exact absurd h (by decide)) hfc.1 _ _ hlpos (fun v hv => ?_)
      (by rw [hr']; exact htv)
    rw [hfc.2 v hv, hb']
    unfold roundSigned
    have hre := hx.2.2
    unfold RatEq at hre
    rw [hr', hb'] at hre
    rw [roundNE_congr' hf (powFrac_den_pos (by decide) _ _) hlpos hre]
  | true =>
    obtain ⟨hs, hN, hw, hw1, hwlt, hq, _, _, _, _⟩ := C01Number.number_truncated_of_syntax ⟨feats, fmt, false⟩
      rfl hclass hr hb o hdp isPartial s _ h256 hlen n cnt hp hmany
    rw [numberBits_decimal hF _ hr' hb' n (fun h => by rw [hmany] at h; exact absurd h (by decide))]
    have hw64 : n.mantissa < 2 ^ 64 := by
      have : (10 : Nat) ^ 19 < 2 ^ 64 := by decide
      omega
    have hnone := fast_none_of_many (smallSetOf feats) F (⟨feats, fmt, false⟩ : Cfg).mantissaRadix
      (⟨feats, fmt, false⟩ : Cfg).exponentBase (numOf n) hmany
    refine lossy_number_bellerophon slow hF ⟨feats, fmt, false⟩ hback hP n hw64
      (fun _ => Nat.le_trans (by decide) hw1) (by rw [hnone]; simp) _ _ hlpos
      (fun v hv => by rw [hnone] at hv; exact absurd hv (by simp))
      (by rw [hr']; exact C01Compact.litFrac_tv_truncated _ hr' n hmany hs hN hw hq)

/-! ## power-of-two radices, one `Number` -/

/-- **lossy `binary` for one untruncated `Number`** (radices 2, 4, 8, 16, 32, mixed exponent bases included): the lossy
result **is** the correctly rounded one -/
theorem lossy_number_pow2_exact (slow : SlowRadix) {F : FTy} (hF : IsLemireFloat F) (c : Cfg)
    (hp : c.feats.powerOfTwo = true) (hr : C05.IsPow2 c.mantissaRadix) (hb : C05.IsPow2 c.exponentBase)
    (n : Number) (hw : n.mantissa < 2 ^ 64) (he : C05.ExpInRange n.exponent) :
    numberToFloat slow c F n true = some (roundSigned F.fmt n.isNegative
      (powFrac c.exponentBase n.exponent n.mantissa).1 (powFrac c.exponentBase n.exponent n.mantissa).2) := by
  obtain ⟨p, eb, lay⟩ := layout_of hF
  have hS := radixSet_of_pow2 c.feats hp
  have hfc := fastContract_radix hF c hS (pow2_mem_radices hS hr) n
  obtain ⟨fp, a1, a2, a3⟩ := C19.lossy_pow2_exact lay hb (numOf n) hw he
  have hm : moderatePath c F (numOf n) true = .ok fp := by
    unfold moderatePath; rw [backend_binary _ hp hr]; exact a1
  obtain ⟨vl, e1, e2⟩ := lossy_number_core slow c n _ _ hfc.1 hfc.2 hm a2
  rw [e1]
  rcases e2 with e2 | e2
  · rw [e2]
  · rw [e2]
    have : (numOf n).mantissa = n.mantissa ∧ (numOf n).exponent = n.exponent := ⟨rfl, rfl⟩
    rw [this.1, this.2] at a3
    rw [a3]; rfl

/-- **lossy `binary` for one truncated `Number`** (`u64_step` digits, at least `p` bits): the correctly rounded float of
any true value in `[M, M+1)·base^e`, or the pattern just below it -/
theorem lossy_number_pow2 (slow : SlowRadix) {F : FTy} (hF : IsLemireFloat F) (c : Cfg)
    (hp : c.feats.powerOfTwo = true) (hr : C05.IsPow2 c.mantissaRadix) (hb : C05.IsPow2 c.exponentBase)
    (n : Number) (hmany : n.manyDigits = true) (hM : 2 ^ F.fmt.p ≤ n.mantissa) (hw : n.mantissa + 1 < 2 ^ 64)
    (he : C05.ExpInRange n.exponent) (num den : Nat) (hd : 0 < den)
    (hlo : (powFrac c.exponentBase n.exponent n.mantissa).1 * den ≤ num * (powFrac c.exponentBase n.exponent n.mantissa).2)
    (hhi : num * (powFrac c.exponentBase n.exponent (n.mantissa + 1)).2 <
      (powFrac c.exponentBase n.exponent (n.mantissa + 1)).1 * den) :
    ∃ vl, numberToFloat slow c F n true = some vl ∧ CloseDown F vl (roundSigned F.fmt n.isNegative num den) := by
  obtain ⟨p, eb, lay⟩ := layout_of hF
  have hfp : F.fmt.p = p := by rw [lay.fmt]
  obtain ⟨fp, a1, a2, a3⟩ := C19.lossy_pow2_neighbour lay hb (numOf n) (by rw [← hfp]; exact hM) hw he num den hd hlo hhi
  have hm : moderatePath c F (numOf n) true = .ok fp := by
    unfold moderatePath; rw [backend_binary _ hp hr]; exact a1
  have hnone := fast_none_of_many (smallSetOf c.feats) F c.mantissaRadix c.exponentBase (numOf n) hmany
  obtain ⟨vl, e1, e2⟩ := lossy_number_core slow c n num den (by rw [hnone]; simp)
    (fun v hv => by rw [hnone] at hv; exact absurd hv (by simp)) hm a2
  exact ⟨vl, e1, closeDown_of hF _ num den _ vl hd e2 (by rcases a3 with h | h <;> omega)
    (by rcases a3 with h | h <;> omega)⟩

/-! ## the full statement -/

/-- **C19, decimal — proved** (`C19_lossy_decimal_proved`): for every build, every separator-free decimal format class of
C12, all options, `f32`/`f64`, complete and partial parser, every input shorter than `2^60` bytes and **any** stand-in
for `slow_radix` (lossy parsing never calls it): the lossy pipeline accepts, rejects and counts exactly as the oracle,
special values and `ok 0` are printed identically, and the bits of a parsed number have the oracle's sign and a
magnitude at most one pattern from the correctly rounded one. -/
def C19_lossy_decimal : Prop :=
  ∀ (slow : SlowRadix) (feats : Features) (fmt : Format), fmt.mantissaRadix = 10 → fmt.exponentBase = 10 →
    (feats.format = false ∨ C12.SepPrefixFree fmt) →
    ∀ (o : POpts) (F : FTy), IsLemireFloat F → ∀ (isPartial : Bool) (s : List Nat),
      (∀ x ∈ s, x < 256) → s.length < 2 ^ 60 →
      LossyRel (Close F) (parseFloatModel feats fmt o isPartial F.fmt s)
        (parseFloatAlgoModel slow feats fmt o isPartial F s true)

theorem lossyRel_mono {R S : Nat → Nat → Prop} (h : ∀ a b, R a b → S a b) {x y : String} (hr : LossyRel R x y) :
    LossyRel S x y := by
  rcases hr with hr | ⟨vl, ve, cnt, h1, h2, h3⟩
  · exact Or.inl hr
  · exact Or.inr ⟨vl, ve, cnt, h1, h2, h _ _ h3⟩

theorem C19_lossy_decimal_proved : C19_lossy_decimal := by
  intro slow feats fmt hr hb hclass o F hF isPartial s h256 hlen
  cases hc : feats.compact with
  | false =>
    exact lossyRel_mono (fun _ _ h => h.close)
      (C19_decimal_lossy_lemire slow feats hc fmt hr hb hclass o hF isPartial s h256 hlen)
  | true => exact C19_decimal_lossy_compact slow feats hc fmt hr hb hclass o hF isPartial s h256 hlen

/-- **the full property** (kept as a `Prop`): the same for **every** radix the format may name. Proved: the decimal
instance (`C19_lossy_decimal_proved`) and, per `Number`, the other radices (`lossy_number_pow2_exact`,
`lossy_number_pow2`, `lossy_number_bellerophon`); open: the counterpart of `Props.C01Number` for non-decimal radices —
that the syntax layer's `mantissa` / `exponent` words are the (truncated) value of the digit slices, which is what
turns the per-`Number` theorems into this API statement. -/
def C19_lossy_full : Prop :=
  ∀ (slow : SlowRadix) (feats : Features) (fmt : Format),
    (formatError feats fmt).isNone → checkRadix feats fmt = true →
    (feats.format = false ∨ C12.SepPrefixFree fmt) →
    ∀ (o : POpts) (F : FTy), IsLemireFloat F → ∀ (isPartial : Bool) (s : List Nat),
      (∀ x ∈ s, x < 256) → s.length < 2 ^ 60 →
      LossyRel (Close F) (parseFloatModel feats fmt o isPartial F.fmt s)
        (parseFloatAlgoModel slow feats fmt o isPartial F s true)

/-! ## equality when the moderate path decides; the exact pipeline -/

/-- **`LossyRel` with equality is equality of the lines** -/
theorem eq_of_lossyRel_eq {x y : String} (h : LossyRel (fun a b => a = b) x y) : x = y := by
  rcases h with h | ⟨vl, ve, cnt, h1, h2, h3⟩
  · exact h
  · rw [h1, h2, h3]

/-- **C19, "equal whenever the fast or moderate path decides"** (decimal, Eisel–Lemire builds): if every `Number` parsed
from the input is untruncated and non-lossy `compute_float` decides it (in particular: every fast-path input, every
exactly representable value), the lossy pipeline prints exactly the oracle's line. -/
theorem C19_decimal_decided (slow : SlowRadix) (feats : Features) (hcompact : feats.compact = false)
    (fmt : Format) (hr : fmt.mantissaRadix = 10) (hb : fmt.exponentBase = 10)
    (hclass : feats.format = false ∨ C12.SepPrefixFree fmt)
    (o : POpts) {F : FTy} (hF : IsLemireFloat F) (isPartial : Bool) (s : List Nat)
    (h256 : ∀ x ∈ s, x < 256) (hlen : s.length < 2 ^ 60)
    (hdec : ∀ n cnt, parseFloatSyntax ⟨feats, fmt, false⟩ o isPartial s (formatError feats fmt).isNone =
      .ok (.number n cnt) → n.manyDigits = false ∧
        ∃ fp, Lemire.computeFloat F n.exponent n.mantissa false = .ok fp ∧ 0 ≤ fp.exp) :
    parseFloatModel feats fmt o isPartial F.fmt s = parseFloatAlgoModel slow feats fmt o isPartial F s true := by
  apply eq_of_lossyRel_eq
  apply lossyRel_of_numbers
  intro hval n cnt hp
  obtain ⟨hmany, fp, hcf, hv⟩ := hdec n cnt hp
  have hdp := C01Final.dp_not_digit feats fmt o (by omega) hval
  have hr' : (⟨feats, fmt, false⟩ : Cfg).mantissaRadix = 10 := hr
  have hb' : (⟨feats, fmt, false⟩ : Cfg).exponentBase = 10 := hb
  obtain ⟨hx, _, _⟩ := C01Number.number_exact_of_syntax ⟨feats, fmt, false⟩ rfl hclass hr hb o hdp isPartial s _
    h256 hlen n cnt hp hmany
  obtain ⟨hl, hrn⟩ := C19.lossy_lemire_agrees F hF n.exponent hx.2.1 n.mantissa hx.1 hcf hv
  have hfc := fastContract_decimal hF ⟨feats, fmt, false⟩ hr' n
  have hsf := spec_forms hF ⟨feats, fmt, false⟩ (by omega) (by omega) (by omega) n hmany hx.2.2
  rw [hsf.2, ← hsf.1, hb']
  obtain ⟨vl, e1, e2⟩ := lossy_number_core slow ⟨feats, fmt, false⟩ n _ _ hfc.1 (fun v hv' => by
      rw [hfc.2 v hv', hb'])
    (by rw [moderatePath_lemire_lossy _ hcompact hr']; exact hl) hv
  refine ⟨vl, e1, ?_⟩
  rcases e2 with e2 | e2
  · exact e2
  · rw [e2, hrn]; rfl

/-- **lossy vs. non-lossy on the same pipeline** (decimal, slow path modelled): the oracle is what the non-lossy
pipeline prints (`C01_decimal_full_proved`) -/
theorem C19_lossy_vs_exact_decimal (slow : SlowRadix) (feats : Features) (fmt : Format)
    (hr : fmt.mantissaRadix = 10) (hb : fmt.exponentBase = 10) (hclass : feats.format = false ∨ C12.SepPrefixFree fmt)
    (o : POpts) (F : FTy) (hF : IsLemireFloat F) (isPartial : Bool) (s : List Nat)
    (h256 : ∀ x ∈ s, x < 256) (hlen : s.length < 2 ^ 60) :
    LossyRel (Close F) (parseFloatAlgoModel C01SlowMain.slowModel feats fmt o isPartial F s)
      (parseFloatAlgoModel slow feats fmt o isPartial F s true) := by
  rw [C01Final.C01_decimal_full_proved feats fmt hr hb hclass o F hF isPartial s h256 hlen]
  exact C19_lossy_decimal_proved slow feats fmt hr hb hclass o F hF isPartial s h256 hlen

/-! ## what is not true: a correct `+∞` is not preserved -/

/-- `2^1024 − 2^970`, the midpoint between the largest finite double and `2^1024`, in decimal (309 digits) -/
def overflowTie : List Nat := [49, 55, 57, 55, 54, 57, 51, 49, 51, 52, 56, 54, 50, 51, 49, 53, 56, 48, 55, 57, 51, 55, 50, 56, 57, 55, 49, 52, 48, 53, 51, 48, 51, 52, 49, 53, 48, 55, 57, 57, 51, 52, 49, 51, 50, 55, 49, 48, 48, 51, 55, 56, 50, 54, 57, 51, 54, 49, 55, 51, 55, 55, 56, 57, 56, 48, 52, 52, 52, 57, 54, 56, 50, 57, 50, 55, 54, 52, 55, 53, 48, 57, 52, 54, 54, 52, 57, 48, 49, 55, 57, 55, 55, 53, 56, 55, 50, 48, 55, 48, 57, 54, 51, 51, 48, 50, 56, 54, 52, 49, 54, 54, 57, 50, 56, 56, 55, 57, 49, 48, 57, 52, 54, 53, 53, 53, 53, 52, 55, 56, 53, 49, 57, 52, 48, 52, 48, 50, 54, 51, 48, 54, 53, 55, 52, 56, 56, 54, 55, 49, 53, 48, 53, 56, 50, 48, 54, 56, 49, 57, 48, 56, 57, 48, 50, 48, 48, 48, 55, 48, 56, 51, 56, 51, 54, 55, 54, 50, 55, 51, 56, 53, 52, 56, 52, 53, 56, 49, 55, 55, 49, 49, 53, 51, 49, 55, 54, 52, 52, 55, 53, 55, 51, 48, 50, 55, 48, 48, 54, 57, 56, 53, 53, 53, 55, 49, 51, 54, 54, 57, 53, 57, 54, 50, 50, 56, 52, 50, 57, 49, 52, 56, 49, 57, 56, 54, 48, 56, 51, 52, 57, 51, 54, 52, 55, 53, 50, 57, 50, 55, 49, 57, 48, 55, 52, 49, 54, 56, 52, 52, 52, 51, 54, 53, 53, 49, 48, 55, 48, 52, 51, 52, 50, 55, 49, 49, 53, 53, 57, 54, 57, 57, 53, 48, 56, 48, 57, 51, 48, 52, 50, 56, 56, 48, 49, 55, 55, 57, 48, 52, 49, 55, 52, 52, 57, 55, 55, 57, 50]

/-- **`lossy_overflow_witness`**: the correctly rounded value of `overflowTie` is `+∞` (a tie, to even); the lossy
pipeline rounds its first 19 digits only and answers with the largest finite double — one pattern below, as
`CloseDown` allows. (The implementation does the same: `pf f64 … 0 1 …` prints `ok 7fefffffffffffff`.) -/
theorem lossy_overflow_witness :
    parseFloatModel {} Format.standard {} false f64 overflowTie = "ok 7ff0000000000000 -" ∧
    parseFloatAlgoModel slowOracle {} Format.standard {} false FTy.f64 overflowTie true = "ok 7fefffffffffffff -" := by
  decide +kernel

end LexVerif.Props.C19Final
