import LexVerif.Props.C13
import LexVerif.Proof.SepEnable4
/-!
# C13 (continued) — `strip_preserves` beyond the all-I+L+T+C class

`Props/C13.lean` proves R1 (`strip_preserves`) for the class where every digit component carries all four separator
flags. Since the repairs /repo 7e8a135 + 12a2453 a component WITHOUT separator flags of a separator format behaves like a
separator-free component, and the run of `parse_number` over an input with separators can be compared with the run over
the stripped input for ANY `peek` variant, as long as the stored digit slices are re-scanned consistently by the
many-digits path (`Proof.Sep.Rescan`; false for I+T+C, the recorded defect `C13-sep-itc-without-leading-value`).

* `strip_preserves_gen`: the general theorem (`GenStrip`: release, valid separator format — any of the 15 `peek`
  variants on each component —, no base prefix / suffix, leading zeros allowed, STANDARD's required digits, the separator
  is no sign / decimal point / exponent character / digit; `Rescan` for the integer and fraction component;
  `PeekStable` for the integer component).
* `strip_preserves_all`: **every flag combination on every component, except I+T+C on the integer or the fraction
  component** (`Proof/SepLocal*.lean`: the skip predicates look at a small neighbourhood only, and replacing a
  neighbour that is neither digit nor separator by "no neighbour" — what the re-scan of a stored slice sees at its
  boundary — never turns a skip into a non-skip, except for `is_itc`). The exclusion is necessary:
  `strip_witness_itc` (Props/C13.lean). I+L+C needs no exclusion for R1 (its defect is R2: a trailing separator is
  accepted at the end of input; deleting it does not change the number).
* `strip_preserves_mix`: instance — integer / fraction component without flags or I+L+T+C; the exponent component with
  ANY flag combination.
-/
namespace LexVerif.Props.C13
open LexVerif LexVerif.Model LexVerif.Spec LexVerif.Proof.Sep

instance (c : Cfg) (l : List Nat) : Decidable (NoSep c l) := by unfold NoSep; infer_instance

/-- **R1, general form** (see the module docstring) -/
theorem strip_preserves_gen (c : Cfg) (o : POpts) (hG : GenStrip c o) (hresI : Rescan c .integer)
    (hresF : Rescan c .fraction) (hstab : PeekStable c .integer) (s : List Nat) (hb : ∀ x ∈ s, x < 256) (fv : Bool)
    (n : Number) (cnt : Nat) (f : Fmt) (h : parseFloatSyntax c o false s fv = .ok (.number n cnt)) :
    ∃ n', parseFloatSyntax c o false (nonSep c s) fv = .ok (.number n' (nonSep c s).length) ∧ NumRel c n n' ∧
      numberBits c f n' = numberBits c f n := by
  obtain ⟨n', h1, h2, h3⟩ := parseFloatSyntax_strip_gen c o hG hresI hresF hstab s hb fv n cnt h
  exact ⟨n', h1, h2, numberBits_of_numRel c o hG f n n' h2 h3⟩

/-- **R1 for the mixed class**: the integer and the fraction component each have no separator flag or all four; the
exponent component may have any flag combination. An input the complete parser accepts as a number is accepted as the
same number after deleting the separators. -/
theorem strip_preserves_mix (c : Cfg) (o : POpts) (hG : GenStrip c o) (hM : MixOK c) (s : List Nat)
    (hb : ∀ x ∈ s, x < 256) (fv : Bool) (n : Number) (cnt : Nat) (f : Fmt)
    (h : parseFloatSyntax c o false s fv = .ok (.number n cnt)) :
    ∃ n', parseFloatSyntax c o false (nonSep c s) fv = .ok (.number n' (nonSep c s).length) ∧ NumRel c n n' ∧
      numberBits c f n' = numberBits c f n := by
  obtain ⟨n', h1, h2, h3⟩ := parseFloatSyntax_strip_mix c o hG hM s hb fv n cnt h
  exact ⟨n', h1, h2, numberBits_of_numRel c o hG f n n' h2 h3⟩

/-- **R1 for every class but I+T+C**: any of the 15 `peek` variants (no flag, I, L, T, I+L, I+T, L+T, I+L+T, and these
with C) on the integer and fraction component except I+T+C; any of the 15 on the exponent component. -/
theorem strip_preserves_all (c : Cfg) (o : POpts) (hG : GenStrip c o) (hI : c.skip .integer ≠ .pred .itc ∨ Fix.itc = true)
    (hF : c.skip .fraction ≠ .pred .itc ∨ Fix.itc = true) (s : List Nat) (hb : ∀ x ∈ s, x < 256) (fv : Bool) (n : Number) (cnt : Nat)
    (f : Fmt) (h : parseFloatSyntax c o false s fv = .ok (.number n cnt)) :
    ∃ n', parseFloatSyntax c o false (nonSep c s) fv = .ok (.number n' (nonSep c s).length) ∧ NumRel c n n' ∧
      numberBits c f n' = numberBits c f n := by
  obtain ⟨n', h1, h2, h3⟩ := parseFloatSyntax_strip_all c o hG hI hF s hb fv n cnt h
  exact ⟨n', h1, h2, numberBits_of_numRel c o hG f n n' h2 h3⟩

/-! ## Inserting separators (R3), general form -/

/-- **R3, general form.** The separator-free form `nonSep c s` of `s` is accepted as a number, no run of separators in
`s` directly precedes a sign character, and none of the digit iterators of the run over `s` stops on a separator
(`NonStuck`: the integer iterator after `is_consumed` and after its digits, the fraction iterator, the exponent
iterator) — then `s` is accepted as the same number, with the same value. Any separator predicates (integer /
fraction not I+T+C, through `Rescan`). `NonStuck` is exactly what "every separator of `s` is at a position the flags
enable" has to deliver; it holds for free for I+L+T+C components (`insert_preserves_seps`). -/
theorem insert_preserves_gen (c : Cfg) (o : POpts) (hG : GenStrip c o) (hI : c.skip .integer ≠ .pred .itc ∨ Fix.itc = true)
    (hF : c.skip .fraction ≠ .pred .itc ∨ Fix.itc = true) (s : List Nat) (hb : ∀ x ∈ s, x < 256) (hP : NoSepBeforeSign c s)
    (hNS : NonStuck c o s) (fv : Bool) (n' : Number) (cnt : Nat) (f : Fmt)
    (h : parseFloatSyntax c o false (nonSep c s) fv = .ok (.number n' cnt)) :
    ∃ n, parseFloatSyntax c o false s fv = .ok (.number n s.length) ∧ NumRel c n n' ∧
      numberBits c f n = numberBits c f n' := by
  obtain ⟨n, h1, h2, h3⟩ := parseFloatSyntax_insert_gen c o hG (rescan_of_not_itc c o hG .integer (by decide) hI)
    (rescan_of_not_itc c o hG .fraction (by decide) hF) s hb hP hNS fv n' cnt h
  exact ⟨n, h1, h2, (numberBits_of_numRel c o hG f n n' h2 h3).symm⟩

/-- **R3 when the separators sit in I+L+T+C components only** (`SepsOnlyIn`: for every digit component that is not
I+L+T+C — whatever its flags — its part of the input contains no separator byte; `OptsOK`: the exponent character is
no digit, no sign, not the decimal point, also up to the case folding the parser applies): separators inserted anywhere
in the I+L+T+C components, except directly before a sign, keep the input accepted as the same number. With all three
components I+L+T+C this is `insert_preserves` of `Props/C13.lean`; with no-flag components it is the mixed class. -/
theorem insert_preserves_seps (c : Cfg) (o : POpts) (hG : GenStrip c o) (hO : OptsOK c o)
    (hI : c.skip .integer ≠ .pred .itc ∨ Fix.itc = true) (hF : c.skip .fraction ≠ .pred .itc ∨ Fix.itc = true) (s : List Nat) (hb : ∀ x ∈ s, x < 256)
    (hP : NoSepBeforeSign c s) (hS : SepsOnlyIn c o s) (fv : Bool) (n' : Number) (cnt : Nat) (f : Fmt)
    (h : parseFloatSyntax c o false (nonSep c s) fv = .ok (.number n' cnt)) :
    ∃ n, parseFloatSyntax c o false s fv = .ok (.number n s.length) ∧ NumRel c n n' ∧
      numberBits c f n = numberBits c f n' :=
  insert_preserves_gen c o hG hI hF s hb hP (nonStuck_of_sepsOnlyIn c o hG hO s hS) fv n' cnt f h

/-- **R3 with the documented position rules, every flag combination but I+T+C.** `DocEnabled c o s`: the integer part of
`s` (behind the optional sign, up to the first byte that is neither digit nor separator), the fraction part (behind the
decimal point) and the exponent part (behind the exponent character and its optional sign) consist of digits and
separators, and every separator in them is at a position the flags of the component enable — a digit of the component
before and after it (through separators): needs I; only after: L; only before: T; next to another separator: C
(`DocEnabledAt`, docs/DigitSeparators.md). Then: if the stripped input is accepted as a number, so is `s`, as the same
number with the same value. (`Proof/SepEnable*.lean`: an enabled run is skipped by every one of the 15 `peek`
variants — `enabled_holds` —, hence no iterator stops on a separator.) -/
theorem insert_preserves_doc (c : Cfg) (o : POpts) (hG : GenStrip c o) (hI : c.skip .integer ≠ .pred .itc ∨ Fix.itc = true)
    (hF : c.skip .fraction ≠ .pred .itc ∨ Fix.itc = true) (s : List Nat) (hb : ∀ x ∈ s, x < 256) (hP : NoSepBeforeSign c s)
    (hD : DocEnabled c o s) (fv : Bool) (n' : Number) (cnt : Nat) (f : Fmt)
    (h : parseFloatSyntax c o false (nonSep c s) fv = .ok (.number n' cnt)) :
    ∃ n, parseFloatSyntax c o false s fv = .ok (.number n s.length) ∧ NumRel c n n' ∧
      numberBits c f n = numberBits c f n' :=
  insert_preserves_gen c o hG hI hF s hb hP (nonStuck_of_docEnabled c o hG s hD) fv n' cnt f h

/-- **with the repair `Fix.itc` (fixes/C13-sep-itc-accepts-leading.diff) R1 holds without any flag exclusion** -/
theorem strip_preserves_all_fixed (hfix : Fix.itc = true) (c : Cfg) (o : POpts) (hG : GenStrip c o) (s : List Nat)
    (hb : ∀ x ∈ s, x < 256) (fv : Bool) (n : Number) (cnt : Nat) (f : Fmt)
    (h : parseFloatSyntax c o false s fv = .ok (.number n cnt)) :
    ∃ n', parseFloatSyntax c o false (nonSep c s) fv = .ok (.number n' (nonSep c s).length) ∧ NumRel c n n' ∧
      numberBits c f n' = numberBits c f n :=
  strip_preserves_all c o hG (Or.inr hfix) (Or.inr hfix) s hb fv n cnt f h

/-- … and so does R3 under the documented position rules -/
theorem insert_preserves_doc_fixed (hfix : Fix.itc = true) (c : Cfg) (o : POpts) (hG : GenStrip c o) (s : List Nat)
    (hb : ∀ x ∈ s, x < 256) (hP : NoSepBeforeSign c s) (hD : DocEnabled c o s) (fv : Bool) (n' : Number) (cnt : Nat)
    (f : Fmt) (h : parseFloatSyntax c o false (nonSep c s) fv = .ok (.number n' cnt)) :
    ∃ n, parseFloatSyntax c o false s fv = .ok (.number n s.length) ∧ NumRel c n n' ∧
      numberBits c f n = numberBits c f n' :=
  insert_preserves_doc c o hG (Or.inr hfix) (Or.inr hfix) s hb hP hD fv n' cnt f h

/-- `GenStrip` for the concrete formats `cfgOf bits` (radix 10, `_`, STANDARD flags) with the default options -/
theorem genStrip_cfgOf (bits : Nat) (hreach : ∀ k, (cfgOf bits).skip k ≠ .unreachable)
    (hfix : (cfgOf bits).digitSeparator = 0x5f ∧ (cfgOf bits).basePrefix = 0 ∧ (cfgOf bits).baseSuffix = 0 ∧
      (cfgOf bits).noFloatLeadingZeros = false ∧ (cfgOf bits).requiredExponentDigits = true ∧
      (cfgOf bits).requiredMantissaDigits = true ∧ (cfgOf bits).mantissaRadix = 10 ∧ (cfgOf bits).exponentRadix = 10 ∧
      (cfgOf bits).caseSensitiveExponent = false) :
    GenStrip (cfgOf bits) {} := by
  obtain ⟨h1, h2, h3, h4, h5, h6, h7, h8, h9⟩ := hfix
  have hsep : ∀ x, (cfgOf bits).isSep x = true → x = 0x5f := by
    intro x hx; simp only [Cfg.isSep, h1, Bool.and_eq_true, decide_eq_true_eq] at hx; exact hx.2
  refine ⟨⟨rfl, hreach, fun _ => by rw [h7]; decide⟩, by rw [h1]; decide, h2, h3, h4, h5, h6, ?_, ?_, ?_, ?_, ?_, ?_, ?_,
    by rw [h7]; decide, by rw [h7]; decide, by rw [h8]; decide, by decide⟩
  · simp [Cfg.isSep, h1]
  · simp [Cfg.isSep, h1]
  · simp [Cfg.isSep, h1]
  · intro x hx; rw [hsep x hx]; simp only [matchesExp, h9, Bool.false_and, Bool.false_eq_true, if_false]; decide
  · rw [h7]; decide
  · intro x hx; rw [hsep x hx, h7]; decide
  · intro x hx; rw [hsep x hx, h8]; decide

/-- `sepmix`-style format: integer no flag, fraction I+L+T+C, exponent internal only -/
def cMixA : Cfg := cfgOf 0x496
/-- integer I+L+T+C, fraction no flag, exponent trailing+consecutive -/
def cMixB : Cfg := cfgOf 0xb49

theorem mixA_genStrip : GenStrip cMixA {} :=
  genStrip_cfgOf 0x496 (by intro k; cases k <;> decide) (by decide)
theorem mixA_ok : MixOK cMixA := ⟨Or.inl (by decide), Or.inr (by decide)⟩
theorem mixB_genStrip : GenStrip cMixB {} :=
  genStrip_cfgOf 0xb49 (by intro k; cases k <;> decide) (by decide)
theorem mixB_ok : MixOK cMixB := ⟨Or.inr (by decide), Or.inl (by decide)⟩

/-- non-vacuity: `12._3_4__5_e1_0` is accepted by `cMixA` (21+ digit variant exercises the re-scan) -/
example : numIs (parseFloatSyntax cMixA {} false [49,50,46,95,51,95,52,95,95,53,95,101,49,95,48]) 15 12345 7
    (some [95,51,95,52,95,95,53,95]) = true := by decide

example : numIs (parseFloatSyntax cMixA {} false
    [49,50,51,52,53,54,55,56,57,48,49,46,95,50,51,52,53,54,55,56,57,48,95,49,50,51,52,53]) 28
    1234567890123456789 (-8) (some [95,50,51,52,53,54,55,56,57,48,95,49,50,51,52,53]) = true := by decide

/-! ### the uniform classes of the catalogue (`c13_dec_uni_*`, fmtcat_sep.py) are instances -/

/-- uniform format: the same flag letters on integer, fraction and exponent; `f` = bits of (I, L, T, C) -/
def cUni (i l t cc : Bool) : Cfg :=
  cfgOf ((if i then 0x7 else 0) + (if l then 0x38 else 0) + (if t then 0x1c0 else 0) + (if cc then 0xe00 else 0))

/-- every uniform class except "C alone" (invalid) is in `GenStrip` -/
theorem uni_genStrip : ∀ i l t cc : Bool, (i || l || t) = true → GenStrip (cUni i l t cc) {} := by
  intro i l t cc h
  cases i <;> cases l <;> cases t <;> cases cc <;> first
    | (simp at h; done)
    | exact genStrip_cfgOf _ (by intro k; cases k <;> decide) (by decide)

/-- R1 for the eleven uniform classes I, L, T, I+L, I+T, L+T, I+L+T, I+C, L+C, T+C, I+L+C, L+T+C (and I+L+T+C):
everything but I+T+C -/
theorem strip_preserves_uniform (i l t cc : Bool) (h : (i || l || t) = true)
    (hitc : ¬ (i = true ∧ l = false ∧ t = true ∧ cc = true)) (s : List Nat) (hb : ∀ x ∈ s, x < 256) (fv : Bool)
    (n : Number) (cnt : Nat) (f : Fmt) (hp : parseFloatSyntax (cUni i l t cc) {} false s fv = .ok (.number n cnt)) :
    ∃ n', parseFloatSyntax (cUni i l t cc) {} false (nonSep (cUni i l t cc) s) fv
        = .ok (.number n' (nonSep (cUni i l t cc) s).length) ∧ NumRel (cUni i l t cc) n n' ∧
      numberBits (cUni i l t cc) f n' = numberBits (cUni i l t cc) f n := by
  refine strip_preserves_all _ _ (uni_genStrip i l t cc h) ?_ ?_ s hb fv n cnt f hp <;>
  · cases i <;> cases l <;> cases t <;> cases cc <;> first
      | (simp at h; done)
      | (exfalso; exact hitc ⟨rfl, rfl, rfl, rfl⟩)
      | decide

/-- non-vacuity: internal-only (`c13_dec_uni_i`): `1_2.3_4e1_0` is accepted; 21 digits with separators re-scan -/
example : numIs (parseFloatSyntax (cUni true false false false) {} false [49,95,50,46,51,95,52,101,49,95,48]) 11 1234 8
    (some [51,95,52]) = true := by decide

example : numIs (parseFloatSyntax (cUni true false false false) {} false
    [49,95,50,51,52,53,54,55,56,57,48,49,46,50,51,52,53,54,55,56,57,48,95,49,50,51,52,53]) 28
    1234567890123456789 (-8) (some [50,51,52,53,54,55,56,57,48,95,49,50,51,52,53]) = true := by decide

/-- leading+trailing+consecutive (`c13_dec_uni_ltc`): `__12__.__5__e__3__` -/
example : numIs (parseFloatSyntax (cUni false true true true) {} false
    [95,95,49,50,95,95,46,95,95,53,95,95,101,95,95,51,95,95]) 18 125 2 (some [95,95,53,95,95]) = true := by decide

/-- the default options against the `cfgOf` formats: `e`/`E` is no decimal digit, no sign, not `.` -/
theorem optsOK_cfgOf (bits : Nat) (h7 : (cfgOf bits).mantissaRadix = 10)
    (h9 : (cfgOf bits).caseSensitiveExponent = false) : OptsOK (cfgOf bits) {} := by
  have hm : ∀ x, matchesExp (cfgOf bits) {} x = eqIgnoreCase x 101 := by
    intro x; simp [matchesExp, h9]
  refine ⟨?_, by rw [hm, hm]; decide, by rw [hm]; decide⟩
  intro x hx
  rw [hm] at hx
  have hx2 : x = 101 ∨ x = 69 := by
    simp only [eqIgnoreCase, lowerAscii, decide_eq_true_eq] at hx
    split at hx <;> simp at hx <;> omega
  rw [h7]
  rcases hx2 with rfl | rfl <;> decide

/-- non-vacuity of `insert_preserves_seps`, mixed class `cMixA` (integer: no flag, fraction: I+L+T+C, exponent:
internal only): `12._3__4_e10` — separators in the fraction only; its stripped form `12.34e10` is accepted -/
example : GenStrip cMixA {} ∧ OptsOK cMixA {} ∧ cMixA.skip .integer ≠ .pred .itc ∧ cMixA.skip .fraction ≠ .pred .itc ∧
    NoSepBeforeSign cMixA [49,50,46,95,51,95,95,52,95,101,49,48] ∧
    SepsOnlyIn cMixA {} [49,50,46,95,51,95,95,52,95,101,49,48] ∧
    numIs (parseFloatSyntax cMixA {} false (nonSep cMixA [49,50,46,95,51,95,95,52,95,101,49,48])) 8 1234 8
      (some [51,52]) = true :=
  ⟨mixA_genStrip, optsOK_cfgOf 0x496 (by decide) (by decide), by decide, by decide,
   noSepBeforeSign_of_B _ _ (by decide), ⟨by decide, by decide, by decide⟩, by decide⟩

/-- … and indeed `12._3__4_e10` itself is accepted with the same mantissa / exponent -/
example : numIs (parseFloatSyntax cMixA {} false [49,50,46,95,51,95,95,52,95,101,49,48]) 12 1234 8
    (some [95,51,95,95,52,95]) = true := by decide

/-- a separator in the part of a component that is not I+L+T+C violates `SepsOnlyIn` — and is indeed rejected:
`1_2.34` under `cMixA` (integer without flags) -/
example : ¬ SepsOnlyIn cMixA {} [49,95,50,46,51,52] ∧
    (parseFloatSyntax cMixA {} false [49,95,50,46,51,52]).toBool = false := by
  refine ⟨fun h => ?_, by decide⟩
  have := h.int (by decide) 95 (by decide)
  revert this; decide

/-- non-vacuity of `insert_preserves_doc`, internal-only class (`c13_dec_uni_i`): `-1_2.3_4e+1_0` — every separator
between two digits of its component; integer part `[1,4)`, fraction part `[5,8)`, exponent part `[10,13)` -/
example : DocEnabled (cUni true false false false) {} [45,49,95,50,46,51,95,52,101,43,49,95,48] :=
  ⟨4, partEnabled_of_B _ _ _ _ _ _ (by decide),
   fun _ => ⟨8, partEnabled_of_B _ _ _ _ _ _ (by decide),
     fun x hx _ => ⟨13, by
       have : x = 101 := by simpa using hx.symm
       exact partEnabled_of_B _ _ _ _ _ _ (by decide)⟩⟩,
   fun h => absurd (by decide) h⟩

/-- … a leading separator is not enabled by the internal flag: `_12` violates the rule (and is rejected) -/
example : ¬ DocEnabledAt (cUni true false false false) ((cUni true false false false).sepFlags .integer) [95,49,50] 0 ∧
    (parseFloatSyntax (cUni true false false false) {} false [95,49,50]).toBool = false := by
  refine ⟨by decide, by decide⟩

/-- leading+trailing+consecutive (`c13_dec_uni_ltc`): `__12__.__5__` -/
example : DocEnabled (cUni false true true true) {} [95,95,49,50,95,95,46,95,95,53,95,95] :=
  ⟨6, partEnabled_of_B _ _ _ _ _ _ (by decide),
   fun _ => ⟨12, partEnabled_of_B _ _ _ _ _ _ (by decide), fun x hx _ => by simp at hx⟩,
   fun h => absurd (by decide) h⟩

end LexVerif.Props.C13
