import LexVerif.Props.C04
import LexVerif.Proof.ParseIntPartial
/-!
# C11 (integers) — the partial and the complete parser agree (property theorems)

Both parsers are the model of `lexical-parse-integer/src/algorithm.rs` (`Model.ParseInt.parseInt`, non-`format`
build) with `partial_ = false / true`. Every theorem holds for all feature sets / radices admitted by C04
(`feats.powerOfTwo = true ∨ r = 10`, `2 ≤ r ≤ 36`), the twelve integer types, both `no_multi_digit` settings and every
byte string. Proof route: the statements are proved on the specification scan (`Proof/ParseIntPartial.lean`) and
transferred with C04 (`parseInt_model_eq_spec`).

The model keeps the index in complete `Ok` results too (`intoOk … bufLen`; the Rust complete parser drops it), so
"complete returns `Ok(v)`" is `.done (.ok v s.length)`; `int_complete_ok_index` says no other index can occur.

* clause 1 (`complete = Ok(v) ↔ partial = Ok(v, len)`): **proved**, no exclusion (`int_complete_iff_partial`).
* clause 2 (`partial = Ok(v, n), n > 0 → complete (take n) = Ok(v)`): **false as stated**
  (`int_partial_prefix_full_false`: `parse_partial::<i32>("+a") = Ok((0, 1))`, `parse::<i32>("+") = Err(Empty(1))`);
  proved under "more than the sign was consumed" (`int_partial_prefix`), which is exactly the condition under which
  it holds (`int_partial_prefix_iff`); the failing inputs are exactly sign + non-digit (`int_partial_prefix_fails_iff`).
-/
namespace LexVerif.Props.C11Int
open LexVerif.Spec LexVerif.Model LexVerif.Model.ParseInt LexVerif.Proof.ParseInt LexVerif.Proof.ParseIntPartial
open LexVerif.Props.C04

/-! ## full statements -/

/-- clause 1 of C11 for integers -/
def int_complete_iff_partial_full : Prop :=
  ∀ (feats : Features) (t : IntTy), IsIntTy t → ∀ (r : Nat), 2 ≤ r → r ≤ 36 → (feats.powerOfTwo = true ∨ r = 10) →
    ∀ (nm : Bool) (s : List Nat), (∀ b ∈ s, b < 256) → ∀ (v : Int),
      (parseInt feats t r false nm s = .done (.ok v s.length) ↔ parseInt feats t r true nm s = .done (.ok v s.length))

/-- clause 2 of C11 for integers, as the property states it (only `n > 0` excluded) — **false**, see below -/
def int_partial_prefix_full : Prop :=
  ∀ (feats : Features) (t : IntTy), IsIntTy t → ∀ (r : Nat), 2 ≤ r → r ≤ 36 → (feats.powerOfTwo = true ∨ r = 10) →
    ∀ (nm : Bool) (s : List Nat), (∀ b ∈ s, b < 256) → ∀ (v : Int) (n : Nat),
      parseInt feats t r true nm s = .done (.ok v n) → 0 < n →
        parseInt feats t r false nm (s.take n) = .done (.ok v n)

/-- clause 2 with the exclusion that makes it true: more bytes than the sign were consumed
(`signLen t s` = 1 for a leading `+`, or a leading `-` of a signed type; 0 otherwise) -/
def int_partial_prefix_excl : Prop :=
  ∀ (feats : Features) (t : IntTy), IsIntTy t → ∀ (r : Nat), 2 ≤ r → r ≤ 36 → (feats.powerOfTwo = true ∨ r = 10) →
    ∀ (nm : Bool) (s : List Nat), (∀ b ∈ s, b < 256) → ∀ (v : Int) (n : Nat),
      parseInt feats t r true nm s = .done (.ok v n) → signLen t s < n →
        parseInt feats t r false nm (s.take n) = .done (.ok v n)

/-! ## the sign prefix of the model is `signLen` -/

/-- `signLen`/`isNeg` (functions of the input, used in the exclusion) are what the model's `parse_sign` consumes -/
theorem parseSign_eq_signLen (t : IntTy) (s : List Nat) :
    parseSign t.signed s 0 = .ok (isNeg t s, s.drop (signLen t s), signLen t s) := by
  cases s with
  | nil => simp [parseSign, signLen, isNeg]
  | cons c cs =>
    by_cases h43 : c = 43
    · subst h43; simp [parseSign, signLen, isNeg]
    · by_cases h45 : c = 45
      · subst h45; cases hs : t.signed <;> simp [parseSign, signLen, isNeg, hs]
      · have : parseSign t.signed (c :: cs) 0 = .ok (false, c :: cs, 0) := by
          unfold parseSign
          split
          · rename_i heq; cases heq; exact absurd rfl h43
          · rename_i heq; cases heq; exact absurd rfl h45
          · rfl
        simp [this, signLen, isNeg, h43, h45]

section
variable (feats : Features) (t : IntTy) (ht : IsIntTy t) (r : Nat) (h2 : 2 ≤ r) (hr : r ≤ 36)
  (hfeat : feats.powerOfTwo = true ∨ r = 10) (nm : Bool) (s : List Nat) (hs : ∀ b ∈ s, b < 256)
include ht h2 hr hfeat hs

/-! ## clause 1 -/

/-- a complete `Ok` of the model always carries the input length (`into_ok_complete!(value, buffer_length)`) -/
theorem int_complete_ok_index (v : Int) (n : Nat) :
    parseInt feats t r false nm s = .done (.ok v n) → n = s.length := by
  rw [parseInt_model_eq_spec feats t ht r h2 hr hfeat false nm s hs, MRes.done.injEq]
  exact fun h => (spec_complete_ok t r s v n h).1

/-- **C11 clause 1, integers**: the complete parser returns `Ok(v)` iff the partial parser returns `Ok((v, len))`. -/
theorem int_complete_iff_partial (v : Int) :
    parseInt feats t r false nm s = .done (.ok v s.length) ↔ parseInt feats t r true nm s = .done (.ok v s.length) := by
  rw [parseInt_model_eq_spec feats t ht r h2 hr hfeat false nm s hs,
    parseInt_model_eq_spec feats t ht r h2 hr hfeat true nm s hs, MRes.done.injEq, MRes.done.injEq]
  exact ⟨fun h => (spec_complete_ok t r s v _ h).2, spec_partial_full t r s v⟩

/-- the same with the index of the complete result left free -/
theorem int_complete_iff_partial_index (v : Int) (n : Nat) :
    parseInt feats t r false nm s = .done (.ok v n) ↔
      (n = s.length ∧ parseInt feats t r true nm s = .done (.ok v n)) := by
  constructor
  · intro h
    have hn := int_complete_ok_index feats t ht r h2 hr hfeat nm s hs v n h
    subst hn
    exact ⟨rfl, (int_complete_iff_partial feats t ht r h2 hr hfeat nm s hs v).1 h⟩
  · rintro ⟨hn, h⟩
    subst hn
    exact (int_complete_iff_partial feats t ht r h2 hr hfeat nm s hs v).2 h

/-! ## clause 2 -/

/-- **C11 clause 2, integers, with the exclusion "more than the sign was consumed"**: the complete parser on exactly
the consumed bytes returns the same value. -/
theorem int_partial_prefix (v : Int) (n : Nat) :
    parseInt feats t r true nm s = .done (.ok v n) → signLen t s < n →
      parseInt feats t r false nm (s.take n) = .done (.ok v n) := by
  rw [parseInt_model_eq_spec feats t ht r h2 hr hfeat true nm s hs,
    parseInt_model_eq_spec feats t ht r h2 hr hfeat false nm (s.take n) (take_bytes s hs n),
    MRes.done.injEq, MRes.done.injEq]
  exact spec_partial_prefix t r s v n

/-- the exclusion spelled out on the input: two or more bytes consumed, or the first byte is not a consumed sign -/
theorem int_partial_prefix_explicit (v : Int) (n : Nat) :
    parseInt feats t r true nm s = .done (.ok v n) → 0 < n →
      (2 ≤ n ∨ ¬ (s.head? = some 43 ∨ (s.head? = some 45 ∧ t.signed = true))) →
      parseInt feats t r false nm (s.take n) = .done (.ok v n) :=
  fun h hn hx => int_partial_prefix feats t ht r h2 hr hfeat nm s hs v n h ((signLen_lt_iff t s n hn).2 hx)

/-- the exclusion is the weakest possible: given a partial `Ok((v, n))` with `n > 0`, the prefix conclusion holds
**iff** more than the sign was consumed -/
theorem int_partial_prefix_iff (v : Int) (n : Nat) :
    parseInt feats t r true nm s = .done (.ok v n) → 0 < n →
      (parseInt feats t r false nm (s.take n) = .done (.ok v n) ↔ signLen t s < n) := by
  intro h hn
  refine ⟨fun hc => ?_, int_partial_prefix feats t ht r h2 hr hfeat nm s hs v n h⟩
  apply Classical.byContradiction
  intro hlt
  have h1 := signLen_le_one t s
  have hn1 : n = 1 := by omega
  have hs1 : signLen t s = 1 := by omega
  subst hn1
  rw [parseInt_model_eq_spec feats t ht r h2 hr hfeat false nm (s.take 1) (take_bytes s hs 1), MRes.done.injEq,
    spec_sign_only_empty t r false s hs1] at hc
  cases hc

/-- when the prefix clause fails the complete parser's answer on the consumed bytes is `Empty(1)` -/
theorem int_partial_prefix_failure_is_empty (v : Int) (n : Nat) :
    parseInt feats t r true nm s = .done (.ok v n) → 0 < n → ¬ signLen t s < n →
      n = 1 ∧ v = 0 ∧ parseInt feats t r false nm (s.take n) = .done (.empty 1) := by
  intro h hn hlt
  have h1 := signLen_le_one t s
  have hn1 : n = 1 := by omega
  have hs1 : signLen t s = 1 := by omega
  subst hn1
  rw [parseInt_model_eq_spec feats t ht r h2 hr hfeat true nm s hs, MRes.done.injEq] at h
  rw [parseInt_model_eq_spec feats t ht r h2 hr hfeat false nm (s.take 1) (take_bytes s hs 1),
    spec_sign_only_empty t r false s hs1]
  exact ⟨rfl, (spec_partial_sign_only t r s v hs1 h).1, rfl⟩

/-- **exact characterisation of the counter-examples** in terms of the input alone: clause 2 fails on `s`
(for some `v`, `n > 0`) iff `s` is a consumed sign followed by a byte that is not a digit of the radix. -/
theorem int_partial_prefix_fails_iff :
    (∃ v n, parseInt feats t r true nm s = .done (.ok v n) ∧ 0 < n ∧
        parseInt feats t r false nm (s.take n) ≠ .done (.ok v n)) ↔
      (signLen t s = 1 ∧ ∃ c, s[1]? = some c ∧ digitVal r c = none) := by
  constructor
  · rintro ⟨v, n, h, hn, hne⟩
    have hlt : ¬ signLen t s < n := fun hlt => hne (int_partial_prefix feats t ht r h2 hr hfeat nm s hs v n h hlt)
    have h1 := signLen_le_one t s
    have hn1 : n = 1 := by omega
    have hs1 : signLen t s = 1 := by omega
    subst hn1
    rw [parseInt_model_eq_spec feats t ht r h2 hr hfeat true nm s hs, MRes.done.injEq] at h
    exact ⟨hs1, (spec_partial_sign_only t r s v hs1 h).2⟩
  · rintro ⟨hs1, c, hc, hd⟩
    refine ⟨0, 1, ?_, by omega, ?_⟩
    · rw [parseInt_model_eq_spec feats t ht r h2 hr hfeat true nm s hs, spec_partial_sign_nondigit t r s c hs1 hc hd]
    · rw [parseInt_model_eq_spec feats t ht r h2 hr hfeat false nm (s.take 1) (take_bytes s hs 1),
        spec_sign_only_empty t r false s hs1]
      simp

/-- … and on such inputs the two results are `Ok((0, 1))` and `Empty(1)` -/
theorem int_sign_nondigit_results (c : Nat) (h1 : signLen t s = 1) (hc : s[1]? = some c) (hd : digitVal r c = none) :
    parseInt feats t r true nm s = .done (.ok 0 1) ∧ parseInt feats t r false nm (s.take 1) = .done (.empty 1) := by
  rw [parseInt_model_eq_spec feats t ht r h2 hr hfeat true nm s hs, spec_partial_sign_nondigit t r s c h1 hc hd,
    parseInt_model_eq_spec feats t ht r h2 hr hfeat false nm (s.take 1) (take_bytes s hs 1),
    spec_sign_only_empty t r false s h1]
  exact ⟨rfl, rfl⟩

/-! ## corollaries -/

/-- the partial count lies between the sign length and the input length -/
theorem int_partial_count_le (v : Int) (n : Nat) :
    parseInt feats t r true nm s = .done (.ok v n) → signLen t s ≤ n ∧ n ≤ s.length := by
  rw [parseInt_model_eq_spec feats t ht r h2 hr hfeat true nm s hs, MRes.done.injEq]
  exact spec_partial_bounds t r true s v n

/-- the partial parser never returns `InvalidDigit` (nor `FAULT`) -/
theorem int_partial_never_invalidDigit (k : Nat) :
    parseInt feats t r true nm s ≠ .done (.invalidDigit k) ∧ parseInt feats t r true nm s ≠ .fault := by
  rw [parseInt_model_eq_spec feats t ht r h2 hr hfeat true nm s hs]
  exact ⟨fun h => spec_partial_ne_invalidDigit t r s k (MRes.done.inj h), fun h => by cases h⟩

/-- every complete result other than `InvalidDigit` (`Ok`, `Empty`, `Overflow`, `Underflow`, with the same index) is
also the partial parser's result -/
theorem int_complete_eq_partial_of_not_invalidDigit :
    (∀ k, parseInt feats t r false nm s ≠ .done (.invalidDigit k)) →
      parseInt feats t r true nm s = parseInt feats t r false nm s := by
  rw [parseInt_model_eq_spec feats t ht r h2 hr hfeat true nm s hs,
    parseInt_model_eq_spec feats t ht r h2 hr hfeat false nm s hs]
  intro h
  rw [spec_complete_eq_partial t r s (fun k hk => h k (by rw [hk]))]

/-- complete `InvalidDigit(k)` is partial `Ok((_, k))` with `k` short of the input length -/
theorem int_complete_invalidDigit (k : Nat) :
    parseInt feats t r false nm s = .done (.invalidDigit k) →
      k < s.length ∧ ∃ v, parseInt feats t r true nm s = .done (.ok v k) := by
  rw [parseInt_model_eq_spec feats t ht r h2 hr hfeat true nm s hs,
    parseInt_model_eq_spec feats t ht r h2 hr hfeat false nm s hs, MRes.done.injEq]
  intro h
  obtain ⟨hk, v, hv⟩ := spec_complete_invalidDigit t r s k h
  exact ⟨hk, v, by rw [hv]⟩

end

/-! ## the full statements: which hold -/

theorem int_complete_iff_partial_full_holds : int_complete_iff_partial_full :=
  fun feats t ht r h2 hr hfeat nm s hs v => int_complete_iff_partial feats t ht r h2 hr hfeat nm s hs v

theorem int_partial_prefix_excl_holds : int_partial_prefix_excl :=
  fun feats t ht r h2 hr hfeat nm s hs v n => int_partial_prefix feats t ht r h2 hr hfeat nm s hs v n

/-! ## witnesses (default features, `i32`, radix 10) -/

/-- `parse_partial::<i32>("+a") = Ok((0, 1))` -/
theorem witness_partial_plus_a : parseInt {} ⟨32, true⟩ 10 true false [43, 97] = .done (.ok 0 1) := by decide
/-- `parse::<i32>("+") = Err(Empty(1))` -/
theorem witness_complete_plus : parseInt {} ⟨32, true⟩ 10 false false [43] = .done (.empty 1) := by decide
/-- `parse_partial::<i32>("-a") = Ok((0, 1))`, `parse::<i32>("-") = Err(Empty(1))` -/
theorem witness_partial_minus_a : parseInt {} ⟨32, true⟩ 10 true false [45, 97] = .done (.ok 0 1) := by decide
theorem witness_complete_minus : parseInt {} ⟨32, true⟩ 10 false false [45] = .done (.empty 1) := by decide

/-- **the prefix clause as stated in the property is false** (witness `"+a"`, `i32`, radix 10, default features) -/
theorem int_partial_prefix_full_false : ¬ int_partial_prefix_full := by
  intro h
  have := h {} ⟨32, true⟩ (.inr (.inr (.inl rfl))) 10 (by decide) (by decide) (by decide) false [43, 97] (by decide) 0 1
    (by decide) (by decide)
  revert this
  decide

/-- for an unsigned type `-` is not a sign: `parse_partial::<u32>("-a") = Ok((0, 0))`, `n = 0` is outside clause 2 -/
example : parseInt {} ⟨32, false⟩ 10 true false [45, 97] = .done (.ok 0 0) := by decide
/-- `n = 0` (excluded by the property): `parse_partial::<i32>("a") = Ok((0, 0))` while `parse::<i32>("") = Err(Empty(0))` -/
example : parseInt {} ⟨32, true⟩ 10 true false [97] = .done (.ok 0 0) ∧
    parseInt {} ⟨32, true⟩ 10 false false ([97].take 0) = .done (.empty 0) := by decide

/-! ## non-vacuity -/

/-- clause 1, both sides true: `"-12"` -/
example : parseInt {} ⟨32, true⟩ 10 false false [45, 49, 50] = .done (.ok (-12) [45, 49, 50].length) ∧
    parseInt {} ⟨32, true⟩ 10 true false [45, 49, 50] = .done (.ok (-12) [45, 49, 50].length) := by decide
/-- clause 1, both sides false: `"12a"` (complete `InvalidDigit(2)`, partial `Ok((12, 2))`) -/
example : parseInt {} ⟨32, true⟩ 10 false false [49, 50, 97] = .done (.invalidDigit 2) ∧
    parseInt {} ⟨32, true⟩ 10 true false [49, 50, 97] = .done (.ok 12 2) := by decide
/-- clause 2 with the exclusion: `"+12a"` consumes 3 > `signLen` = 1 bytes, complete `"+12"` = `Ok(12)` -/
example : parseInt {} ⟨32, true⟩ 10 true false [43, 49, 50, 97] = .done (.ok 12 3) ∧
    signLen ⟨32, true⟩ [43, 49, 50, 97] < 3 ∧
    parseInt {} ⟨32, true⟩ 10 false false ([43, 49, 50, 97].take 3) = .done (.ok 12 3) := by decide
/-- clause 2 through the SWAR loop (`i32`, 4-digit blocks): `"12345678x"` -/
example : parseInt {} ⟨32, true⟩ 10 true false [49, 50, 51, 52, 53, 54, 55, 56, 120] = .done (.ok 12345678 8) ∧
    parseInt {} ⟨32, true⟩ 10 false false ([49, 50, 51, 52, 53, 54, 55, 56, 120].take 8) = .done (.ok 12345678 8) := by
  decide +kernel
/-- the characterisation's right-hand side is satisfiable: `"+a"` -/
example : signLen ⟨32, true⟩ [43, 97] = 1 ∧ ∃ c, [43, 97][1]? = some c ∧ digitVal 10 c = none :=
  ⟨by decide, 97, by decide, by decide⟩
/-- partial `Overflow` = complete `Overflow` (`int_complete_eq_partial_of_not_invalidDigit`): `u8` `"256"` -/
example : parseInt {} ⟨8, false⟩ 10 true false [50, 53, 54] = .done (.overflow 2) ∧
    parseInt {} ⟨8, false⟩ 10 false false [50, 53, 54] = .done (.overflow 2) := by decide

end LexVerif.Props.C11Int
