import LexVerif.Props.C11
import LexVerif.Proof.ParseNumberC11SepCfg
/-!
# C11 (B) `partial_prefix` for formats WITH digit-separator flags on integer / fraction / exponent

`partial s = ok (number x, n) → complete (s.take n) = ok (number x, n)` on the float syntax model.

* `partial_prefix_sep_number`: every format of the class `SepCfg` — release build with the `format` feature, a
  digit-separator byte, **any** of the 14 separator predicates (or none) independently on integer, fraction and exponent
  (I+T+C and I+L+C included: their defects accept more, but consistently before and after the cut), base suffix allowed,
  **no base prefix** (not treated), mantissa digits required — and every input and options whose punctuation does not
  collide with the separator. The only exclusion inside the class is the exact shape of the open defect
  "exponent `is_digit` uses the mantissa radix": an exponent predicate that can ask for a digit after the separator
  (i, il, ic; ilc at the first exponent position) needs `mantissa_radix ≤ exponent_radix`.
* `witness_sep_hex_i / _il / _ic`: the exclusion is exact for i, il, ic — decided counter-examples `1p1_a`
  (radix 16, exponent radix 10; the implementation agrees, finding C11/C13 "exponent digit test uses mantissa radix").
* `partial_prefix_sep_model_number`: the same at the API level (`parse_partial_with_options` / `parse_with_options`),
  `SepCfg` derived from the validation (`sepCfg_of_valid`).

Why truncation at the returned count cannot change a skip decision before the count: `Proof/ParseNumberC11SepPeek.lean`.
The count the partial parser returns may stand AFTER trailing separators that a `peek` skipped (`1__2__x` → 6 with
I+L+T+C); the complete parser on those 6 bytes makes the same skips and ends at 6 = length.
-/
namespace LexVerif.Props.C11
open LexVerif LexVerif.Model LexVerif.Spec
open LexVerif.Proof.C11

/-- **C11 (B), number results, formats with separator flags** -/
theorem partial_prefix_sep_number (c : Cfg) (o : POpts) (s : List Nat) (x : Number) (cnt : Nat)
    (H : SepCfg c o) (hm : c.requiredMantissaDigits = true)
    (h : parseFloatSyntax c o true s = .ok (.number x cnt)) :
    parseFloatSyntax c o false (s.take cnt) = .ok (.number x cnt) :=
  partial_prefix_sep_number_g H s true x cnt hm h

/-- the pieces: `parse_number` returns the same number and count on the buffer cut at its count -/
theorem parseNumber_prefix_sep (c : Cfg) (o : POpts) (p : Bool) (b : Bytes) (neg fv : Bool) (r : Number) (count : Nat)
    (H : SepCfg c o) (hm : c.requiredMantissaDigits = true) (hv : C12.Bytes.Valid b)
    (h : parseNumber c p o b neg fv = .ok (r, count)) :
    b.index < count ∧ count ≤ b.slc.length ∧ parseNumber c p o (trunc count b) neg fv = .ok (r, count) :=
  parseNumber_truncS H (zerosMirror_all H .integer (by decide)) (zerosMirror_all H .fraction (by decide))
    p b neg fv r count hm hv h

/-- … and one `peek` of any component iterator at an admissible cut (`Adm`: at or behind the new cursor; exactly at it
when it rests on a separator; behind it when it rests on a mantissa digit and the predicate looks for digits) -/
theorem peek_prefix_sep (c : Cfg) (k : Comp) (b b' : Bytes) (v : Option Nat) (hv : C12.Bytes.Valid b)
    (hp : peek c k b = .ok (v, b')) (n : Nat) (ha : Adm c k n b') :
    peek c k (trunc n b) = .ok (if b'.index < n then v else none, trunc n b') :=
  peek_trunc c k b b' v hv hp n ha

/-! ## non-vacuity: uniform I+L+T+C, I+T+C, I+L+C (decimal), fraction-only I, hex float with L+T -/

def fmtUniILTC : Format := ⟨0xa0a0a000000005f00000fff0000000c⟩   -- c13_dec_uni_iltc
def fmtUniITC : Format := ⟨0xa0a0a000000005f00000fc70000000c⟩    -- c13_dec_uni_itc
def fmtUniILC : Format := ⟨0xa0a0a000000005f00000e3f0000000c⟩    -- c13_dec_uni_ilc
def fmtUniI : Format := ⟨0xa0a0a000000005f000000070000000c⟩      -- c13_dec_uni_i
def fmtHexUniLT : Format := ⟨0xa0210000000005f000001f80000000c⟩  -- c13_hex_uni_lt
def fmtHexUniI : Format := ⟨0xa0210000000005f000000070000000c⟩   -- c13_hex_uni_i
def fmtHexUniIL : Format := ⟨0xa0210000000005f0000003f0000000c⟩  -- c13_hex_uni_il
def fmtHexUniIC : Format := ⟨0xa0210000000005f00000e070000000c⟩  -- c13_hex_uni_ic

example : SepCfg ⟨featsRadixFormat, fmtUniILTC, false⟩ {} := by
  apply sepCfg_of _ {} ⟨rfl, fun k => by cases k <;> decide +kernel⟩ <;> decide +kernel
example : SepCfg ⟨featsRadixFormat, fmtUniITC, false⟩ {} := by
  apply sepCfg_of _ {} ⟨rfl, fun k => by cases k <;> decide +kernel⟩ <;> decide +kernel
example : SepCfg ⟨featsRadixFormat, fmtUniILC, false⟩ {} := by
  apply sepCfg_of _ {} ⟨rfl, fun k => by cases k <;> decide +kernel⟩ <;> decide +kernel
example : SepCfg ⟨featsRadixFormat, fmtUniI, false⟩ {} := by
  apply sepCfg_of _ {} ⟨rfl, fun k => by cases k <;> decide +kernel⟩ <;> decide +kernel
/-- fraction-only separator format of the regressions above: the integer iterator is contiguous, the fraction one skips -/
example : SepCfg ⟨featsRadixFormat, fmtSepFracI, false⟩ {} := by
  apply sepCfg_of _ {} ⟨rfl, fun k => by cases k <;> decide +kernel⟩ <;> decide +kernel
/-- hex float (radix 16, exponent radix 10, exponent character `p`) with L+T everywhere: no digit-seeking predicate,
so no radix condition -/
example : SepCfg ⟨featsRadixFormat, fmtHexUniLT, false⟩ { exp := 112 } := by
  apply sepCfg_of _ { exp := 112 } ⟨rfl, fun k => by cases k <;> decide +kernel⟩ <;> decide +kernel

/-- I+L+T+C: `1__2__x` → count 6 (the cursor stands after the trailing separators), `1__2__` complete → same number -/
example : parseFloatSyntax ⟨featsRadixFormat, fmtUniILTC, false⟩ {} true [49, 95, 95, 50, 95, 95, 120]
      = .ok (.number ⟨12, 0, false, false, [49, 95, 95, 50, 95, 95], none, 0⟩ 6) ∧
    parseFloatSyntax ⟨featsRadixFormat, fmtUniILTC, false⟩ {} false [49, 95, 95, 50, 95, 95]
      = .ok (.number ⟨12, 0, false, false, [49, 95, 95, 50, 95, 95], none, 0⟩ 6) := by decide +kernel

/-- internal only: `1_2_x` → count 3 (the second `_` is not followed by a digit: not skipped) -/
example : parseFloatSyntax ⟨featsRadixFormat, fmtUniI, false⟩ {} true [49, 95, 50, 95, 120]
      = .ok (.number ⟨12, 0, false, false, [49, 95, 50], none, 0⟩ 3) := by decide +kernel

/-- hex L+T: `1p1_x` → (2.0, 4): trailing separator, the cut at 4 keeps "no digit follows" (and `1p1_a` → count 3:
the mantissa-radix digit `a` forbids the trailing separator) -/
example : parseFloatModel featsRadixFormat fmtHexUniLT { exp := 112 } true f64 [49, 112, 49, 95, 120]
      = "ok 4000000000000000 4" ∧
    parseFloatModel featsRadixFormat fmtHexUniLT { exp := 112 } false f64 [49, 112, 49, 95]
      = "ok 4000000000000000 -" := by decide +kernel

/-! ## the exclusion is exact: i, il, ic with `mantissa_radix > exponent_radix` -/

/-- the three formats have a digit-seeking exponent predicate and radix 16 > exponent radix 10 -/
example : digitLookB ⟨featsRadixFormat, fmtHexUniI, false⟩ .exponent = true ∧
    digitLookB ⟨featsRadixFormat, fmtHexUniIL, false⟩ .exponent = true ∧
    digitLookB ⟨featsRadixFormat, fmtHexUniIC, false⟩ .exponent = true ∧
    fmtHexUniI.mantissaRadix = 16 ∧ fmtHexUniI.exponentRadix = 10 := by decide +kernel

/-- `1p1_a`: partial = (2.0, 4) — `_` is skipped because the mantissa-radix digit `a` follows — complete `1p1_` fails -/
theorem witness_sep_hex_i :
    parseFloatModel featsRadixFormat fmtHexUniI { exp := 112 } true f64 [49, 112, 49, 95, 97] = "ok 4000000000000000 4" ∧
    parseFloatModel featsRadixFormat fmtHexUniI { exp := 112 } false f64 [49, 112, 49, 95] = "err InvalidDigit 3" := by
  decide +kernel

theorem witness_sep_hex_il :
    parseFloatModel featsRadixFormat fmtHexUniIL { exp := 112 } true f64 [49, 112, 49, 95, 97] = "ok 4000000000000000 4" ∧
    parseFloatModel featsRadixFormat fmtHexUniIL { exp := 112 } false f64 [49, 112, 49, 95] = "err InvalidDigit 3" := by
  decide +kernel

theorem witness_sep_hex_ic :
    parseFloatModel featsRadixFormat fmtHexUniIC { exp := 112 } true f64 [49, 112, 49, 95, 97] = "ok 4000000000000000 4" ∧
    parseFloatModel featsRadixFormat fmtHexUniIC { exp := 112 } false f64 [49, 112, 49, 95] = "err InvalidDigit 3" := by
  decide +kernel

/-! ## API level -/

/-- **C11 (B) for `parse_partial_with_options` / `parse_with_options`, number results, separator formats**: validated
format and options (release build, `format` feature), a separator byte, no base prefix, mantissa digits required,
the radix condition for digit-seeking exponent predicates, and the separator is not the other ASCII case of the exponent
or base-suffix character (the validation compares these bytes exactly, the parser folds case). -/
theorem partial_prefix_sep_model_number (feats : Features) (fmt : Format) (o : POpts) (f : Fmt) (s : List Nat)
    (x : Number) (cnt : Nat)
    (hfeat : feats.radix = true → feats.powerOfTwo = true) (hf : feats.format = true)
    (hm : (⟨feats, fmt, false⟩ : Cfg).requiredMantissaDigits = true)
    (h1 : optionsError o = none) (h2 : formatError feats fmt = none)
    (h3 : isValidOptionsPunctuation feats fmt o.exp o.dp = true) (h4 : checkRadix feats fmt = true)
    (hsep : fmt.digitSeparator ≠ 0) (hnp : fmt.basePrefix = 0)
    (hexp : digitLookB ⟨feats, fmt, false⟩ .exponent = true → fmt.mantissaRadix ≤ fmt.exponentRadix)
    (hexpc : matchByte o.exp ((⟨feats, fmt, false⟩ : Cfg).caseSensitiveExponent && feats.format)
      (some fmt.digitSeparator) = false)
    (hsuf : matchByte (⟨feats, fmt, false⟩ : Cfg).baseSuffix (⟨feats, fmt, false⟩ : Cfg).caseSensitiveBaseSuffix
      (some fmt.digitSeparator) = false)
    (h : parseFloatSyntax ⟨feats, fmt, false⟩ o true s = .ok (.number x cnt)) :
    parseFloatModel feats fmt o true f s = renderParsed ⟨feats, fmt, false⟩ f true (.number x cnt) ∧
    parseFloatModel feats fmt o false f (s.take cnt) = renderParsed ⟨feats, fmt, false⟩ f false (.number x cnt) := by
  have H := sepCfg_of_valid feats fmt o hfeat hf h1 h2 h3 hsep hnp hexp hexpc hsuf
  have hc := partial_prefix_sep_number ⟨feats, fmt, false⟩ o s x cnt H hm h
  rw [parseFloatModel_of_valid feats fmt o true f s false h1 h2 h3 h4,
    parseFloatModel_of_valid feats fmt o false f _ false h1 h2 h3 h4, h, hc]
  exact ⟨rfl, rfl⟩

/-- non-vacuity of the API-level hypotheses: `c13_dec_uni_itc` with default options -/
example : formatError featsRadixFormat fmtUniITC = none ∧ optionsError {} = none ∧
    isValidOptionsPunctuation featsRadixFormat fmtUniITC 101 46 = true ∧ checkRadix featsRadixFormat fmtUniITC = true ∧
    fmtUniITC.digitSeparator ≠ 0 ∧ fmtUniITC.basePrefix = 0 ∧
    (⟨featsRadixFormat, fmtUniITC, false⟩ : Cfg).requiredMantissaDigits = true ∧
    matchByte 101 ((⟨featsRadixFormat, fmtUniITC, false⟩ : Cfg).caseSensitiveExponent && true) (some fmtUniITC.digitSeparator) = false ∧
    parseFloatModel featsRadixFormat fmtUniITC {} true f64 [49, 95, 95, 50, 46, 53, 95, 120] = "ok 4029000000000000 7" ∧
    parseFloatModel featsRadixFormat fmtUniITC {} false f64 [49, 95, 95, 50, 46, 53, 95] = "ok 4029000000000000 -" := by
  decide +kernel

/-! ## what is not proved -/

/-- formats with a base prefix, and special-value results when the format has a separator byte: the statement
without those restrictions (still with the radix condition, which is necessary) -/
def partial_prefix_sep_full : Prop :=
  ∀ (feats : Features) (fmt : Format) (o : POpts) (s : List Nat) (p : Parsed),
    feats.format = true → optionsError o = none → formatError feats fmt = none →
    isValidOptionsPunctuation feats fmt o.exp o.dp = true → checkRadix feats fmt = true →
    (⟨feats, fmt, false⟩ : Cfg).requiredMantissaDigits = true →
    (digitLookB ⟨feats, fmt, false⟩ .exponent = true → fmt.mantissaRadix ≤ fmt.exponentRadix) →
    parseFloatSyntax ⟨feats, fmt, false⟩ o true s = .ok p →
    parseFloatSyntax ⟨feats, fmt, false⟩ o false (s.take (pcount p)) = .ok p

end LexVerif.Props.C11
