import LexVerif.Props.C11
import LexVerif.Proof.ParseNumberC11SepSpecial
/-!
# C11 (B) `partial_prefix` for formats WITH digit-separator flags on integer / fraction / exponent

`partial s = ok (number x, n) → complete (s.take n) = ok (number x, n)` on the float syntax model.

* `partial_prefix_sep_number`: every format of the class `SepCfg` — release build with the `format` feature, a
  digit-separator byte, **any** of the 14 separator predicates (or none) independently on integer, fraction and exponent
  (I+T+C and I+L+C included: their defects accept more, but consistently before and after the cut), base prefix and
  base suffix allowed, mantissa digits required — and every input and options whose punctuation does not collide with
  the separator. The only exclusion inside the class is the exact shape of the open defect
  "exponent `is_digit` uses the mantissa radix": an exponent predicate that can ask for a digit after the separator
  (i, il, ic; ilc at the first exponent position) needs `mantissa_radix ≤ exponent_radix`.
* `witness_sep_hex_i / _il / _ic`: the exclusion is exact for i, il, ic — decided counter-examples `1p1_a`
  (radix 16, exponent radix 10; the implementation agrees, finding C11/C13 "exponent digit test uses mantissa radix").
* `partial_prefix_sep_special`: special-value results (`nan`, `inf`, `infinity`, with or without
  `special_digit_separator`) of the same class, when no byte matching the head of a special string (in either case) is
  a mantissa digit, the decimal point (`SpecialHeadsOK`, necessary: `witness_B_radix24_nan`) or the separator
  (`SpecialHeadsNoSep`). The special iterator is no-skip or skips every separator run: its parser commutes with EVERY cut
  at or behind the match for EVERY format (`parsePositiveSpecial_prefix`), and the number parser fails on the cut buffer
  for the same reason it failed on the whole one (it meets separators and then the head of the special string).
* `partial_prefix_sep`: both kinds of result; `partial_prefix_sep_model`, `partial_prefix_sep_model_number`: the same at
  the API level (`parse_partial_with_options` / `parse_with_options`), `SepCfg` derived from the validation
  (`sepCfg_of_valid`).

Why truncation at the returned count cannot change a skip decision before the count: `Proof/ParseNumberC11SepPeek.lean`.
The count the partial parser returns may stand AFTER trailing separators that a `peek` skipped (`1__2__x` → 6 with
I+L+T+C); the complete parser on those 6 bytes makes the same skips and ends at 6 = length.
-/
namespace LexVerif.Props.C11
open LexVerif LexVerif.Model LexVerif.Spec
open LexVerif.Proof.C11

/-- **C11 (B), number results, formats with separator flags** -/
theorem partial_prefix_sep_number (c : Cfg) (o : POpts) (s : List Nat) (x : Number) (cnt : Nat)
    (H : SepCfg c o) (hE : ExpRadixOK c) (hm : c.requiredMantissaDigits = true)
    (h : parseFloatSyntax c o true s = .ok (.number x cnt)) :
    parseFloatSyntax c o false (s.take cnt) = .ok (.number x cnt) :=
  partial_prefix_sep_number_g H hE s true x cnt hm h

/-- the pieces: `parse_number` returns the same number and count on the buffer cut at its count -/
theorem parseNumber_prefix_sep (c : Cfg) (o : POpts) (p : Bool) (b : Bytes) (neg fv : Bool) (r : Number) (count : Nat)
    (H : SepCfg c o) (hE : ExpRadixOK c) (hm : c.requiredMantissaDigits = true) (hv : C12.Bytes.Valid b)
    (h : parseNumber c p o b neg fv = .ok (r, count)) :
    b.index < count ∧ count ≤ b.slc.length ∧ parseNumber c p o (trunc count b) neg fv = .ok (r, count) :=
  parseNumber_truncS H hE (zerosMirror_all H .integer (by decide)) (zerosMirror_all H .fraction (by decide))
    p b neg fv r count hm hv h

/-- … and one `peek` of any component iterator at an admissible cut (`Adm`: at or behind the new cursor; exactly at it
when it rests on a separator; behind it when it rests on a mantissa digit and the predicate looks for digits) -/
theorem peek_prefix_sep (c : Cfg) (k : Comp) (b b' : Bytes) (v : Option Nat) (hv : C12.Bytes.Valid b)
    (hp : peek c k b = .ok (v, b')) (n : Nat) (ha : Adm c k n b') :
    peek c k (trunc n b) = .ok (if b'.index < n then v else none, trunc n b') :=
  peek_trunc c k b b' v hv hp n ha

/-! ## non-vacuity: uniform I+L+T+C, I+T+C, I+L+C (decimal), fraction-only I, hex float with L+T -/

def fmtUniILTC : Format := ⟨0xa0a0a000000005f00000fff0000000c⟩   -- c13_dec_uni_iltc
def fmtUniITC : Format := ⟨0xa0a0a000000005f00000fc70000000c⟩    -- c13_dec_uni_itc
def fmtUniILC : Format := ⟨0xa0a0a000000005f00000e3f0000000c⟩    -- c13_dec_uni_ilc
def fmtUniI : Format := ⟨0xa0a0a000000005f000000070000000c⟩      -- c13_dec_uni_i
def fmtHexUniLT : Format := ⟨0xa0210000000005f000001f80000000c⟩  -- c13_hex_uni_lt
def fmtHexUniI : Format := ⟨0xa0210000000005f000000070000000c⟩   -- c13_hex_uni_i
def fmtHexUniIL : Format := ⟨0xa0210000000005f0000003f0000000c⟩  -- c13_hex_uni_il
def fmtHexUniIC : Format := ⟨0xa0210000000005f00000e070000000c⟩  -- c13_hex_uni_ic

example : SepCfg ⟨featsRadixFormat, fmtUniILTC, false⟩ {} := by
  apply sepCfg_of _ {} ⟨rfl, fun k => by cases k <;> decide +kernel⟩ <;> decide +kernel
example : SepCfg ⟨featsRadixFormat, fmtUniITC, false⟩ {} := by
  apply sepCfg_of _ {} ⟨rfl, fun k => by cases k <;> decide +kernel⟩ <;> decide +kernel
example : SepCfg ⟨featsRadixFormat, fmtUniILC, false⟩ {} := by
  apply sepCfg_of _ {} ⟨rfl, fun k => by cases k <;> decide +kernel⟩ <;> decide +kernel
example : SepCfg ⟨featsRadixFormat, fmtUniI, false⟩ {} := by
  apply sepCfg_of _ {} ⟨rfl, fun k => by cases k <;> decide +kernel⟩ <;> decide +kernel
/-- fraction-only separator format of the regressions above: the integer iterator is contiguous, the fraction one skips -/
example : SepCfg ⟨featsRadixFormat, fmtSepFracI, false⟩ {} := by
  apply sepCfg_of _ {} ⟨rfl, fun k => by cases k <;> decide +kernel⟩ <;> decide +kernel
/-- hex float (radix 16, exponent radix 10, exponent character `p`) with L+T everywhere: no digit-seeking predicate,
so no radix condition -/
example : SepCfg ⟨featsRadixFormat, fmtHexUniLT, false⟩ { exp := 112 } := by
  apply sepCfg_of _ { exp := 112 } ⟨rfl, fun k => by cases k <;> decide +kernel⟩ <;> decide +kernel

/-- hex float with base prefix `x` and L+T separators (`c13_hex_uni_lt` + prefix): `0x_1_.8p1_z` → count 10 -/
def fmtHexUniLTPrefix : Format := ⟨0xa0210007800005f000001f80000000c⟩

/- With the repaired base-prefix phase modelled (`Model.prefixRepair = true`) the class `SepCfg` excludes base prefixes
(`SepCfg.preRep`): separator + prefix formats are covered by the evaluation below and by the correspondence only. -/

example : fmtHexUniLTPrefix.basePrefix = 120 ∧ formatError featsRadixFormat fmtHexUniLTPrefix = none ∧
    parseFloatSyntax ⟨featsRadixFormat, fmtHexUniLTPrefix, false⟩ { exp := 112 } true
        [48, 120, 95, 49, 95, 46, 56, 112, 49, 95, 122]
      = .ok (.number ⟨24, -3, false, false, [95, 49, 95], some [56], 1⟩ 10) ∧
    parseFloatSyntax ⟨featsRadixFormat, fmtHexUniLTPrefix, false⟩ { exp := 112 } false
        [48, 120, 95, 49, 95, 46, 56, 112, 49, 95]
      = .ok (.number ⟨24, -3, false, false, [95, 49, 95], some [56], 1⟩ 10) := by decide +kernel

/-- the radix condition: trivially for the decimal formats, by "no digit-seeking predicate" for hex L+T — and the
digit-seeking hex formats `c13_hex_uni_i / il / ic` do NOT satisfy its checkable form -/
example : ExpRadixOK ⟨featsRadixFormat, fmtUniITC, false⟩ ∧ ExpRadixOK ⟨featsRadixFormat, fmtHexUniLT, false⟩ ∧
    ExpRadixOK ⟨featsRadixFormat, fmtHexUniLTPrefix, false⟩ :=
  ⟨expRadixOK_of _ (by decide +kernel), expRadixOK_of _ (by decide +kernel), expRadixOK_of _ (by decide +kernel)⟩

/-- I+L+T+C: `1__2__x` → count 6 (the cursor stands after the trailing separators), `1__2__` complete → same number -/
example : parseFloatSyntax ⟨featsRadixFormat, fmtUniILTC, false⟩ {} true [49, 95, 95, 50, 95, 95, 120]
      = .ok (.number ⟨12, 0, false, false, [49, 95, 95, 50, 95, 95], none, 0⟩ 6) ∧
    parseFloatSyntax ⟨featsRadixFormat, fmtUniILTC, false⟩ {} false [49, 95, 95, 50, 95, 95]
      = .ok (.number ⟨12, 0, false, false, [49, 95, 95, 50, 95, 95], none, 0⟩ 6) := by decide +kernel

/-- internal only: `1_2_x` → count 3 (the second `_` is not followed by a digit: not skipped) -/
example : parseFloatSyntax ⟨featsRadixFormat, fmtUniI, false⟩ {} true [49, 95, 50, 95, 120]
      = .ok (.number ⟨12, 0, false, false, [49, 95, 50], none, 0⟩ 3) := by decide +kernel

/-- hex L+T: `1p1_x` → (2.0, 4): trailing separator, the cut at 4 keeps "no digit follows" (and `1p1_a` → count 3:
the mantissa-radix digit `a` forbids the trailing separator) -/
example : parseFloatModel featsRadixFormat fmtHexUniLT { exp := 112 } true f64 [49, 112, 49, 95, 120]
      = "ok 4000000000000000 4" ∧
    parseFloatModel featsRadixFormat fmtHexUniLT { exp := 112 } false f64 [49, 112, 49, 95]
      = "ok 4000000000000000 -" := by decide +kernel

/-! ## the exclusion is exact: i, il, ic with `mantissa_radix > exponent_radix` -/

/-- the three formats have a digit-seeking exponent predicate and radix 16 > exponent radix 10 -/
example : digitLookB ⟨featsRadixFormat, fmtHexUniI, false⟩ .exponent = true ∧
    digitLookB ⟨featsRadixFormat, fmtHexUniIL, false⟩ .exponent = true ∧
    digitLookB ⟨featsRadixFormat, fmtHexUniIC, false⟩ .exponent = true ∧
    fmtHexUniI.mantissaRadix = 16 ∧ fmtHexUniI.exponentRadix = 10 := by decide +kernel

/-- `1p1_a`: partial = (2.0, 4) — `_` is skipped because the mantissa-radix digit `a` follows — complete `1p1_` fails -/
theorem witness_sep_hex_i :
    parseFloatModel featsRadixFormat fmtHexUniI { exp := 112 } true f64 [49, 112, 49, 95, 97] = "ok 4000000000000000 4" ∧
    parseFloatModel featsRadixFormat fmtHexUniI { exp := 112 } false f64 [49, 112, 49, 95] = "err InvalidDigit 3" := by
  decide +kernel

theorem witness_sep_hex_il :
    parseFloatModel featsRadixFormat fmtHexUniIL { exp := 112 } true f64 [49, 112, 49, 95, 97] = "ok 4000000000000000 4" ∧
    parseFloatModel featsRadixFormat fmtHexUniIL { exp := 112 } false f64 [49, 112, 49, 95] = "err InvalidDigit 3" := by
  decide +kernel

theorem witness_sep_hex_ic :
    parseFloatModel featsRadixFormat fmtHexUniIC { exp := 112 } true f64 [49, 112, 49, 95, 97] = "ok 4000000000000000 4" ∧
    parseFloatModel featsRadixFormat fmtHexUniIC { exp := 112 } false f64 [49, 112, 49, 95] = "err InvalidDigit 3" := by
  decide +kernel

/-! ## API level -/

/-- **C11 (B) for `parse_partial_with_options` / `parse_with_options`, number results, separator formats**: validated
format and options (release build, `format` feature), a separator byte, mantissa digits required, the radix condition
for digit-seeking exponent predicates, and the separator is not the other ASCII case of the exponent, base-prefix or
base-suffix character (the validation compares these bytes exactly, the parser folds case). -/
theorem partial_prefix_sep_model_number (feats : Features) (fmt : Format) (o : POpts) (f : Fmt) (s : List Nat)
    (x : Number) (cnt : Nat)
    (hfeat : feats.radix = true → feats.powerOfTwo = true) (hf : feats.format = true)
    (hm : (⟨feats, fmt, false⟩ : Cfg).requiredMantissaDigits = true)
    (h1 : optionsError o = none) (h2 : formatError feats fmt = none)
    (h3 : isValidOptionsPunctuation feats fmt o.exp o.dp = true) (h4 : checkRadix feats fmt = true)
    (hsep : fmt.digitSeparator ≠ 0)
    (hexp : digitLookB ⟨feats, fmt, false⟩ .exponent = true → fmt.mantissaRadix ≤ fmt.exponentRadix)
    (hexpc : matchByte o.exp ((⟨feats, fmt, false⟩ : Cfg).caseSensitiveExponent && feats.format)
      (some fmt.digitSeparator) = false)
    (hsuf : matchByte (⟨feats, fmt, false⟩ : Cfg).baseSuffix (⟨feats, fmt, false⟩ : Cfg).caseSensitiveBaseSuffix
      (some fmt.digitSeparator) = false)
    (hpre : matchByte (⟨feats, fmt, false⟩ : Cfg).basePrefix (⟨feats, fmt, false⟩ : Cfg).caseSensitiveBasePrefix
      (some fmt.digitSeparator) = false)
    (hprr : prefixRepair = true → fmt.basePrefix = 0)
    (h : parseFloatSyntax ⟨feats, fmt, false⟩ o true s = .ok (.number x cnt)) :
    parseFloatModel feats fmt o true f s = renderParsed ⟨feats, fmt, false⟩ f true (.number x cnt) ∧
    parseFloatModel feats fmt o false f (s.take cnt) = renderParsed ⟨feats, fmt, false⟩ f false (.number x cnt) := by
  have H := sepCfg_of_valid feats fmt o hfeat hf h1 h2 h3 hsep hexpc hsuf hpre hprr
  have hc := partial_prefix_sep_number ⟨feats, fmt, false⟩ o s x cnt H (expRadixOK_of _ hexp) hm h
  rw [parseFloatModel_of_valid feats fmt o true f s false h1 h2 h3 h4,
    parseFloatModel_of_valid feats fmt o false f _ false h1 h2 h3 h4, h, hc]
  exact ⟨rfl, rfl⟩

/-- non-vacuity of the API-level hypotheses: `c13_dec_uni_itc` with default options -/
example : formatError featsRadixFormat fmtUniITC = none ∧ optionsError {} = none ∧
    isValidOptionsPunctuation featsRadixFormat fmtUniITC 101 46 = true ∧ checkRadix featsRadixFormat fmtUniITC = true ∧
    fmtUniITC.digitSeparator ≠ 0 ∧
    (⟨featsRadixFormat, fmtUniITC, false⟩ : Cfg).requiredMantissaDigits = true ∧
    matchByte 101 ((⟨featsRadixFormat, fmtUniITC, false⟩ : Cfg).caseSensitiveExponent && true) (some fmtUniITC.digitSeparator) = false ∧
    parseFloatModel featsRadixFormat fmtUniITC {} true f64 [49, 95, 95, 50, 46, 53, 95, 120] = "ok 4029000000000000 7" ∧
    parseFloatModel featsRadixFormat fmtUniITC {} false f64 [49, 95, 95, 50, 46, 53, 95] = "ok 4029000000000000 -" := by
  decide +kernel

/-! ## special-value results -/

/-- the special-value parser commutes with the cut at its count — every format, feature set and build -/
theorem parsePositiveSpecial_prefix (c : Cfg) (o : POpts) (b : Bytes) (sp : Special) (cnt : Nat)
    (hv : C12.Bytes.Valid b) (hidx : b.index ≤ cnt) (h : parsePositiveSpecial c o b = .ok (some (sp, cnt))) :
    cnt ≤ b.slc.length ∧ parsePositiveSpecial c o (trunc cnt b) = .ok (some (sp, cnt)) :=
  parsePositiveSpecial_truncS o b sp cnt hv hidx h

/-- **C11 (B), special-value results, formats with a separator byte** -/
theorem partial_prefix_sep_special (c : Cfg) (o : POpts) (s : List Nat) (sp : Special) (neg : Bool) (cnt : Nat)
    (H : SepCfg c o) (hm : c.requiredMantissaDigits = true) (hh : SpecialHeadsOK c o) (hhs : SpecialHeadsNoSep c o)
    (h : parseFloatSyntax c o true s = .ok (.special sp neg cnt)) :
    parseFloatSyntax c o false (s.take cnt) = .ok (.special sp neg cnt) :=
  partial_prefix_sep_special_g H s true sp neg cnt hm hh hhs h

/-- **C11 (B), formats with separator flags, every result** -/
theorem partial_prefix_sep (c : Cfg) (o : POpts) (s : List Nat) (p : Parsed)
    (H : SepCfg c o) (hE : ExpRadixOK c) (hm : c.requiredMantissaDigits = true) (hh : SpecialHeadsOK c o)
    (hhs : SpecialHeadsNoSep c o)
    (h : parseFloatSyntax c o true s = .ok p) :
    parseFloatSyntax c o false (s.take (pcount p)) = .ok p := by
  cases p with
  | number x cnt => exact partial_prefix_sep_number c o s x cnt H hE hm h
  | special sp ng cnt => exact partial_prefix_sep_special c o s sp ng cnt H hm hh hhs h
  | zero n =>
    exfalso
    rw [parseFloatSyntax_eq] at h
    cases ha : afterSign c s with
    | error e => rw [ha] at h; cases h
    | ok pr =>
      obtain ⟨neg, consumed, b⟩ := pr
      rw [ha] at h
      simp only at h
      cases consumed with
      | true =>
        simp only [if_true, hm, Bool.or_true] at h
        cases h
      | false =>
        simp only [Bool.false_eq_true, if_false] at h
        unfold tail at h
        simp only [if_true] at h
        split at h
        · cases h
        · split at h <;> cases h
        · cases h

/-- `special_digit_separator` with I+L+T+C everywhere (`_` in numbers and in special values) -/
def fmtUniILTCSpecial : Format := ⟨0xa0a0a000000005f00001fff0000000c⟩

example : SepCfg ⟨featsRadixFormat, fmtUniILTCSpecial, false⟩ {} := by
  apply sepCfg_of _ {} ⟨rfl, fun k => by cases k <;> decide +kernel⟩ <;> decide +kernel

/-- `-_n_a__n__x` → (NaN, 9): sign, leading separator, separators inside and behind the match; the complete parser on
the 9 bytes returns the same -/
example : (⟨featsRadixFormat, fmtUniILTCSpecial, false⟩ : Cfg).specialSep = true ∧
    formatError featsRadixFormat fmtUniILTCSpecial = none ∧
    parseFloatSyntax ⟨featsRadixFormat, fmtUniILTCSpecial, false⟩ {} true [45, 95, 110, 95, 97, 95, 95, 110, 95, 120]
      = .ok (.special .nan true 9) ∧
    parseFloatSyntax ⟨featsRadixFormat, fmtUniILTCSpecial, false⟩ {} false [45, 95, 110, 95, 97, 95, 95, 110, 95]
      = .ok (.special .nan true 9) := by decide +kernel

/-- without `special_digit_separator` (`c13_dec_uni_itc`): `inf_x` → (inf, 3) -/
example : parseFloatSyntax ⟨featsRadixFormat, fmtUniITC, false⟩ {} true [105, 110, 102, 95, 120] = .ok (.special .inf false 3) ∧
    parseFloatSyntax ⟨featsRadixFormat, fmtUniITC, false⟩ {} false [105, 110, 102] = .ok (.special .inf false 3) := by
  decide +kernel

/-- **C11 (B) at the API level, separator formats, every result**: additionally mantissa radix ≤ 18, and neither the
decimal point nor the separator is one of `I i N n` -/
theorem partial_prefix_sep_model (feats : Features) (fmt : Format) (o : POpts) (f : Fmt) (s : List Nat) (q : Parsed)
    (hfeat : feats.radix = true → feats.powerOfTwo = true) (hf : feats.format = true)
    (hm : (⟨feats, fmt, false⟩ : Cfg).requiredMantissaDigits = true)
    (h1 : optionsError o = none) (h2 : formatError feats fmt = none)
    (h3 : isValidOptionsPunctuation feats fmt o.exp o.dp = true) (h4 : checkRadix feats fmt = true)
    (hsep : fmt.digitSeparator ≠ 0)
    (hexp : digitLookB ⟨feats, fmt, false⟩ .exponent = true → fmt.mantissaRadix ≤ fmt.exponentRadix)
    (hexpc : matchByte o.exp ((⟨feats, fmt, false⟩ : Cfg).caseSensitiveExponent && feats.format)
      (some fmt.digitSeparator) = false)
    (hsuf : matchByte (⟨feats, fmt, false⟩ : Cfg).baseSuffix (⟨feats, fmt, false⟩ : Cfg).caseSensitiveBaseSuffix
      (some fmt.digitSeparator) = false)
    (hpre : matchByte (⟨feats, fmt, false⟩ : Cfg).basePrefix (⟨feats, fmt, false⟩ : Cfg).caseSensitiveBasePrefix
      (some fmt.digitSeparator) = false)
    (hprr : prefixRepair = true → fmt.basePrefix = 0)
    (hr18 : fmt.mantissaRadix ≤ 18) (hdp : o.dp ≠ 73 ∧ o.dp ≠ 105 ∧ o.dp ≠ 78 ∧ o.dp ≠ 110)
    (hsl : fmt.digitSeparator ≠ 73 ∧ fmt.digitSeparator ≠ 105 ∧ fmt.digitSeparator ≠ 78 ∧ fmt.digitSeparator ≠ 110)
    (h : parseFloatSyntax ⟨feats, fmt, false⟩ o true s = .ok q) :
    parseFloatModel feats fmt o true f s = renderParsed ⟨feats, fmt, false⟩ f true q ∧
    parseFloatModel feats fmt o false f (s.take (pcount q)) = renderParsed ⟨feats, fmt, false⟩ f false q := by
  have H := sepCfg_of_valid feats fmt o hfeat hf h1 h2 h3 hsep hexpc hsuf hpre hprr
  have hh : SpecialHeadsOK ⟨feats, fmt, false⟩ o := specialHeadsOK_of_valid _ _ h1 hr18 hdp
  have hhs : SpecialHeadsNoSep ⟨feats, fmt, false⟩ o :=
    specialHeadsNoSep_of_valid _ _ h1 (by simpa [Cfg.digitSeparator, hf] using hsl)
  have hc := partial_prefix_sep ⟨feats, fmt, false⟩ o s q H (expRadixOK_of _ hexp) hm hh hhs h
  rw [parseFloatModel_of_valid feats fmt o true f s false h1 h2 h3 h4,
    parseFloatModel_of_valid feats fmt o false f _ false h1 h2 h3 h4, h, hc]
  exact ⟨rfl, rfl⟩

/-! ## what is not proved -/

/-- the statement for every validated call with a `format` build: beyond validity only the two necessary exclusions
(the radix condition — `witness_sep_hex_i`; special heads that are digits / the decimal point — `witness_B_radix24_nan`)
and required mantissa digits (`witness_B_nodigits_sign`). Open: a separator that is the other ASCII case of the
exponent, base-prefix or base-suffix character, or one of `I i N n` -/
def partial_prefix_sep_full : Prop :=
  ∀ (feats : Features) (fmt : Format) (o : POpts) (s : List Nat) (p : Parsed),
    (feats.radix = true → feats.powerOfTwo = true) → feats.format = true →
    optionsError o = none → formatError feats fmt = none →
    isValidOptionsPunctuation feats fmt o.exp o.dp = true → checkRadix feats fmt = true →
    (⟨feats, fmt, false⟩ : Cfg).requiredMantissaDigits = true →
    (digitLookB ⟨feats, fmt, false⟩ .exponent = true → fmt.mantissaRadix ≤ fmt.exponentRadix) →
    SpecialHeadsOK ⟨feats, fmt, false⟩ o →
    parseFloatSyntax ⟨feats, fmt, false⟩ o true s = .ok p →
    parseFloatSyntax ⟨feats, fmt, false⟩ o false (s.take (pcount p)) = .ok p

/-- proved part: a separator byte (without one: `partial_prefix_contiguous`) that does not collide (up to ASCII case)
with the exponent character, the base prefix / suffix or the heads of the special strings -/
theorem partial_prefix_sep_full_partial (feats : Features) (fmt : Format) (o : POpts) (s : List Nat) (p : Parsed)
    (hfeat : feats.radix = true → feats.powerOfTwo = true) (hf : feats.format = true)
    (h1 : optionsError o = none) (h2 : formatError feats fmt = none)
    (h3 : isValidOptionsPunctuation feats fmt o.exp o.dp = true)
    (hm : (⟨feats, fmt, false⟩ : Cfg).requiredMantissaDigits = true)
    (hexp : digitLookB ⟨feats, fmt, false⟩ .exponent = true → fmt.mantissaRadix ≤ fmt.exponentRadix)
    (hh : SpecialHeadsOK ⟨feats, fmt, false⟩ o)
    (hsep : fmt.digitSeparator ≠ 0)
    (hexpc : matchByte o.exp ((⟨feats, fmt, false⟩ : Cfg).caseSensitiveExponent && feats.format)
      (some fmt.digitSeparator) = false)
    (hsuf : matchByte (⟨feats, fmt, false⟩ : Cfg).baseSuffix (⟨feats, fmt, false⟩ : Cfg).caseSensitiveBaseSuffix
      (some fmt.digitSeparator) = false)
    (hpre : matchByte (⟨feats, fmt, false⟩ : Cfg).basePrefix (⟨feats, fmt, false⟩ : Cfg).caseSensitiveBasePrefix
      (some fmt.digitSeparator) = false)
    (hprr : prefixRepair = true → fmt.basePrefix = 0)
    (hsl : fmt.digitSeparator ≠ 73 ∧ fmt.digitSeparator ≠ 105 ∧ fmt.digitSeparator ≠ 78 ∧ fmt.digitSeparator ≠ 110)
    (h : parseFloatSyntax ⟨feats, fmt, false⟩ o true s = .ok p) :
    parseFloatSyntax ⟨feats, fmt, false⟩ o false (s.take (pcount p)) = .ok p :=
  partial_prefix_sep _ o s p (sepCfg_of_valid feats fmt o hfeat hf h1 h2 h3 hsep hexpc hsuf hpre hprr)
    (expRadixOK_of _ hexp) hm hh
    (specialHeadsNoSep_of_valid _ _ h1 (by simpa [Cfg.digitSeparator, hf] using hsl)) h

end LexVerif.Props.C11
