import LexVerif.Spec.StdFloat
/-!
# C19 — lossy float parsing changes only precision (property theorems)

On the specification level the `lossy` option is not an input of the grammar at all: acceptance, the
consumed count and the literal depend on the bytes, the radices and the punctuation only.
-/
namespace LexVerif.Props.C19
open LexVerif.Spec

/-- the grammar never looks at `lossy` (partial parser) -/
theorem parseStd_lossy_irrelevant (r er : Nat) (o : POpts) (b : Bool) (s : List Nat) :
    parseStd r er { o with lossy := b } s = parseStd r er o s := by
  rfl

/-- the grammar never looks at `lossy` (complete parser) -/
theorem parseStdComplete_lossy_irrelevant (r er : Nat) (o : POpts) (b : Bool) (s : List Nat) :
    parseStdComplete r er { o with lossy := b } s = parseStdComplete r er o s := by
  rfl

end LexVerif.Props.C19
