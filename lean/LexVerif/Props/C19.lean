import LexVerif.Spec.StdFloat
import LexVerif.Props.C05
import LexVerif.Props.C01
import LexVerif.Proof.RoundNEStep
import LexVerif.Proof.BellLossy
/-!
# C19 — lossy float parsing changes only precision (property theorems)

On the specification level the `lossy` option is not an input of the grammar at all: acceptance, the
consumed count and the literal depend on the bytes, the radices and the punctuation only.

Algorithm level, power-of-two radices (model `Model.Binary`):
* `lossy_pow2_exact` — under `lossy`, `binary` always answers, and with `roundNE (mantissa·base^exponent)`:
  for an untruncated mantissa the lossy result **is** the correctly rounded one;
* `lossy_pow2_agrees` — whenever the non-lossy `binary` decides, both answers are the same float;
* `lossy_bellerophon_neighbour` — **complete** on the model: lossy Bellerophon (decimal in `compact` builds, all
  29 generic radices) answers with the correctly rounded float or an adjacent pattern;
* `lossy_pow2_neighbour` — **complete**: for a truncated mantissa (at least `p` bits) the lossy answer is the
  correctly rounded float of the true value or the pattern immediately below it (`Proof.RoundNEStep`: a relative
  change of at most `2^−p` moves `roundNE` by at most one pattern); `lossy_pow2_bracket_partial`: the bracket
  without the size hypothesis.
-/
namespace LexVerif.Props.C19
open LexVerif.Spec LexVerif.Model
open LexVerif.Proof.RoundNE LexVerif.Proof.ExtRound LexVerif.Proof.BinaryCorrect LexVerif.Props.C05

/-- the grammar never looks at `lossy` (partial parser) -/
theorem parseStd_lossy_irrelevant (r er : Nat) (o : POpts) (b : Bool) (s : List Nat) :
    parseStd r er { o with lossy := b } s = parseStd r er o s := by
  rfl

/-- the grammar never looks at `lossy` (complete parser) -/
theorem parseStdComplete_lossy_irrelevant (r er : Nat) (o : POpts) (b : Bool) (s : List Nat) :
    parseStdComplete r er { o with lossy := b } s = parseStdComplete r er o s := by
  rfl

/-- lossy `binary` always answers, with `roundNE (mantissa · base^exponent)` -/
theorem lossy_pow2_exact {F : FTy} {p eb : Nat} (lay : Layout F p eb) {base : Nat} (hb : IsPow2 base) (n : Num)
    (hm : n.mantissa < 2 ^ 64) (he : ExpInRange n.exponent) :
    ∃ fp, Binary.binary F base n true = .ok fp ∧ 0 ≤ fp.exp ∧
      extendedToFloat F fp =
        roundNE F.fmt (powFrac base n.exponent n.mantissa).1 (powFrac base n.exponent n.mantissa).2 := by
  obtain ⟨fp, h1, h2⟩ := binary_valid lay hb n true hm he.1 he.2 (Or.inr rfl)
  exact ⟨fp, h1, h2, binary_exact lay hb n true hm he.1 he.2 h1 h2⟩

/-- whenever the non-lossy `binary` decides, lossy and non-lossy agree bit for bit -/
theorem lossy_pow2_agrees {F : FTy} {p eb : Nat} (lay : Layout F p eb) {base : Nat} (hb : IsPow2 base) (n : Num)
    (hm : n.mantissa < 2 ^ 64) (he : ExpInRange n.exponent)
    {fp fpl : ExtendedFloat80} (h : Binary.binary F base n false = .ok fp) (hv : 0 ≤ fp.exp)
    (hl : Binary.binary F base n true = .ok fpl) :
    extendedToFloat F fpl = extendedToFloat F fp := by
  obtain ⟨fp', h1, _, h3⟩ := lossy_pow2_exact lay hb n hm he
  rw [hl] at h1; injection h1 with h1; subst h1
  rw [h3, binary_exact lay hb n false hm he.1 he.2 h hv]

/-- **`lossy_pow2_neighbour`** (**complete**): for a truncated mantissa `M ≥ 2^p` (a `u64_step`-digit mantissa
has at least 55 bits) and any true value `x ∈ [M, M+1)·base^e`, the lossy answer is `roundNE x` or the pattern
just below it: lossy parsing in a power-of-two radix is off by at most one unit in the last place, and only
downwards. -/
theorem lossy_pow2_neighbour {F : FTy} {p eb : Nat} (lay : Layout F p eb) {base : Nat} (hb : IsPow2 base)
    (n : Num) (hM : 2 ^ p ≤ n.mantissa) (hm : n.mantissa + 1 < 2 ^ 64) (he : ExpInRange n.exponent)
    (num den : Nat) (hd : 0 < den)
    (hlo : (powFrac base n.exponent n.mantissa).1 * den ≤ num * (powFrac base n.exponent n.mantissa).2)
    (hhi : num * (powFrac base n.exponent (n.mantissa + 1)).2 < (powFrac base n.exponent (n.mantissa + 1)).1 * den) :
    ∃ fp, Binary.binary F base n true = .ok fp ∧ 0 ≤ fp.exp ∧
      (extendedToFloat F fp = roundNE F.fmt num den ∨ extendedToFloat F fp + 1 = roundNE F.fmt num den) := by
  have hf := lay.wf
  have hfp : F.fmt.p = p := by rw [lay.fmt]
  obtain ⟨lg, hlg⟩ := isPow2Base_of base hb
  have hbpos : 0 < base := by rw [hlg.1]; exact Nat.two_pow_pos _
  have hden : ∀ m, 0 < (powFrac base n.exponent m).2 := by
    intro m; unfold powFrac; split
    · exact Nat.one_pos
    · exact Nat.pow_pos hbpos
  obtain ⟨fp, a1, a2, a3⟩ := lossy_pow2_exact lay hb n (by omega) he
  refine ⟨fp, a1, a2, ?_⟩
  rw [a3]
  have hmono := roundNE_mono' hf (hden n.mantissa) hd hlo
  -- (M+1)·base^e = M·base^e · (M+1)/M
  have hrel : num * (powFrac base n.exponent n.mantissa).2 * n.mantissa ≤
      (powFrac base n.exponent n.mantissa).1 * den * (n.mantissa + 1) := by
    have h2 : (powFrac base n.exponent (n.mantissa + 1)).2 = (powFrac base n.exponent n.mantissa).2 := by
      unfold powFrac; split <;> rfl
    have h1 : (powFrac base n.exponent (n.mantissa + 1)).1 * n.mantissa =
        (powFrac base n.exponent n.mantissa).1 * (n.mantissa + 1) := by
      unfold powFrac; split
      · simp only []; ring
      · simp only []; ring
    rw [h2] at hhi
    have := Nat.mul_le_mul_right n.mantissa (Nat.le_of_lt hhi)
    calc num * (powFrac base n.exponent n.mantissa).2 * n.mantissa
        ≤ (powFrac base n.exponent (n.mantissa + 1)).1 * den * n.mantissa := this
      _ = (powFrac base n.exponent (n.mantissa + 1)).1 * n.mantissa * den := by ring
      _ = (powFrac base n.exponent n.mantissa).1 * (n.mantissa + 1) * den := by rw [h1]
      _ = (powFrac base n.exponent n.mantissa).1 * den * (n.mantissa + 1) := by ring
  have hstep := roundNE_step hf (hden n.mantissa) hd (by rw [hfp]; exact hM) hrel
  omega

/-- proved part: the lossy answer is the correctly rounded float of the **truncated** value, hence never
above the correctly rounded float of the true value, and the latter is at most that of `(M+1)·base^e` -/
theorem lossy_pow2_bracket_partial {F : FTy} {p eb : Nat} (lay : Layout F p eb) {base : Nat} (hb : IsPow2 base)
    (n : Num) (hm : n.mantissa + 1 < 2 ^ 64) (he : ExpInRange n.exponent) (num den : Nat) (hd : 0 < den)
    (hlo : (powFrac base n.exponent n.mantissa).1 * den ≤ num * (powFrac base n.exponent n.mantissa).2)
    (hhi : num * (powFrac base n.exponent (n.mantissa + 1)).2 ≤ (powFrac base n.exponent (n.mantissa + 1)).1 * den) :
    ∃ fp fp1, Binary.binary F base n true = .ok fp ∧
      Binary.binary F base { n with mantissa := n.mantissa + 1 } true = .ok fp1 ∧
      extendedToFloat F fp ≤ roundNE F.fmt num den ∧ roundNE F.fmt num den ≤ extendedToFloat F fp1 := by
  have hf := lay.wf
  obtain ⟨lg, hlg⟩ := isPow2Base_of base hb
  have hbpos : 0 < base := by rw [hlg.1]; exact Nat.two_pow_pos _
  have hden : ∀ m, 0 < (powFrac base n.exponent m).2 := by
    intro m; unfold powFrac; split
    · exact Nat.one_pos
    · exact Nat.pow_pos hbpos
  obtain ⟨fp, a1, _, a3⟩ := lossy_pow2_exact lay hb n (by omega) he
  obtain ⟨fp1, b1, _, b3⟩ := lossy_pow2_exact lay hb { n with mantissa := n.mantissa + 1 } hm he
  refine ⟨fp, fp1, a1, b1, ?_, ?_⟩
  · rw [a3]; exact roundNE_mono' hf (hden _) hd hlo
  · rw [b3]; exact roundNE_mono' hf hd (hden _) hhi

/-! ## Bellerophon (decimal under `compact`, every generic radix) -/

open LexVerif.Proof.Bell in
/-- **`lossy_bellerophon_neighbour`** (**complete** on the model): with `lossy`, `bellerophon::<F, FORMAT>` always
answers, and its answer is `roundNE` of the true value of the literal or a pattern adjacent to it — for every
radix with Bellerophon tables (`IsBellTable`: the 29 generic radices in `radix` builds; those and 10 in `compact`
builds), every exponent, untruncated mantissas and truncated ones of at least 55 bits (every `u64_step`-digit
mantissa). Decimal parsing in non-`compact` builds uses Eisel–Lemire instead: `lossy_decimal_neighbour` there is
measured, not proved. -/
theorem lossy_bellerophon_neighbour (F : FTy) (hF : F = FTy.f64 ∨ F = FTy.f32)
    (P : Gen.Bellerophon.Powers) (r : Nat) (hP : IsBellTable P r) (n : Num) (hw : n.mantissa < 2 ^ 64)
    (hmw : n.manyDigits = true → 2 ^ 55 ≤ n.mantissa) (num den : Nat) (hd : 0 < den)
    (htv : TrueValue r n num den) :
    ∃ fp, Bellerophon.bellerophon F P n true = .ok fp ∧ 0 ≤ fp.exp ∧
      extendedToFloat F fp ≤ roundNE F.fmt num den + 1 ∧ roundNE F.fmt num den ≤ extendedToFloat F fp + 1 := by
  have hc : BellFacts r P := by
    rcases hP with ⟨hr, rfl⟩ | ⟨hr, rfl⟩
    · exact bellFacts_of (bellCheck_radix r hr)
    · exact bellFacts_of (bellCheck_compact r hr)
  rcases hF with h' | h' <;> subst h'
  · exact bellerophon_lossy_neighbour layout_f64 (by decide) hc n hw hmw num den hd htv
  · exact bellerophon_lossy_neighbour layout_f32 (by decide) hc n hw hmw num den hd htv

/-! ## decimal, Eisel–Lemire (non-`compact` builds) -/

/-- **`lossy_lemire_agrees`**: lossy and non-lossy `compute_float` run the same code unless the non-lossy one falls
back (`lo` all ones outside `[−27, 55]`); so whenever the non-lossy answer is valid, the lossy answer is the same
float — and by `lemire_sound_proved` it is `roundNE (w·10^q)`: lossy decimal parsing of an untruncated mantissa is
exact except on the fall-back inputs. -/
theorem lossy_lemire_agrees (F : FTy) (hF : C01.IsLemireFloat F) (q : Int) (hq : C01.IsI64 q) (w : Nat)
    (hw : w < 2 ^ 64) {fp : ExtendedFloat80} (h : Lemire.computeFloat F q w false = .ok fp) (hv : 0 ≤ fp.exp) :
    Lemire.computeFloat F q w true = .ok fp ∧
      extendedToFloat F fp = roundNE F.fmt (powFrac 10 q w).1 (powFrac 10 q w).2 := by
  refine ⟨?_, C01.cfSound_all F hF q w hw fp h hv⟩
  obtain ⟨p, eb, lay⟩ : ∃ p eb, Layout F p eb := by
    rcases hF with h' | h' <;> subst h'
    · exact ⟨_, _, layout_f64⟩
    · exact ⟨_, _, layout_f32⟩
  unfold Lemire.computeFloat at h ⊢
  split at h
  · rename_i h1; rw [if_pos h1]; exact h
  · rename_i h1
    rw [if_neg h1]
    split at h
    · rename_i h2; rw [if_pos h2]; exact h
    · rename_i h2
      rw [if_neg h2]
      simp only [] at h ⊢
      cases hc : Lemire.computeProductApprox q (shl64m w (clz64 w)) (F.ms + Lemire.litPrecisionExtra) with
      | none => rw [hc] at h; exact absurd h (by simp)
      | some r =>
        obtain ⟨lo, hi⟩ := r
        rw [hc] at h
        simp only [] at h ⊢
        have hrange := LexVerif.Proof.Lemire.cpa_some hq.1 hq.2 hc
        split at h
        · exfalso
          injection h with h; subst h
          have hpw := LexVerif.Proof.Lemire.power_eq q (by omega) (by omega)
          have := LexVerif.Proof.Lemire.computeErrorScaled_neg lay q hi (clz64 w) (by rw [hpw]; omega)
          omega
        · simp only [Bool.not_true, Bool.false_and, Bool.false_eq_true, if_false]
          exact h

/-- **`lossy_lemire_neighbour`** (**proved**: `lossy_lemire_neighbour_proved`): lossy `compute_float` always answers with
a valid float, which is `roundNE (w·10^q)` or the pattern just below it. Off the fall-back inputs by
`lossy_lemire_agrees`; on them `cfRound` computes `roundNE` of the *computed* product `z = hi·2^64 + lo` (no tie: `lo` is
all ones), the exact product lies in `[z, z + 2^64 + 1)`, a relative error below `2^−61`
(`Proof.LemireStable.LossyOK`), and `Proof.RoundNEStep.roundNE_step` turns that into at most one pattern. -/
def lossy_lemire_neighbour : Prop :=
  ∀ F, C01.IsLemireFloat F → ∀ (q : Int) (w : Nat), C01.IsI64 q → w < 2 ^ 64 →
    ∃ fp, Lemire.computeFloat F q w true = .ok fp ∧ 0 ≤ fp.exp ∧
      (extendedToFloat F fp = roundNE F.fmt (powFrac 10 q w).1 (powFrac 10 q w).2 ∨
        extendedToFloat F fp + 1 = roundNE F.fmt (powFrac 10 q w).1 (powFrac 10 q w).2)

/-- **the lossy Eisel–Lemire answer as a value** (every exponent, every mantissa): a valid float that is `roundNE` of
some `n'/d'` with `n'/d' ≤ w·10^q ≤ (n'/d')·(1 + 2^−61)` -/
theorem lossy_lemire_value (F : FTy) (hF : C01.IsLemireFloat F) (q : Int) (hq : C01.IsI64 q) (w : Nat)
    (hw : w < 2 ^ 64) :
    ∃ fp n' d', Lemire.computeFloat F q w true = .ok fp ∧ 0 ≤ fp.exp ∧ 0 < d' ∧
      extendedToFloat F fp = roundNE F.fmt n' d' ∧ n' * (powFrac 10 q w).2 ≤ (powFrac 10 q w).1 * d' ∧
      (powFrac 10 q w).1 * d' * 2 ^ 61 ≤ n' * (powFrac 10 q w).2 * (2 ^ 61 + 1) := by
  obtain ⟨fp0, h0, hvalid, _⟩ := C01.lemire_sound_proved F hF q w hq hw
  have hden : 0 < (powFrac 10 q w).2 := by
    unfold powFrac; split
    · exact Nat.one_pos
    · exact Nat.pow_pos (by decide)
  by_cases hv : 0 ≤ fp0.exp
  · obtain ⟨hl, hr⟩ := lossy_lemire_agrees F hF q hq w hw h0 hv
    refine ⟨fp0, (powFrac 10 q w).1, (powFrac 10 q w).2, hl, hv, hden, hr, Nat.le_refl _, ?_⟩
    exact Nat.mul_le_mul_left _ (Nat.le_succ _)
  · obtain ⟨_, _, _, _, hl⟩ := C01.lemire_invalid_facts F hF q w fp0 hw h0 (by omega)
    exact hl

theorem lossy_lemire_neighbour_proved : lossy_lemire_neighbour := by
  intro F hF q w hq hw
  obtain ⟨fp, n', d', h1, h2, hd', h3, hlo, hhi⟩ := lossy_lemire_value F hF q hq w hw
  have hf : WF F.fmt := by rcases hF with h | h <;> subst h <;> [exact wf_f64; exact wf_f32]
  have hp61 : 2 ^ F.fmt.p ≤ 2 ^ 61 := by
    rcases hF with h | h <;> subst h <;> decide
  have hden : 0 < (powFrac 10 q w).2 := by
    unfold powFrac; split
    · exact Nat.one_pos
    · exact Nat.pow_pos (by decide)
  refine ⟨fp, h1, h2, ?_⟩
  rw [h3]
  have hmono := roundNE_mono' hf hd' hden hlo
  have hstep := roundNE_step hf hd' hden hp61 hhi
  omega

/-- non-vacuity (decimal, `compact`): `2^53 + 1` is a tie: non-lossy declines, lossy rounds the estimate -/
example : Bellerophon.bellerophon FTy.f64 (Gen.Bellerophon.CompactRadix.powers 10)
      ⟨9007199254740993, 0, false, false⟩ true = .ok ⟨0, 1076⟩ ∧
    Bellerophon.bellerophon FTy.f64 (Gen.Bellerophon.CompactRadix.powers 10)
      ⟨9007199254740993, 0, false, false⟩ false = .ok ⟨9223372036854776832, -31703⟩ := by
  decide +kernel

/-- non-vacuity: a truncated, exactly-half-way-even mantissa: non-lossy declines, lossy rounds the mantissa -/
example : Binary.binary FTy.f64 16 ⟨0x20000000000001, 0, false, true⟩ true = .ok ⟨0, 1076⟩ ∧
    Binary.binary FTy.f64 16 ⟨0x20000000000001, 0, false, true⟩ false = .ok ⟨9223372036854776832, -31703⟩ := by
  decide +kernel

end LexVerif.Props.C19
