import LexVerif.Proof.Numeral
import LexVerif.Spec.ParseInt
/-!
# C08 — what lexical writes, lexical parses back (property theorems)

Integer round trip on the specification level: scanning the canonical numeral of `n` yields `n`.
Together with `C03` (writer model = numeral) and `C04` (parser model = scan) this is the integer half of
the property for plain formats.
-/
namespace LexVerif.Props.C08
open LexVerif.Spec

/-- every character of a canonical numeral is a digit of the radix with the right value -/
theorem digitVal_digitChar (r d : Nat) (hr : r ≤ 36) (hd : d < r) : digitVal r (digitChar d) = some d := by
  have h36 : d < 36 := by omega
  unfold digitVal digitVal36 digitChar
  by_cases h10 : d < 10
  · have h1 : 48 ≤ 48 + d ∧ 48 + d ≤ 57 := by omega
    simp [h10, h1, hd]
  · have h1 : ¬ (48 ≤ 55 + d ∧ 55 + d ≤ 57) := by omega
    have h2 : 65 ≤ 55 + d ∧ 55 + d ≤ 90 := by omega
    simp [h10, h1, h2, hd]

/-- value of `ds` appended to an accumulator (Horner) -/
def horner (r acc : Nat) (ds : List Nat) : Nat := ds.foldl (fun a d => a * r + d) acc

theorem horner_mono (r acc : Nat) (ds : List Nat) : acc ≤ horner r acc ds ∨ r = 0 := by
  by_cases hr : r = 0
  · exact Or.inr hr
  · left
    induction ds generalizing acc with
    | nil => simp [horner]
    | cons d ds ih =>
      simp only [horner, List.foldl_cons]
      have h1 : acc ≤ acc * r + d := by
        have : acc * 1 ≤ acc * r := Nat.mul_le_mul_left acc (by omega)
        omega
      exact Nat.le_trans h1 (ih (acc * r + d))

/-- scanning the characters of a digit list (digits < r) whose total value fits returns exactly that value
and consumes everything: the parser specification inverts the writer specification -/
theorem scanDigits_numeral (r maxMag : Nat) (hr2 : 2 ≤ r) (hr : r ≤ 36) (neg p : Bool) (ds : List Nat)
    (hds : ∀ d ∈ ds, d < r) (acc i : Nat) (hfit : horner r acc ds ≤ maxMag) :
    scanDigits r maxMag neg p (ds.map digitChar) acc i =
      .ok (if neg then -((horner r acc ds : Nat) : Int) else ((horner r acc ds : Nat) : Int)) (i + ds.length) := by
  induction ds generalizing acc i with
  | nil => simp [scanDigits, horner]
  | cons d ds ih =>
    have hd : d < r := hds d (by simp)
    simp only [List.map_cons, scanDigits, digitVal_digitChar r d hr hd]
    have hstep : horner r acc (d :: ds) = horner r (acc * r + d) ds := by simp [horner]
    have hle : acc * r + d ≤ maxMag := by
      rcases horner_mono r (acc * r + d) ds with h | h
      · rw [hstep] at hfit; omega
      · omega
    have hnot : ¬ (acc * r + d > maxMag) := by omega
    simp only [hnot, if_false]
    rw [ih (fun x hx => hds x (by simp [hx])) (acc * r + d) (i + 1) (by rw [← hstep]; exact hfit), hstep]
    simp only [List.length_cons]
    congr 1
    omega

theorem horner_zero_eq_ofDigits (r : Nat) (ds : List Nat) : horner r 0 ds = ofDigits r ds := rfl

theorem parseInt_neg (t : IntTy) (r : Nat) (p : Bool) (c : Nat) (cs : List Nat) (hs : t.signed = true) :
    parseInt t r p (45 :: c :: cs) = scanDigits r (t.maxMag true) true p (c :: cs) 0 1 := by
  simp [parseInt, hs]

theorem parseInt_nosign (t : IntTy) (r : Nat) (p : Bool) (c : Nat) (cs : List Nat) (h1 : c ≠ 43) (h2 : c ≠ 45) :
    parseInt t r p (c :: cs) = scanDigits r (t.maxMag false) false p (c :: cs) 0 0 := by
  unfold parseInt
  split
  next neg rest i heq =>
    split at heq
    · rename_i h; cases h; exact absurd rfl h1
    · rename_i h; cases h; exact absurd rfl h2
    · cases heq; rfl

/-- **integer round trip on the specification level** (plain formats): for every type `t`, radix 2..36 and
value `v` in range, the parser specification applied to the canonical text `['-'] ++ numeral r |v|`
returns `v` having consumed everything. -/
theorem roundtrip_int_spec (t : IntTy) (r : Nat) (hr2 : 2 ≤ r) (hr : r ≤ 36) (p : Bool) (v : Int)
    (hneg : v < 0 → t.signed = true) (hfit : v.natAbs ≤ t.maxMag (decide (v < 0))) :
    parseInt t r p ((if v < 0 then [45] else []) ++ numeral r v.natAbs) =
      .ok v ((if v < 0 then 1 else 0) + (numeral r v.natAbs).length) := by
  have hds := toDigits_digit_lt r v.natAbs hr2
  have hne := toDigits_ne_nil r v.natAbs hr2
  have hval := ofDigits_toDigits r v.natAbs hr2
  obtain ⟨d, ds, hdds⟩ : ∃ d ds, toDigits r v.natAbs = d :: ds := by
    cases h : toDigits r v.natAbs with
    | nil => exact absurd h hne
    | cons d ds => exact ⟨d, ds, rfl⟩
  have hd : d < r := hds d (by rw [hdds]; simp)
  have hd36 : d < 36 := by omega
  have hc43 : digitChar d ≠ 43 := by unfold digitChar; split <;> omega
  have hc45 : digitChar d ≠ 45 := by unfold digitChar; split <;> omega
  have hnum : numeral r v.natAbs = digitChar d :: ds.map digitChar := by unfold numeral; rw [hdds]; rfl
  have hlen : (numeral r v.natAbs).length = ds.length + 1 := by rw [hnum]; simp
  have hall : ∀ x ∈ d :: ds, x < r := by rw [← hdds]; exact hds
  have hh : horner r 0 (d :: ds) = v.natAbs := by rw [horner_zero_eq_ofDigits, ← hdds, hval]
  by_cases hv : v < 0
  · have hfit' : horner r 0 (d :: ds) ≤ t.maxMag true := by rw [hh]; simpa [hv] using hfit
    have key := scanDigits_numeral r (t.maxMag true) hr2 hr true p (d :: ds) hall 0 1 hfit'
    simp only [List.map_cons] at key
    simp only [hv, if_true, List.singleton_append, hnum, parseInt_neg t r p _ _ (hneg hv), key, hh]
    simp only [List.length_cons, List.length_map]
    have : -((v.natAbs : Nat) : Int) = v := by omega
    rw [this]
  · have hfit' : horner r 0 (d :: ds) ≤ t.maxMag false := by rw [hh]; simpa [hv] using hfit
    have key := scanDigits_numeral r (t.maxMag false) hr2 hr false p (d :: ds) hall 0 0 hfit'
    simp only [List.map_cons] at key
    simp only [hv, if_false, List.nil_append, hnum, parseInt_nosign t r p _ _ hc43 hc45, key, hh]
    simp only [Bool.false_eq_true, if_false, List.length_cons, List.length_map]
    have : ((v.natAbs : Nat) : Int) = v := by omega
    rw [this]

/-- non-vacuity: i8, radix 10, v = -128 -/
example : parseInt ⟨8, true⟩ 10 false ([45] ++ numeral 10 128) = .ok (-128) 4 := by decide

end LexVerif.Props.C08
