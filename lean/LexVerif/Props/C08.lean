import LexVerif.Proof.Numeral
import LexVerif.Spec.ParseInt
/-!
# C08 — what lexical writes, lexical parses back (property theorems)

Integer round trip on the specification level: scanning the canonical numeral of `n` yields `n`.
Together with `C03` (writer model = numeral) and `C04` (parser model = scan) this is the integer half of
the property for plain formats.
-/
namespace LexVerif.Props.C08
open LexVerif.Spec

/-- every character of a canonical numeral is a digit of the radix with the right value -/
theorem digitVal_digitChar (r d : Nat) (hr : r ≤ 36) (hd : d < r) : digitVal r (digitChar d) = some d := by
  have h36 : d < 36 := by omega
  unfold digitVal digitVal36 digitChar
  by_cases h10 : d < 10
  · have h1 : 48 ≤ 48 + d ∧ 48 + d ≤ 57 := by omega
    simp [h10, h1, hd]
  · have h1 : ¬ (48 ≤ 55 + d ∧ 55 + d ≤ 57) := by omega
    have h2 : 65 ≤ 55 + d ∧ 55 + d ≤ 90 := by omega
    simp [h10, h1, h2, hd]

/-- value of `ds` appended to an accumulator (Horner) -/
def horner (r acc : Nat) (ds : List Nat) : Nat := ds.foldl (fun a d => a * r + d) acc

theorem horner_mono (r acc : Nat) (ds : List Nat) : acc ≤ horner r acc ds ∨ r = 0 := by
  by_cases hr : r = 0
  · exact Or.inr hr
  · left
    induction ds generalizing acc with
    | nil => simp [horner]
    | cons d ds ih =>
      simp only [horner, List.foldl_cons]
      have h1 : acc ≤ acc * r + d := by
        have : acc * 1 ≤ acc * r := Nat.mul_le_mul_left acc (by omega)
        omega
      exact Nat.le_trans h1 (ih (acc * r + d))

/-- scanning the characters of a digit list (digits < r) whose total value fits returns exactly that value
and consumes everything: the parser specification inverts the writer specification -/
theorem scanDigits_numeral (r maxMag : Nat) (hr2 : 2 ≤ r) (hr : r ≤ 36) (neg p : Bool) (ds : List Nat)
    (hds : ∀ d ∈ ds, d < r) (acc i : Nat) (hfit : horner r acc ds ≤ maxMag) :
    scanDigits r maxMag neg p (ds.map digitChar) acc i =
      .ok (if neg then -((horner r acc ds : Nat) : Int) else ((horner r acc ds : Nat) : Int)) (i + ds.length) := by
  induction ds generalizing acc i with
  | nil => simp [scanDigits, horner]
  | cons d ds ih =>
    have hd : d < r := hds d (by simp)
    simp only [List.map_cons, scanDigits, digitVal_digitChar r d hr hd]
    have hstep : horner r acc (d :: ds) = horner r (acc * r + d) ds := by simp [horner]
    have hle : acc * r + d ≤ maxMag := by
      rcases horner_mono r (acc * r + d) ds with h | h
      · rw [hstep] at hfit; omega
      · omega
    have hnot : ¬ (acc * r + d > maxMag) := by omega
    simp only [hnot, if_false]
    rw [ih (fun x hx => hds x (by simp [hx])) (acc * r + d) (i + 1) (by rw [← hstep]; exact hfit), hstep]
    simp only [List.length_cons]
    congr 1
    omega

end LexVerif.Props.C08
