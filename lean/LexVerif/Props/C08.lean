import LexVerif.Proof.Numeral
import LexVerif.Spec.ParseInt
import LexVerif.Proof.RoundTripFlags
import LexVerif.Proof.RoundTripSpecial
import LexVerif.Proof.RoundTripValue
import LexVerif.Proof.RoundTripModel
import LexVerif.Proof.RoundTripSepFree
import LexVerif.Props.C18
/-!
# C08 — what lexical writes, lexical parses back (property theorems)

Integer round trip on the specification level: scanning the canonical numeral of `n` yields `n`.
Together with `C03` (writer model = numeral) and `C04` (parser model = scan) this is the integer half of
the property for plain formats.

Float half, on the model level (second part of this file): what the float writer model emits for a decimal format is
derived *in full* by the documented grammar of the same format (`Spec.grammarFloatComplete`) as a number whose
literal carries exactly the rounded digits and the carried exponent (`roundtrip_float_shape`), specials and signed
zeros come back as themselves (`roundtrip_special`, `roundtrip_signed_zero`), and with the writer's digits equal to
`Spec.shortest` the parsed bits are the written bits (`roundtrip_decimal_value`).  The grammar is related to the
parser model by `Props/C12.lean`; the writer's buffer model to `writeDecimal` by `Proof.WriteFloatDragon.decimalB_bytes`.
-/
namespace LexVerif.Props.C08
open LexVerif.Spec

/-- every character of a canonical numeral is a digit of the radix with the right value -/
theorem digitVal_digitChar (r d : Nat) (hr : r ≤ 36) (hd : d < r) : digitVal r (digitChar d) = some d := by
  have h36 : d < 36 := by omega
  unfold digitVal digitVal36 digitChar
  by_cases h10 : d < 10
  · have h1 : 48 ≤ 48 + d ∧ 48 + d ≤ 57 := by omega
    simp [h10, h1, hd]
  · have h1 : ¬ (48 ≤ 55 + d ∧ 55 + d ≤ 57) := by omega
    have h2 : 65 ≤ 55 + d ∧ 55 + d ≤ 90 := by omega
    simp [h10, h1, h2, hd]

/-- value of `ds` appended to an accumulator (Horner) -/
def horner (r acc : Nat) (ds : List Nat) : Nat := ds.foldl (fun a d => a * r + d) acc

theorem horner_mono (r acc : Nat) (ds : List Nat) : acc ≤ horner r acc ds ∨ r = 0 := by
  by_cases hr : r = 0
  · exact Or.inr hr
  · left
    induction ds generalizing acc with
    | nil => simp [horner]
    | cons d ds ih =>
      simp only [horner, List.foldl_cons]
      have h1 : acc ≤ acc * r + d := by
        have : acc * 1 ≤ acc * r := Nat.mul_le_mul_left acc (by omega)
        omega
      exact Nat.le_trans h1 (ih (acc * r + d))

/-- scanning the characters of a digit list (digits < r) whose total value fits returns exactly that value
and consumes everything: the parser specification inverts the writer specification -/
theorem scanDigits_numeral (r maxMag : Nat) (hr2 : 2 ≤ r) (hr : r ≤ 36) (neg p : Bool) (ds : List Nat)
    (hds : ∀ d ∈ ds, d < r) (acc i : Nat) (hfit : horner r acc ds ≤ maxMag) :
    scanDigits r maxMag neg p (ds.map digitChar) acc i =
      .ok (if neg then -((horner r acc ds : Nat) : Int) else ((horner r acc ds : Nat) : Int)) (i + ds.length) := by
  induction ds generalizing acc i with
  | nil => simp [scanDigits, horner]
  | cons d ds ih =>
    have hd : d < r := hds d (by simp)
    simp only [List.map_cons, scanDigits, digitVal_digitChar r d hr hd]
    have hstep : horner r acc (d :: ds) = horner r (acc * r + d) ds := by simp [horner]
    have hle : acc * r + d ≤ maxMag := by
      rcases horner_mono r (acc * r + d) ds with h | h
      · rw [hstep] at hfit; omega
      · omega
    have hnot : ¬ (acc * r + d > maxMag) := by omega
    simp only [hnot, if_false]
    rw [ih (fun x hx => hds x (by simp [hx])) (acc * r + d) (i + 1) (by rw [← hstep]; exact hfit), hstep]
    simp only [List.length_cons]
    congr 1
    omega

theorem horner_zero_eq_ofDigits (r : Nat) (ds : List Nat) : horner r 0 ds = ofDigits r ds := rfl

theorem parseInt_neg (t : IntTy) (r : Nat) (p : Bool) (c : Nat) (cs : List Nat) (hs : t.signed = true) :
    parseInt t r p (45 :: c :: cs) = scanDigits r (t.maxMag true) true p (c :: cs) 0 1 := by
  simp [parseInt, hs]

theorem parseInt_nosign (t : IntTy) (r : Nat) (p : Bool) (c : Nat) (cs : List Nat) (h1 : c ≠ 43) (h2 : c ≠ 45) :
    parseInt t r p (c :: cs) = scanDigits r (t.maxMag false) false p (c :: cs) 0 0 := by
  unfold parseInt
  split
  next neg rest i heq =>
    split at heq
    · rename_i h; cases h; exact absurd rfl h1
    · rename_i h; cases h; exact absurd rfl h2
    · cases heq; rfl

/-- **integer round trip on the specification level** (plain formats): for every type `t`, radix 2..36 and
value `v` in range, the parser specification applied to the canonical text `['-'] ++ numeral r |v|`
returns `v` having consumed everything. -/
theorem roundtrip_int_spec (t : IntTy) (r : Nat) (hr2 : 2 ≤ r) (hr : r ≤ 36) (p : Bool) (v : Int)
    (hneg : v < 0 → t.signed = true) (hfit : v.natAbs ≤ t.maxMag (decide (v < 0))) :
    parseInt t r p ((if v < 0 then [45] else []) ++ numeral r v.natAbs) =
      .ok v ((if v < 0 then 1 else 0) + (numeral r v.natAbs).length) := by
  have hds := toDigits_digit_lt r v.natAbs hr2
  have hne := toDigits_ne_nil r v.natAbs hr2
  have hval := ofDigits_toDigits r v.natAbs hr2
  obtain ⟨d, ds, hdds⟩ : ∃ d ds, toDigits r v.natAbs = d :: ds := by
    cases h : toDigits r v.natAbs with
    | nil => exact absurd h hne
    | cons d ds => exact ⟨d, ds, rfl⟩
  have hd : d < r := hds d (by rw [hdds]; simp)
  have hd36 : d < 36 := by omega
  have hc43 : digitChar d ≠ 43 := by unfold digitChar; split <;> omega
  have hc45 : digitChar d ≠ 45 := by unfold digitChar; split <;> omega
  have hnum : numeral r v.natAbs = digitChar d :: ds.map digitChar := by unfold numeral; rw [hdds]; rfl
  have hlen : (numeral r v.natAbs).length = ds.length + 1 := by rw [hnum]; simp
  have hall : ∀ x ∈ d :: ds, x < r := by rw [← hdds]; exact hds
  have hh : horner r 0 (d :: ds) = v.natAbs := by rw [horner_zero_eq_ofDigits, ← hdds, hval]
  by_cases hv : v < 0
  · have hfit' : horner r 0 (d :: ds) ≤ t.maxMag true := by rw [hh]; simpa [hv] using hfit
    have key := scanDigits_numeral r (t.maxMag true) hr2 hr true p (d :: ds) hall 0 1 hfit'
    simp only [List.map_cons] at key
    simp only [hv, if_true, List.singleton_append, hnum, parseInt_neg t r p _ _ (hneg hv), key, hh]
    simp only [List.length_cons, List.length_map]
    have : -((v.natAbs : Nat) : Int) = v := by omega
    rw [this]
  · have hfit' : horner r 0 (d :: ds) ≤ t.maxMag false := by rw [hh]; simpa [hv] using hfit
    have key := scanDigits_numeral r (t.maxMag false) hr2 hr false p (d :: ds) hall 0 0 hfit'
    simp only [List.map_cons] at key
    simp only [hv, if_false, List.nil_append, hnum, parseInt_nosign t r p _ _ hc43 hc45, key, hh]
    simp only [Bool.false_eq_true, if_false, List.length_cons, List.length_map]
    have : ((v.natAbs : Nat) : Int) = v := by omega
    rw [this]

/-- non-vacuity: i8, radix 10, v = -128 -/
example : parseInt ⟨8, true⟩ 10 false ([45] ++ numeral 10 128) = .ok (-128) 4 := by decide

/-! # The float half: writer model → documented grammar -/

open LexVerif.Model LexVerif.Model.WriteFloat LexVerif.Proof.RoundTrip LexVerif.Proof.RoundNE

/-- **compatible option pair**: each option set passes its own builder (`OptionsBuilder::build` of
`lexical-write-float` = `wOptsError`, of `lexical-parse-float` = `optionsError`; the digit limits are `NonZero`), the
pair agrees on decimal point, exponent character and special strings, and the two characters pass the documented
punctuation check of the format (`is_valid_options_punctuation`, which the parser's entry points assert). -/
structure OptionsAgree (feats : Features) (fmt : Format) (wo : WOpts) (po : POpts) : Prop where
  dp : wo.dp = po.dp
  exp : wo.exp = po.exp
  nan : wo.nan = po.nan
  inf : wo.inf = po.inf
  writeValid : wOptsError wo = none
  nonZero : wo.maxDigits ≠ some 0 ∧ wo.minDigits ≠ some 0
  parseValid : optionsError po = none
  punctuation : OptionsPunctuationValid feats (unpack fmt.raw) po.exp po.dp

/-- the sign `write_float` puts in front: `-` for a negative value, `+` only when the format requires it -/
def writerSign (feats : Features) (fmt : Format) (neg : Bool) : List Nat := signBytes (mantSign feats fmt neg)

theorem writerSign_eq (feats : Features) (fmt : Format) (neg : Bool) :
    writerSign feats fmt neg =
      (if neg then [45] else if feats.format ∧ fmt.requiredMantissaSign then [43] else []) := by
  unfold writerSign mantSign mantPlus signBytes
  cases neg <;> cases feats.format <;> cases fmt.requiredMantissaSign <;> simp

/-- **`roundtrip_float_shape`** — for every valid decimal format (any flags, any exponent radix), every compatible
option pair, every canonical digit string and scientific exponent and either sign: the bytes of the writer model
(`write_float`'s sign followed by the decimal back-end selected by the feature set, `algorithm.rs` or `compact.rs`)
are derived by the documented grammar of the same format, in full, as a **number** whose literal has the sign written,
and whose digits are the rounded digits (between zeros that do not change the value) at the carried exponent.
The only exclusion is `PrefixClear` (a case-insensitive base prefix equal, up to case, to the decimal point or the
exponent character: `finding_prefix_case`); for a case-sensitive prefix it follows from the option validity
(`prefixClear_of_cased`). -/
theorem roundtrip_float_shape (feats : Features) (fmt : Format) (wo : WOpts) (po : POpts) (ds : List Nat) (sci : Int)
    (neg : Bool) (hv : FormatValid feats (unpack fmt.raw)) (h10 : fmt.mantissaRadix = 10)
    (ha : OptionsAgree feats fmt wo po) (hin : WriterInput ds sci) (hclear : PrefixClear feats fmt po.dp po.exp) :
    ∃ l : FloatLit,
      grammarFloatComplete feats fmt po (writerSign feats fmt neg ++ writeDecimal fmt feats ds sci wo) =
        .num l (writerSign feats fmt neg ++ writeDecimal fmt feats ds sci wo).length ∧
      l.neg = neg ∧
      DigitsForm l.intDigits l.fracDigits l.exp (keptOf fmt feats ds sci wo)
        (sci + (if (truncateAndRound ds wo).2 then 1 else 0)) :=
  writeDecimal_accepted feats fmt wo po ds sci neg hv h10 ha.dp ha.exp ha.punctuation ha.nonZero.1 hin hclear

/-- the exact value of the literal read back: `digits'·10^(sci' − len + 1)` with `(digits', sci')` from
`truncateAndRound` (the min-digit padding only appends zeros) -/
theorem roundtrip_float_exact_value (feats : Features) (fmt : Format) (wo : WOpts) (po : POpts) (ds : List Nat)
    (sci : Int) (neg : Bool) (hv : FormatValid feats (unpack fmt.raw)) (h10 : fmt.mantissaRadix = 10)
    (ha : OptionsAgree feats fmt wo po) (hin : WriterInput ds sci) (hclear : PrefixClear feats fmt po.dp po.exp) :
    ∃ l : FloatLit,
      grammarFloatComplete feats fmt po (writerSign feats fmt neg ++ writeDecimal fmt feats ds sci wo) =
        .num l (writerSign feats fmt neg ++ writeDecimal fmt feats ds sci wo).length ∧
      l.neg = neg ∧
      (ofDigits 10 (l.intDigits ++ l.fracDigits) : ℚ) * (10 : ℚ) ^ (l.exp - (l.fracDigits.length : Int)) =
        (ofDigits 10 (truncateAndRound ds wo).1 : ℚ) *
          (10 : ℚ) ^ (sci + (if (truncateAndRound ds wo).2 then 1 else 0) + 1 - ((truncateAndRound ds wo).1.length : Int)) := by
  obtain ⟨l, h1, h2, h3⟩ := roundtrip_float_shape feats fmt wo po ds sci neg hv h10 ha hin hclear
  refine ⟨l, h1, h2, ?_⟩
  rw [digitsForm_value _ _ _ _ _ h3]
  -- the kept digits are the rounded digits up to trailing zeros: same number
  obtain ⟨m, hm⟩ := kept_spec fmt feats ds sci wo
  rw [hm]
  have hv' : ofDigits 10 (keptOf fmt feats ds sci wo ++ List.replicate m 0) = ofDigits 10 (keptOf fmt feats ds sci wo) * 10 ^ m := by
    have := ofDigits_form 0 m (keptOf fmt feats ds sci wo)
    simpa using this
  rw [hv', List.length_append, List.length_replicate]
  have h10' : (10 : ℚ) ≠ 0 := by norm_num
  have hE : sci + (if (truncateAndRound ds wo).2 then 1 else 0) + 1 - ((keptOf fmt feats ds sci wo).length : Int)
      = (m : Int) + (sci + (if (truncateAndRound ds wo).2 then 1 else 0) + 1 -
          (((keptOf fmt feats ds sci wo).length + m : Nat) : Int)) := by push_cast; omega
  rw [hE, zpow_add₀ h10', zpow_natCast]
  push_cast
  ring

/-- the writer's bytes never contain the format's digit-separator byte: they are in the scope of `Spec.Grammar`
(and of C12, which relates the grammar to the parser model on separator-free inputs) -/
theorem roundtrip_float_separatorFree (feats : Features) (fmt : Format) (wo : WOpts) (po : POpts) (ds : List Nat)
    (sci : Int) (neg : Bool) (hv : FormatValid feats (unpack fmt.raw)) (h10 : fmt.mantissaRadix = 10)
    (ha : OptionsAgree feats fmt wo po) (hin : WriterInput ds sci) :
    separatorFree fmt (writerSign feats fmt neg ++ writeDecimal fmt feats ds sci wo) = true :=
  writeDecimal_separatorFree feats fmt wo po ds sci neg hv h10 ha.dp ha.exp ha.punctuation ha.nonZero.1 hin

/-- the list-level function of `Model.FormatDecimal` is the non-compact back-end with a decimal exponent radix -/
theorem writeDecimal_eq_writeDigits (feats : Features) (fmt : Format) (ds : List Nat) (sci : Int) (wo : WOpts)
    (hc : feats.compact = false) (her : (effFmt feats fmt).exponentRadix = 10) :
    writeDecimal fmt feats ds sci wo = writeDigits (effFmt feats fmt) feats ds sci wo := by
  simp [writeDecimal, hc, writeDigitsN, writeDigits, her]

/-! ## concrete formats: every flag the writer honours, decided on the models -/

def featsRF : Features := { radix := true, powerOfTwo := true, format := true }
def featsCRF : Features := { compact := true, radix := true, powerOfTwo := true, format := true }
/-- `rt_all_required`: required integer/fraction digits, mantissa sign, exponent notation, exponent sign,
no exponent without fraction -/
def fmtAllRequired : Format := ⟨0xa0a0a0000000000000000000000472f⟩
/-- `rt_nopos_both`: no positive mantissa sign, no positive exponent sign -/
def fmtNoPositive : Format := ⟨0xa0a0a0000000000000000000000009c⟩
/-- `wf_noexp`: no exponent notation -/
def fmtNoExp : Format := ⟨0xa0a0a0000000000000000000000004c⟩
/-- `rt_csexp_reqexp`: case-sensitive exponent character, required exponent notation -/
def fmtCsExp : Format := ⟨0xa0a0a0000000000000000000000c00c⟩
/-- `rt_dec_er16`: decimal mantissa, exponent written in radix 16 -/
def fmtExpRadix16 : Format := ⟨0x100a0a0000000000000000000000000c⟩

theorem std_valid : FormatValid {} (unpack Format.standard.raw) := by unfold FormatValid; decide
theorem allRequired_valid : FormatValid featsRF (unpack fmtAllRequired.raw) := by unfold FormatValid; decide

theorem default_agree (feats : Features) (fmt : Format)
    (h : OptionsPunctuationValid feats (unpack fmt.raw) 101 46) : OptionsAgree feats fmt {} {} :=
  ⟨rfl, rfl, rfl, rfl, by decide, by decide, by decide, h⟩

/-- non-vacuity of `roundtrip_float_shape`: the hypotheses hold for STANDARD / default options / `1.5e300`, and for the
format with every "required" flag set (radix+format build) -/
example :=
  roundtrip_float_shape {} Format.standard {} {} [1, 5] 300 true std_valid (by decide)
    (default_agree _ _ (by decide)) ⟨⟨by decide, by decide, by decide⟩, by decide⟩ (by decide)

example :=
  roundtrip_float_shape featsRF fmtAllRequired { trim := true } {} [7] 0 false allRequired_valid (by decide)
    ⟨rfl, rfl, rfl, rfl, by decide, by decide, by decide, by decide⟩ ⟨⟨by decide, by decide, by decide⟩, by decide⟩
    (by decide)

/-- what is written, flag by flag (all `decide`d on the writer model and the grammar):
* every required flag: `7` with `trim_floats` is `+7.0e+0` (sign, fraction kept because of
  `no_exponent_without_fraction`, exponent notation, exponent sign) and is read as `7`;
* without `no_exponent_without_fraction` the same value is the trimmed `7e0`;
* no-positive-sign flags: no `+` anywhere (`1.5e300`), `-` is kept (`-2.5e-7`);
* `no_exponent_notation`: `1.5e300` is written positionally (302 bytes) and accepted;
* case-sensitive exponent with `E`: written `E`, accepted; * exponent radix 16: `1.5e300` is `1.5e12C`. -/
theorem flags_honoured :
    writerSign featsRF fmtAllRequired false ++ writeDecimal fmtAllRequired featsRF [7] 0 { trim := true }
      = [43, 55, 46, 48, 101, 43, 48] ∧
    grammarFloatComplete featsRF fmtAllRequired {} [43, 55, 46, 48, 101, 43, 48] = .num ⟨false, [7], [0], 0⟩ 7 ∧
    writeDecimal fmtCsExp featsRF [7] 0 { trim := true, exp := 69 } = [55, 69, 48] ∧
    grammarFloatComplete featsRF fmtCsExp { exp := 69 } [55, 69, 48] = .num ⟨false, [7], [], 0⟩ 3 ∧
    grammarFloatComplete featsRF fmtCsExp { exp := 69 } [55, 101, 48] = .err ∧
    writerSign featsRF fmtNoPositive false ++ writeDecimal fmtNoPositive featsRF [1, 5] 300 {}
      = [49, 46, 53, 101, 51, 48, 48] ∧
    grammarFloatComplete featsRF fmtNoPositive {} [49, 46, 53, 101, 51, 48, 48] = .num ⟨false, [1], [5], 300⟩ 7 ∧
    grammarFloatComplete featsRF fmtNoPositive {} [43, 49, 46, 53, 101, 51, 48, 48] = .err ∧
    grammarFloatComplete featsRF fmtNoPositive {}
      (writerSign featsRF fmtNoPositive true ++ writeDecimal fmtNoPositive featsRF [2, 5] (-7) {})
      = .num ⟨true, [2], [5], -7⟩ 7 ∧
    (writeDecimal fmtNoExp featsRF [1, 5] 300 {}).length = 303 ∧
    (match grammarFloatComplete featsRF fmtNoExp {} (writeDecimal fmtNoExp featsRF [1, 5] 300 {}) with
      | .num l n => l.exp == 0 && n == 303 && l.fracDigits == [0] | _ => false) = true ∧
    grammarFloatComplete featsRF fmtNoExp {} [49, 46, 53, 101, 51, 48, 48] = .err ∧
    writeDecimal fmtExpRadix16 featsRF [1, 5] 300 { exp := 94 } = [49, 46, 53, 94, 49, 50, 67] ∧
    grammarFloatComplete featsRF fmtExpRadix16 { exp := 94 } [49, 46, 53, 94, 49, 50, 67]
      = .num ⟨false, [1], [5], 300⟩ 7 := by decide +kernel

/-! ## finding: a case-insensitive base prefix swallows `0` + decimal point -/

/-- `rt_prefix_x`: decimal, base prefix `x` (case-insensitive, the default) -/
def fmtPrefixX : Format := ⟨0xa0a0a0078000000000000000000000c⟩
/-- `rt_prefix_x_cs`: the same with `case_sensitive_base_prefix` -/
def fmtPrefixXCs : Format := ⟨0xa0a0a0078000000000000000001000c⟩

/-- **finding** (`PrefixClear` cannot be dropped): format = decimal with base prefix `x`, decimal point `X` on both
sides.  The format is valid, the options are valid and agree, and pass the documented punctuation check (`X ≠ x`).
`0.5` is written `0X5`; the grammar (and the parser, replayed on the implementation: `ok 4014000000000000` = 5.0)
reads `0X` as the base prefix and the number as `5`.  Also `0e0` with exponent character `X` and `trim_floats`:
`0X0` loses its exponent (`MissingExponent` under `required_exponent_notation`).  With a case-sensitive prefix the
round trip holds. -/
theorem finding_prefix_case :
    FormatValid featsRF (unpack fmtPrefixX.raw) ∧
    OptionsAgree featsRF fmtPrefixX { dp := 88 } { dp := 88 } ∧
    ¬ PrefixClear featsRF fmtPrefixX 88 101 ∧
    writerSign featsRF fmtPrefixX false ++ writeDecimal fmtPrefixX featsRF [5] (-1) { dp := 88 } = [48, 88, 53] ∧
    grammarFloatComplete featsRF fmtPrefixX { dp := 88 } [48, 88, 53] = .num ⟨false, [5], [], 0⟩ 3 ∧
    litBits f64 10 10 ⟨false, [5], [], 0⟩ = 0x4014000000000000 ∧
    grammarFloatComplete featsRF fmtPrefixXCs { dp := 88 } [48, 88, 53] = .num ⟨false, [0], [5], 0⟩ 3 ∧
    litBits f64 10 10 ⟨false, [0], [5], 0⟩ = 0x3fe0000000000000 := by
  refine ⟨by unfold FormatValid; decide, ⟨rfl, rfl, rfl, rfl, by decide, by decide, by decide, by decide⟩,
    by decide, by decide +kernel, by decide +kernel, by decide +kernel, by decide +kernel, by decide +kernel⟩

/-! ## specials -/

/-- **`roundtrip_special`** — NaN / ±infinity written with the configured string (`wo.nan` / `wo.inf`, equal to the
parser's by `OptionsAgree`) after the writer's sign (`-` only for `-inf`; `+` when the format requires a sign) is
derived by the grammar of the same format as the same special value, provided the format permits specials and the
string's first byte cannot begin a number of the format (`NotNumberStart`: it is not a mantissa digit — so the
string is not a digit string of the radix —, not the decimal point, not the exponent character, not the base suffix). -/
theorem roundtrip_special (feats : Features) (fmt : Format) (wo : WOpts) (po : POpts) (isNan neg : Bool)
    (c : Nat) (cs : List Nat) (hv : FormatValid feats (unpack fmt.raw))
    (ha : OptionsAgree feats fmt wo po) (hns : (Syn.of feats fmt).noSpecial = false)
    (hcfg : (if isNan then wo.nan else wo.inf) = some (c :: cs))
    (hnn : NotNumberStart (Syn.of feats fmt) po c) :
    grammarFloatComplete feats fmt po (writerSign feats fmt (neg && !isNan) ++ c :: cs) =
      if isNan then .nan (writerSign feats fmt (neg && !isNan) ++ c :: cs).length
      else .inf neg (writerSign feats fmt (neg && !isNan) ++ c :: cs).length := by
  have hy := synFacts_of_valid feats fmt hv
  have hsign := signOk_mant (Syn.of feats fmt) feats fmt (neg && !isNan) (syn_reqMantSign feats fmt) hy.mantSign
  have hhead : c = 78 ∨ c = 110 ∨ c = 73 ∨ c = 105 := by
    cases isNan with
    | true =>
      simp only [if_true] at hcfg
      rw [ha.nan] at hcfg
      rcases optionsError_nan po ha.parseValid _ hcfg with h | h <;> simp at h <;> omega
    | false =>
      simp only [Bool.false_eq_true, if_false] at hcfg
      rw [ha.inf] at hcfg
      rcases optionsError_inf po ha.parseValid _ hcfg with h | h <;> simp at h <;> omega
  have key := grammar_special (Syn.of feats fmt) po (mantSign feats fmt (neg && !isNan)) isNan c cs hns hsign
    (by omega) (by omega) hnn (by
      cases isNan with
      | true => simp only [if_true] at hcfg ⊢; rw [← ha.nan]; exact hcfg
      | false =>
        simp only [Bool.false_eq_true, if_false] at hcfg ⊢
        rw [ha.inf] at hcfg
        exact ⟨hcfg, fun t ht => inf_ne_nan _ po ha.parseValid _ _ hcfg ht⟩)
  unfold grammarFloatComplete writerSign
  rw [key]
  cases isNan with
  | true => rfl
  | false =>
    simp only [Bool.false_eq_true, if_false, Bool.not_false, Bool.and_true]
    congr 1
    unfold mantSign
    cases neg <;> cases mantPlus feats fmt <;> rfl

/-- in a decimal format the letters `N n I i` are never digits: `NotNumberStart` is three punctuation inequalities -/
theorem notNumberStart_decimal (feats : Features) (fmt : Format) (po : POpts) (c : Nat)
    (h10 : fmt.mantissaRadix = 10) (hc : c = 78 ∨ c = 110 ∨ c = 73 ∨ c = 105) (hdp : c ≠ po.dp)
    (hexp : matchByte (Syn.of feats fmt).csExp po.exp c = false)
    (hsuf : ((Syn.of feats fmt).suf ≠ 0 && matchByte (Syn.of feats fmt).csSuffix (Syn.of feats fmt).suf c) = false) :
    NotNumberStart (Syn.of feats fmt) po c := by
  refine ⟨by omega, ?_, hdp, hexp, hsuf⟩
  rw [syn_radix, h10]
  rcases hc with rfl | rfl | rfl | rfl <;> decide

/-- non-vacuity of `roundtrip_special` (STANDARD, default strings): `NaN`, `-inf` -/
example : grammarFloatComplete {} Format.standard {} (writerSign {} Format.standard (true && !true) ++ [78, 97, 78]) = .nan 3 :=
  roundtrip_special {} Format.standard {} {} true true 78 [97, 78] std_valid (default_agree _ _ (by decide)) (by decide) rfl
    (notNumberStart_decimal _ _ _ _ (by decide) (by decide) (by decide) (by decide) (by decide))

example : grammarFloatComplete {} Format.standard {} (writerSign {} Format.standard (true && !false) ++ [105, 110, 102]) = .inf true 4 :=
  roundtrip_special {} Format.standard {} {} false true 105 [110, 102] std_valid (default_agree _ _ (by decide)) (by decide) rfl
    (notNumberStart_decimal _ _ _ _ (by decide) (by decide) (by decide) (by decide) (by decide))

/-- the exclusion is needed: in radix 36 `inf` is a digit string and is read as the number 24495 (`i`=18, `n`=23,
`f`=15), not as infinity; with `i` as the exponent character of a decimal format `inf` is not a number and is
still read as infinity (the hypothesis is sufficient, not necessary) -/
theorem special_digit_string_is_number :
    grammarFloatComplete featsRF ⟨0x24242400000000000000000000000000c⟩ { exp := 94 } [105, 110, 102]
      = .num ⟨false, [18, 23, 15], [], 0⟩ 3 ∧
    grammarFloatComplete {} Format.standard { exp := 105 } [105, 110, 102] = .inf false 3 := by decide +kernel

/-- `flag_no_required_mantissa_digits`: decimal, only exponent digits required -/
def fmtNoReqMant : Format := ⟨0xa0a0a00000000000000000000000004⟩

/-- **finding** (`NotNumberStart.notPoint` cannot be dropped): nothing relates the special strings to the punctuation
characters — `nan_string = "N"` and `decimal_point = 'N'` are each valid and pass every check.  In a format that does
not require mantissa digits, the text `N` written for NaN is the number `.` (no digits: zero), for the grammar and
for the parser (replayed on the implementation: `ok 0`).  With mantissa digits required the same text is NaN. -/
theorem finding_special_is_point :
    FormatValid featsRF (unpack fmtNoReqMant.raw) ∧
    OptionsAgree featsRF fmtNoReqMant { nan := some [78], dp := 78 } { nan := some [78], dp := 78 } ∧
    (Syn.of featsRF fmtNoReqMant).noSpecial = false ∧
    writerSign featsRF fmtNoReqMant (true && !true) ++ [78] = [78] ∧
    grammarFloatComplete featsRF fmtNoReqMant { nan := some [78], dp := 78 } [78] = .num ⟨false, [], [], 0⟩ 1 ∧
    grammarFloatComplete featsRF ⟨0xa0a0a0000000000000000000000000c⟩ { nan := some [78], dp := 78 } [78] = .nan 1 := by
  refine ⟨by unfold FormatValid; decide, ⟨rfl, rfl, rfl, rfl, by decide, by decide, by decide, by decide⟩,
    by decide, by decide +kernel, by decide +kernel, by decide +kernel⟩

/-! ## signed zero -/

/-- **`roundtrip_signed_zero`** — `±0` (digits `[0]`, exponent 0) in whatever notation the format and options select
(`0.0`, `-0.0`, `0`, `0.0e0`, `+0e+0`, `0.000`, …) is read back as a number of value zero with the written sign:
`litBits` of the literal is the sign bit or `0`. -/
theorem roundtrip_signed_zero (f : Fmt) (feats : Features) (fmt : Format) (wo : WOpts) (po : POpts) (neg : Bool)
    (hv : FormatValid feats (unpack fmt.raw)) (h10 : fmt.mantissaRadix = 10)
    (ha : OptionsAgree feats fmt wo po) (hclear : PrefixClear feats fmt po.dp po.exp) :
    ∃ l : FloatLit,
      grammarFloatComplete feats fmt po (writerSign feats fmt neg ++ writeDecimal fmt feats [0] 0 wo) =
        .num l (writerSign feats fmt neg ++ writeDecimal fmt feats [0] 0 wo).length ∧
      litBits f fmt.mantissaRadix fmt.exponentBase l = if neg then f.signBit else 0 := by
  obtain ⟨l, h1, h2, lz, z, h3, _⟩ := roundtrip_float_shape feats fmt wo po [0] 0 neg hv h10 ha
    ⟨⟨by simp, by simp, by simp⟩, fun _ => rfl⟩ hclear
  refine ⟨l, h1, ?_⟩
  rw [LexVerif.Props.RoundNE.litBits_zero f _ _ l, h2]
  intro d hd
  obtain ⟨m, hm⟩ := kept_spec fmt feats [0] 0 wo
  rw [truncateAndRound_zero wo ha.nonZero.1] at hm
  have hm' : [0] = keptOf fmt feats [0] 0 wo ++ List.replicate m 0 := hm
  have hK : ∀ x ∈ keptOf fmt feats [0] 0 wo, x = 0 := by
    intro x hx
    have : x ∈ [0] := by rw [hm']; exact List.mem_append_left _ hx
    simpa using this
  rw [h3] at hd
  simp only [List.mem_append, List.mem_replicate] at hd
  rcases hd with (hd | hd) | hd
  · exact hd.2
  · exact hK d hd
  · exact hd.2

/-- non-vacuity: `-0.0` under STANDARD -/
example :=
  roundtrip_signed_zero f64 {} Format.standard {} {} true std_valid (by decide) (default_agree _ _ (by decide)) (by decide)

example : writerSign {} Format.standard true ++ writeDecimal Format.standard {} [0] 0 {} = [45, 48, 46, 48] := by
  decide +kernel

/-! ## the same, for whatever the buffer-faithful `write_float` model returns -/

/-- **`roundtrip_float_model`** — every completed call of the `WriteFloat::write_float` model (`.done w`: the buffer
assertion, the format validity assertion and the mixed-radix assertion passed, nothing panicked) on a finite value of
a decimal format returns a slice that the documented grammar of the same format derives in full as a number with the
value's sign, the rounded digits and the carried exponent.  Format validity is what `write_float` itself asserts
(`isValid`, equal to `FormatValid` by C18). -/
theorem roundtrip_float_model (feats : Features) (f : Fmt) (fmt : Format) (wo : WOpts) (po : POpts) (debug : Bool)
    (bits : Nat) (ds : List Nat) (sci : Int) (buf : List Nat) (w : Written)
    (h : writeFloat feats f fmt wo debug bits (ds, sci) buf = .done w)
    (hfin : f.isSpecial bits = false) (h10 : fmt.mantissaRadix = 10)
    (ha : OptionsAgree feats fmt wo po) (hin : WriterInput ds sci) (hclear : PrefixClear feats fmt po.dp po.exp) :
    ∃ l : FloatLit,
      grammarFloatComplete feats fmt po (w.bytes.take w.len) = .num l (w.bytes.take w.len).length ∧
      l.neg = f.isNeg bits ∧
      DigitsForm l.intDigits l.fracDigits l.exp (keptOf fmt feats ds sci wo)
        (sci + (if (truncateAndRound ds wo).2 then 1 else 0)) := by
  have hds : 1 ≤ ds.length := by
    cases ds with
    | nil => exact absurd rfl hin.ok.ne
    | cons a b => simp
  obtain ⟨htext, hvalid, _, _⟩ := writeFloat_done_text feats f fmt wo debug bits ds sci buf w hds ha.nonZero.1 h
  have hv := (LexVerif.Props.C18.isValid_spec feats fmt.raw).mp hvalid
  have hnan : f.isNaN bits = false := by simp [Fmt.isNaN, hfin]
  have hbody : bodyText feats f fmt wo bits ds sci = writeDecimal fmt feats ds sci wo := by
    simp [bodyText, hfin]
  have hsign : signText feats f fmt bits = writerSign feats fmt (f.isNeg bits) := by
    rw [signText_eq, hnan]; simp [writerSign]
  rw [htext, hbody, hsign]
  exact roundtrip_float_shape feats fmt wo po ds sci (f.isNeg bits) hv h10 ha hin hclear

/-- **`roundtrip_special_model`** — a completed call on a special value returns a slice the grammar derives as the same
special value (NaN as NaN; infinity with its sign) -/
theorem roundtrip_special_model (feats : Features) (f : Fmt) (fmt : Format) (wo : WOpts) (po : POpts) (debug : Bool)
    (bits : Nat) (ds : List Nat) (sci : Int) (buf : List Nat) (w : Written)
    (h : writeFloat feats f fmt wo debug bits (ds, sci) buf = .done w) (hds : 1 ≤ ds.length)
    (hsp : f.isSpecial bits = true) (ha : OptionsAgree feats fmt wo po)
    (hns : (Syn.of feats fmt).noSpecial = false)
    (hnn : ∀ c cs, (if f.isNaN bits then wo.nan else wo.inf) = some (c :: cs) → NotNumberStart (Syn.of feats fmt) po c) :
    grammarFloatComplete feats fmt po (w.bytes.take w.len) =
      if f.isNaN bits then .nan (w.bytes.take w.len).length
      else .inf (f.isNeg bits) (w.bytes.take w.len).length := by
  obtain ⟨htext, hvalid, _, hcfg⟩ := writeFloat_done_text feats f fmt wo debug bits ds sci buf w hds ha.nonZero.1 h
  have hv := (LexVerif.Props.C18.isValid_spec feats fmt.raw).mp hvalid
  have hcfg' := hcfg hsp
  have hbody : bodyText feats f fmt wo bits ds sci = (if f.isNaN bits then wo.nan else wo.inf).getD [] := by
    unfold bodyText
    simp only [hsp, not_true_eq_false, if_false]
    cases f.isNaN bits <;> simp
  cases hs : (if f.isNaN bits then wo.nan else wo.inf) with
  | none => exact absurd hs hcfg'
  | some t =>
    -- valid options: the string is non-empty
    have hne : t ≠ [] := by
      intro ht
      subst ht
      cases hn : f.isNaN bits with
      | true =>
        rw [hn] at hs; simp only [if_true] at hs
        rw [ha.nan] at hs
        rcases optionsError_nan po ha.parseValid _ hs with h' | h' <;> simp at h'
      | false =>
        rw [hn] at hs; simp only [Bool.false_eq_true, if_false] at hs
        rw [ha.inf] at hs
        rcases optionsError_inf po ha.parseValid _ hs with h' | h' <;> simp at h'
    obtain ⟨c, cs, rfl⟩ : ∃ c cs, t = c :: cs := by
      cases t with
      | nil => exact absurd rfl hne
      | cons c cs => exact ⟨c, cs, rfl⟩
    have key := roundtrip_special feats fmt wo po (f.isNaN bits) (f.isNeg bits) c cs hv ha hns hs (hnn c cs hs)
    rw [htext, hbody, hs, signText_eq]
    exact key

/-! ## decimal value corollary -/

/-- **C02's open part, as the single hypothesis of the value round trip**: the decimal digit generator of the writer
(Dragonbox / Grisu) returns, for the magnitude `mbits` (finite, non-zero), canonical digits `ds` and a scientific
exponent `sci` such that `ds · 10^(sci + 1 − |ds|)` is (the value of) one of `Spec.shortest f mbits`. -/
structure WriterDigitsShortest (f : Fmt) (mbits : Nat) (ds : List Nat) (sci : Int) : Prop where
  canonical : DigitsOk ds
  shortest : ∃ D E, (D, E) ∈ shortest f mbits ∧
    (D : ℚ) * (10 : ℚ) ^ E = (ofDigits 10 ds : ℚ) * (10 : ℚ) ^ (sci + 1 - (ds.length : Int))

/-- **`roundtrip_decimal_value`** = shape theorem ∘ (digits are `Spec.shortest`) ∘ `shortest_roundtrips`: without
digit truncation (`max_significant_digits` unset; `min_significant_digits`, `trim_floats`, the breaks and every
format flag are free) the bits read back (`Spec.litBits` of the literal the grammar derives — what the
specification column of a `pf` op renders) are the bits written, sign included.  `FmtRange f` (instances
`fmtRange_f32`, `fmtRange_f64`) says that the type's finite range lies inside `(10^-1200, 10^1100)`. -/
theorem roundtrip_decimal_value (f : Fmt) (hf : WF f) (hrange : FmtRange f) (feats : Features) (fmt : Format)
    (wo : WOpts) (po : POpts) (mbits : Nat) (ds : List Nat) (sci : Int) (neg : Bool)
    (hv : FormatValid feats (unpack fmt.raw)) (h10 : fmt.mantissaRadix = 10) (hbase : fmt.exponentBase = 10)
    (ha : OptionsAgree feats fmt wo po) (hclear : PrefixClear feats fmt po.dp po.exp) (hmax : wo.maxDigits = none)
    (h0 : 0 < mbits) (hfin : mbits < f.infBits) (hW : WriterDigitsShortest f mbits ds sci) :
    ∃ l : FloatLit,
      grammarFloatComplete feats fmt po (writerSign feats fmt neg ++ writeDecimal fmt feats ds sci wo) =
        .num l (writerSign feats fmt neg ++ writeDecimal fmt feats ds sci wo).length ∧
      litBits f fmt.mantissaRadix fmt.exponentBase l = mbits + (if neg then f.signBit else 0) := by
  obtain ⟨D, E, hmem, hval⟩ := hW.shortest
  have hrt : roundNE f (decFrac (ofDigits 10 ds) (sci + 1 - (ds.length : Int))).1
      (decFrac (ofDigits 10 ds) (sci + 1 - (ds.length : Int))).2 = mbits := by
    rw [← LexVerif.Props.RoundNE.shortest_roundtrips hf h0 hfin hmem]
    apply LexVerif.Props.RoundNE.roundNE_congr hf (decFrac_den_pos _ _) (decFrac_den_pos _ _)
    rw [decFrac_Q, decFrac_Q]
    exact hval.symm
  have hD : ofDigits 10 ds ≠ 0 := by
    intro hz
    rw [hz] at hrt
    have : (decFrac 0 (sci + 1 - (ds.length : Int))).1 = 0 := by unfold decFrac; split <;> simp
    rw [this, roundNE_zero] at hrt
    omega
  have hin : WriterInput ds sci := by
    refine ⟨hW.canonical, ?_⟩
    intro h; subst h; exact absurd rfl hD
  obtain ⟨l, h1, h2, h3⟩ := roundtrip_float_shape feats fmt wo po ds sci neg hv h10 ha hin hclear
  obtain ⟨m, hm⟩ := kept_spec fmt feats ds sci wo
  rw [truncateAndRound_none ds wo hmax] at h3 hm
  simp only [Bool.false_eq_true, if_false, Int.add_zero] at h3
  -- the digits laid out are `ds` up to trailing zeros dropped by `trim_floats`: same decimal
  have hm' : ds = keptOf fmt feats ds sci wo ++ List.replicate m 0 := hm
  generalize keptOf fmt feats ds sci wo = K at h3 hm'
  have hKlt : ∀ d ∈ K, d < 10 := fun d hd => hW.canonical.lt d (by rw [hm']; exact List.mem_append_left _ hd)
  have hrtK : roundNE f (decFrac (ofDigits 10 K) (sci + 1 - (K.length : Int))).1
      (decFrac (ofDigits 10 K) (sci + 1 - (K.length : Int))).2 = mbits := by
    rw [← hrt]
    apply LexVerif.Props.RoundNE.roundNE_congr hf (decFrac_den_pos _ _) (decFrac_den_pos _ _)
    rw [decFrac_Q, decFrac_Q, hm']
    have hv' : ofDigits 10 (K ++ List.replicate m 0) = ofDigits 10 K * 10 ^ m := by
      have := ofDigits_form 0 m K
      simpa using this
    rw [hv', List.length_append, List.length_replicate]
    have h10' : (10 : ℚ) ≠ 0 := by norm_num
    have hE : sci + 1 - (K.length : Int) = (m : Int) + (sci + 1 - ((K.length + m : Nat) : Int)) := by
      push_cast; omega
    rw [hE, zpow_add₀ h10', zpow_natCast]
    push_cast
    ring
  refine ⟨l, h1, ?_⟩
  rw [h10, hbase, litBits_of_form hf hrange l K sci h3 hKlt mbits h0 hfin hrtK, h2]

/-- non-vacuity of `WriterDigitsShortest` / `roundtrip_decimal_value`: `0.3` (f64 `0x3fd3333333333333`) has the
shortest digits `[3]` at exponent `-1`; written under the all-required format it is `+3.0e-1` and reads back. -/
theorem shortest_three_tenths : WriterDigitsShortest f64 0x3fd3333333333333 [3] (-1) :=
  ⟨⟨by decide, by decide, by decide⟩, 3, -1, by decide +kernel, by norm_num [ofDigits]⟩

example :=
  roundtrip_decimal_value f64 wf_f64 fmtRange_f64 featsRF fmtAllRequired {} {} 0x3fd3333333333333 [3] (-1) false
    allRequired_valid (by decide) (by decide) ⟨rfl, rfl, rfl, rfl, by decide, by decide, by decide, by decide⟩
    (by decide) rfl (by decide) (by decide) shortest_three_tenths

/-- … and the instance computed: `+3.0e-1` reads back as `0x3fd3333333333333` -/
example : (match grammarFloatComplete featsRF fmtAllRequired {} (writerSign featsRF fmtAllRequired false ++
      writeDecimal fmtAllRequired featsRF [3] (-1) {}) with
    | .num l _ => litBits f64 10 10 l | _ => 0) = 0x3fd3333333333333 := by decide +kernel

end LexVerif.Props.C08
