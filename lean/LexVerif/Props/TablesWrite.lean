import LexVerif.Proof.Tables.LogsLog5Pow2
import LexVerif.Proof.Tables.LogsLog10Pow2
import LexVerif.Proof.Tables.LogsLog2Pow10
import LexVerif.Proof.Tables.LogsLog5Pow2M3
import LexVerif.Proof.Tables.LogsLog10Pow2M43
import LexVerif.Proof.Tables.Dragonbox32
import LexVerif.Proof.Tables.Dragonbox64
import LexVerif.Proof.Tables.DragonboxRange
import LexVerif.Proof.Tables.Grisu
import LexVerif.Proof.Tables.IntPairsA
import LexVerif.Proof.Tables.IntPairsB
import LexVerif.Proof.Tables.IntPairsC
import LexVerif.Proof.Tables.IntPairsD
import LexVerif.Proof.Tables.IntSteps
import LexVerif.Proof.Tables.DigitCount
import LexVerif.Proof.Tables.Sizes
/-!
# Props.TablesWrite — the R tie for the number→string side (C02, C03, C06, C09)

Every finite-domain object the writers depend on, as dumped from the crates compiled from the *current* `/repo`
(`Gen.*`), equals its mathematical closed form (`Spec.Tables`). All statements range over ALL rows; the heavy
`decide +kernel` walks live in `Proof/Tables/*` (one module per table so that lake checks them in parallel).
A changed table entry, dispatch arm or constant in `/repo` changes `Gen.*` and breaks the theorem of that table
(`Proof.Tables.badIdx` lists the offending rows for diagnostics).

Rows that FAIL the expected closed form are excluded explicitly and their negation is proved:
* `formatted_size_decimal_unsigned_no_sign_room` — `FORMATTED_SIZE_DECIMAL` of the six unsigned types has no room
  for a sign character (a `+` is written under `format` + `required_mantissa_sign`).
* `dragonbox32_right_closed_below_min` — unreachable corner of the (unused) right-closed directed variant.
-/
namespace LexVerif.Props.TablesWrite
open LexVerif LexVerif.Spec LexVerif.Spec.Tables LexVerif.Proof.Tables

/-! ## C02: Dragonbox logarithm approximations — exact on their whole documented domains -/
section Logs
open LexVerif.Gen.Logs

theorem floor_log5_pow2_exact (q : Int) (h1 : floorLog5Pow2Lo ≤ q) (h2 : q ≤ floorLog5Pow2Hi) :
    IsFloorLog5Pow2 q (floorLog5Pow2 q) := Logs.log5Pow2_exact q h1 h2

theorem floor_log10_pow2_exact (q : Int) (h1 : floorLog10Pow2Lo ≤ q) (h2 : q ≤ floorLog10Pow2Hi) :
    IsFloorLog10Pow2 q (floorLog10Pow2 q) := Logs.log10Pow2_exact q h1 h2

theorem floor_log2_pow10_exact (q : Int) (h1 : floorLog2Pow10Lo ≤ q) (h2 : q ≤ floorLog2Pow10Hi) :
    IsFloorLog2Pow10 q (floorLog2Pow10 q) := Logs.log2Pow10_exact q h1 h2

theorem floor_log5_pow2_minus_log5_3_exact (q : Int) (h1 : floorLog5Pow2MinusLog5_3Lo ≤ q)
    (h2 : q ≤ floorLog5Pow2MinusLog5_3Hi) :
    IsFloorLog5Pow2MinusLog5_3 q (floorLog5Pow2MinusLog5_3 q) := Logs.log5Pow2MinusLog5_3_exact q h1 h2

theorem floor_log10_pow2_minus_log10_4_over_3_exact (q : Int) (h1 : floorLog10Pow2MinusLog10_4Over3Lo ≤ q)
    (h2 : q ≤ floorLog10Pow2MinusLog10_4Over3Hi) :
    IsFloorLog10Pow2MinusLog10_4Over3 q (floorLog10Pow2MinusLog10_4Over3 q) :=
  Logs.log10Pow2MinusLog10_4Over3_exact q h1 h2

/-- the documented domains are the ones stated in algorithm.rs -/
theorem floor_log_domains :
    floorLog5Pow2Lo = -1492 ∧ floorLog5Pow2Hi = 1492 ∧ floorLog10Pow2Lo = -1700 ∧ floorLog10Pow2Hi = 1700
    ∧ floorLog2Pow10Lo = -1233 ∧ floorLog2Pow10Hi = 1233
    ∧ floorLog5Pow2MinusLog5_3Lo = -2427 ∧ floorLog5Pow2MinusLog5_3Hi = 2427
    ∧ floorLog10Pow2MinusLog10_4Over3Lo = -1700 ∧ floorLog10Pow2MinusLog10_4Over3Hi = 1700 := by decide

/-- The source comment says `floor_log10_pow2_minus_log10_4_over_3` is "off for -295 and 97". It is not: both
arguments are reachable (f64 exponents), and the compiled function returns the true floors `-89` and `29`. -/
theorem floor_log10_pow2_minus_log10_4_over_3_at_m295_and_97 :
    floorLog10Pow2MinusLog10_4Over3 (-295) = -89 ∧ IsFloorLog10Pow2MinusLog10_4Over3 (-295) (-89)
    ∧ floorLog10Pow2MinusLog10_4Over3 97 = 29 ∧ IsFloorLog10Pow2MinusLog10_4Over3 97 29 := by decide +kernel

end Logs

/-! ## C02: Dragonbox caches -/
section Dragonbox
open LexVerif.Gen.Dragonbox LexVerif.Gen.Logs

/-- every row of `DRAGONBOX32_POWERS_OF_FIVE` is `⌈10^k⌉` normalised to 64 bits, `k = i + SMALLEST_F32_POW5` -/
theorem dragonbox32_rows (i : Nat) (h : i < pow5_32.size) :
    pow5_32[i] = pow10Cache 64 (smallestF32Pow5 + i) ∧ IsCacheRow 64 (smallestF32Pow5 + i) pow5_32[i] := by
  have h1 := allIdx_array Dragonbox.pow5_32_walk i h
  have h2 := allIdx_array Dragonbox.pow5_32_ceil_walk i h
  simp only [Dragonbox.row32Ok, beq_iff_eq] at h1
  simp only [Dragonbox.row32Ceil, decide_eq_true_eq] at h2
  exact ⟨h1, h2⟩

theorem dragonbox32_size : pow5_32.size = n32PowersOfFive
    ∧ (n32PowersOfFive : Int) = largestF32Pow5 - smallestF32Pow5 + 1 := Dragonbox.pow5_32_size

/-- every row `(hi, lo)` of `DRAGONBOX64_POWERS_OF_FIVE`, read as `hi·2^64 + lo`, is `⌈10^k⌉` normalised to 128
bits, `k = i + SMALLEST_F64_POW5` (`Dragonbox.rows64 = zipWith (hi·2^64 + lo)`) -/
theorem dragonbox64_rows (i : Nat) (h : i < Dragonbox.rows64.length) :
    Dragonbox.rows64[i] = pow10Cache 128 (smallestF64Pow5 + i)
    ∧ IsCacheRow 128 (smallestF64Pow5 + i) Dragonbox.rows64[i] := by
  have h1 := allIdx_get _ _ 0 Dragonbox.pow5_64_walk i h
  have h2 := allIdx_get _ _ 0 Dragonbox.pow5_64_ceil_walk i h
  simp only [Dragonbox.row64Ok, beq_iff_eq, Nat.zero_add] at h1
  simp only [Dragonbox.row64Ceil, decide_eq_true_eq, Nat.zero_add] at h2
  exact ⟨h1, h2⟩

theorem dragonbox64_halves :
    (pow5_64HiList.all fun v => decide (v < 2 ^ 64)) = true ∧ (pow5_64LoList.all fun v => decide (v < 2 ^ 64)) = true :=
  Dragonbox.pow5_64_halves

theorem dragonbox64_size : pow5_64Hi.size = n64PowersOfFive ∧ pow5_64Lo.size = n64PowersOfFive
    ∧ (n64PowersOfFive : Int) = largestF64Pow5 - smallestF64Pow5 + 1 := Dragonbox.pow5_64_size

/-- f64: for the exponent `e` of any finite non-zero double, both `-minus_k` values the writer forms are valid
cache indices and documented arguments of `floor_log2_pow10` -/
theorem dragonbox64_index_range (e : Int) (h1 : F64.minFiniteExponent ≤ e) (h2 : e ≤ F64.maxFiniteExponent) :
    (smallestF64Pow5 ≤ -(floorLog10Pow2 e - F64.kappa) ∧ -(floorLog10Pow2 e - F64.kappa) ≤ largestF64Pow5
      ∧ floorLog2Pow10Lo ≤ -(floorLog10Pow2 e - F64.kappa) ∧ -(floorLog10Pow2 e - F64.kappa) ≤ floorLog2Pow10Hi)
    ∧ (smallestF64Pow5 ≤ -(floorLog10Pow2MinusLog10_4Over3 e) ∧ -(floorLog10Pow2MinusLog10_4Over3 e) ≤ largestF64Pow5
      ∧ floorLog2Pow10Lo ≤ -(floorLog10Pow2MinusLog10_4Over3 e) ∧ -(floorLog10Pow2MinusLog10_4Over3 e) ≤ floorLog2Pow10Hi) := by
  obtain ⟨s1, s2, a1, a2, b1, b2, _, _⟩ := Dragonbox.sizes
  have n := vec_spec s1 Dragonbox.normal64_walk e (by omega) (by omega) h1 h2
  have m := vec_spec s2 Dragonbox.shorter64_walk e (by omega) (by omega) h1 h2
  have e1 : floorLog10Pow2 e = ((floorLog10Pow2TabBiased.getD (e - floorLog10Pow2Lo).toNat 0 : Nat) : Int) - floorLog10Pow2TabBias := by
    have : floorLog10Pow2Lo ≤ e ∧ e ≤ floorLog10Pow2Hi := ⟨by omega, by omega⟩
    simp [floorLog10Pow2, floorLog10Pow2TabAt, this]
  have e2 : floorLog10Pow2MinusLog10_4Over3 e = ((floorLog10Pow2MinusLog10_4Over3TabBiased.getD (e - floorLog10Pow2MinusLog10_4Over3Lo).toNat 0 : Nat) : Int) - floorLog10Pow2MinusLog10_4Over3TabBias := by
    have : floorLog10Pow2MinusLog10_4Over3Lo ≤ e ∧ e ≤ floorLog10Pow2MinusLog10_4Over3Hi := ⟨by omega, by omega⟩
    simp [floorLog10Pow2MinusLog10_4Over3, floorLog10Pow2MinusLog10_4Over3TabAt, this]
  rw [e1, e2]
  refine ⟨n, ?_⟩
  simpa using m

/-- f32: same for the exponent of any finite non-zero single -/
theorem dragonbox32_index_range (e : Int) (h1 : F32.minFiniteExponent ≤ e) (h2 : e ≤ F32.maxFiniteExponent) :
    (smallestF32Pow5 ≤ -(floorLog10Pow2 e - F32.kappa) ∧ -(floorLog10Pow2 e - F32.kappa) ≤ largestF32Pow5
      ∧ floorLog2Pow10Lo ≤ -(floorLog10Pow2 e - F32.kappa) ∧ -(floorLog10Pow2 e - F32.kappa) ≤ floorLog2Pow10Hi)
    ∧ (smallestF32Pow5 ≤ -(floorLog10Pow2MinusLog10_4Over3 e) ∧ -(floorLog10Pow2MinusLog10_4Over3 e) ≤ largestF32Pow5
      ∧ floorLog2Pow10Lo ≤ -(floorLog10Pow2MinusLog10_4Over3 e) ∧ -(floorLog10Pow2MinusLog10_4Over3 e) ≤ floorLog2Pow10Hi) := by
  obtain ⟨s1, s2, a1, a2, b1, b2, c1, c2⟩ := Dragonbox.sizes
  have n := vec_spec s1 Dragonbox.normal32_walk e (by omega) (by omega) h1 h2
  have m := vec_spec s2 Dragonbox.shorter32_walk e (by omega) (by omega) h1 h2
  have e1 : floorLog10Pow2 e = ((floorLog10Pow2TabBiased.getD (e - floorLog10Pow2Lo).toNat 0 : Nat) : Int) - floorLog10Pow2TabBias := by
    have : floorLog10Pow2Lo ≤ e ∧ e ≤ floorLog10Pow2Hi := ⟨by omega, by omega⟩
    simp [floorLog10Pow2, floorLog10Pow2TabAt, this]
  have e2 : floorLog10Pow2MinusLog10_4Over3 e = ((floorLog10Pow2MinusLog10_4Over3TabBiased.getD (e - floorLog10Pow2MinusLog10_4Over3Lo).toNat 0 : Nat) : Int) - floorLog10Pow2MinusLog10_4Over3TabBias := by
    have : floorLog10Pow2MinusLog10_4Over3Lo ≤ e ∧ e ≤ floorLog10Pow2MinusLog10_4Over3Hi := ⟨by omega, by omega⟩
    simp [floorLog10Pow2MinusLog10_4Over3, floorLog10Pow2MinusLog10_4Over3TabAt, this]
  rw [e1, e2]
  refine ⟨n, ?_⟩
  simpa using m

/-- EXCLUDED ROW (negation proved): one below the smallest f32 exponent, `-minus_k = 47 > LARGEST_F32_POW5 = 46`.
Only `compute_right_closed_directed(…, shorter = true)` forms `e - 1`, it is not called by `to_decimal`, and
`shorter` implies `e > min`; so the row is unreachable. The f64 table has the spare row. -/
theorem dragonbox32_right_closed_below_min :
    ¬ (-(floorLog10Pow2 (F32.minFiniteExponent - 1) - F32.kappa) ≤ largestF32Pow5) := Dragonbox.right_closed_f32_below_min

theorem dragonbox64_right_closed_below_min :
    -(floorLog10Pow2 (F64.minFiniteExponent - 1) - F64.kappa) ≤ largestF64Pow5 := Dragonbox.right_closed_f64_below_min

/-- the per-type constants: paper formulas over the exact logarithms, IEEE exponent ranges, unchecked accessor = index -/
theorem dragonbox_consts :
    F32.fcPmHalfLower = -F32.kappa - floorLog5Pow2 F32.kappa
    ∧ F32.divBy5Threshold = floorLog2Pow10 (floorLog5Pow2 (F32.mantissaSize + 2) + F32.kappa + 1)
    ∧ F64.fcPmHalfLower = -F64.kappa - floorLog5Pow2 F64.kappa
    ∧ F64.divBy5Threshold = floorLog2Pow10 (floorLog5Pow2 (F64.mantissaSize + 2) + F64.kappa + 1)
    ∧ F32.kappa = 1 ∧ F64.kappa = 2 ∧ F32.decimalDigits = 9 ∧ F64.decimalDigits = 17
    ∧ F32.minFiniteExponent = F32.denormalExponent ∧ F32.maxFiniteExponent = F32.maxExponent - 1
    ∧ F64.minFiniteExponent = F64.denormalExponent ∧ F64.maxFiniteExponent = F64.maxExponent - 1
    ∧ F32.denormalExponent = 1 - (127 + 23) ∧ F32.maxExponent = 255 - (127 + 23) ∧ F32.mantissaSize = 23
    ∧ F64.denormalExponent = 1 - (1023 + 52) ∧ F64.maxExponent = 2047 - (1023 + 52) ∧ F64.mantissaSize = 52
    ∧ dragonboxPowerIsIndex = true := Dragonbox.consts

/-- `floor_log2(n) = ⌊log₂ n⌋` (`-1` at 0) on 0, every `2^j`, every `2^(j+1)-1`, and the writer's own arguments -/
theorem floor_log2_samples :
    allIdx (fun _ (p : Nat × Nat) => decide (((p.2 : Int) - floorLog2ValBias) = floorLog2 p.1)) 0
      (List.zip floorLog2ArgList floorLog2ValBiasedList) = true
    ∧ floorLog2ArgList.length = floorLog2ValBiasedList.length ∧ 129 ≤ floorLog2ArgList.length := Dragonbox.floorLog2_samples

theorem pow10_samples :
    allIdx (fun i v => v == 10 ^ i) 0 pow64_10List = true ∧ pow64_10List.length = 20
    ∧ allIdx (fun i v => v == 10 ^ i) 0 pow32_10List = true ∧ pow32_10List.length = 10 := Dragonbox.pow10_samples

end Dragonbox

/-! ## C02 (`compact`): Grisu -/
section Grisu
open LexVerif.Gen.Grisu

/-- all 87 rows: `k = -348 + 8·i`, binary exponent `⌊log₂ 10^k⌋ - 63`, mantissa the NEAREST 64-bit normalised one
(`Grisu.rowOk`; measured: 54 rows round down, 30 up, 3 exact — no ties) -/
theorem grisu_rows : allIdx Grisu.rowOk 0 Grisu.rows = true := Grisu.rows_walk

theorem grisu_sizes : powersOfTenList.length = 87 ∧ decimalPowerBiasedList.length = 87
    ∧ binaryPowerBiasedList.length = 87 ∧ accessorIsIndex = true := Grisu.rows_size

/-- `fast_binary_power(q) = ⌊log₂ 10^q⌋ - 63` for every `q ∈ [-400, 400]` (the table spans `-348 … 340`) -/
theorem grisu_fast_binary_power_exact (q : Int) (h1 : fastBinaryPowerLo ≤ q) (h2 : q ≤ fastBinaryPowerHi) :
    IsFloorLog2Pow10 q (fastBinaryPowerTabAt (q - fastBinaryPowerLo).toNat + 63) := by
  have := vec_spec Grisu.fastBinaryPower_size Grisu.fastBinaryPower_walk q h1 h2
  simpa [Grisu.IsFastBinaryPower, fastBinaryPowerTabAt] using this

/-- `cached_grisu_power(exp)` for every `exp ∈ [-1140, 1089]` (the range of its debug assertion): never panics, returns
row `(k+348)/8` of the table with its binary exponent, and `-60 ≤ exp + binexp + 64 ≤ -32` (`Grisu.cachedOk`) -/
theorem grisu_cached : allIdx Grisu.cachedOk 0 Grisu.cachedRows = true := Grisu.cached_walk

theorem grisu_cached_sizes : cachedMantList.length = (cachedHi - cachedLo + 1).toNat
    ∧ cachedBinExpBiasedList.length = (cachedHi - cachedLo + 1).toNat
    ∧ cachedKBiasedList.length = (cachedHi - cachedLo + 1).toNat ∧ cachedPanics = [] := Grisu.cached_size

/-- the argument of `cached_grisu_power` (exponent of the normalised upper boundary) of every finite float is inside
the dumped range: f64 `[-1137, 960]`, f32 `[-212, 64]` -/
theorem grisu_cached_domain :
    cachedLo ≤ F64.minUpperExp ∧ F64.maxUpperExp ≤ cachedHi ∧ cachedLo ≤ F32.minUpperExp ∧ F32.maxUpperExp ≤ cachedHi
    ∧ F64.minUpperExp = F64.minFiniteExponent - 1 - 62 ∧ F64.maxUpperExp = F64.maxFiniteExponent - 1 - (64 - (F64.mantissaSize + 2))
    ∧ F32.minUpperExp = F32.minFiniteExponent - 1 - 62 ∧ F32.maxUpperExp = F32.maxFiniteExponent - 1 - (64 - (F32.mantissaSize + 2))
    ∧ F64.minFiniteExponent = -1074 ∧ F64.maxFiniteExponent = 971 ∧ F32.minFiniteExponent = -149 ∧ F32.maxFiniteExponent = 104 :=
  Grisu.cached_domain

end Grisu

/-! ## C03 / C06: integer writer tables -/
section IntTables
open LexVerif.Gen.IntTables

theorem pairEntry_even (r i : Nat) : pairEntry r (2 * i) = digitChar (i / r) := by
  simp [pairEntry, Nat.mul_mod_right]

theorem pairEntry_odd (r i : Nat) : pairEntry r (2 * i + 1) = digitChar (i % r) := by
  have h1 : (2 * i + 1) % 2 = 1 := by omega
  have h2 : (2 * i + 1) / 2 = i := by omega
  simp [pairEntry, h1, h2]

/-- every digit-pair table (`DIGIT_TO_BASE<r>_SQUARED`, r = 2..36): `2·r²` bytes, byte `j` is `pairEntry r j` -/
theorem pair_tables (r : Nat) (hr : r ∈ tableRadices) :
    (namedTable r).size = 2 * r * r ∧ ∀ (j : Nat) (h : j < (namedTable r).size), (namedTable r)[j] = pairEntry r j := by
  simp only [tableRadices, List.mem_cons, List.not_mem_nil, or_false] at hr
  rcases hr with rfl | rfl | rfl | rfl | rfl | rfl | rfl | rfl | rfl | rfl | rfl | rfl | rfl | rfl | rfl | rfl | rfl | rfl | rfl | rfl | rfl | rfl | rfl | rfl | rfl | rfl | rfl | rfl | rfl | rfl | rfl | rfl | rfl | rfl | rfl
  · change base2.size = 2 * 2 * 2 ∧ ∀ (j : Nat) (h : j < base2.size), base2[j] = pairEntry 2 j
    exact ⟨IntPairs.base2_walk.2, fun j h => by simpa [IntPairs.pairOk] using allIdx_array IntPairs.base2_walk.1 j h⟩
  · change base3.size = 2 * 3 * 3 ∧ ∀ (j : Nat) (h : j < base3.size), base3[j] = pairEntry 3 j
    exact ⟨IntPairs.base3_walk.2, fun j h => by simpa [IntPairs.pairOk] using allIdx_array IntPairs.base3_walk.1 j h⟩
  · change base4.size = 2 * 4 * 4 ∧ ∀ (j : Nat) (h : j < base4.size), base4[j] = pairEntry 4 j
    exact ⟨IntPairs.base4_walk.2, fun j h => by simpa [IntPairs.pairOk] using allIdx_array IntPairs.base4_walk.1 j h⟩
  · change base5.size = 2 * 5 * 5 ∧ ∀ (j : Nat) (h : j < base5.size), base5[j] = pairEntry 5 j
    exact ⟨IntPairs.base5_walk.2, fun j h => by simpa [IntPairs.pairOk] using allIdx_array IntPairs.base5_walk.1 j h⟩
  · change base6.size = 2 * 6 * 6 ∧ ∀ (j : Nat) (h : j < base6.size), base6[j] = pairEntry 6 j
    exact ⟨IntPairs.base6_walk.2, fun j h => by simpa [IntPairs.pairOk] using allIdx_array IntPairs.base6_walk.1 j h⟩
  · change base7.size = 2 * 7 * 7 ∧ ∀ (j : Nat) (h : j < base7.size), base7[j] = pairEntry 7 j
    exact ⟨IntPairs.base7_walk.2, fun j h => by simpa [IntPairs.pairOk] using allIdx_array IntPairs.base7_walk.1 j h⟩
  · change base8.size = 2 * 8 * 8 ∧ ∀ (j : Nat) (h : j < base8.size), base8[j] = pairEntry 8 j
    exact ⟨IntPairs.base8_walk.2, fun j h => by simpa [IntPairs.pairOk] using allIdx_array IntPairs.base8_walk.1 j h⟩
  · change base9.size = 2 * 9 * 9 ∧ ∀ (j : Nat) (h : j < base9.size), base9[j] = pairEntry 9 j
    exact ⟨IntPairs.base9_walk.2, fun j h => by simpa [IntPairs.pairOk] using allIdx_array IntPairs.base9_walk.1 j h⟩
  · change base10.size = 2 * 10 * 10 ∧ ∀ (j : Nat) (h : j < base10.size), base10[j] = pairEntry 10 j
    exact ⟨IntPairs.base10_walk.2, fun j h => by simpa [IntPairs.pairOk] using allIdx_array IntPairs.base10_walk.1 j h⟩
  · change base11.size = 2 * 11 * 11 ∧ ∀ (j : Nat) (h : j < base11.size), base11[j] = pairEntry 11 j
    exact ⟨IntPairs.base11_walk.2, fun j h => by simpa [IntPairs.pairOk] using allIdx_array IntPairs.base11_walk.1 j h⟩
  · change base12.size = 2 * 12 * 12 ∧ ∀ (j : Nat) (h : j < base12.size), base12[j] = pairEntry 12 j
    exact ⟨IntPairs.base12_walk.2, fun j h => by simpa [IntPairs.pairOk] using allIdx_array IntPairs.base12_walk.1 j h⟩
  · change base13.size = 2 * 13 * 13 ∧ ∀ (j : Nat) (h : j < base13.size), base13[j] = pairEntry 13 j
    exact ⟨IntPairs.base13_walk.2, fun j h => by simpa [IntPairs.pairOk] using allIdx_array IntPairs.base13_walk.1 j h⟩
  · change base14.size = 2 * 14 * 14 ∧ ∀ (j : Nat) (h : j < base14.size), base14[j] = pairEntry 14 j
    exact ⟨IntPairs.base14_walk.2, fun j h => by simpa [IntPairs.pairOk] using allIdx_array IntPairs.base14_walk.1 j h⟩
  · change base15.size = 2 * 15 * 15 ∧ ∀ (j : Nat) (h : j < base15.size), base15[j] = pairEntry 15 j
    exact ⟨IntPairs.base15_walk.2, fun j h => by simpa [IntPairs.pairOk] using allIdx_array IntPairs.base15_walk.1 j h⟩
  · change base16.size = 2 * 16 * 16 ∧ ∀ (j : Nat) (h : j < base16.size), base16[j] = pairEntry 16 j
    exact ⟨IntPairs.base16_walk.2, fun j h => by simpa [IntPairs.pairOk] using allIdx_array IntPairs.base16_walk.1 j h⟩
  · change base17.size = 2 * 17 * 17 ∧ ∀ (j : Nat) (h : j < base17.size), base17[j] = pairEntry 17 j
    exact ⟨IntPairs.base17_walk.2, fun j h => by simpa [IntPairs.pairOk] using allIdx_array IntPairs.base17_walk.1 j h⟩
  · change base18.size = 2 * 18 * 18 ∧ ∀ (j : Nat) (h : j < base18.size), base18[j] = pairEntry 18 j
    exact ⟨IntPairs.base18_walk.2, fun j h => by simpa [IntPairs.pairOk] using allIdx_array IntPairs.base18_walk.1 j h⟩
  · change base19.size = 2 * 19 * 19 ∧ ∀ (j : Nat) (h : j < base19.size), base19[j] = pairEntry 19 j
    exact ⟨IntPairs.base19_walk.2, fun j h => by simpa [IntPairs.pairOk] using allIdx_array IntPairs.base19_walk.1 j h⟩
  · change base20.size = 2 * 20 * 20 ∧ ∀ (j : Nat) (h : j < base20.size), base20[j] = pairEntry 20 j
    exact ⟨IntPairs.base20_walk.2, fun j h => by simpa [IntPairs.pairOk] using allIdx_array IntPairs.base20_walk.1 j h⟩
  · change base21.size = 2 * 21 * 21 ∧ ∀ (j : Nat) (h : j < base21.size), base21[j] = pairEntry 21 j
    exact ⟨IntPairs.base21_walk.2, fun j h => by simpa [IntPairs.pairOk] using allIdx_array IntPairs.base21_walk.1 j h⟩
  · change base22.size = 2 * 22 * 22 ∧ ∀ (j : Nat) (h : j < base22.size), base22[j] = pairEntry 22 j
    exact ⟨IntPairs.base22_walk.2, fun j h => by simpa [IntPairs.pairOk] using allIdx_array IntPairs.base22_walk.1 j h⟩
  · change base23.size = 2 * 23 * 23 ∧ ∀ (j : Nat) (h : j < base23.size), base23[j] = pairEntry 23 j
    exact ⟨IntPairs.base23_walk.2, fun j h => by simpa [IntPairs.pairOk] using allIdx_array IntPairs.base23_walk.1 j h⟩
  · change base24.size = 2 * 24 * 24 ∧ ∀ (j : Nat) (h : j < base24.size), base24[j] = pairEntry 24 j
    exact ⟨IntPairs.base24_walk.2, fun j h => by simpa [IntPairs.pairOk] using allIdx_array IntPairs.base24_walk.1 j h⟩
  · change base25.size = 2 * 25 * 25 ∧ ∀ (j : Nat) (h : j < base25.size), base25[j] = pairEntry 25 j
    exact ⟨IntPairs.base25_walk.2, fun j h => by simpa [IntPairs.pairOk] using allIdx_array IntPairs.base25_walk.1 j h⟩
  · change base26.size = 2 * 26 * 26 ∧ ∀ (j : Nat) (h : j < base26.size), base26[j] = pairEntry 26 j
    exact ⟨IntPairs.base26_walk.2, fun j h => by simpa [IntPairs.pairOk] using allIdx_array IntPairs.base26_walk.1 j h⟩
  · change base27.size = 2 * 27 * 27 ∧ ∀ (j : Nat) (h : j < base27.size), base27[j] = pairEntry 27 j
    exact ⟨IntPairs.base27_walk.2, fun j h => by simpa [IntPairs.pairOk] using allIdx_array IntPairs.base27_walk.1 j h⟩
  · change base28.size = 2 * 28 * 28 ∧ ∀ (j : Nat) (h : j < base28.size), base28[j] = pairEntry 28 j
    exact ⟨IntPairs.base28_walk.2, fun j h => by simpa [IntPairs.pairOk] using allIdx_array IntPairs.base28_walk.1 j h⟩
  · change base29.size = 2 * 29 * 29 ∧ ∀ (j : Nat) (h : j < base29.size), base29[j] = pairEntry 29 j
    exact ⟨IntPairs.base29_walk.2, fun j h => by simpa [IntPairs.pairOk] using allIdx_array IntPairs.base29_walk.1 j h⟩
  · change base30.size = 2 * 30 * 30 ∧ ∀ (j : Nat) (h : j < base30.size), base30[j] = pairEntry 30 j
    exact ⟨IntPairs.base30_walk.2, fun j h => by simpa [IntPairs.pairOk] using allIdx_array IntPairs.base30_walk.1 j h⟩
  · change base31.size = 2 * 31 * 31 ∧ ∀ (j : Nat) (h : j < base31.size), base31[j] = pairEntry 31 j
    exact ⟨IntPairs.base31_walk.2, fun j h => by simpa [IntPairs.pairOk] using allIdx_array IntPairs.base31_walk.1 j h⟩
  · change base32.size = 2 * 32 * 32 ∧ ∀ (j : Nat) (h : j < base32.size), base32[j] = pairEntry 32 j
    exact ⟨IntPairs.base32_walk.2, fun j h => by simpa [IntPairs.pairOk] using allIdx_array IntPairs.base32_walk.1 j h⟩
  · change base33.size = 2 * 33 * 33 ∧ ∀ (j : Nat) (h : j < base33.size), base33[j] = pairEntry 33 j
    exact ⟨IntPairs.base33_walk.2, fun j h => by simpa [IntPairs.pairOk] using allIdx_array IntPairs.base33_walk.1 j h⟩
  · change base34.size = 2 * 34 * 34 ∧ ∀ (j : Nat) (h : j < base34.size), base34[j] = pairEntry 34 j
    exact ⟨IntPairs.base34_walk.2, fun j h => by simpa [IntPairs.pairOk] using allIdx_array IntPairs.base34_walk.1 j h⟩
  · change base35.size = 2 * 35 * 35 ∧ ∀ (j : Nat) (h : j < base35.size), base35[j] = pairEntry 35 j
    exact ⟨IntPairs.base35_walk.2, fun j h => by simpa [IntPairs.pairOk] using allIdx_array IntPairs.base35_walk.1 j h⟩
  · change base36.size = 2 * 36 * 36 ∧ ∀ (j : Nat) (h : j < base36.size), base36[j] = pairEntry 36 j
    exact ⟨IntPairs.base36_walk.2, fun j h => by simpa [IntPairs.pairOk] using allIdx_array IntPairs.base36_walk.1 j h⟩

/-- entries `2i`, `2i+1` of the radix-`r` table are the characters of `i / r` and `i % r`, for all `i < r²` -/
theorem pair_tables_digits (r : Nat) (hr : r ∈ tableRadices) (i : Nat) (hi : i < r * r) :
    (namedTable r)[2 * i]! = digitChar (i / r) ∧ (namedTable r)[2 * i + 1]! = digitChar (i % r) := by
  obtain ⟨hs, hj⟩ := pair_tables r hr
  have h0 : 2 * i < (namedTable r).size := by rw [hs, Nat.mul_assoc]; omega
  have h1 : 2 * i + 1 < (namedTable r).size := by rw [hs, Nat.mul_assoc]; omega
  have e0 : (namedTable r)[2 * i]! = (namedTable r)[2 * i] := by simp [h0]
  have e1 : (namedTable r)[2 * i + 1]! = (namedTable r)[2 * i + 1] := by simp [h1]
  rw [e0, e1, hj _ h0, hj _ h1, pairEntry_even, pairEntry_odd]
  exact ⟨rfl, rfl⟩

/-- `get_table::<r>()` returns the table of radix `r`, for every `r` in 2..36 -/
theorem get_table_dispatch :
    tableRadices = (List.range 35).map (· + 2) ∧ getTableRadices = (List.range 35).map (· + 2)
    ∧ ((List.range 35).all fun i => getTable (i + 2) == some (i + 2)) = true := IntSteps.getTable_dispatch

/-- `digit_to_char(d) = Spec.digitChar d` for `d < 36` -/
theorem digit_to_char (d : Nat) (h : d < digitToChar.size) : digitToChar[d] = digitChar d := by
  simpa using allIdx_array IntSteps.digitToChar_walk.1 d h

theorem digit_to_char_size : digitToChar.size = 36 := IntSteps.digitToChar_walk.2

/-- `digit_to_char_const(d, r) = Spec.digitChar d` for `d < r`, `r` in 2..36 (row `r - 2`) -/
theorem digit_to_char_const :
    allIdx (fun i (row : List Nat) => row == (List.range (i + 2)).map digitChar) 0 digitToCharConst = true
    ∧ digitToCharConst.length = 35 := IntSteps.digitToCharConst_walk

/-- `min_step(r, bits, signed)` is the largest `k` with `r^k ≤ 2^(bits - signed)`: every `k`-digit radix-`r` numeral
fits the type (all 35 radices × 5 widths × 2 signednesses; index ↦ `(stepRadix, stepValueBits)`) -/
theorem min_step_rows (i : Nat) (h : i < minStepTab.size) :
    IsMaxPow (IntSteps.stepRadix i) (2 ^ IntSteps.stepValueBits i) minStepTab[i] := by
  simpa [IntSteps.minStepOk] using allIdx_array IntSteps.minStep_walk.1 i h

/-- `max_step(r, bits, signed)` is the digit count of the type's maximum `2^(bits - signed) - 1` -/
theorem max_step_rows (i : Nat) (h : i < maxStepTab.size) :
    0 < maxStepTab[i] ∧ IntSteps.stepRadix i ^ (maxStepTab[i] - 1) ≤ 2 ^ IntSteps.stepValueBits i - 1
    ∧ 2 ^ IntSteps.stepValueBits i - 1 < IntSteps.stepRadix i ^ maxStepTab[i] := by
  simpa [IntSteps.maxStepOk] using allIdx_array IntSteps.maxStep_walk.1 i h

theorem step_sizes : minStepTab.size = 350 ∧ maxStepTab.size = 350 := ⟨IntSteps.minStep_walk.2, IntSteps.maxStep_walk.2⟩

/-- `u64_step(r) = min_step(r, 64, false)` = the largest `k` with `r^k ≤ 2^64`, for `r` = 2..36 -/
theorem u64_step_all :
    ((List.range 35).all fun i =>
      u64Step (i + 2) == minStep (i + 2) 64 false && decide (IsMaxPow (i + 2) (2 ^ 64) (u64Step (i + 2)))) = true :=
  IntSteps.u64Step_all

/-- per radix 2..36 the literal constants of `u128_divrem_<r>` (S) satisfy what `u128_divrem(n, r) =
(n / r^u64_step(r), n % r^u64_step(r))` needs (`IntSteps.div128Ok`): divisor `d = r^u64_step(r) < 2^64`;
pow2: `mask = 2^shr - 1`, `2^shr = d`; moderate/fast: the Granlund–Montgomery precondition
`2^(128+ℓ) ≤ factor·d ≤ 2^(128+ℓ) + 2^ℓ`, `factor < 2^128` (`MulHiPre`), fast also `fast = 2^(64+s)`, `2^s ∣ d`;
slow: `ctlz = 64 - bitLen d`. The identity itself (`MulHiPre → MulHiIdentity`) is C03's lemma. -/
theorem div128_all :
    div128Radices = (List.range 35).map (· + 2) ∧ ((List.range 35).all fun i => IntSteps.div128Ok (i + 2)) = true :=
  IntSteps.div128_all

/-- the identity behind the `n < fast` branch of `fast_u128_divrem`: when `2^s ∣ d`,
`(n >> s) / (d >> s) = n / d` (and `n < 2^(64+s)` makes `n >> s` fit a `u64`) -/
theorem fast_shift_identity (n d s : Nat) (h : 2 ^ s ∣ d) : n / 2 ^ s / (d / 2 ^ s) = n / d := by
  rw [Nat.div_div_eq_div_mul, Nat.mul_div_cancel' h]

example : (10 ^ 19 + 12345) / 2 ^ 19 / (10 ^ 19 / 2 ^ 19) = (10 ^ 19 + 12345) / 10 ^ 19 := by decide

/-- R probes: the compiled `u128_divrem(n, r)` returns `(n / r^step, n % r^step)` on ≥ 30 probes per radix -/
theorem u128_divrem_probes : allIdx IntSteps.divremOk 0 IntSteps.divremRows = true
    ∧ u128DivremRadixList.length = u128DivremNList.length ∧ u128DivremNList.length = u128DivremQuotList.length
    ∧ u128DivremQuotList.length = u128DivremRemList.length ∧ 35 * 30 ≤ u128DivremRadixList.length := IntSteps.divrem_walk

/-- all 32 rows of the `fast_digit_count` table follow Lemire's closed form -/
theorem fast_digit_count_table (j : Nat) (h : j < fastDigitCountTable.size) :
    fastDigitCountTable[j] = fastDigitCountRow j := by
  simpa using allIdx_array DigitCount.fastDigitCountTable_walk.1 j h

theorem fast_digit_count_table_size : fastDigitCountTable.size = 32 := DigitCount.fastDigitCountTable_walk.2

/-- … and each row counts digits correctly at both ends of its bit length and across the power of ten inside it -/
theorem fast_digit_count_table_sem : allIdx DigitCount.rowSemOk 0 fastDigitCountTable.toList = true :=
  DigitCount.fastDigitCountTable_sem

/-- R probes of the compiled `fast_digit_count`: equal to the decimal digit count and to the S-extracted table's value -/
theorem fast_digit_count_probes :
    allIdx DigitCount.fdcOk 0 (List.zip fastDigitCountArgList fastDigitCountValList) = true
    ∧ fastDigitCountArgList.length = fastDigitCountValList.length ∧ 64 ≤ fastDigitCountArgList.length :=
  DigitCount.fastDigitCount_samples

theorem decimal_count_tables :
    allIdx (fun i v => v == 10 ^ (i + 1)) 0 decimalCountTableU64.toList = true ∧ decimalCountTableU64.size = 19
    ∧ 10 ^ 19 < 2 ^ 64 ∧ 2 ^ 64 ≤ 10 ^ 20
    ∧ allIdx (fun i v => v == 10 ^ (i + 1)) 0 decimalCountTableU128.toList = true ∧ decimalCountTableU128.size = 38
    ∧ 10 ^ 38 < 2 ^ 128 ∧ 2 ^ 128 ≤ 10 ^ 39 := DigitCount.decimalCountTables

/-- `fast_log2(x) = ⌊log₂(x|1)⌋`, `fast_log10(x) = (fast_log2 x · 1233) >> 12 = ⌊log₁₀ 2^fast_log2 x⌋` on 0 and both ends of
every bit length of `u8` -/
theorem fast_log_u8 :
    allIdx DigitCount.argOk 0 fastLogU8ArgList = true ∧ fastLogU8ArgList.length = 1 + 2 * 8
    ∧ allIdx DigitCount.logOk 0 (List.zip fastLogU8ArgList (List.zip fastLogU8Log2List fastLogU8Log10List)) = true
    ∧ fastLogU8Log2List.length = 1 + 2 * 8 ∧ fastLogU8Log10List.length = 1 + 2 * 8 := DigitCount.fastLogU8_walk

/-- `fast_log2(x) = ⌊log₂(x|1)⌋`, `fast_log10(x) = (fast_log2 x · 1233) >> 12 = ⌊log₁₀ 2^fast_log2 x⌋` on 0 and both ends of
every bit length of `u16` -/
theorem fast_log_u16 :
    allIdx DigitCount.argOk 0 fastLogU16ArgList = true ∧ fastLogU16ArgList.length = 1 + 2 * 16
    ∧ allIdx DigitCount.logOk 0 (List.zip fastLogU16ArgList (List.zip fastLogU16Log2List fastLogU16Log10List)) = true
    ∧ fastLogU16Log2List.length = 1 + 2 * 16 ∧ fastLogU16Log10List.length = 1 + 2 * 16 := DigitCount.fastLogU16_walk

/-- `fast_log2(x) = ⌊log₂(x|1)⌋`, `fast_log10(x) = (fast_log2 x · 1233) >> 12 = ⌊log₁₀ 2^fast_log2 x⌋` on 0 and both ends of
every bit length of `u32` -/
theorem fast_log_u32 :
    allIdx DigitCount.argOk 0 fastLogU32ArgList = true ∧ fastLogU32ArgList.length = 1 + 2 * 32
    ∧ allIdx DigitCount.logOk 0 (List.zip fastLogU32ArgList (List.zip fastLogU32Log2List fastLogU32Log10List)) = true
    ∧ fastLogU32Log2List.length = 1 + 2 * 32 ∧ fastLogU32Log10List.length = 1 + 2 * 32 := DigitCount.fastLogU32_walk

/-- `fast_log2(x) = ⌊log₂(x|1)⌋`, `fast_log10(x) = (fast_log2 x · 1233) >> 12 = ⌊log₁₀ 2^fast_log2 x⌋` on 0 and both ends of
every bit length of `u64` -/
theorem fast_log_u64 :
    allIdx DigitCount.argOk 0 fastLogU64ArgList = true ∧ fastLogU64ArgList.length = 1 + 2 * 64
    ∧ allIdx DigitCount.logOk 0 (List.zip fastLogU64ArgList (List.zip fastLogU64Log2List fastLogU64Log10List)) = true
    ∧ fastLogU64Log2List.length = 1 + 2 * 64 ∧ fastLogU64Log10List.length = 1 + 2 * 64 := DigitCount.fastLogU64_walk

/-- `fast_log2(x) = ⌊log₂(x|1)⌋`, `fast_log10(x) = (fast_log2 x · 1233) >> 12 = ⌊log₁₀ 2^fast_log2 x⌋` on 0 and both ends of
every bit length of `u128` -/
theorem fast_log_u128 :
    allIdx DigitCount.argOk 0 fastLogU128ArgList = true ∧ fastLogU128ArgList.length = 1 + 2 * 128
    ∧ allIdx DigitCount.logOk 0 (List.zip fastLogU128ArgList (List.zip fastLogU128Log2List fastLogU128Log10List)) = true
    ∧ fastLogU128Log2List.length = 1 + 2 * 128 ∧ fastLogU128Log10List.length = 1 + 2 * 128 := DigitCount.fastLogU128_walk

/-- `fast_log2(x) = ⌊log₂(x|1)⌋`, `fast_log10(x) = (fast_log2 x · 1233) >> 12 = ⌊log₁₀ 2^fast_log2 x⌋` on 0 and both ends of
every bit length of `usize` -/
theorem fast_log_usize :
    allIdx DigitCount.argOk 0 fastLogUsizeArgList = true ∧ fastLogUsizeArgList.length = 1 + 2 * 64
    ∧ allIdx DigitCount.logOk 0 (List.zip fastLogUsizeArgList (List.zip fastLogUsizeLog2List fastLogUsizeLog10List)) = true
    ∧ fastLogUsizeLog2List.length = 1 + 2 * 64 ∧ fastLogUsizeLog10List.length = 1 + 2 * 64 := DigitCount.fastLogUsize_walk

end IntTables

/-! ## C09: formatted sizes -/
section Sizes
open LexVerif.Gen.Sizes

theorem size_types_ok : (types.all Sizes.tyOk) = true ∧ types.length = 14
    ∧ types.map (·.name) = ["i8", "i16", "i32", "i64", "i128", "isize", "u8", "u16", "u32", "u64", "u128", "usize", "f32", "f64"] :=
  Sizes.types_ok

/-- `FORMATTED_SIZE_DECIMAL ≥` digits of the largest magnitude `+ 1` (the `-`) for signed, `≥` digits for unsigned types;
feature sets default / radix / compact+radix -/
theorem formatted_size_decimal_ok : Sizes.all2 Sizes.decimalOk sizesDefault = true
    ∧ Sizes.all2 Sizes.decimalOk sizesRadix = true ∧ Sizes.all2 Sizes.decimalOk sizesCompactRadix = true := Sizes.decimal_ok

/-- with `radix`: `FORMATTED_SIZE ≥ 1 +` digits of the largest magnitude in EVERY radix 2..36, all 12 integer types -/
theorem formatted_size_radix_ok : Sizes.all2 Sizes.radixOk sizesRadix = true
    ∧ Sizes.all2 Sizes.radixOk sizesCompactRadix = true := Sizes.radix_ok

theorem formatted_size_default_same : (sizesDefault.all fun s => s.1 == s.2) = true := Sizes.default_same

/-- `FORMATTED_SIZE_DECIMAL ≥ 1 + digits` holds for the six signed types … -/
theorem formatted_size_decimal_signed_sign_room :
    ((List.zip types sizesRadix).all fun x => !x.1.signed || Sizes.decimalSignOk x.1 x.2) = true := Sizes.decimal_sign_signed

/-- … and FAILS for all six unsigned types (u8 3, u16 5, u32 10, u64 20, u128 39, usize 20 = digits of MAX exactly).
`unsigned()` in lexical-write-integer/src/api.rs writes a `+` first under `format` + `required_mantissa_sign`:
`write_with_options::<u8, F>(255, &mut [0; 3])` panics (reproduced: jeaiii.rs:240 "range end index 3 out of range for
slice of length 2"). -/
theorem formatted_size_decimal_unsigned_no_sign_room :
    ((List.zip types sizesRadix).all fun x => x.1.signed || !Sizes.decimalSignOk x.1 x.2) = true
    ∧ ((List.zip types sizesDefault).all fun x => x.1.signed || !Sizes.decimalSignOk x.1 x.2) = true :=
  Sizes.decimal_sign_unsigned_fails

theorem buffer_size :
    bufferSizeDefault = 64 ∧ bufferSizeRadix = 256 ∧ bufferSizeCompactRadix = 256
    ∧ coreBufferSizeDefault = bufferSizeDefault ∧ coreBufferSizeRadix = bufferSizeRadix
    ∧ coreBufferSizeCompactRadix = bufferSizeCompactRadix
    ∧ (sizesDefault.drop 12) = [(64, 64), (64, 64)] ∧ (sizesRadix.drop 12) = [(256, 64), (256, 64)]
    ∧ (sizesCompactRadix.drop 12) = [(256, 64), (256, 64)] := Sizes.buffer_size

end Sizes

end LexVerif.Props.TablesWrite
