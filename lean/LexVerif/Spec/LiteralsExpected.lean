/-! Snapshot of the literals and token shapes of the whitelisted kernels at the time the hand-written models
were transcribed (created by `python3 -c 'import extractors.literals as l; l.snapshot()'`, then committed).
`Props/Literals.lean` proves `Gen.Literals` (regenerated from /repo on every run) equal to it. -/
namespace LexVerif.Spec.LiteralsExpected

/-- `is_4digits` in lexical-parse-integer/src/algorithm.rs: integer literals in source order, and a hash of the token shape (literals abstracted) -/
def parse_integer_algorithm_is_4digits : List Nat × Nat := ([10, 70, 10, 8, 16, 24, 808464432, 2155905152, 0], 48777598335241)
/-- `parse_4digits` in lexical-parse-integer/src/algorithm.rs: integer literals in source order, and a hash of the token shape (literals abstracted) -/
def parse_integer_algorithm_parse_4digits : List Nat × Nat := ([10, 808464432, 8, 127, 16, 127], 52064813156593)
/-- `is_8digits` in lexical-parse-integer/src/algorithm.rs: integer literals in source order, and a hash of the token shape (literals abstracted) -/
def parse_integer_algorithm_is_8digits : List Nat × Nat := ([10, 70, 10, 8, 16, 24, 32, 3472328296227680304, 9259542123273814144, 0], 122668128835772)
/-- `parse_8digits` in lexical-parse-integer/src/algorithm.rs: integer literals in source order, and a hash of the token shape (literals abstracted) -/
def parse_integer_algorithm_parse_8digits : List Nat × Nat := ([10, 1095216660735, 32, 1, 32, 3472328296227680304, 8, 16, 32], 274594114458839)
/-- `can_try_parse_multidigits` in lexical-parse-integer/src/algorithm.rs: integer literals in source order, and a hash of the token shape (literals abstracted) -/
def parse_integer_algorithm_can_try_parse_multidigits : List Nat × Nat := ([10], 218335858653801)
/-- `overflow_digits` in lexical-util/src/num.rs: integer literals in source order, and a hash of the token shape (literals abstracted) -/
def util_num_overflow_digits : List Nat × Nat := ([16, 2], 71346035154182)
/-- `char_to_valid_digit_const` in lexical-util/src/digit.rs: integer literals in source order, and a hash of the token shape (literals abstracted) -/
def util_digit_char_to_valid_digit_const : List Nat × Nat := ([10, 10, 10, 255], 42938259406425)
/-- `char_to_digit_const` in lexical-util/src/digit.rs: integer literals in source order, and a hash of the token shape (literals abstracted) -/
def util_digit_char_to_digit_const : List Nat × Nat := ([], 195314134915404)
/-- `digit_to_char_const` in lexical-util/src/digit.rs: integer literals in source order, and a hash of the token shape (literals abstracted) -/
def util_digit_digit_to_char_const : List Nat × Nat := ([10, 10, 10], 29039381813059)
/-- `compute_float` in lexical-parse-float/src/lemire.rs: integer literals in source order, and a hash of the token shape (literals abstracted) -/
def parse_float_lemire_compute_float : List Nat × Nat := ([0, 0, 0, 0, 3, 18446744073709551615, 27, 55, 63, 64, 3, 0, 1, 64, 1, 1, 1, 1, 1, 3, 1, 64, 3, 1, 1, 1, 2, 1, 1, 1], 228124980613198)
/-- `compute_product_approx` in lexical-parse-float/src/lemire.rs: integer literals in source order, and a hash of the token shape (literals abstracted) -/
def parse_float_lemire_compute_product_approx : List Nat × Nat := ([64, 64, 18446744073709551615, 18446744073709551615, 1], 145759813916913)
/-- `power` in lexical-parse-float/src/lemire.rs: integer literals in source order, and a hash of the token shape (literals abstracted) -/
def parse_float_lemire_power : List Nat × Nat := ([152170, 65536, 16, 63], 264576167902795)
/-- `full_multiplication` in lexical-parse-float/src/lemire.rs: integer literals in source order, and a hash of the token shape (literals abstracted) -/
def parse_float_lemire_full_multiplication : List Nat × Nat := ([64], 598451615543)
/-- `compute_error_scaled` in lexical-parse-float/src/lemire.rs: integer literals in source order, and a hash of the token shape (literals abstracted) -/
def parse_float_lemire_compute_error_scaled : List Nat × Nat := ([63, 1, 62], 161420828415979)
/-- `lemire` in lexical-parse-float/src/lemire.rs: integer literals in source order, and a hash of the token shape (literals abstracted) -/
def parse_float_lemire_lemire : List Nat × Nat := ([0, 1], 213772932857352)
/-- `bellerophon` in lexical-parse-float/src/bellerophon.rs: integer literals in source order, and a hash of the token shape (literals abstracted) -/
def parse_float_bellerophon_bellerophon : List Nat × Nat := ([2, 4, 8, 16, 32, 0, 0, 0, 0, 4096, 4096, 0, 0, 1, 20, 20, 0, 0, 1, 1, 65, 1, 65], 10783569379019)
/-- `error_is_accurate` in lexical-parse-float/src/bellerophon.rs: integer literals in source order, and a hash of the token shape (literals abstracted) -/
def parse_float_bellerophon_error_is_accurate : List Nat × Nat := ([64, 64, 1, 1, 64, 1, 64, 1], 146956824412315)
/-- `error_scale` in lexical-parse-float/src/bellerophon.rs: integer literals in source order, and a hash of the token shape (literals abstracted) -/
def parse_float_bellerophon_error_scale : List Nat × Nat := ([8], 277938211725360)
/-- `mul` in lexical-parse-float/src/bellerophon.rs: integer literals in source order, and a hash of the token shape (literals abstracted) -/
def parse_float_bellerophon_mul : List Nat × Nat := ([32, 0, 32, 0, 32, 32, 32, 1, 32, 1, 32, 32, 32, 64], 115854193260744)
/-- `normalize` in lexical-parse-float/src/bellerophon.rs: integer literals in source order, and a hash of the token shape (literals abstracted) -/
def parse_float_bellerophon_normalize : List Nat × Nat := ([0, 0], 4423927806943)
/-- `binary` in lexical-parse-float/src/binary.rs: integer literals in source order, and a hash of the token shape (literals abstracted) -/
def parse_float_binary_binary : List Nat × Nat := ([2, 4, 8, 16, 32, 0, 0, 0, 1, 64, 64, 0, 1, 1, 0], 91190540618270)
/-- `slow_binary` in lexical-parse-float/src/binary.rs: integer literals in source order, and a hash of the token shape (literals abstracted) -/
def parse_float_binary_slow_binary : List Nat × Nat := ([2, 4, 8, 16, 32, 0, 0], 113970434845566)
/-- `calculate_shift` in lexical-parse-float/src/shared.rs: integer literals in source order, and a hash of the token shape (literals abstracted) -/
def parse_float_shared_calculate_shift : List Nat × Nat := ([64, 1, 1], 240908521661738)
/-- `calculate_power2` in lexical-parse-float/src/shared.rs: integer literals in source order, and a hash of the token shape (literals abstracted) -/
def parse_float_shared_calculate_power2 : List Nat × Nat := ([2], 34117014887651)
/-- `log2` in lexical-parse-float/src/shared.rs: integer literals in source order, and a hash of the token shape (literals abstracted) -/
def parse_float_shared_log2 : List Nat × Nat := ([2, 1, 4, 2, 8, 3, 16, 4, 32, 5, 1], 19585260683739)
/-- `round` in lexical-parse-float/src/shared.rs: integer literals in source order, and a hash of the token shape (literals abstracted) -/
def parse_float_shared_round : List Nat × Nat := ([0, 64, 1, 1, 65, 64, 1, 1], 75521270900223)
/-- `round_nearest_tie_even` in lexical-parse-float/src/shared.rs: integer literals in source order, and a hash of the token shape (literals abstracted) -/
def parse_float_shared_round_nearest_tie_even : List Nat × Nat := ([64, 64, 0, 1, 1], 224274485945181)
/-- `is_fast_path` in lexical-parse-float/src/number.rs: integer literals in source order, and a hash of the token shape (literals abstracted) -/
def parse_float_number_is_fast_path : List Nat × Nat := ([], 29804699034160)
/-- `try_fast_path` in lexical-parse-float/src/number.rs: integer literals in source order, and a hash of the token shape (literals abstracted) -/
def parse_float_number_try_fast_path : List Nat × Nat := ([0], 67099307739814)
/-- `lower_n_mask` in lexical-parse-float/src/mask.rs: integer literals in source order, and a hash of the token shape (literals abstracted) -/
def parse_float_mask_lower_n_mask : List Nat × Nat := ([64, 64, 1, 1], 170175976223726)
/-- `lower_n_halfway` in lexical-parse-float/src/mask.rs: integer literals in source order, and a hash of the token shape (literals abstracted) -/
def parse_float_mask_lower_n_halfway : List Nat × Nat := ([64, 0, 0, 1], 131460755838095)
/-- `nth_bit` in lexical-parse-float/src/mask.rs: integer literals in source order, and a hash of the token shape (literals abstracted) -/
def parse_float_mask_nth_bit : List Nat × Nat := ([64, 1], 86293979492064)
/-- `scientific_exponent` in lexical-parse-float/src/slow.rs: integer literals in source order, and a hash of the token shape (literals abstracted) -/
def parse_float_slow_scientific_exponent : List Nat × Nat := ([4, 2, 1], 98103378455688)
/-- `round_up_truncated` in lexical-parse-float/src/slow.rs: integer literals in source order, and a hash of the token shape (literals abstracted) -/
def parse_float_slow_round_up_truncated : List Nat × Nat := ([1, 1], 225257116737940)
/-- `round_up_nonzero` in lexical-parse-float/src/slow.rs: integer literals in source order, and a hash of the token shape (literals abstracted) -/
def parse_float_slow_round_up_nonzero : List Nat × Nat := ([8, 3472328296227680304], 120209998637421)
/-- `slow_radix` in lexical-parse-float/src/slow.rs: integer literals in source order, and a hash of the token shape (literals abstracted) -/
def parse_float_slow_slow_radix : List Nat × Nat := ([1, 63, 0], 217836047139662)
/-- `digit_comp` in lexical-parse-float/src/slow.rs: integer literals in source order, and a hash of the token shape (literals abstracted) -/
def parse_float_slow_digit_comp : List Nat × Nat := ([1, 0], 57652409608805)
/-- `positive_digit_comp` in lexical-parse-float/src/slow.rs: integer literals in source order, and a hash of the token shape (literals abstracted) -/
def parse_float_slow_positive_digit_comp : List Nat × Nat := ([64], 279224315720140)
/-- `negative_digit_comp` in lexical-parse-float/src/slow.rs: integer literals in source order, and a hash of the token shape (literals abstracted) -/
def parse_float_slow_negative_digit_comp : List Nat × Nat := ([1, 63, 0, 0, 0, 0, 0, 2, 0, 0, 2, 0, 2], 140685780466751)
/-- `parse_mantissa` in lexical-parse-float/src/slow.rs: integer literals in source order, and a hash of the token shape (literals abstracted) -/
def parse_float_slow_parse_mantissa : List Nat × Nat := ([0, 0, 0, 32, 0], 236528340392834)
/-- `byte_comp` in lexical-parse-float/src/slow.rs: integer literals in source order, and a hash of the token shape (literals abstracted) -/
def parse_float_slow_byte_comp : List Nat × Nat := ([1, 63, 0, 1, 0, 1, 32, 1, 0, 0, 0, 0, 0], 271114166537569)
/-- `compare_bytes` in lexical-parse-float/src/slow.rs: integer literals in source order, and a hash of the token shape (literals abstracted) -/
def parse_float_slow_compare_bytes : List Nat × Nat := ([], 211547093487551)
/-- `b` in lexical-parse-float/src/slow.rs: integer literals in source order, and a hash of the token shape (literals abstracted) -/
def parse_float_slow_b : List Nat × Nat := ([], 273522405172042)
/-- `bh` in lexical-parse-float/src/slow.rs: integer literals in source order, and a hash of the token shape (literals abstracted) -/
def parse_float_slow_bh : List Nat × Nat := ([1, 1, 1], 237519218133787)
/-- `compute_nearest_shorter` in lexical-write-float/src/algorithm.rs: integer literals in source order, and a hash of the token shape (literals abstracted) -/
def write_float_algorithm_compute_nearest_shorter : List Nat × Nat := ([1, 1, 10, 10, 1, 4, 2, 2, 2, 1, 1], 207457248764717)
/-- `compute_nearest_normal` in lexical-write-float/src/algorithm.rs: integer literals in source order, and a hash of the token shape (literals abstracted) -/
def write_float_algorithm_compute_nearest_normal : List Nat × Nat := ([2, 0, 1, 1, 10, 1, 10, 1, 1, 1, 1, 0, 1, 1, 0, 1, 10, 2, 2, 2, 1, 0, 1], 60959639668399)
/-- `floor_log2` in lexical-write-float/src/algorithm.rs: integer literals in source order, and a hash of the token shape (literals abstracted) -/
def write_float_algorithm_floor_log2 : List Nat × Nat := ([1, 0, 1, 1], 71330696474943)
/-- `floor_log10_pow2` in lexical-write-float/src/algorithm.rs: integer literals in source order, and a hash of the token shape (literals abstracted) -/
def write_float_algorithm_floor_log10_pow2 : List Nat × Nat := ([315653, 20], 107084022859332)
/-- `floor_log2_pow10` in lexical-write-float/src/algorithm.rs: integer literals in source order, and a hash of the token shape (literals abstracted) -/
def write_float_algorithm_floor_log2_pow10 : List Nat × Nat := ([1741647, 19], 139993517333387)
/-- `floor_log5_pow2` in lexical-write-float/src/algorithm.rs: integer literals in source order, and a hash of the token shape (literals abstracted) -/
def write_float_algorithm_floor_log5_pow2 : List Nat × Nat := ([225799, 19], 145377922396933)
/-- `floor_log5_pow2_minus_log5_3` in lexical-write-float/src/algorithm.rs: integer literals in source order, and a hash of the token shape (literals abstracted) -/
def write_float_algorithm_floor_log5_pow2_minus_log5_3 : List Nat × Nat := ([451597, 715764, 20], 9475239611615)
/-- `floor_log10_pow2_minus_log10_4_over_3` in lexical-write-float/src/algorithm.rs: integer literals in source order, and a hash of the token shape (literals abstracted) -/
def write_float_algorithm_floor_log10_pow2_minus_log10_4_over_3 : List Nat × Nat := ([1262611, 524031, 22], 137141980245707)
/-- `umul128_upper64` in lexical-write-float/src/algorithm.rs: integer literals in source order, and a hash of the token shape (literals abstracted) -/
def write_float_algorithm_umul128_upper64 : List Nat × Nat := ([64], 263915350469714)
/-- `umul192_upper128` in lexical-write-float/src/algorithm.rs: integer literals in source order, and a hash of the token shape (literals abstracted) -/
def write_float_algorithm_umul192_upper128 : List Nat × Nat := ([64], 181245771334784)
/-- `umul192_lower128` in lexical-write-float/src/algorithm.rs: integer literals in source order, and a hash of the token shape (literals abstracted) -/
def write_float_algorithm_umul192_lower128 : List Nat × Nat := ([64], 123130870072914)
/-- `umul96_upper64` in lexical-write-float/src/algorithm.rs: integer literals in source order, and a hash of the token shape (literals abstracted) -/
def write_float_algorithm_umul96_upper64 : List Nat × Nat := ([32], 261869058750426)
/-- `umul96_lower64` in lexical-write-float/src/algorithm.rs: integer literals in source order, and a hash of the token shape (literals abstracted) -/
def write_float_algorithm_umul96_lower64 : List Nat × Nat := ([], 47740204550691)
/-- `is_endpoint` in lexical-write-float/src/algorithm.rs: integer literals in source order, and a hash of the token shape (literals abstracted) -/
def write_float_algorithm_is_endpoint : List Nat × Nat := ([], 73758445477772)
/-- `is_right_endpoint` in lexical-write-float/src/algorithm.rs: integer literals in source order, and a hash of the token shape (literals abstracted) -/
def write_float_algorithm_is_right_endpoint : List Nat × Nat := ([0, 5, 1, 1, 1, 1, 2, 10, 3], 17902363649617)
/-- `is_left_endpoint` in lexical-write-float/src/algorithm.rs: integer literals in source order, and a hash of the token shape (literals abstracted) -/
def write_float_algorithm_is_left_endpoint : List Nat × Nat := ([2, 5, 1, 2, 1, 1, 2, 10, 3], 104888321743929)
/-- `truncate_and_round_decimal` in lexical-write-float/src/shared.rs: integer literals in source order, and a hash of the token shape (literals abstracted) -/
def write_float_shared_truncate_and_round_decimal : List Nat × Nat := ([10, 1, 0, 2, 1, 2, 10], 165521403742747)
/-- `round_up` in lexical-write-float/src/shared.rs: integer literals in source order, and a hash of the token shape (literals abstracted) -/
def write_float_shared_round_up : List Nat × Nat := ([1, 0, 1, 1, 1, 1, 0, 1], 275013636853052)
/-- `min_exact_digits` in lexical-write-float/src/shared.rs: integer literals in source order, and a hash of the token shape (literals abstracted) -/
def write_float_shared_min_exact_digits : List Nat × Nat := ([], 133856145797956)
/-- `write_exponent_sign` in lexical-write-float/src/shared.rs: integer literals in source order, and a hash of the token shape (literals abstracted) -/
def write_float_shared_write_exponent_sign : List Nat × Nat := ([0, 1, 1], 277602682568669)
/-- `calculate_shl` in lexical-write-float/src/binary.rs: integer literals in source order, and a hash of the token shape (literals abstracted) -/
def write_float_binary_calculate_shl : List Nat × Nat := ([0], 263039936025659)
/-- `scale_sci_exp` in lexical-write-float/src/binary.rs: integer literals in source order, and a hash of the token shape (literals abstracted) -/
def write_float_binary_scale_sci_exp : List Nat × Nat := ([0], 204299050880816)
/-- `fast_ceildiv` in lexical-write-float/src/binary.rs: integer literals in source order, and a hash of the token shape (literals abstracted) -/
def write_float_binary_fast_ceildiv : List Nat × Nat := ([0, 1], 92481428628190)
/-- `inverse_remainder` in lexical-write-float/src/binary.rs: integer literals in source order, and a hash of the token shape (literals abstracted) -/
def write_float_binary_inverse_remainder : List Nat × Nat := ([0, 0, 0], 239562485400093)
/-- `truncate_and_round` in lexical-write-float/src/binary.rs: integer literals in source order, and a hash of the token shape (literals abstracted) -/
def write_float_binary_truncate_and_round : List Nat × Nat := ([1], 272324807841687)
/-- `round_digit` in lexical-write-float/src/compact.rs: integer literals in source order, and a hash of the token shape (literals abstracted) -/
def write_float_compact_round_digit : List Nat × Nat := ([1, 1, 1], 164908936829632)
/-- `generate_digits` in lexical-write-float/src/compact.rs: integer literals in source order, and a hash of the token shape (literals abstracted) -/
def write_float_compact_generate_digits : List Nat × Nat := ([0, 1, 1, 0, 10, 1000000000, 0, 0, 0, 10, 1, 1, 10, 10, 10, 10, 1, 0, 0, 10, 1, 1, 10], 246012967086862)
/-- `grisu` in lexical-write-float/src/compact.rs: integer literals in source order, and a hash of the token shape (literals abstracted) -/
def write_float_compact_grisu : List Nat × Nat := ([1, 1], 145552856542477)
/-- `normalized_boundaries` in lexical-write-float/src/compact.rs: integer literals in source order, and a hash of the token shape (literals abstracted) -/
def write_float_compact_normalized_boundaries : List Nat × Nat := ([1, 1, 1, 1, 1], 146831908127756)
/-- `fast_log2` in lexical-write-integer/src/digit_count.rs: integer literals in source order, and a hash of the token shape (literals abstracted) -/
def write_integer_digit_count_fast_log2 : List Nat × Nat := ([1], 227216911934163)
/-- `fast_log10` in lexical-write-integer/src/decimal.rs: integer literals in source order, and a hash of the token shape (literals abstracted) -/
def write_integer_decimal_fast_log10 : List Nat × Nat := ([1233, 12], 118743022394502)
/-- `fallback_digit_count` in lexical-write-integer/src/decimal.rs: integer literals in source order, and a hash of the token shape (literals abstracted) -/
def write_integer_decimal_fallback_digit_count : List Nat × Nat := ([1], 194808658469863)
/-- `write_digits` in lexical-write-integer/src/jeaiii.rs: integer literals in source order, and a hash of the token shape (literals abstracted) -/
def write_integer_jeaiii_write_digits : List Nat × Nat := ([1, 1, 0, 2, 2, 0, 2, 3, 42949673, 1, 0, 32, 2, 1, 2, 3, 4, 0, 42949673, 0, 1, 5, 429497, 1, 0, 32, 2, 1, 2, 2, 3, 2, 5, 6, 0, 429497, 0, 2, 7, 8, 0, 281474978, 16, 3, 9, 1441151882, 25, 1, 0, 32, 2, 1, 2, 2, 3, 2, 2, 5, 2, 2, 7, 2, 10, 1441151881, 25, 2, 0, 32, 2, 2, 2, 2, 2, 4, 2, 2, 6, 2, 2, 8, 2, 10, 11529215047, 28, 2, 0, 32, 2, 2, 2, 2, 2, 4, 2, 2, 6, 2, 2, 8, 2, 10, 10, 4, 4, 2, 2, 10], 65071786291702)
/-- `from_u8` in lexical-write-integer/src/jeaiii.rs: integer literals in source order, and a hash of the token shape (literals abstracted) -/
def write_integer_jeaiii_from_u8 : List Nat × Nat := ([3, 100, 3, 10, 2, 1], 272074351467651)
/-- `from_u16` in lexical-write-integer/src/jeaiii.rs: integer literals in source order, and a hash of the token shape (literals abstracted) -/
def write_integer_jeaiii_from_u16 : List Nat × Nat := ([5, 10000, 5, 100, 3, 4, 10, 2, 1], 271943156974117)
/-- `from_u32` in lexical-write-integer/src/jeaiii.rs: integer literals in source order, and a hash of the token shape (literals abstracted) -/
def write_integer_jeaiii_from_u32 : List Nat × Nat := ([10, 10000, 100, 3, 4, 10, 2, 1, 100000000, 1000000, 7, 8, 5, 6, 1000000000, 10, 9], 228065417870877)
/-- `from_u64` in lexical-write-integer/src/jeaiii.rs: integer literals in source order, and a hash of the token shape (literals abstracted) -/
def write_integer_jeaiii_from_u64 : List Nat × Nat := ([], 90284245677907)
/-- `from_u128` in lexical-write-integer/src/jeaiii.rs: integer literals in source order, and a hash of the token shape (literals abstracted) -/
def write_integer_jeaiii_from_u128 : List Nat × Nat := ([39, 10000, 100, 3, 4, 10, 2, 1, 10000000000, 1000000000, 10, 100000000, 9, 1000000, 7, 8, 5, 6, 1000000000000000000000000000000, 10, 10, 10, 100000000000000000000, 10, 10, 10], 178962889246959)
/-- `write_digits` in lexical-write-integer/src/algorithm.rs: integer literals in source order, and a hash of the token shape (literals abstracted) -/
def write_integer_algorithm_write_digits : List Nat × Nat := ([2, 36, 2, 32, 16], 193978558168011)
/-- `compact` in lexical-write-integer/src/compact.rs: integer literals in source order, and a hash of the token shape (literals abstracted) -/
def write_integer_compact_compact : List Nat × Nat := ([128, 128, 0, 128, 1, 1], 46073725576274)
/-- `fast_u128_divrem` in lexical-util/src/div128.rs: integer literals in source order, and a hash of the token shape (literals abstracted) -/
def util_div128_fast_u128_divrem : List Nat × Nat := ([], 247988451591297)
/-- `moderate_u128_divrem` in lexical-util/src/div128.rs: integer literals in source order, and a hash of the token shape (literals abstracted) -/
def util_div128_moderate_u128_divrem : List Nat × Nat := ([], 123780850458957)
/-- `slow_u128_divrem` in lexical-util/src/div128.rs: integer literals in source order, and a hash of the token shape (literals abstracted) -/
def util_div128_slow_u128_divrem : List Nat × Nat := ([64, 0, 65, 128, 0, 0, 1, 1, 127, 1, 1, 127, 1, 1], 57272666139987)
/-- `pow2_u128_divrem` in lexical-util/src/div128.rs: integer literals in source order, and a hash of the token shape (literals abstracted) -/
def util_div128_pow2_u128_divrem : List Nat × Nat := ([], 271066022570997)
/-- `mulhi` in lexical-util/src/mul.rs: integer literals in source order, and a hash of the token shape (literals abstracted) -/
def util_mul_mulhi : List Nat × Nat := ([], 247807807582642)
/-- `buffer_size_const` in lexical-write-float/src/options.rs: integer literals in source order, and a hash of the token shape (literals abstracted) -/
def write_float_options_buffer_size_const : List Nat × Nat := ([10, 2, 5, 9, 13, 13, 5, 5, 1075, 324, 10, 28, 64], 187997725976871)

def all : List (String × (List Nat × Nat)) := [
  ("parse_integer_algorithm_is_4digits", parse_integer_algorithm_is_4digits),
  ("parse_integer_algorithm_parse_4digits", parse_integer_algorithm_parse_4digits),
  ("parse_integer_algorithm_is_8digits", parse_integer_algorithm_is_8digits),
  ("parse_integer_algorithm_parse_8digits", parse_integer_algorithm_parse_8digits),
  ("parse_integer_algorithm_can_try_parse_multidigits", parse_integer_algorithm_can_try_parse_multidigits),
  ("util_num_overflow_digits", util_num_overflow_digits),
  ("util_digit_char_to_valid_digit_const", util_digit_char_to_valid_digit_const),
  ("util_digit_char_to_digit_const", util_digit_char_to_digit_const),
  ("util_digit_digit_to_char_const", util_digit_digit_to_char_const),
  ("parse_float_lemire_compute_float", parse_float_lemire_compute_float),
  ("parse_float_lemire_compute_product_approx", parse_float_lemire_compute_product_approx),
  ("parse_float_lemire_power", parse_float_lemire_power),
  ("parse_float_lemire_full_multiplication", parse_float_lemire_full_multiplication),
  ("parse_float_lemire_compute_error_scaled", parse_float_lemire_compute_error_scaled),
  ("parse_float_lemire_lemire", parse_float_lemire_lemire),
  ("parse_float_bellerophon_bellerophon", parse_float_bellerophon_bellerophon),
  ("parse_float_bellerophon_error_is_accurate", parse_float_bellerophon_error_is_accurate),
  ("parse_float_bellerophon_error_scale", parse_float_bellerophon_error_scale),
  ("parse_float_bellerophon_mul", parse_float_bellerophon_mul),
  ("parse_float_bellerophon_normalize", parse_float_bellerophon_normalize),
  ("parse_float_binary_binary", parse_float_binary_binary),
  ("parse_float_binary_slow_binary", parse_float_binary_slow_binary),
  ("parse_float_shared_calculate_shift", parse_float_shared_calculate_shift),
  ("parse_float_shared_calculate_power2", parse_float_shared_calculate_power2),
  ("parse_float_shared_log2", parse_float_shared_log2),
  ("parse_float_shared_round", parse_float_shared_round),
  ("parse_float_shared_round_nearest_tie_even", parse_float_shared_round_nearest_tie_even),
  ("parse_float_number_is_fast_path", parse_float_number_is_fast_path),
  ("parse_float_number_try_fast_path", parse_float_number_try_fast_path),
  ("parse_float_mask_lower_n_mask", parse_float_mask_lower_n_mask),
  ("parse_float_mask_lower_n_halfway", parse_float_mask_lower_n_halfway),
  ("parse_float_mask_nth_bit", parse_float_mask_nth_bit),
  ("parse_float_slow_scientific_exponent", parse_float_slow_scientific_exponent),
  ("parse_float_slow_round_up_truncated", parse_float_slow_round_up_truncated),
  ("parse_float_slow_round_up_nonzero", parse_float_slow_round_up_nonzero),
  ("parse_float_slow_slow_radix", parse_float_slow_slow_radix),
  ("parse_float_slow_digit_comp", parse_float_slow_digit_comp),
  ("parse_float_slow_positive_digit_comp", parse_float_slow_positive_digit_comp),
  ("parse_float_slow_negative_digit_comp", parse_float_slow_negative_digit_comp),
  ("parse_float_slow_parse_mantissa", parse_float_slow_parse_mantissa),
  ("parse_float_slow_byte_comp", parse_float_slow_byte_comp),
  ("parse_float_slow_compare_bytes", parse_float_slow_compare_bytes),
  ("parse_float_slow_b", parse_float_slow_b),
  ("parse_float_slow_bh", parse_float_slow_bh),
  ("write_float_algorithm_compute_nearest_shorter", write_float_algorithm_compute_nearest_shorter),
  ("write_float_algorithm_compute_nearest_normal", write_float_algorithm_compute_nearest_normal),
  ("write_float_algorithm_floor_log2", write_float_algorithm_floor_log2),
  ("write_float_algorithm_floor_log10_pow2", write_float_algorithm_floor_log10_pow2),
  ("write_float_algorithm_floor_log2_pow10", write_float_algorithm_floor_log2_pow10),
  ("write_float_algorithm_floor_log5_pow2", write_float_algorithm_floor_log5_pow2),
  ("write_float_algorithm_floor_log5_pow2_minus_log5_3", write_float_algorithm_floor_log5_pow2_minus_log5_3),
  ("write_float_algorithm_floor_log10_pow2_minus_log10_4_over_3", write_float_algorithm_floor_log10_pow2_minus_log10_4_over_3),
  ("write_float_algorithm_umul128_upper64", write_float_algorithm_umul128_upper64),
  ("write_float_algorithm_umul192_upper128", write_float_algorithm_umul192_upper128),
  ("write_float_algorithm_umul192_lower128", write_float_algorithm_umul192_lower128),
  ("write_float_algorithm_umul96_upper64", write_float_algorithm_umul96_upper64),
  ("write_float_algorithm_umul96_lower64", write_float_algorithm_umul96_lower64),
  ("write_float_algorithm_is_endpoint", write_float_algorithm_is_endpoint),
  ("write_float_algorithm_is_right_endpoint", write_float_algorithm_is_right_endpoint),
  ("write_float_algorithm_is_left_endpoint", write_float_algorithm_is_left_endpoint),
  ("write_float_shared_truncate_and_round_decimal", write_float_shared_truncate_and_round_decimal),
  ("write_float_shared_round_up", write_float_shared_round_up),
  ("write_float_shared_min_exact_digits", write_float_shared_min_exact_digits),
  ("write_float_shared_write_exponent_sign", write_float_shared_write_exponent_sign),
  ("write_float_binary_calculate_shl", write_float_binary_calculate_shl),
  ("write_float_binary_scale_sci_exp", write_float_binary_scale_sci_exp),
  ("write_float_binary_fast_ceildiv", write_float_binary_fast_ceildiv),
  ("write_float_binary_inverse_remainder", write_float_binary_inverse_remainder),
  ("write_float_binary_truncate_and_round", write_float_binary_truncate_and_round),
  ("write_float_compact_round_digit", write_float_compact_round_digit),
  ("write_float_compact_generate_digits", write_float_compact_generate_digits),
  ("write_float_compact_grisu", write_float_compact_grisu),
  ("write_float_compact_normalized_boundaries", write_float_compact_normalized_boundaries),
  ("write_integer_digit_count_fast_log2", write_integer_digit_count_fast_log2),
  ("write_integer_decimal_fast_log10", write_integer_decimal_fast_log10),
  ("write_integer_decimal_fallback_digit_count", write_integer_decimal_fallback_digit_count),
  ("write_integer_jeaiii_write_digits", write_integer_jeaiii_write_digits),
  ("write_integer_jeaiii_from_u8", write_integer_jeaiii_from_u8),
  ("write_integer_jeaiii_from_u16", write_integer_jeaiii_from_u16),
  ("write_integer_jeaiii_from_u32", write_integer_jeaiii_from_u32),
  ("write_integer_jeaiii_from_u64", write_integer_jeaiii_from_u64),
  ("write_integer_jeaiii_from_u128", write_integer_jeaiii_from_u128),
  ("write_integer_algorithm_write_digits", write_integer_algorithm_write_digits),
  ("write_integer_compact_compact", write_integer_compact_compact),
  ("util_div128_fast_u128_divrem", util_div128_fast_u128_divrem),
  ("util_div128_moderate_u128_divrem", util_div128_moderate_u128_divrem),
  ("util_div128_slow_u128_divrem", util_div128_slow_u128_divrem),
  ("util_div128_pow2_u128_divrem", util_div128_pow2_u128_divrem),
  ("util_mul_mulhi", util_mul_mulhi),
  ("write_float_options_buffer_size_const", write_float_options_buffer_size_const)
]

end LexVerif.Spec.LiteralsExpected
