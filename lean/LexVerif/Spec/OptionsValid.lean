import LexVerif.Spec.FormatValid
import LexVerif.Spec.StdFloat
import LexVerif.Model.WriteOpts
/-!
# Spec.OptionsValid — the *documented* constraints on parse / write options (C18)

Read off the doc comments of `lexical-parse-float/src/options.rs` and `lexical-write-float/src/options.rs`
(setters `exponent`, `decimal_point`, `nan_string`, `inf_string`, `infinity_string`, `max_significant_digits`,
`min_significant_digits`, `positive_exponent_break`, `negative_exponent_break`) and `error.rs` descriptions:

* exponent / decimal point: "Any non-control character is valid, but `\t` to `\r` are also valid"
  (`Spec.ValidAscii`; the doc's closing bracket "`[0x20, 0x7F]`" notwithstanding, DEL is a control character);
* special strings: "The first character must start with `N` or `n` [resp. `I` or `i`] and all characters must be
  valid ASCII letters (`A-Z` or `a-z`)"; "more than 50 elements … will panic"; `None` disables the value;
  a string has a first character, i.e. it is not empty;
* `inf_string`: "… or one that is longer than `infinity_string` will panic";
  `infinity_string`: "… or one that is shorter than `inf_string` will panic" — so a short string needs a long one;
* write: `max_significant_digits` "will panic … if the value is smaller than `min_significant_digits`";
  `positive_exponent_break` "Panics if the value is `<= 0`"; `negative_exponent_break` "Panics if the value is `>= 0`".
Not following the control flow of `build` / `is_valid`.
-/
namespace LexVerif.Spec
open LexVerif.Model (WOpts)

def Letter (c : Nat) : Prop := (65 ≤ c ∧ c ≤ 90) ∨ (97 ≤ c ∧ c ≤ 122)
instance (c : Nat) : Decidable (Letter c) := by unfold Letter; infer_instance

/-- a special-value string: 1..50 ASCII letters, the first one `upper` or `lower` -/
def SpecialString (upper lower : Nat) (s : List Nat) : Prop :=
  s ≠ [] ∧ s.length ≤ 50 ∧ (s.head? = some upper ∨ s.head? = some lower) ∧ ∀ c ∈ s, Letter c
instance (u l : Nat) (s : List Nat) : Decidable (SpecialString u l s) := by unfold SpecialString; infer_instance

/-- an optional special-value string -/
def OptSpecial (upper lower : Nat) (s : Option (List Nat)) : Prop := ∀ x, s = some x → SpecialString upper lower x
instance (u l : Nat) (s : Option (List Nat)) : Decidable (OptSpecial u l s) := by
  unfold OptSpecial; cases s with
  | none => exact isTrue (by intro x h; cases h)
  | some y => exact decidable_of_iff (SpecialString u l y) ⟨fun h x hx => by cases hx; exact h, fun h => h y rfl⟩

/-- **documented validity of `lexical_parse_float::Options`** -/
def ParseOptionsValid (o : POpts) : Prop :=
  ValidAscii o.exp ∧ ValidAscii o.dp ∧
  OptSpecial 78 110 o.nan ∧ OptSpecial 73 105 o.inf ∧ OptSpecial 73 105 o.infinity ∧
  -- the short infinity string needs the long one and is not longer than it
  (∀ a, o.inf = some a → ∃ b, o.infinity = some b ∧ a.length ≤ b.length)

/-- **documented validity of `lexical_write_float::Options`** -/
def WriteOptionsValid (o : WOpts) : Prop :=
  ValidAscii o.exp ∧ ValidAscii o.dp ∧ OptSpecial 78 110 o.nan ∧ OptSpecial 73 105 o.inf ∧
  (∀ mx mn, o.maxDigits = some mx → o.minDigits = some mn → mn ≤ mx) ∧
  (∀ p, o.posBreak = some p → 0 < p) ∧ (∀ n, o.negBreak = some n → n < 0)

/-- the part of `WriteOptionsValid` that concerns punctuation and special strings only -/
def WriteOptionsStringsValid (o : WOpts) : Prop :=
  ValidAscii o.exp ∧ ValidAscii o.dp ∧ OptSpecial 78 110 o.nan ∧ OptSpecial 73 105 o.inf

end LexVerif.Spec
