import LexVerif.Spec.Decimal
/-!
# Spec.StdFloat — the flag-free float grammar  `[+-]? digits* (. digits*)? (e [+-]? digits+)?`  + specials

This is the grammar of the STANDARD format and of every `from_radix`-style format (no syntax flags
beyond "mantissa digits required, exponent digits required"), for any mantissa radix / exponent base /
exponent radix and any punctuation options. `parseStd` is a greedy left-to-right scan returning the
literal and the number of bytes consumed; the complete parser accepts iff everything is consumed.
-/
namespace LexVerif.Spec

structure POpts where
  lossy : Bool := false
  exp : Nat := 101
  dp : Nat := 46
  nan : Option (List Nat) := some [78, 97, 78]
  inf : Option (List Nat) := some [105, 110, 102]
  infinity : Option (List Nat) := some [105, 110, 102, 105, 110, 105, 116, 121]
deriving Repr, DecidableEq

inductive FRes where
  | num (l : FloatLit) (n : Nat)
  | nan (n : Nat)
  | inf (neg : Bool) (n : Nat)
  | err
deriving Repr, DecidableEq

def lower (c : Nat) : Nat := if 65 ≤ c ∧ c ≤ 90 then c + 32 else c
def eqUncased (a b : Nat) : Bool := lower a = lower b

/-- take the longest prefix of radix-`r` digits; returns digit values and the rest -/
def takeDigits (r : Nat) : List Nat → List Nat × List Nat
  | [] => ([], [])
  | c :: cs =>
    match digitVal r c with
    | some d => let (ds, rest) := takeDigits r cs; (d :: ds, rest)
    | none => ([], c :: cs)

def startsWithUncased : List Nat → List Nat → Bool
  | _, [] => true
  | [], _ :: _ => false
  | a :: as, b :: bs => eqUncased a b && startsWithUncased as bs

/-- specials, tried in the order nan, infinity, inf (after the sign) -/
def parseSpecial (o : POpts) (neg : Bool) (pos : Nat) (s : List Nat) : FRes :=
  let try1 (str : Option (List Nat)) : Option Nat :=
    match str with
    | some t => if startsWithUncased s t then some (pos + t.length) else none
    | none => none
  match try1 o.nan with
  | some n => .nan n
  | none =>
    match try1 o.infinity with
    | some n => .inf neg n
    | none =>
      match try1 o.inf with
      | some n => .inf neg n
      | none => .err

/-- greedy scan of a number after the sign (position `pos`) -/
def parseNumberStd (r er : Nat) (o : POpts) (neg : Bool) (pos : Nat) (s : List Nat) : FRes :=
  let (ids, rest1) := takeDigits r s
  let pos1 := pos + ids.length
  let (fds, rest2, pos2) : List Nat × List Nat × Nat :=
    match rest1 with
    | c :: cs => if c = o.dp then let (f, rr) := takeDigits r cs; (f, rr, pos1 + 1 + f.length) else ([], rest1, pos1)
    | [] => ([], rest1, pos1)
  if ids.length + fds.length = 0 then .err
  else
    match rest2 with
    | c :: cs =>
      if eqUncased c o.exp then
        let (eneg, rest3, pos3) : Bool × List Nat × Nat :=
          match cs with
          | 43 :: t => (false, t, pos2 + 2)
          | 45 :: t => (true, t, pos2 + 2)
          | _ => (false, cs, pos2 + 1)
        let (eds, _) := takeDigits er rest3
        if eds.isEmpty then .err
        else
          let mag : Int := ofDigits er eds
          .num ⟨neg, ids, fds, if eneg then -mag else mag⟩ (pos3 + eds.length)
      else .num ⟨neg, ids, fds, 0⟩ pos2
    | [] => .num ⟨neg, ids, fds, 0⟩ pos2

/-- partial parser: sign, then number, falling back to specials -/
def parseStd (r er : Nat) (o : POpts) (s : List Nat) : FRes :=
  let (neg, rest, pos) : Bool × List Nat × Nat :=
    match s with
    | 43 :: cs => (false, cs, 1)
    | 45 :: cs => (true, cs, 1)
    | _ => (false, s, 0)
  if rest.isEmpty then .err
  else
    match parseNumberStd r er o neg pos rest with
    | .err => parseSpecial o neg pos rest
    | x => x

/-- complete parser: a special is tried when the number does not cover the whole input -/
def parseStdComplete (r er : Nat) (o : POpts) (s : List Nat) : FRes :=
  let (neg, rest, pos) : Bool × List Nat × Nat :=
    match s with
    | 43 :: cs => (false, cs, 1)
    | 45 :: cs => (true, cs, 1)
    | _ => (false, s, 0)
  if rest.isEmpty then .err
  else
    let ok (x : FRes) : Bool := match x with
      | .num _ n => n = s.length | .nan n => n = s.length | .inf _ n => n = s.length | .err => false
    let a := parseNumberStd r er o neg pos rest
    if ok a then a
    else
      let b := parseSpecial o neg pos rest
      if ok b then b else .err

/-- canonical result line: `ok <bits hex> <count|->` or `err` -/
def FRes.render (f : Fmt) (r b : Nat) (partial_ : Bool) : FRes → String
  | .num l n => s!"ok {toHex (litBits f r b l)} {if partial_ then toString n else "-"}"
  | .nan n => s!"ok nan {if partial_ then toString n else "-"}"
  | .inf neg n => s!"ok {toHex (f.infBits + if neg then f.signBit else 0)} {if partial_ then toString n else "-"}"
  | .err => "err"

end LexVerif.Spec
