import LexVerif.Spec.Numeral
import LexVerif.Model.Format
/-!
# Spec.FormatValid — the *documented* constraints on a packed number format (C18)

Read off the documentation, not the validator's control flow:
* `format_flags.rs` module docs (bit layout table), the doc comments of each flag / mask and of
  `is_valid_digit_separator` ("must not be valid digits or sign characters"), `is_valid_radix`;
* the error descriptions in `error.rs` ("invalid digit separator: must be ASCII and not a digit or a plus or minus
  sign", "invalid punctuation: multiple characters overlap", "disabled the `+` sign while requiring a sign…",
  "special flags set while disabling special floats", "enabled consecutive digit separators in the … without
  setting a valid location", "invalid flags enabled without the format feature");
* `format_builder.rs` / `not_feature_format.rs` ("Can only be modified with feature `format`", the list of
  fields that are "explicitly set, and therefore not configurable" without it);
* `ascii.rs::is_valid_ascii` doc (printable ASCII plus TAB, LF, VT, FF, CR).

The predicate is over the *unpacked record*; `unpack` uses the accessors of `Model.Format` (bit positions of the
documentation table; `Props/C18.gen_layout` proves the generated constants of the compiled crate agree).
Kinds are listed in the declaration order of `lexical_util::Error`, which is the only order the docs give.
-/
namespace LexVerif.Spec
open LexVerif.Model (Features Format)

/-- the packed format, field by field -/
structure Unpacked where
  digitSeparator : Nat
  basePrefix : Nat
  baseSuffix : Nat
  mantissaRadix : Nat
  /-- raw byte; 0 = "same as the mantissa radix" -/
  exponentBaseRaw : Nat
  exponentRadixRaw : Nat
  requiredIntegerDigits : Bool
  requiredFractionDigits : Bool
  requiredExponentDigits : Bool
  requiredMantissaDigits : Bool
  noPositiveMantissaSign : Bool
  requiredMantissaSign : Bool
  noExponentNotation : Bool
  noPositiveExponentSign : Bool
  requiredExponentSign : Bool
  noExponentWithoutFraction : Bool
  noSpecial : Bool
  caseSensitiveSpecial : Bool
  noIntegerLeadingZeros : Bool
  noFloatLeadingZeros : Bool
  requiredExponentNotation : Bool
  caseSensitiveExponent : Bool
  caseSensitiveBasePrefix : Bool
  caseSensitiveBaseSuffix : Bool
  integerInternalSep : Bool
  fractionInternalSep : Bool
  exponentInternalSep : Bool
  integerLeadingSep : Bool
  fractionLeadingSep : Bool
  exponentLeadingSep : Bool
  integerTrailingSep : Bool
  fractionTrailingSep : Bool
  exponentTrailingSep : Bool
  integerConsecutiveSep : Bool
  fractionConsecutiveSep : Bool
  exponentConsecutiveSep : Bool
  specialSep : Bool
deriving Repr, DecidableEq

def unpack (raw : Nat) : Unpacked :=
  let f : Format := ⟨raw⟩
  { digitSeparator := f.digitSeparator, basePrefix := f.basePrefix, baseSuffix := f.baseSuffix,
    mantissaRadix := f.mantissaRadix, exponentBaseRaw := f.exponentBaseRaw, exponentRadixRaw := f.exponentRadixRaw,
    requiredIntegerDigits := f.requiredIntegerDigits, requiredFractionDigits := f.requiredFractionDigits,
    requiredExponentDigits := f.requiredExponentDigits, requiredMantissaDigits := f.requiredMantissaDigits,
    noPositiveMantissaSign := f.noPositiveMantissaSign, requiredMantissaSign := f.requiredMantissaSign,
    noExponentNotation := f.noExponentNotation, noPositiveExponentSign := f.noPositiveExponentSign,
    requiredExponentSign := f.requiredExponentSign, noExponentWithoutFraction := f.noExponentWithoutFraction,
    noSpecial := f.noSpecial, caseSensitiveSpecial := f.caseSensitiveSpecial,
    noIntegerLeadingZeros := f.noIntegerLeadingZeros, noFloatLeadingZeros := f.noFloatLeadingZeros,
    requiredExponentNotation := f.requiredExponentNotation, caseSensitiveExponent := f.caseSensitiveExponent,
    caseSensitiveBasePrefix := f.caseSensitiveBasePrefix, caseSensitiveBaseSuffix := f.caseSensitiveBaseSuffix,
    integerInternalSep := f.integerInternalSep, fractionInternalSep := f.fractionInternalSep,
    exponentInternalSep := f.exponentInternalSep, integerLeadingSep := f.integerLeadingSep,
    fractionLeadingSep := f.fractionLeadingSep, exponentLeadingSep := f.exponentLeadingSep,
    integerTrailingSep := f.integerTrailingSep, fractionTrailingSep := f.fractionTrailingSep,
    exponentTrailingSep := f.exponentTrailingSep, integerConsecutiveSep := f.integerConsecutiveSep,
    fractionConsecutiveSep := f.fractionConsecutiveSep, exponentConsecutiveSep := f.exponentConsecutiveSep,
    specialSep := f.specialSep }

namespace Unpacked
/-- effective exponent base / radix: "If not provided, defaults to `mantissa_radix`" -/
def exponentBase (u : Unpacked) : Nat := if u.exponentBaseRaw = 0 then u.mantissaRadix else u.exponentBaseRaw
def exponentRadix (u : Unpacked) : Nat := if u.exponentRadixRaw = 0 then u.mantissaRadix else u.exponentRadixRaw
/-- the radix whose digits a control character must avoid: digits may be written in the mantissa radix
or in the exponent radix -/
def digitRadix (u : Unpacked) : Nat := max u.mantissaRadix u.exponentRadix
end Unpacked

/-- radices supported by the enabled cargo features (`radix`: 2..=36; `power-of-two`: 2,4,8,10,16,32; else 10) -/
def RadixSupported (feats : Features) (r : Nat) : Prop :=
  if feats.radix then 2 ≤ r ∧ r ≤ 36
  else if feats.powerOfTwo then r ∈ [2, 4, 8, 10, 16, 32]
  else r = 10
instance (feats : Features) (r : Nat) : Decidable (RadixSupported feats r) := by
  unfold RadixSupported; infer_instance

/-- "valid ASCII character for float grammar": printable, or TAB/LF/VT/FF/CR; DEL and the other controls excluded -/
def ValidAscii (c : Nat) : Prop := (0x09 ≤ c ∧ c ≤ 0x0d) ∨ (0x20 ≤ c ∧ c < 0x7F)
instance (c : Nat) : Decidable (ValidAscii c) := by unfold ValidAscii; infer_instance

/-- a control character: ASCII, not a digit of the radix (either case), not a sign -/
def ControlChar (radix c : Nat) : Prop :=
  ValidAscii c ∧ digitVal radix c = none ∧ c ≠ 43 ∧ c ≠ 45
instance (radix c : Nat) : Decidable (ControlChar radix c) := by unfold ControlChar; infer_instance

/-- an *optional* control character (digit separator, base prefix, base suffix): absent (0), or a control
character; configurable only when `enabled`, otherwise it must be absent -/
def OptionalControl (enabled : Bool) (radix c : Nat) : Prop :=
  if enabled then c = 0 ∨ ControlChar radix c else c = 0
instance (e : Bool) (radix c : Nat) : Decidable (OptionalControl e radix c) := by
  unfold OptionalControl; infer_instance

/-- the present (non-zero) punctuation characters of the format are pairwise distinct -/
def PunctuationDistinct (u : Unpacked) : Prop :=
  (u.digitSeparator ≠ 0 → u.basePrefix ≠ 0 → u.digitSeparator ≠ u.basePrefix) ∧
  (u.digitSeparator ≠ 0 → u.baseSuffix ≠ 0 → u.digitSeparator ≠ u.baseSuffix) ∧
  (u.basePrefix ≠ 0 → u.baseSuffix ≠ 0 → u.basePrefix ≠ u.baseSuffix)
instance (u : Unpacked) : Decidable (PunctuationDistinct u) := by unfold PunctuationDistinct; infer_instance

/-- Without the `format` feature no syntax flag is configurable: every flag has the value
`NumberFormatBuilder::new()` gives it (required exponent digits and required mantissa digits only). -/
def FlagsAreDefault (u : Unpacked) : Prop :=
  u.requiredExponentDigits = true ∧ u.requiredMantissaDigits = true ∧
  u.requiredIntegerDigits = false ∧ u.requiredFractionDigits = false ∧
  u.noPositiveMantissaSign = false ∧ u.requiredMantissaSign = false ∧ u.noExponentNotation = false ∧
  u.noPositiveExponentSign = false ∧ u.requiredExponentSign = false ∧ u.noExponentWithoutFraction = false ∧
  u.noSpecial = false ∧ u.caseSensitiveSpecial = false ∧ u.noIntegerLeadingZeros = false ∧
  u.noFloatLeadingZeros = false ∧ u.requiredExponentNotation = false ∧ u.caseSensitiveExponent = false ∧
  u.caseSensitiveBasePrefix = false ∧ u.caseSensitiveBaseSuffix = false ∧
  u.integerInternalSep = false ∧ u.fractionInternalSep = false ∧ u.exponentInternalSep = false ∧
  u.integerLeadingSep = false ∧ u.fractionLeadingSep = false ∧ u.exponentLeadingSep = false ∧
  u.integerTrailingSep = false ∧ u.fractionTrailingSep = false ∧ u.exponentTrailingSep = false ∧
  u.integerConsecutiveSep = false ∧ u.fractionConsecutiveSep = false ∧ u.exponentConsecutiveSep = false ∧
  u.specialSep = false
instance (u : Unpacked) : Decidable (FlagsAreDefault u) := by unfold FlagsAreDefault; infer_instance

/-- exponent notation cannot be both forbidden and required -/
def ExponentFlagsOk (u : Unpacked) : Prop := ¬ (u.noExponentNotation = true ∧ u.requiredExponentNotation = true)
/-- "disabled the `+` sign while requiring a sign for significant digits" -/
def MantissaSignOk (u : Unpacked) : Prop := ¬ (u.noPositiveMantissaSign = true ∧ u.requiredMantissaSign = true)
/-- "disabled the `+` sign while requiring a sign for exponent digits" -/
def ExponentSignOk (u : Unpacked) : Prop := ¬ (u.noPositiveExponentSign = true ∧ u.requiredExponentSign = true)
/-- "special flags set while disabling special floats" -/
def SpecialOk (u : Unpacked) : Prop := u.noSpecial = true → u.caseSensitiveSpecial = false ∧ u.specialSep = false
/-- "enabled consecutive digit separators in the … without setting a valid location" -/
def IntegerConsecutiveOk (u : Unpacked) : Prop := u.integerConsecutiveSep = true →
  u.integerInternalSep = true ∨ u.integerLeadingSep = true ∨ u.integerTrailingSep = true
def FractionConsecutiveOk (u : Unpacked) : Prop := u.fractionConsecutiveSep = true →
  u.fractionInternalSep = true ∨ u.fractionLeadingSep = true ∨ u.fractionTrailingSep = true
def ExponentConsecutiveOk (u : Unpacked) : Prop := u.exponentConsecutiveSep = true →
  u.exponentInternalSep = true ∨ u.exponentLeadingSep = true ∨ u.exponentTrailingSep = true
instance (u : Unpacked) : Decidable (ExponentFlagsOk u) := by unfold ExponentFlagsOk; infer_instance
instance (u : Unpacked) : Decidable (MantissaSignOk u) := by unfold MantissaSignOk; infer_instance
instance (u : Unpacked) : Decidable (ExponentSignOk u) := by unfold ExponentSignOk; infer_instance
instance (u : Unpacked) : Decidable (SpecialOk u) := by unfold SpecialOk; infer_instance
instance (u : Unpacked) : Decidable (IntegerConsecutiveOk u) := by unfold IntegerConsecutiveOk; infer_instance
instance (u : Unpacked) : Decidable (FractionConsecutiveOk u) := by unfold FractionConsecutiveOk; infer_instance
instance (u : Unpacked) : Decidable (ExponentConsecutiveOk u) := by unfold ExponentConsecutiveOk; infer_instance

/-- **The format satisfies every documented constraint.** -/
def FormatValid (feats : Features) (u : Unpacked) : Prop :=
  -- supported radices for the enabled features
  RadixSupported feats u.mantissaRadix ∧ RadixSupported feats u.exponentBase ∧
  RadixSupported feats u.exponentRadix ∧
  -- punctuation characters: ASCII, not digits, not signs; only configurable with the right features
  OptionalControl feats.format u.digitRadix u.digitSeparator ∧
  OptionalControl (feats.format && feats.powerOfTwo) u.digitRadix u.basePrefix ∧
  OptionalControl (feats.format && feats.powerOfTwo) u.digitRadix u.baseSuffix ∧
  -- … and distinct
  PunctuationDistinct u ∧
  -- flags: no contradictory pairs; consecutive-separator flags only with a position flag;
  -- not configurable at all without `format`
  (if feats.format then
      ExponentFlagsOk u ∧ MantissaSignOk u ∧ ExponentSignOk u ∧ SpecialOk u ∧
      IntegerConsecutiveOk u ∧ FractionConsecutiveOk u ∧ ExponentConsecutiveOk u
   else FlagsAreDefault u)

/-- One check per configuration-error kind, in the declaration order of `lexical_util::Error` (the only order
the documentation gives). `InvalidFlags` exists only without the `format` feature, the flag-pair kinds only
with it. -/
def checks (feats : Features) (u : Unpacked) : List (String × Bool) :=
  [ ("InvalidMantissaRadix", decide (RadixSupported feats u.mantissaRadix)),
    ("InvalidExponentBase", decide (RadixSupported feats u.exponentBase)),
    ("InvalidExponentRadix", decide (RadixSupported feats u.exponentRadix)),
    ("InvalidDigitSeparator", decide (OptionalControl feats.format u.digitRadix u.digitSeparator)),
    ("InvalidBasePrefix", decide (OptionalControl (feats.format && feats.powerOfTwo) u.digitRadix u.basePrefix)),
    ("InvalidBaseSuffix", decide (OptionalControl (feats.format && feats.powerOfTwo) u.digitRadix u.baseSuffix)),
    ("InvalidPunctuation", decide (PunctuationDistinct u)) ] ++
  (if feats.format then
    [ ("InvalidExponentFlags", decide (ExponentFlagsOk u)),
      ("InvalidMantissaSign", decide (MantissaSignOk u)),
      ("InvalidExponentSign", decide (ExponentSignOk u)),
      ("InvalidSpecial", decide (SpecialOk u)),
      ("InvalidConsecutiveIntegerDigitSeparator", decide (IntegerConsecutiveOk u)),
      ("InvalidConsecutiveFractionDigitSeparator", decide (FractionConsecutiveOk u)),
      ("InvalidConsecutiveExponentDigitSeparator", decide (ExponentConsecutiveOk u)) ]
  else
    [ ("InvalidFlags", decide (FlagsAreDefault u)) ])

/-- the first violated constraint in the order of the `Error` enum, `"Success"` when there is none -/
def firstViolated (feats : Features) (u : Unpacked) : String :=
  match (checks feats u).find? (fun c => !c.2) with
  | some c => c.1
  | none => "Success"

/-- Documented constraint on the option characters used together with a (valid) format: decimal point and
exponent character are mandatory control characters, differ from each other and from every punctuation
character of the format ("invalid punctuation: multiple characters overlap"). -/
def OptionsPunctuationValid (feats : Features) (u : Unpacked) (exponent decimalPoint : Nat) : Prop :=
  ControlChar u.digitRadix decimalPoint ∧ ControlChar u.digitRadix exponent ∧ decimalPoint ≠ exponent ∧
  (feats.format = true →
    u.digitSeparator ≠ decimalPoint ∧ u.digitSeparator ≠ exponent ∧
    u.basePrefix ≠ decimalPoint ∧ u.basePrefix ≠ exponent ∧
    u.baseSuffix ≠ decimalPoint ∧ u.baseSuffix ≠ exponent)
instance (feats : Features) (u : Unpacked) (e d : Nat) : Decidable (OptionsPunctuationValid feats u e d) := by
  unfold OptionsPunctuationValid; infer_instance

end LexVerif.Spec
