import LexVerif.Spec.StdFloat
import LexVerif.Spec.IntType
import LexVerif.Model.Format
/-!
# Spec.Grammar — the *documented* grammar of the syntax flags (C12 / C15), separator-free inputs

Written from the documentation, not from `parse_number`:
* `lexical-util/src/format_flags.rs`: module docs (flag table, "Test Cases" 0..P) and the doc comment of every flag;
* `lexical-util/src/format_builder.rs`: the `get_*` doc comments with their "Input | Valid?" tables;
* `lexical-parse-float/src/lib.rs` / `options.rs` (special strings, JSON example).

Shape: **(a)** `split` cuts the input into components
`sign? · prefix? · integer digits · (point · fraction digits)? · (exponent char · sign? · exponent digits)? · suffix?`
with greedy digit runs (the cut is unique: punctuation characters are never digits or signs in a valid
format); **(b)** `numberOk` is the conjunction of the flag constraints, one line per flag; **(c)** the special
strings; **(d)** the value (`FloatLit`, exponent in units of the exponent base / an exact integer).

Inputs containing the format's digit-separator byte are outside this grammar (C13).

## Where the documentation is silent or contradicts itself (reading chosen = the implementation's)
* `no_exponent_without_fraction`: the flag's doc says "This only checks if a decimal point precedes the exponent
  character", the builder's table lists `1.e3` as invalid. We take the flag's own sentence (`1.e3` valid).
* `case_sensitive_special`: the builder text ("If set to true, then `NaN` and `nan` are treated as the same
  value") contradicts the name and the flag's doc ("Special (non-finite) values are case-sensitive"). Name wins.
* `required_integer_digits` ("Digits are required before the decimal point") is read as "the integer component is
  never empty", also when there is no decimal point.
* The sign flags apply to special values too (`+inf` is rejected by `no_positive_mantissa_sign`, `inf` by
  `required_mantissa_sign`); a base prefix / suffix never combines with a special value.
* `no_float_leading_zeros` / `no_integer_leading_zeros` after a base prefix (`0x01`): nothing is said; exempt.
* A base suffix comes after the exponent (test case `3.0H` has none; nothing else is said).
* With `required_mantissa_digits` off "empty strings are still invalid": read literally — only the empty
  string; a bare sign denotes a (signed) zero.
* Integers: a base prefix must be followed by a digit even when no digits are required (`0x` alone is invalid;
  for floats the implementation accepts it as zero, and so does this grammar). `required_integer_digits` /
  `required_mantissa_digits` are documented "Used For: Parse Float" only; for integers either of them makes the
  digits mandatory, and with both off a bare sign is zero.
* A string that is both a number of the format and a special string (radix ≥ 24: `nan`, radix 36: `inf`)
  is a number.

## Where the documentation decides against the implementation (findings, see Props/C12, C15)
* base prefix "will come after a leading zero … a leading `0x` will be ignored, *if present*", table: `1` valid:
  the prefix is optional, so `0`, `-0`, `0e5`, `0.` are ordinary numbers of a format with a base prefix.
* `no_float_leading_zeros` table: `01` invalid — also in a format that has a base prefix (`0012`).
* a bare `-` with no required digits is *minus* zero (C15 sign of zero).
* `required_mantissa_digits`: "empty strings are still invalid" — the implementation accepts `""` as `0`
  (floats and integers) when neither integer nor mantissa digits are required.
* base suffix "a trailing `x` will be ignored, if present" — integers of a format that also has a base prefix
  (or `no_integer_leading_zeros`) reject `0h`, `00h`: the skipped zeros are not counted as digits before the suffix.
-/
namespace LexVerif.Spec
open LexVerif.Model (Format Features)

/-- The syntax flags the parser sees. Every flag "can only be modified with feature `format`"; without it
each has the default the builder documents (only exponent digits and mantissa digits required). -/
structure Syn where
  radix : Nat
  expRadix : Nat
  reqInt : Bool := false
  reqFrac : Bool := false
  reqExp : Bool := true
  reqMant : Bool := true
  noPosMant : Bool := false
  reqMantSign : Bool := false
  noExpNot : Bool := false
  noPosExp : Bool := false
  reqExpSign : Bool := false
  noExpWoFrac : Bool := false
  noSpecial : Bool := false
  csSpecial : Bool := false
  noIntLZ : Bool := false
  noFloatLZ : Bool := false
  reqExpNot : Bool := false
  csExp : Bool := false
  csPrefix : Bool := false
  csSuffix : Bool := false
  pre : Nat := 0
  suf : Nat := 0
deriving Repr, DecidableEq

def Syn.of (feats : Features) (f : Format) : Syn :=
  if feats.format then
    { radix := f.mantissaRadix, expRadix := f.exponentRadix,
      reqInt := f.requiredIntegerDigits, reqFrac := f.requiredFractionDigits, reqExp := f.requiredExponentDigits,
      reqMant := f.requiredMantissaDigits, noPosMant := f.noPositiveMantissaSign,
      reqMantSign := f.requiredMantissaSign, noExpNot := f.noExponentNotation,
      noPosExp := f.noPositiveExponentSign, reqExpSign := f.requiredExponentSign,
      noExpWoFrac := f.noExponentWithoutFraction, noSpecial := f.noSpecial, csSpecial := f.caseSensitiveSpecial,
      noIntLZ := f.noIntegerLeadingZeros, noFloatLZ := f.noFloatLeadingZeros,
      reqExpNot := f.requiredExponentNotation, csExp := f.caseSensitiveExponent,
      csPrefix := f.caseSensitiveBasePrefix, csSuffix := f.caseSensitiveBaseSuffix,
      pre := f.basePrefix, suf := f.baseSuffix }
  else { radix := f.mantissaRadix, expRadix := f.exponentRadix }

/-- one byte against a configured character, under a case rule -/
def matchByte (cased : Bool) (want c : Nat) : Bool := if cased then c = want else eqUncased c want

/-! ## (a) the splitter -/

/-- `some true` = `-`, `some false` = `+` -/
def splitSign : List Nat → Option Bool × List Nat
  | 43 :: cs => (some false, cs)
  | 45 :: cs => (some true, cs)
  | s => (none, s)

/-- "a leading `0x` will be ignored, if present" -/
def splitPrefix (y : Syn) : List Nat → Bool × List Nat
  | 48 :: c :: cs => if y.pre ≠ 0 && matchByte y.csPrefix y.pre c then (true, cs) else (false, 48 :: c :: cs)
  | s => (false, s)

/-- `(point · fraction digits)?` -/
def splitFraction (y : Syn) (o : POpts) : List Nat → Bool × List Nat × List Nat
  | c :: cs => if c = o.dp then let (f, r) := takeDigits y.radix cs; (true, f, r) else (false, [], c :: cs)
  | [] => (false, [], [])

/-- `(exponent char · sign? · exponent digits)?` — digits in the exponent radix -/
def splitExponent (y : Syn) (o : POpts) : List Nat → Bool × Option Bool × List Nat × List Nat
  | c :: cs =>
    if matchByte y.csExp o.exp c then
      let (sg, r) := splitSign cs
      let (e, r) := takeDigits y.expRadix r
      (true, sg, e, r)
    else (false, none, [], c :: cs)
  | [] => (false, none, [], [])

/-- "a trailing `x` will be ignored, if present" -/
def splitSuffix (y : Syn) : List Nat → Bool × List Nat
  | c :: cs => if y.suf ≠ 0 && matchByte y.csSuffix y.suf c then (true, cs) else (false, c :: cs)
  | [] => (false, [])

/-- the components of a float string (digit *values*), and what is left over -/
structure Parts where
  sign : Option Bool
  pre : Bool
  ints : List Nat
  point : Bool
  fracs : List Nat
  hasExp : Bool
  expSign : Option Bool
  exps : List Nat
  suf : Bool
  rest : List Nat
deriving Repr, DecidableEq

/-- number components of the text after the mantissa sign -/
def splitNumber (y : Syn) (o : POpts) (sign : Option Bool) (s : List Nat) : Parts :=
  let (pre, r) := splitPrefix y s
  let (ints, r) := takeDigits y.radix r
  let (point, fracs, r) := splitFraction y o r
  let (hasExp, esg, exps, r) := splitExponent y o r
  let (suf, r) := splitSuffix y r
  ⟨sign, pre, ints, point, fracs, hasExp, esg, exps, suf, r⟩

/-! ## (b) flag constraints, one per documented flag -/

/-- sign rules (mantissa or exponent): "positive sign … is not allowed", "a sign symbol … is required" -/
def signOk (noPositive required : Bool) (sg : Option Bool) : Bool :=
  !(noPositive && sg == some false) && !(required && sg.isNone)

/-- "if there is 1 or more digits in the integral component and the leading digit is 0": `01`, `01.0` invalid;
`0`, `10`, `0.1` valid -/
def leadingZeros (ds : List Nat) : Bool := ds.length > 1 && ds.head? == some 0

def numberOk (y : Syn) (p : Parts) : Bool :=
  p.rest.isEmpty                                              -- the whole input is the number
  && signOk y.noPosMant y.reqMantSign p.sign                  -- no_positive_mantissa_sign, required_mantissa_sign
  && !(y.reqInt && p.ints.isEmpty)                            -- required_integer_digits
  && !(y.reqFrac && p.point && p.fracs.isEmpty)               -- required_fraction_digits (only with a point)
  && !(y.reqMant && p.ints.isEmpty && p.fracs.isEmpty)        -- required_mantissa_digits
  && !(y.noFloatLZ && !p.pre && leadingZeros p.ints)          -- no_float_leading_zeros
  && !(y.noExpNot && p.hasExp)                                -- no_exponent_notation
  && !(y.reqExpNot && !p.hasExp)                              -- required_exponent_notation
  && !(y.noExpWoFrac && p.hasExp && !p.point)                 -- no_exponent_without_fraction
  && !(p.hasExp && !signOk y.noPosExp y.reqExpSign p.expSign) -- no_positive_exponent_sign, required_exponent_sign
  && !(y.reqExp && p.hasExp && p.exps.isEmpty)                -- required_exponent_digits (only with the character)

/-! ## (d) value -/

def Parts.lit (y : Syn) (p : Parts) : FloatLit :=
  let mag : Int := ofDigits y.expRadix p.exps
  ⟨p.sign == some true, p.ints, p.fracs, if p.expSign == some true then -mag else mag⟩

/-! ## (c) special values -/

/-- whole-string equality under the case rule -/
def eqSpecial (cased : Bool) : List Nat → List Nat → Bool
  | [], [] => true
  | a :: as, b :: bs => matchByte cased b a && eqSpecial cased as bs
  | _, _ => false

def isSpecial (y : Syn) (str : Option (List Nat)) (s : List Nat) : Bool :=
  match str with
  | some t => !y.noSpecial && eqSpecial y.csSpecial s t
  | none => false

/-- special value denoted by the text after the sign: `some true` = NaN, `some false` = infinity -/
def specialOf (y : Syn) (o : POpts) (s : List Nat) : Option Bool :=
  if isSpecial y o.nan s then some true
  else if isSpecial y o.inf s || isSpecial y o.infinity s then some false
  else none

/-! ## the float grammar -/

def grammarFloatSyn (y : Syn) (o : POpts) (s : List Nat) : FRes :=
  if s.isEmpty then .err
  else
    let (sign, body) := splitSign s
    let p := splitNumber y o sign body
    if numberOk y p then .num (p.lit y) s.length
    else if signOk y.noPosMant y.reqMantSign sign then
      match specialOf y o body with
      | some true => .nan s.length
      | some false => .inf (sign == some true) s.length
      | none => .err
    else .err

/-- **The documented float grammar** (complete parse) for a format under a feature set. -/
def grammarFloatComplete (feats : Features) (f : Format) (o : POpts) (s : List Nat) : FRes :=
  grammarFloatSyn (Syn.of feats f) o s

/-! ## the integer grammar: `sign? · prefix? · digits · suffix?` -/

inductive IRes where
  | ok (v : Int)
  | err
deriving Repr, DecidableEq

def IRes.render : IRes → String
  | .ok v => s!"ok {v} -"
  | .err => "err"

/-- sign of an integer: `-` is a sign only for signed types -/
def splitIntSign (signed : Bool) : List Nat → Option Bool × List Nat
  | 43 :: cs => (some false, cs)
  | 45 :: cs => if signed then (some true, cs) else (none, 45 :: cs)
  | s => (none, s)

def grammarIntSyn (y : Syn) (t : IntTy) (s : List Nat) : IRes :=
  if s.isEmpty then .err
  else
    let (sign, body) := splitIntSign t.signed s
    let (pre, r) := splitPrefix y body
    let (ds, r) := takeDigits y.radix r
    let (_, r) := splitSuffix y r
    let ok :=
      r.isEmpty
      && signOk y.noPosMant y.reqMantSign sign
      && !((y.reqInt || y.reqMant) && ds.isEmpty)          -- some digits (both "required digits" flags)
      && !(pre && ds.isEmpty)                               -- (doc silent; implementation's reading) `0x` needs a digit
      && !(y.noIntLZ && !pre && leadingZeros ds)            -- no_integer_leading_zeros: `01` invalid, `0`, `10` valid
    let v : Int := if sign == some true then -(ofDigits y.radix ds : Int) else (ofDigits y.radix ds : Int)
    if ok && decide (t.minVal ≤ v) && decide (v ≤ t.maxVal) then .ok v else .err

def grammarIntComplete (feats : Features) (f : Format) (t : IntTy) (s : List Nat) : IRes :=
  grammarIntSyn (Syn.of feats f) t s

/-- the input does not contain the format's digit-separator byte (scope of C12) -/
def separatorFree (f : Format) (s : List Nat) : Bool :=
  f.digitSeparator = 0 || !s.contains f.digitSeparator

end LexVerif.Spec
