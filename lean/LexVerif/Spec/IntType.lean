/-! # Spec.IntType — the 12 integer types as (bits, signed). `usize/isize` are 64-bit (target assumption). -/
namespace LexVerif.Spec

structure IntTy where
  bits : Nat
  signed : Bool
deriving DecidableEq, Repr

def IntTy.ofName : String → Option IntTy
  | "u8" => some ⟨8, false⟩ | "u16" => some ⟨16, false⟩ | "u32" => some ⟨32, false⟩
  | "u64" => some ⟨64, false⟩ | "u128" => some ⟨128, false⟩ | "usize" => some ⟨64, false⟩
  | "i8" => some ⟨8, true⟩ | "i16" => some ⟨16, true⟩ | "i32" => some ⟨32, true⟩
  | "i64" => some ⟨64, true⟩ | "i128" => some ⟨128, true⟩ | "isize" => some ⟨64, true⟩
  | _ => none

/-- Largest magnitude representable with the given sign. -/
def IntTy.maxMag (t : IntTy) (neg : Bool) : Nat :=
  if t.signed then (if neg then 2 ^ (t.bits - 1) else 2 ^ (t.bits - 1) - 1) else (if neg then 0 else 2 ^ t.bits - 1)

def IntTy.maxVal (t : IntTy) : Int := (t.maxMag false : Nat)
def IntTy.minVal (t : IntTy) : Int := -((t.maxMag true : Nat) : Int)
def IntTy.inRange (t : IntTy) (v : Int) : Prop := t.minVal ≤ v ∧ v ≤ t.maxVal

end LexVerif.Spec
