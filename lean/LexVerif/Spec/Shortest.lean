import LexVerif.Spec.Float
/-!
# Spec.Shortest — C02's specification by exact interval arithmetic (Steele–White style)

For a finite, positive, non-zero float `f = m·2^e` the *rounding interval* `I` is the set of reals that
`roundNE` maps to `f`: `[ (pred+f)/2 , (f+succ)/2 ]`, endpoints included iff `m` is even (ties-to-even).
`shortest f` returns every `(D, E)` such that `D·10^E ∈ I`, `E` is maximal (fewest significant digits)
and `D` is closest to the true value — one pair, or two when the true value is exactly half-way
between two candidates.
-/
namespace LexVerif.Spec

/-- All quantities in units of `2^(e-2)`: `v = 4m`, `hi = 4m+2`, `lo = 4m-2` (or `4m-1` at a binade
boundary, where the gap below is half the gap above). -/
structure Interval where
  v : Nat
  lo : Nat
  hi : Nat
  e2 : Int       -- the unit is 2^e2
  incl : Bool
deriving Repr

def interval (f : Fmt) (bits : Nat) : Interval :=
  let d := f.decode bits
  let boundary := d.m = 2 ^ (f.p - 1) ∧ f.expField bits > 1
  { v := 4 * d.m, lo := if boundary then 4 * d.m - 1 else 4 * d.m - 2, hi := 4 * d.m + 2,
    e2 := d.e - 2, incl := d.m % 2 = 0 }

/-- `(P, Q)` with `D·10^E ⋛ N·2^e2  ⇔  D·P ⋛ N·Q`. -/
def scalePQ (e2 E : Int) : Nat × Nat :=
  let (an, ad) : Nat × Nat := if e2 ≥ 0 then (2 ^ e2.toNat, 1) else (1, 2 ^ (-e2).toNat)
  let (tn, td) : Nat × Nat := if E ≥ 0 then (10 ^ E.toNat, 1) else (1, 10 ^ (-E).toNat)
  (tn * ad, an * td)

/-- Integers `D` with `D·10^E ∈ I`: the closed range `[dlo, dhi]` (empty when `dlo > dhi`). -/
def candRange (iv : Interval) (E : Int) : Nat × Nat :=
  let (P, Q) := scalePQ iv.e2 E
  let loN := iv.lo * Q
  let hiN := iv.hi * Q
  let dlo0 := (loN + P - 1) / P
  let dlo := if ¬ iv.incl ∧ loN % P = 0 then dlo0 + 1 else dlo0
  let dhi0 := hiN / P
  let dhi := if ¬ iv.incl ∧ hiN % P = 0 then dhi0 - 1 else dhi0   -- hiN > 0 so dhi0 ≥ 1 when exact
  (max dlo 1, dhi)

/-- closest candidate(s) to `v` inside `[dlo, dhi]` at scale `E` -/
def closestIn (iv : Interval) (E : Int) (dlo dhi : Nat) : List Nat :=
  let (P, Q) := scalePQ iv.e2 E
  let vN := iv.v * Q
  let d1 := vN / P
  let r := vN % P
  let c : List Nat := if 2 * r < P then [d1] else if 2 * r > P then [d1 + 1] else [d1, d1 + 1]
  let c := c.filter (fun d => dlo ≤ d ∧ d ≤ dhi)
  if c.isEmpty then (if d1 < dlo then [dlo] else [dhi]) else c

/-- search downward from an upper bound on `⌊log10 hi⌋`; `fuel` bounds the number of steps -/
def shortestGo (iv : Interval) : Nat → Int → List (Nat × Int)
  | 0, _ => []
  | fuel + 1, E =>
    let (dlo, dhi) := candRange iv E
    if dlo ≤ dhi then (closestIn iv E dlo dhi).map (fun d => (d, E)) else shortestGo iv fuel (E - 1)

def shortest (f : Fmt) (bits : Nat) : List (Nat × Int) :=
  let iv := interval f bits
  -- hi·2^e2 < 2^(bitlen hi + e2)  ⇒  log10 < (bitlen hi + e2)·0.30103 + 1
  let up : Int := ((bitlen iv.hi : Int) + iv.e2) * 30103 / 100000 + 2
  shortestGo iv 420 up

/-- decimal digits of `D` -/
def decDigits (n : Nat) : List Nat := (Nat.toDigits 10 n).map (fun c => c.toNat - 48)

end LexVerif.Spec
