import LexVerif.Spec.Float
/-!
# Spec.PowerTables — mathematical closed forms of the pre-computed tables of the string→float side

Everything here is declarative `Nat`/`Int` arithmetic; the table theorems
(`LexVerif/Proof/Tables/*`, restated in `Props/TablesParse.lean`) say that what the compiled crate
contains (`Gen.*`) equals these closed forms on every row.
-/
namespace LexVerif.Spec.PowerTables
open LexVerif.Spec

/-- `⌈log2 n⌉` for `n ≥ 1` -/
def clog2 (n : Nat) : Nat := if n ≤ 1 then 0 else Nat.log2 (n - 1) + 1

/-- positive `n` scaled by a power of two to exactly `bits` bits, truncating -/
def normTrunc (bits n : Nat) : Nat :=
  if bitlen n ≤ bits then n * 2 ^ (bits - bitlen n) else n / 2 ^ (bitlen n - bits)

/-- The Eisel–Lemire 128-bit approximation of `5^q`:
`q ≥ 0`: `5^q` normalised to 128 bits (truncated);
`q < 0`, `e = −q`, `z = ⌈log2 5^e⌉`: `⌊2^(z+127)/5^e⌋ + 1` if `e ≤ 27`, else
`⌊2^(2z+128)/5^e⌋ + 1` truncated to 128 bits (fast_float `table_generation.py`). -/
def lemireRow (q : Int) : Nat :=
  if q < 0 then
    let e := (-q).toNat
    let p := 5 ^ e
    let z := clog2 p
    if e ≤ 27 then 2 ^ (z + 127) / p + 1 else normTrunc 128 (2 ^ (2 * z + 128) / p + 1)
  else normTrunc 128 (5 ^ q.toNat)

/-- exact `⌊log2 (b^q)⌋ = ⌊q · log2 b⌋` for `b ≥ 2`, any integer `q` -/
def floorLog2Pow (b : Nat) (q : Int) : Int :=
  if q ≥ 0 then (Nat.log2 (b ^ q.toNat) : Int) else ilog2Q 1 (b ^ (-q).toNat)

/-- `e = ⌊log2 (num/den)⌋`, i.e. `2^e ≤ num/den < 2^(e+1)` (no search: two comparisons) -/
def isFloorLog2Q (num den : Nat) (e : Int) : Bool :=
  if e ≥ 0 then den * 2 ^ e.toNat ≤ num && num < den * 2 ^ (e.toNat + 1)
  else den ≤ num * 2 ^ (-e).toNat && num * 2 ^ (-e).toNat < 2 * den

/-- value of a little-endian limb list -/
def limbsVal (bits : Nat) (limbs : List Nat) : Nat :=
  limbs.foldr (fun l acc => l + 2 ^ bits * acc) 0

/-- 2-adic valuation of a radix `≤ 64` -/
def val2 (r : Nat) : Nat :=
  (List.range 6).foldl (fun s _ => if r % 2 ^ (s + 1) = 0 then s + 1 else s) 0
def oddPart (r : Nat) : Nat := r / 2 ^ val2 r
def isPow2 (r : Nat) : Bool := oddPart r == 1

/-- the rational `r^k` for an integer `k`, as `(num, den)` -/
def powQ (r : Nat) (k : Int) : Nat × Nat :=
  if k ≥ 0 then (r ^ k.toNat, 1) else (1, r ^ (-k).toNat)

/-- `num/den > 0` as a normalised 64-bit extended float, mantissa **truncated**:
`(m, e)` with `2^63 ≤ m < 2^64` and `m·2^e ≤ num/den < (m+1)·2^e` -/
def extTrunc (num den : Nat) : Nat × Int :=
  let e := ilog2Q num den
  let sh : Int := 63 - e
  (if sh ≥ 0 then num * 2 ^ sh.toNat / den else num / (den * 2 ^ (-sh).toNat), e - 63)

/-- same, mantissa rounded to **nearest** (ties to even), renormalised on carry -/
def extNearest (num den : Nat) : Nat × Int :=
  let e := ilog2Q num den
  let sh : Int := 63 - e
  let (n2, d2) := if sh ≥ 0 then (num * 2 ^ sh.toNat, den) else (num, den * 2 ^ (-sh).toNat)
  let q := n2 / d2
  let rem := n2 % d2
  let q := if 2 * rem > d2 ∨ (2 * rem = d2 ∧ q % 2 = 1) then q + 1 else q
  if q = 2 ^ 64 then (2 ^ 63, e - 62) else (q, e - 63)

/-- The float whose bit pattern is `bits` has exactly the value `n` -/
def exactlyRepr (f : Fmt) (bits n : Nat) : Bool :=
  let fr := (f.decode bits).toFrac
  !f.isSpecial bits && !f.isNeg bits && fr.1 == n * fr.2

/-- Every midpoint between two adjacent floats of format `f` has at most `d` significant base-`r` digits
(`r` even, not a power of two). The midpoints are `m·2^(−k)`, `m < 2^(p+1)` odd, `1 ≤ k ≤ K = 1 − eminLsb`
(larger midpoints are integers·2^(−k) with smaller `k`). With `s = val2 r`, `o = oddPart r`,
`j = ⌈k/s⌉`, the digit string of `m·2^(−k)` is that of the integer `m·2^(sj−k)·o^j` (which is not
divisible by `r`, so nothing is stripped), and that integer is largest for `m = 2^(p+1) − 1`.
Hence: `∀ k ∈ [1,K], (2^(p+1) − 1)·2^(sj−k)·o^j < r^d`. -/
def midpointDigitsLe (f : Fmt) (r d : Nat) : Bool :=
  let s := val2 r
  let o := oddPart r
  let K := (1 - f.eminLsb).toNat
  (List.range K).all fun k0 =>
    let k := k0 + 1
    let j := (k + s - 1) / s
    (2 ^ (f.p + 1) - 1) * 2 ^ (s * j - k) * o ^ j < r ^ d

/-- `d` is the value of the formula quoted in limits.rs (Handbook of Floating-Point Arithmetic) plus the
`+ 2` of its generator: `−emin + p + ⌊(emin+1)·log_b 2 − log_b(1 − 2^(−p))⌋ + 2`. The floor equals `−k`
for the least `k` with `b^k · 2^(emin+1+p) ≥ 2^p − 1` (`emin = 1 − bias`), so with
`k = −emin + p + 2 − d` the claim is `b^(k−1) < (2^p − 1)·2^(−(emin+1+p)) ≤ b^k`. -/
def maxDigitsDocOk (f : Fmt) (b d : Nat) : Bool :=
  let negEmin := f.bias - 1
  let bound := (2 ^ f.p - 1) * 2 ^ (negEmin - 1 - f.p)
  let k := negEmin + f.p + 2 - d
  d ≤ negEmin + f.p + 1 && b ^ (k - 1) < bound && bound ≤ b ^ k

theorem all_range {n : Nat} {p : Nat → Bool} (h : (List.range n).all p = true) :
    ∀ i, i < n → p i = true := by
  intro i hi
  exact (List.all_eq_true.mp h) i (List.mem_range.mpr hi)

end LexVerif.Spec.PowerTables
