import LexVerif.Spec.Numeral
import LexVerif.Spec.IntType
/-!
# Spec.ParseInt — C04's specification: the left-to-right scan

`parseInt ty r partial s` is what the property statement says in words:
optional sign ('-' only meaningful for signed types), then digits; `Empty` when no digit follows the
optional sign, `InvalidDigit` at the first non-digit (complete parser), the partial parser stops there;
`Overflow/Underflow` at the first digit where the exact accumulated value leaves the type's range.
No wrapping arithmetic anywhere: the accumulator is an unbounded `Nat`.
-/
namespace LexVerif.Spec

inductive PRes where
  | ok (v : Int) (n : Nat)        -- value, consumed count
  | empty (i : Nat)
  | invalidDigit (i : Nat)
  | overflow (i : Nat)
  | underflow (i : Nat)
  | invalidNegativeSign (i : Nat)
deriving DecidableEq, Repr

/-- Scan digits from position `i`; `acc` is the exact magnitude so far. -/
def scanDigits (r maxMag : Nat) (neg partial_ : Bool) : List Nat → Nat → Nat → PRes
  | [], acc, i => .ok (if neg then -(acc : Int) else acc) i
  | c :: cs, acc, i =>
    match digitVal r c with
    | none => if partial_ then .ok (if neg then -(acc : Int) else acc) i else .invalidDigit i
    | some d =>
      if acc * r + d > maxMag then (if neg then .underflow i else .overflow i)
      else scanDigits r maxMag neg partial_ cs (acc * r + d) (i + 1)

/-- C04 specification for the format-free grammar `[+-]digits`.
A leading '+' is always a sign; a leading '-' is a sign only for signed types (for an unsigned type it
is simply a byte that is not a digit, met at index 0). `Empty` exactly when the input ends right
after the optional sign. -/
def parseInt (t : IntTy) (r : Nat) (partial_ : Bool) (s : List Nat) : PRes :=
  let (neg, rest, i) : Bool × List Nat × Nat :=
    match s with
    | 43 :: cs => (false, cs, 1)
    | 45 :: cs => if t.signed then (true, cs, 1) else (false, s, 0)
    | _ => (false, s, 0)
  match rest with
  | [] => .empty i
  | _ => scanDigits r (t.maxMag neg) neg partial_ rest 0 i

/-- Canonical result line (same text the Rust harness prints). -/
def PRes.render (partial_ : Bool) : PRes → String
  | .ok v n => s!"ok {v} {if partial_ then toString n else "-"}"
  | .empty i => s!"err Empty {i}"
  | .invalidDigit i => s!"err InvalidDigit {i}"
  | .overflow i => s!"err Overflow {i}"
  | .underflow i => s!"err Underflow {i}"
  | .invalidNegativeSign i => s!"err InvalidNegativeSign {i}"

end LexVerif.Spec
