/-!
# Spec.Float — IEEE-754 binary32/binary64 as bit patterns, and exact round-to-nearest-even

`roundNE fmt num den` is *the* oracle for every string→float property (C01, C05, C08, C16, C19):
the bit pattern (sign bit clear) of the float nearest to the non-negative rational `num/den`,
ties to even, overflow to infinity, gradual underflow. Only `Nat`/`Int` arithmetic.
Sanity theorems about it live in `Proof/RoundNE.lean`.
-/
namespace LexVerif.Spec

structure Fmt where
  p : Nat      -- precision including the hidden bit (53 / 24)
  ebits : Nat  -- exponent field width (11 / 8)
deriving DecidableEq, Repr

def f64 : Fmt := ⟨53, 11⟩
def f32 : Fmt := ⟨24, 8⟩

def Fmt.ofName : String → Option Fmt
  | "f32" => some f32 | "f64" => some f64 | _ => none

def Fmt.bias (f : Fmt) : Nat := 2 ^ (f.ebits - 1) - 1
/-- exponent of the least significant bit of a subnormal (−1074 / −149) -/
def Fmt.eminLsb (f : Fmt) : Int := 1 - (f.bias : Int) - ((f.p : Int) - 1)
def Fmt.totalBits (f : Fmt) : Nat := f.p + f.ebits     -- 64 / 32
def Fmt.signBit (f : Fmt) : Nat := 2 ^ (f.totalBits - 1)
def Fmt.infBits (f : Fmt) : Nat := (2 ^ f.ebits - 1) * 2 ^ (f.p - 1)
def Fmt.maxExpField (f : Fmt) : Nat := 2 ^ f.ebits - 1

def bitlen (n : Nat) : Nat := if n = 0 then 0 else Nat.log2 n + 1

/-- exact `⌊log2 (num/den)⌋` for positive `num`, `den` -/
def ilog2Q (num den : Nat) : Int :=
  let e : Int := (bitlen num : Int) - (bitlen den : Int)
  let ok := if e ≥ 0 then den * 2 ^ e.toNat ≤ num else den ≤ num * 2 ^ (-e).toNat
  if ok then e else e - 1

/-- Round the non-negative rational `num/den` (`den > 0`) to nearest, ties to even. -/
def roundNE (f : Fmt) (num den : Nat) : Nat :=
  if num = 0 then 0 else
  let e := ilog2Q num den                          -- 2^e ≤ x < 2^(e+1)
  let lsb0 : Int := e - ((f.p : Int) - 1)
  let lsb : Int := if lsb0 < f.eminLsb then f.eminLsb else lsb0
  let (n2, d2) := if lsb ≥ 0 then (num, den * 2 ^ lsb.toNat) else (num * 2 ^ (-lsb).toNat, den)
  let q := n2 / d2
  let rem := n2 % d2
  let q := if 2 * rem > d2 ∨ (2 * rem = d2 ∧ q % 2 = 1) then q + 1 else q
  let (q, lsb) := if q = 2 ^ f.p then (2 ^ (f.p - 1), lsb + 1) else (q, lsb)
  if q < 2 ^ (f.p - 1) then q
  else
    let biased : Int := lsb + ((f.p : Int) - 1) + (f.bias : Int)
    if biased ≥ (f.maxExpField : Int) then f.infBits
    else biased.toNat * 2 ^ (f.p - 1) + (q - 2 ^ (f.p - 1))

/-- Decoded finite float: value = (-1)^sign · m · 2^e. -/
structure Dec where
  sign : Bool
  m : Nat
  e : Int
deriving Repr, DecidableEq

def Fmt.expField (f : Fmt) (bits : Nat) : Nat := (bits / 2 ^ (f.p - 1)) % 2 ^ f.ebits
def Fmt.manField (f : Fmt) (bits : Nat) : Nat := bits % 2 ^ (f.p - 1)
def Fmt.isNeg (f : Fmt) (bits : Nat) : Bool := bits / f.signBit % 2 = 1
def Fmt.isSpecial (f : Fmt) (bits : Nat) : Bool := f.expField bits = f.maxExpField
def Fmt.isNaN (f : Fmt) (bits : Nat) : Bool := f.isSpecial bits && f.manField bits ≠ 0
def Fmt.isInf (f : Fmt) (bits : Nat) : Bool := f.isSpecial bits && f.manField bits = 0

/-- Decode a finite bit pattern. -/
def Fmt.decode (f : Fmt) (bits : Nat) : Dec :=
  let ef := f.expField bits
  let mf := f.manField bits
  if ef = 0 then ⟨f.isNeg bits, mf, f.eminLsb⟩
  else ⟨f.isNeg bits, mf + 2 ^ (f.p - 1), (ef : Int) - (f.bias : Int) - ((f.p : Int) - 1)⟩

/-- `m·2^e` as a fraction `(num, den)`. -/
def Dec.toFrac (d : Dec) : Nat × Nat :=
  if d.e ≥ 0 then (d.m * 2 ^ d.e.toNat, 1) else (d.m, 2 ^ (-d.e).toNat)

/-- signed rounding: attach the sign bit -/
def roundSigned (f : Fmt) (neg : Bool) (num den : Nat) : Nat :=
  roundNE f num den + (if neg then f.signBit else 0)

/-- distance in units of the last place between two same-sign finite patterns -/
def ulpDist (a b : Nat) : Nat := if a ≥ b then a - b else b - a

def hexDigit (d : Nat) : Char := if d < 10 then Char.ofNat (48 + d) else Char.ofNat (87 + d)
def toHex (n : Nat) : String := String.ofList (Nat.toDigits 16 n)
def hexVal (c : Char) : Option Nat :=
  let n := c.toNat
  if 48 ≤ n ∧ n ≤ 57 then some (n - 48) else if 97 ≤ n ∧ n ≤ 102 then some (n - 87)
  else if 65 ≤ n ∧ n ≤ 70 then some (n - 55) else none
def ofHex (s : String) : Option Nat :=
  s.toList.foldl (fun acc c => match acc, hexVal c with
    | some a, some d => some (a * 16 + d) | _, _ => none) (some 0)
/-- hex byte string (`_` = empty) to list of byte values -/
def unhexBytes (s : String) : List Nat :=
  if s = "_" ∨ s = "-" then [] else
  let rec go : List Char → List Nat
    | a :: b :: rest => ((hexVal a).getD 0 * 16 + (hexVal b).getD 0) :: go rest
    | _ => []
  go s.toList
def hexBytes (b : List Nat) : String :=
  if b.isEmpty then "_" else String.ofList (b.flatMap fun x => [hexDigit (x / 16), hexDigit (x % 16)])

end LexVerif.Spec
