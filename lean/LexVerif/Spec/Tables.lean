import LexVerif.Spec.Numeral
/-!
# Spec.Tables — mathematical closed forms of the pre-computed tables and dispatch functions
used by the number→string writers (C02, C03, C06, C09).

Everything here is exact integer arithmetic over `Nat`/`Int`; rational comparisons are cross-multiplied.
Import-free apart from `Spec.Numeral`, executable, kernel-evaluable.
-/
namespace LexVerif.Spec.Tables

/-- numerator of `b^e` (`e : Int`) as a fraction -/
def powNum (b : Nat) (e : Int) : Nat := if 0 ≤ e then b ^ e.toNat else 1
/-- denominator of `b^e` (`e : Int`) as a fraction -/
def powDen (b : Nat) (e : Int) : Nat := if 0 ≤ e then 1 else b ^ (-e).toNat

/-- `b^k ≤ num/den` (`k : Int`), cross-multiplied. -/
def PowLeRat (b : Nat) (k : Int) (num den : Nat) : Prop :=
  powNum b k * den ≤ num * powDen b k

instance (b : Nat) (k : Int) (num den : Nat) : Decidable (PowLeRat b k num den) := by
  unfold PowLeRat; infer_instance

/-- `k = ⌊log_b (num/den)⌋`, i.e. `b^k ≤ num/den < b^(k+1)`. -/
def IsFloorLog (b num den : Nat) (k : Int) : Prop :=
  PowLeRat b k num den ∧ ¬ PowLeRat b (k + 1) num den

instance (b num den : Nat) (k : Int) : Decidable (IsFloorLog b num den k) := by
  unfold IsFloorLog; infer_instance

/-! ## the five Dragonbox logarithm approximations: what they are supposed to compute -/

/-- `⌊q·log₅2⌋ = ⌊log₅ 2^q⌋` -/
def IsFloorLog5Pow2 (q v : Int) : Prop := IsFloorLog 5 (powNum 2 q) (powDen 2 q) v
/-- `⌊q·log₁₀2⌋ = ⌊log₁₀ 2^q⌋` -/
def IsFloorLog10Pow2 (q v : Int) : Prop := IsFloorLog 10 (powNum 2 q) (powDen 2 q) v
/-- `⌊q·log₂10⌋ = ⌊log₂ 10^q⌋` -/
def IsFloorLog2Pow10 (q v : Int) : Prop := IsFloorLog 2 (powNum 10 q) (powDen 10 q) v
/-- `⌊q·log₅2 − log₅3⌋ = ⌊log₅ (2^q / 3)⌋` -/
def IsFloorLog5Pow2MinusLog5_3 (q v : Int) : Prop := IsFloorLog 5 (powNum 2 q) (3 * powDen 2 q) v
/-- `⌊q·log₁₀2 − log₁₀(4/3)⌋ = ⌊log₁₀ (3·2^q / 4)⌋` -/
def IsFloorLog10Pow2MinusLog10_4Over3 (q v : Int) : Prop :=
  IsFloorLog 10 (3 * powNum 2 q) (4 * powDen 2 q) v

instance (q v : Int) : Decidable (IsFloorLog5Pow2 q v) := by unfold IsFloorLog5Pow2; infer_instance
instance (q v : Int) : Decidable (IsFloorLog10Pow2 q v) := by unfold IsFloorLog10Pow2; infer_instance
instance (q v : Int) : Decidable (IsFloorLog2Pow10 q v) := by unfold IsFloorLog2Pow10; infer_instance
instance (q v : Int) : Decidable (IsFloorLog5Pow2MinusLog5_3 q v) := by
  unfold IsFloorLog5Pow2MinusLog5_3; infer_instance
instance (q v : Int) : Decidable (IsFloorLog10Pow2MinusLog10_4Over3 q v) := by
  unfold IsFloorLog10Pow2MinusLog10_4Over3; infer_instance

/-- `floor_log2(n)` of algorithm.rs: `⌊log₂ n⌋`, and `-1` for `n = 0`. -/
def floorLog2 (n : Nat) : Int := if n = 0 then -1 else (n.log2 : Int)

/-! ## Dragonbox caches -/

/-- number of binary digits -/
def bitLen (n : Nat) : Nat := if n = 0 then 0 else n.log2 + 1

/-- `⌈10^k⌉` normalised to exactly `bits` significant bits (the power of two is dropped):
for `k ≥ 0`, `5^k` shifted left to `bits` bits, or rounded *up* to `bits` bits when it is longer;
for `k < 0`, `⌈2^(bits-1+L) / 5^(-k)⌉` with `L` the bit length of `5^(-k)`. -/
def pow10Cache (bits : Nat) (k : Int) : Nat :=
  if 0 ≤ k then
    let p := 5 ^ k.toNat
    let l := bitLen p
    if l ≤ bits then p * 2 ^ (bits - l) else (p + 2 ^ (l - bits) - 1) / 2 ^ (l - bits)
  else
    let p := 5 ^ (-k).toNat
    let l := bitLen p
    (2 ^ (bits - 1 + l) + p - 1) / p

/-- `⌊log₂ 10^k⌋` computed exactly (`k : Int`) -/
def pow10BinExp (k : Int) : Int :=
  if 0 ≤ k then ((10 ^ k.toNat).log2 : Int) else -((bitLen (10 ^ (-k).toNat - 1) : Nat) : Int)

/-- Declarative form: `c` has exactly `bits` bits and `c = ⌈10^k / 2^e⌉`, i.e.
`(c-1)·2^e < 10^k ≤ c·2^e`. -/
def IsCeilPow10 (bits : Nat) (k e : Int) (c : Nat) : Prop :=
  2 ^ (bits - 1) ≤ c ∧ c < 2 ^ bits ∧
  powNum 10 k * powDen 2 e ≤ c * powNum 2 e * powDen 10 k ∧
  (c - 1) * powNum 2 e * powDen 10 k < powNum 10 k * powDen 2 e

instance (bits : Nat) (k e : Int) (c : Nat) : Decidable (IsCeilPow10 bits k e c) := by
  unfold IsCeilPow10; infer_instance

/-- the row `c` of a `bits`-bit cache for `10^k`: `c = ⌈10^k / 2^e⌉` with `e = ⌊log₂ 10^k⌋ - (bits - 1)`, which makes
`c` a `bits`-bit number; `e + (bits-1)` is what `floor_log2_pow10(k)` must return -/
def IsCacheRow (bits : Nat) (k : Int) (c : Nat) : Prop :=
  IsFloorLog2Pow10 k (pow10BinExp k) ∧ IsCeilPow10 bits k (pow10BinExp k - ((bits : Int) - 1)) c

instance (bits : Nat) (k : Int) (c : Nat) : Decidable (IsCacheRow bits k c) := by unfold IsCacheRow; infer_instance

/-- `-minus_k` (with `minus_k = v - kappa`) indexes a cache `[smallest, largest]` and is a documented argument
`[lo2, hi2]` of `floor_log2_pow10`, whenever the binary exponent `q` is one of a finite float `[emin, emax]` -/
def MinusKInRange (kappa smallest largest lo2 hi2 emin emax : Int) (q v : Int) : Prop :=
  emin ≤ q → q ≤ emax →
    smallest ≤ -(v - kappa) ∧ -(v - kappa) ≤ largest ∧ lo2 ≤ -(v - kappa) ∧ -(v - kappa) ≤ hi2

instance (kappa smallest largest lo2 hi2 emin emax q v : Int) :
    Decidable (MinusKInRange kappa smallest largest lo2 hi2 emin emax q v) := by
  unfold MinusKInRange; infer_instance

/-! ## Grisu cached powers -/

/-- `m·2^e` is a nearest `64`-bit normalised approximation of `10^k`:
`2^63 ≤ m < 2^64` and `|m·2^e − 10^k| ≤ 2^e / 2`. -/
def IsNearestPow10 (k e : Int) (m : Nat) : Prop :=
  let a := m * powNum 2 e * powDen 10 k      -- m·2^e, scaled
  let t := powNum 10 k * powDen 2 e          -- 10^k, scaled
  let u := powNum 2 e * powDen 10 k          -- one unit in the last place, scaled
  2 ^ 63 ≤ m ∧ m < 2 ^ 64 ∧ 2 * a ≤ 2 * t + u ∧ 2 * t ≤ 2 * a + u

instance (k e : Int) (m : Nat) : Decidable (IsNearestPow10 k e m) := by
  unfold IsNearestPow10; infer_instance

/-! ## integer writer -/

/-- number of digits of `n` in radix `r` (`1` for zero) -/
def numDigits (r n : Nat) : Nat := (Spec.toDigits r n).length

/-- entry `j` of the radix-`r` digit-pair table: the two characters of `j / 2` -/
def pairEntry (r j : Nat) : Nat :=
  Spec.digitChar (if j % 2 = 0 then j / 2 / r else j / 2 % r)

/-- the radix-`r` digit-pair table: `2·r²` bytes, entries `2i`, `2i+1` are the characters of
`i / r` and `i % r` -/
def pairTable (r : Nat) : List Nat := (List.range (2 * r * r)).map (pairEntry r)

/-- `k` is the largest exponent with `r^k ≤ n` -/
def IsMaxPow (r n k : Nat) : Prop := r ^ k ≤ n ∧ n < r ^ (k + 1)

instance (r n k : Nat) : Decidable (IsMaxPow r n k) := by unfold IsMaxPow; infer_instance

/-- row `j` of the `fast_digit_count` table (Lemire): `2^32` for `j = 0`; otherwise with `D` the number of
decimal digits of `2^j`: `(D+1)·2^32 − 10^D` while `10^D < 2^32`, else `D·2^32`. -/
def fastDigitCountRow (j : Nat) : Nat :=
  if j = 0 then 2 ^ 32
  else
    let d := numDigits 10 (2 ^ j)
    if 10 ^ d < 2 ^ 32 then (d + 1) * 2 ^ 32 - 10 ^ d else d * 2 ^ 32

/-- Granlund–Montgomery (PLDI'94, Thm 4.2) precondition for
`⌊n / d⌋ = ⌊m·n / 2^(N+ℓ)⌋` on all `n < 2^N`: `2^(N+ℓ) ≤ m·d ≤ 2^(N+ℓ) + 2^ℓ`. -/
def MulHiPre (N d m l : Nat) : Prop :=
  0 < d ∧ m < 2 ^ N ∧ 2 ^ (N + l) ≤ m * d ∧ m * d ≤ 2 ^ (N + l) + 2 ^ l

instance (N d m l : Nat) : Decidable (MulHiPre N d m l) := by unfold MulHiPre; infer_instance

/-- The identity `moderate_u128_divrem`/`fast_u128_divrem` rely on (`mulhi(n, m) >> ℓ = n / d`).
The general lemma `MulHiPre N d m l → MulHiIdentity N d m l` is proved elsewhere (C03). -/
def MulHiIdentity (N d m l : Nat) : Prop :=
  ∀ n, n < 2 ^ N → n * m / 2 ^ N / 2 ^ l = n / d

end LexVerif.Spec.Tables
