/-!
# Spec.Numeral — positional numerals (the oracle for C03/C04 and the digit part of every float property)

Import-free, executable, small enough to read in a minute.
-/
namespace LexVerif.Spec

/-- Value of an ASCII byte as a digit in *some* radix ≤ 36 (`0-9`, `A-Z`, `a-z`), radix-independent. -/
def digitVal36 (c : Nat) : Option Nat :=
  if 48 ≤ c ∧ c ≤ 57 then some (c - 48)
  else if 65 ≤ c ∧ c ≤ 90 then some (c - 55)
  else if 97 ≤ c ∧ c ≤ 122 then some (c - 87)
  else none

/-- Value of byte `c` as a digit of radix `r`, `none` when it is not one. -/
def digitVal (r : Nat) (c : Nat) : Option Nat :=
  match digitVal36 c with
  | some d => if d < r then some d else none
  | none => none

/-- The character the writers emit for digit `d < 36`: `0-9` then `A-Z`. -/
def digitChar (d : Nat) : Nat := if d < 10 then 48 + d else 55 + d

/-- Horner evaluation, most significant digit first. -/
def ofDigits (r : Nat) (ds : List Nat) : Nat := ds.foldl (fun acc d => acc * r + d) 0

/-- Canonical digits of `n` in radix `r ≥ 2`, most significant first, `[0]` for zero.
Fuel `n + 1` is always enough because `n / r < n` for `n > 0`, `r ≥ 2`. -/
def toDigitsAux (r : Nat) : Nat → Nat → List Nat → List Nat
  | 0, _, acc => acc
  | fuel + 1, n, acc =>
    if n < r then n :: acc else toDigitsAux r fuel (n / r) (n % r :: acc)

def toDigits (r n : Nat) : List Nat := toDigitsAux r (n + 1) n []

/-- Canonical numeral text of `n` in radix `r` as bytes. -/
def numeral (r n : Nat) : List Nat := (toDigits r n).map digitChar

end LexVerif.Spec
