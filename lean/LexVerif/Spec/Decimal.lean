import LexVerif.Spec.Numeral
import LexVerif.Spec.Float
/-!
# Spec.Decimal — exact value of a float literal and its correctly rounded float

`FloatLit` is the syntax-free content of an accepted literal: sign, the significant digits (integer
and fraction parts, as digit values in the mantissa radix), and the explicit exponent as an *unclamped*
`Int` in units of `expBase`. `litBits` is the property-level oracle: the IEEE bits nearest to
`± digits · radix^(-fracLen) · expBase^exp`.
-/
namespace LexVerif.Spec

structure FloatLit where
  neg : Bool
  intDigits : List Nat
  fracDigits : List Nat
  exp : Int            -- explicit exponent, in units of `expBase`
deriving Repr, DecidableEq

/-- Exact correctly-rounded bits for a literal in mantissa radix `r`, exponent base `b`.
The two short-circuits avoid astronomically large powers and are exact:
* `m ≥ 1`, `b ≥ 2`, `r ≤ 64`: `exp ≥ 1100 + 6·fracLen` ⇒ value ≥ 2^1100 ⇒ infinity;
* `m < r^n ≤ 2^(6n)`: `exp ≤ -(1200 + 6·n)` ⇒ value < 2^-1200 ⇒ rounds to zero. -/
def litBits (f : Fmt) (r b : Nat) (l : FloatLit) : Nat :=
  let ds := l.intDigits ++ l.fracDigits
  let m := ofDigits r ds
  let sgn := if l.neg then f.signBit else 0
  if m = 0 then sgn
  else
    let n := ds.length
    let fl := l.fracDigits.length
    if l.exp ≥ ((1100 + 6 * fl : Nat) : Int) then f.infBits + sgn
    else if l.exp ≤ -(((1200 + 6 * n : Nat)) : Int) then sgn
    else
      let (num, den) :=
        if l.exp ≥ 0 then (m * b ^ l.exp.toNat, r ^ fl) else (m, r ^ fl * b ^ (-l.exp).toNat)
      roundNE f num den + sgn

end LexVerif.Spec
