-- Root of the `LexVerif` library: specifications, models, proofs and property theorems.
import LexVerif.Spec.Numeral
import LexVerif.Spec.IntType
import LexVerif.Spec.ParseInt
import LexVerif.Spec.Float
import LexVerif.Spec.Decimal
import LexVerif.Spec.StdFloat
import LexVerif.Spec.Shortest
import LexVerif.Model.Format
import LexVerif.Model.WriteOpts
import LexVerif.Model.FormatDecimal
import LexVerif.Model.WriteInt
import LexVerif.Model.Ops.WriteInt
import LexVerif.Model.Iter
import LexVerif.Model.ParseNumber
import LexVerif.Model.Ops.ParseFloat
import LexVerif.Spec.Grammar
import LexVerif.Model.Ops.GrammarSpec
import LexVerif.Model.WriteFloat
import LexVerif.Model.Ops.WriteFloat
import LexVerif.Props.C09
import LexVerif.Props.C14
import LexVerif.Props.C17
import LexVerif.Props.C08Decimal
import LexVerif.Props.C08Parser
-- float-writer digit generators and power-of-two writers (dbox)
import LexVerif.Model.Dragonbox
import LexVerif.Model.Grisu
import LexVerif.Proof.DragonboxNormalSpec
import LexVerif.Proof.GrisuMain
import LexVerif.Model.WriteBinary
import LexVerif.Model.Ops.WriteAlgos
-- string→float algorithm models (fast path, Eisel–Lemire, Bellerophon, power-of-two) and their op handlers
import LexVerif.Model.Ops.ParseAlgos
import LexVerif.Model.WriteRadixInt
-- whole generic-radix float writer (radix.rs) with exact IEEE arithmetic, its `wf` handler, proofs (Props/C07)
import LexVerif.Model.WriteRadix
import LexVerif.Model.Ops.WriteRadix
import LexVerif.Proof.WriteRadixF
import LexVerif.Proof.WriteRadixInteger
import LexVerif.Proof.WriteRadixWF
import LexVerif.Proof.WriteRadixTerm
import LexVerif.Proof.WriteRadixTermInt
import LexVerif.Proof.WriteRadixFrac
import LexVerif.Proof.WriteRadixIntText
import LexVerif.Proof.WriteRadixRound
import LexVerif.Proof.WriteRadixError
import LexVerif.Proof.WriteRadixMid
import LexVerif.Proof.WriteRadixBig
import LexVerif.Proof.WriteRadixSmall
import LexVerif.Proof.WriteRadixFix
import LexVerif.Props.C14Radix
-- API-level pipeline model (fast path → moderate path → slow path) and its op handler `apf`
import LexVerif.Model.Ops.ParseFloatAlgo
-- big-integer slow path (slow.rs / bigint.rs): models, op handler, theorems
import LexVerif.Model.Ops.Slow
import LexVerif.Props.C01Slow
import LexVerif.Props.C01SlowMain
import LexVerif.Props.C01SlowDomain
import LexVerif.Props.C01Number
import LexVerif.Props.C01Trunc
import LexVerif.Props.C01Compact
import LexVerif.Props.C01Final
import LexVerif.Props.C12Sep
import LexVerif.Props.C14Pow2
