import LexVerif.Model.WriteFloat
open LexVerif.Spec LexVerif.Model LexVerif.Model.WriteFloat
open LexVerif.Model.WriteInt (Res)

namespace T
@[simp] theorem bind_ok_iff {α β} (x : Res α) (f : α → Res β) (r : β) :
    (x >>= f) = .ok r ↔ ∃ a, x = .ok a ∧ f a = .ok r := by
  cases x <;> simp [bind, Res.bind]

theorem set_ok_iff (b b' : WBuf) (i v : Nat) :
    b.set i v = .ok b' ↔ i < b.bytes.length ∧ b' = ⟨b.bytes.set i v, max b.hi (i + 1)⟩ := by
  unfold WBuf.set WBuf.len; split
  · simp [*, eq_comm]
  · simp; intros; omega
theorem get_ok_iff (b : WBuf) (i x : Nat) :
    b.get i = .ok x ↔ i < b.bytes.length ∧ x = b.bytes.getD i 0 := by
  unfold WBuf.get WBuf.len; split
  · simp [*, eq_comm]
  · simp; intros; omega
theorem blit_ok_iff (b b' : WBuf) (off : Nat) (xs : List Nat) :
    b.blit off xs = .ok b' ↔ off + xs.length ≤ b.bytes.length ∧
      b' = ⟨b.bytes.take off ++ xs ++ b.bytes.drop (off + xs.length), if xs.length = 0 then b.hi else max b.hi (off + xs.length)⟩ := by
  unfold WBuf.blit WBuf.len; split
  · simp [*, eq_comm]
  · simp; intros; omega
theorem fill_ok_iff (b b' : WBuf) (i j v : Nat) :
    b.fill i j v = .ok b' ↔ (i ≤ j ∧ j ≤ b.bytes.length) ∧
      b' = ⟨b.bytes.take i ++ List.replicate (j - i) v ++ b.bytes.drop j, if j = i then b.hi else max b.hi j⟩ := by
  unfold WBuf.fill WBuf.len; split
  · simp [*, eq_comm]
  · simp; intros; omega
theorem demand_ok_iff (b : WBuf) (k need : Nat) (u : Unit) :
    b.demand k need = .ok u ↔ k ≤ b.bytes.length ∧ need ≤ b.bytes.length - k := by
  unfold WBuf.demand WBuf.len; split
  · simp [*]
  · simp; intros; omega
theorem padZeros_ok_iff (b : WBuf) (cursor count exact : Nat) (r : Out) :
    padZeros b cursor count exact = .ok r ↔
      if count < exact then cursor + (exact - count) ≤ b.bytes.length ∧
        r = ⟨⟨b.bytes.take cursor ++ List.replicate (exact - count) 48 ++ b.bytes.drop (cursor + (exact - count)), max b.hi (cursor + (exact - count))⟩, cursor + (exact - count)⟩
      else r = ⟨b, cursor⟩ := by
  unfold padZeros
  split
  · rename_i h
    have h1 : cursor + (exact - count) - cursor = exact - count := by omega
    have h2 : ¬ (cursor + (exact - count) = cursor) := by omega
    simp only [bind_ok_iff, fill_ok_iff, Res.ok.injEq, h1, h2, if_false]
    constructor
    · rintro ⟨a, ⟨⟨_, h3⟩, rfl⟩, rfl⟩; exact ⟨h3, rfl⟩
    · rintro ⟨h3, rfl⟩; exact ⟨_, ⟨⟨by omega, h3⟩, rfl⟩, rfl⟩
  · simp [eq_comm]

@[simp] theorem chars_length (ds : List Nat) : (chars ds).length = ds.length := by simp [chars]
@[simp] theorem zeros_length (n : Nat) : (zeros n).length = n := by simp [zeros]

theorem negC_bytes (ds : List Nat) (sciExp : Int) (o : WOpts) (b : WBuf) (r : Out) (hneg : sciExp < 0)
    (h : negC ds sciExp o b = .ok r) :
    r.buf.bytes.take r.cursor = writeNegative ds sciExp { o with maxDigits := none } := by
  unfold negC at h
  simp only [bind_ok_iff, set_ok_iff, blit_ok_iff, fill_ok_iff, padZeros_ok_iff] at h
  obtain ⟨b1, ⟨h1, rfl⟩, b2, ⟨h2, rfl⟩, b3, ⟨h3, rfl⟩, b4, ⟨h4, rfl⟩, h5⟩ := h
  unfold writeNegative truncateAndRound minExactDigits
  simp only [Bool.false_eq_true, false_and, if_false] at h5 ⊢
  have hk : 1 ≤ sciExp.natAbs := by omega
  simp only [List.length_append, List.length_take, List.length_set, List.length_replicate, List.length_drop, chars_length] at h4 h5
  split at h5
  · obtain ⟨h6, rfl⟩ := h5
    rename_i hlt
    simp only [minExactDigits] at hlt
    simp only [hlt, if_true, zeros, chars]
    apply List.ext_getElem?
    intro i
    grind
  · subst h5
    rename_i hlt
    simp only [minExactDigits] at hlt
    simp only [hlt, if_false, zeros, chars]
    apply List.ext_getElem?
    intro i
    grind
end T
