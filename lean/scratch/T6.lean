import LexVerif.Proof.WriteFloatBound
open LexVerif.Spec LexVerif.Model LexVerif.Model.WriteFloat LexVerif.Proof.WriteFloatBuf LexVerif.Proof.WriteFloatBound
open LexVerif.Model.WriteInt (Res)

example (nd : Nat) (ds ds' : List Nat) (leading : Nat) (o : WOpts) (b : WBuf) (c2 : o.trim = true) (c1 : leading ≥ ds'.length)
  (h : (do
      b.demand 0 nd
      let b ← b.blit 0 (chars ds)
      let b ← b.blit 0 (chars ds')
      if leading ≥ ds'.length then do
          let b ← b.fill ds'.length leading 48
          if ¬o.trim = true then do
              let b ← b.set leading o.dp
              let b ← b.set (leading + 1) 48
              padZeros b (leading + 2) (leading + 1) 5
            else Res.ok { buf := b, cursor := leading }
        else do
          b.demand leading (ds'.length + 1 - leading)
          let b ← b.blit (leading + 1) (chars (List.drop leading ds'))
          let b ← b.set leading o.dp
          padZeros b (ds'.length + 1) ds'.length 7) =
    Res.panic) : b.len < max (max nd ds.length) (if leading ≥ ds'.length then (if o.trim = true then leading else 77) else 99) := by
  simp only [needPad, c1, c2, ↓reduceIte, not_true_eq_false, not_false_eq_true, Bool.false_eq_true] at h ⊢
  fn_simp at h
  try simp only [needPad, c1, c2, ↓reduceIte] at h
  trace_state
  omega
