import LexVerif.Proof.WriteFloatDragon
open LexVerif.Spec LexVerif.Model LexVerif.Model.WriteFloat LexVerif.Proof.WriteFloatBuf
open LexVerif.Model.WriteInt (Res)
namespace T

theorem bind_panic_iff {α β} (x : Res α) (f : α → Res β) :
    (x >>= f) = .panic ↔ x = .panic ∨ ∃ a, x = .ok a ∧ f a = .panic := by
  cases x <;> simp [bind, Res.bind]

theorem set_panic_iff (b : WBuf) (i v : Nat) : b.set i v = .panic ↔ ¬ i < b.len := by
  unfold WBuf.set; split <;> simp [*]
theorem get_panic_iff (b : WBuf) (i : Nat) : b.get i = .panic ↔ ¬ i < b.len := by
  unfold WBuf.get; split <;> simp [*]
theorem blit_panic_iff (b : WBuf) (off : Nat) (xs : List Nat) : b.blit off xs = .panic ↔ ¬ off + xs.length ≤ b.len := by
  unfold WBuf.blit; split <;> simp [*]
theorem fill_panic_iff (b : WBuf) (i j v : Nat) : b.fill i j v = .panic ↔ ¬ (i ≤ j ∧ j ≤ b.len) := by
  unfold WBuf.fill; split <;> simp [*]
theorem demand_panic_iff (b : WBuf) (k need : Nat) : b.demand k need = .panic ↔ ¬ (k ≤ b.len ∧ need ≤ b.len - k) := by
  unfold WBuf.demand; split <;> simp [*]

theorem padZeros_panic_iff (b : WBuf) (cursor count exact : Nat) :
    padZeros b cursor count exact = .panic ↔ count < exact ∧ ¬ cursor + (exact - count) ≤ b.len := by
  unfold padZeros
  split
  · simp only [bind_panic_iff, fill_panic_iff, fill_ok_iff]
    simp
    omega
  · simp [*]

theorem ex_elim {α} (p : Prop) (t : α) (q : α → Prop) : (∃ a, (p ∧ a = t) ∧ q a) ↔ p ∧ q t := by
  constructor
  · rintro ⟨a, ⟨hp, rfl⟩, hq⟩; exact ⟨hp, hq⟩
  · rintro ⟨hp, hq⟩; exact ⟨t, ⟨hp, rfl⟩, hq⟩

theorem negC_ok (ds : List Nat) (sciExp : Int) (o : WOpts) (b : WBuf) (hk : 1 ≤ sciExp.natAbs)
    (hlen : sciExp.natAbs + 1 + max ds.length (minExactDigits ds.length o) ≤ b.len) :
    negC ds sciExp o b ≠ .panic := by
  unfold negC
  generalize sciExp.natAbs = k at *
  intro h
  simp only [bind_panic_iff, set_panic_iff, set_ok_iff, blit_panic_iff, blit_ok_iff, fill_panic_iff, fill_ok_iff, padZeros_panic_iff] at h
  simp only [ex_elim, put_len, chars_length] at h
  omega
end T
