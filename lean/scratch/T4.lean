import LexVerif.Proof.WriteFloatBuf
open LexVerif.Spec LexVerif.Model LexVerif.Model.WriteFloat LexVerif.Proof.WriteFloatBuf
open LexVerif.Model.WriteInt (Res)

theorem writePositive_noMax (ds : List Nat) (e : Int) (o : WOpts) :
    writePositive ds e { o with maxDigits := none } =
      (if e.toNat + 1 ≥ ds.length then
        (if o.trim then chars ds ++ zeros (e.toNat + 1 - ds.length)
         else chars ds ++ zeros (e.toNat + 1 - ds.length) ++ [o.dp, 48] ++
           (if minExactDigits (e.toNat + 1 + 1) o > e.toNat + 1 + 1 then zeros (minExactDigits (e.toNat + 1 + 1) o - (e.toNat + 1 + 1)) else []))
      else chars (ds.take (e.toNat + 1)) ++ [o.dp] ++ chars (ds.drop (e.toNat + 1)) ++
        (if minExactDigits ds.length o > ds.length then zeros (minExactDigits ds.length o - ds.length) else [])) := rfl

example (ds : List Nat) (sciExp : Int) (o : WOpts) (b : WBuf) (r : Out) 
    (h : posC ds sciExp o b = .ok r) : True := by
  unfold posC at h
  split at h
  · trace_state
    trivial
  · trivial
