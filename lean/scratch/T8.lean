import LexVerif.Model.WriteFloat
open LexVerif.Spec LexVerif.Model LexVerif.Model.WriteFloat
#eval writeFloat {} LexVerif.Spec.f64 ⟨0xa0a0a0000000000000000000000000c⟩ { maxDigits := some 3, minDigits := some 2 } false 0x3ff3c083126e978d ([1, 2, 3, 4, 5], 0) (List.replicate 8 170)
#eval writeFloat {} LexVerif.Spec.f64 ⟨0xa0a0a0000000000000000000000000c⟩ { maxDigits := some 3, minDigits := some 2 } false 0x3ff3c083126e978d ([1, 2, 3, 4, 5], 0) (List.replicate 64 170) matches .done ⟨_, 4, 5⟩
