import LexVerif.Proof.WriteFloatBuf
open LexVerif.Spec LexVerif.Model LexVerif.Model.WriteFloat LexVerif.Proof.WriteFloatBuf
open LexVerif.Model.WriteInt (Res)
namespace T

theorem padZeros_ok_iff (b : WBuf) (cursor count exact : Nat) (r : Out) :
    padZeros b cursor count exact = .ok r ↔
      if count < exact then cursor + (exact - count) ≤ b.len ∧
        r = ⟨b.put cursor (List.replicate (exact - count) 48), cursor + (exact - count)⟩
      else r = ⟨b, cursor⟩ := by
  unfold padZeros
  split
  · have h1 : cursor + (exact - count) - cursor = exact - count := by omega
    simp only [bind_ok_iff, fill_ok_iff, Res.ok.injEq, h1]
    constructor
    · rintro ⟨a, ⟨⟨_, h3⟩, rfl⟩, rfl⟩; exact ⟨h3, rfl⟩
    · rintro ⟨h3, rfl⟩; exact ⟨_, ⟨⟨by omega, h3⟩, rfl⟩, rfl⟩
  · simp [eq_comm]

@[simp] theorem minExact_noMax (c : Nat) (o : WOpts) : minExactDigits c { o with maxDigits := none } = minExactDigits c o := rfl
@[simp] theorem tr_noMax (ds : List Nat) (o : WOpts) : truncateAndRound ds { o with maxDigits := none } = (ds, false) := rfl

theorem negC_bytes (ds : List Nat) (sciExp : Int) (o : WOpts) (b : WBuf) (r : Out) (hneg : sciExp < 0)
    (h : negC ds sciExp o b = .ok r) :
    r.buf.bytes.take r.cursor = writeNegative ds sciExp { o with maxDigits := none } := by
  unfold negC at h
  simp only [bind_ok_iff, set_ok_iff, blit_ok_iff, fill_ok_iff, padZeros_ok_iff] at h
  obtain ⟨b1, ⟨h1, rfl⟩, b2, ⟨h2, rfl⟩, b3, ⟨h3, rfl⟩, b4, ⟨h4, rfl⟩, h5⟩ := h
  simp only [put_len, put_length, WBuf.len, chars_length, List.length_replicate] at h1 h2 h3 h4 h5
  unfold writeNegative
  simp only [tr_noMax, minExact_noMax, Bool.false_eq_true, false_and, if_false]
  have hk : 1 ≤ sciExp.natAbs := by omega
  split at h5
  · obtain ⟨h6, rfl⟩ := h5
    rename_i hlt
    simp only [hlt, if_true]
    apply take_eq_of_getD
    · simp only [put_length]; exact h6
    · simp; omega
    · intro i hi
      simp only [put_getD, put_length]
      simp only [List.getD_eq_getElem?_getD]
      grind [zeros, chars]
  · subst h5
    rename_i hlt
    simp only [hlt, if_false]
    apply take_eq_of_getD
    · simp only [put_length]; omega
    · simp; omega
    · intro i hi
      simp only [put_getD, put_length]
      simp only [List.getD_eq_getElem?_getD]
      grind [zeros, chars]
end T
