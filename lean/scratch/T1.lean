import LexVerif.Model.ParseIntFormat
open LexVerif LexVerif.Model LexVerif.Spec LexVerif.Model.ParseIntFormat

def fmtSufSep : Format := ⟨0x101010687800005f000002490000000c⟩
def rf : Features := { powerOfTwo := true, radix := true, format := true }
example : parseIntFormat ⟨⟨rf, fmtSufSep, true⟩, ⟨8, false⟩, false, false⟩ [0x31, 0x68, 0x5f] = .error (.panic "step_by: on digit separator") := by decide
example : parseIntFormat ⟨⟨rf, fmtSufSep, false⟩, ⟨8, false⟩, false, false⟩ [0x31, 0x68, 0x5f] = .error (.err "InvalidDigit" 2) := by decide
