import LexVerif.Model.WriteFloat
open LexVerif.Spec LexVerif.Model LexVerif.Model.WriteFloat
open LexVerif.Model.WriteInt (Res)

theorem bind_ok {α β} (x : Res α) (f : α → Res β) (r : β) (h : (x >>= f) = .ok r) : ∃ a, x = .ok a ∧ f a = .ok r := by
  cases x with
  | ok a => exact ⟨a, rfl, h⟩
  | fault => cases h
  | panic => cases h

theorem blit_ok (b : WBuf) (off : Nat) (xs : List Nat) (b' : WBuf) (h : b.blit off xs = .ok b') :
    off + xs.length ≤ b.bytes.length ∧ b'.bytes = b.bytes.take off ++ xs ++ b.bytes.drop (off + xs.length) := by
  unfold WBuf.blit WBuf.len at h
  split at h
  · cases h; exact ⟨by assumption, rfl⟩
  · cases h

example (l xs ys : List Nat) (h : 1 + xs.length ≤ l.length) (h2 : ys.length ≤ xs.length) (hy : ys ≠ []):
   let l1 := l.take 1 ++ xs ++ l.drop (1 + xs.length)
   let l2 := l1.take 1 ++ ys ++ l1.drop (1 + ys.length)
   (l2.take (1 + ys.length)).drop 1 = ys := by
  intro l1 l2
  apply List.ext_getElem? 
  intro i
  grind
