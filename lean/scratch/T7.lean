import LexVerif.Props.C09
open LexVerif.Spec LexVerif.Model LexVerif.Model.WriteFloat LexVerif.Props.C09 LexVerif.Proof.WriteFloatBound

def fmt10 : Format := ⟨0xa0a0a0000000000000000000000000c⟩
def o1 : WOpts := { maxDigits := some 10, negBreak := some (-100) }

example : bufferSizeConst {} LexVerif.Spec.f64 fmt10 o1 = 112 := by decide +kernel
example : FormatError.isValid {} fmt10.raw = true := by decide +kernel
example : writeFloat {} LexVerif.Spec.f64 fmt10 o1 false 0x2b2bff2ee48e0530 ([1], -100) (List.replicate 112 170) = .panic := by
  decide +kernel
