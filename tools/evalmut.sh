#!/bin/sh
# usage: tools/evalmut.sh <patch.diff> <prop> [<prop>...]   — evaluate a seeded mutant in scratch worktrees
# (/tmp/mrepo = worktree of /repo HEAD with the patch applied; /tmp/vmut = worktree of /verif HEAD)
set -e
PATCH="$1"; shift
[ -d /tmp/mrepo ] || git -C /repo worktree add -q --detach /tmp/mrepo HEAD
git -C /tmp/mrepo checkout -q -- . && git -C /tmp/mrepo clean -fdq -e target
git -C /tmp/mrepo checkout -q --detach "$(git -C /repo rev-parse HEAD)"
git -C /tmp/mrepo apply "$PATCH"
[ -d /tmp/vmut ] || git -C /verif worktree add -q --detach /tmp/vmut HEAD
git -C /tmp/vmut checkout -q -- .
git -C /tmp/vmut checkout -q --detach "$(git -C /verif rev-parse HEAD)"
cd /tmp/vmut
for P in "$@"; do
  echo "== $P on $(basename $(dirname $PATCH))"
  VERIF_REPO=/tmp/mrepo ./check "$P" quick 2>&1 | grep -E "^VIOLATION|^KNOWN|^check |^BROKEN" | cut -c1-300
done
git -C /tmp/mrepo checkout -q -- .
