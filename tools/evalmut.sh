#!/bin/sh
# usage: [K=<n>] tools/evalmut.sh <patch.diff> <prop> [<prop>...]   — evaluate a seeded mutant in scratch worktrees
# (/tmp/mrepo$K = worktree of /repo HEAD with the patch applied; /tmp/vmut$K = worktree of /verif HEAD);
# several instances with different K can run in parallel
set -e
PATCH="$1"; shift
MR=/tmp/mrepo$K; VM=/tmp/vmut$K
[ -d $MR ] || git -C /repo worktree add -q --detach $MR HEAD
git -C $MR checkout -q -- . && git -C $MR clean -fdq -e target
git -C $MR checkout -q --detach "$(git -C /repo rev-parse HEAD)"
git -C $MR apply "$PATCH"
[ -d $VM ] || git -C /verif worktree add -q --detach $VM HEAD
git -C $VM checkout -q -- .
git -C $VM checkout -q --detach "$(git -C /verif rev-parse HEAD)"
cd $VM
for P in "$@"; do
  echo "== $P on $(basename $(dirname $PATCH))"
  VERIF_REPO=$MR ./check "$P" quick 2>&1 | grep -E "^VIOLATION|^KNOWN|^check |^BROKEN" | cut -c1-300
done
git -C $MR checkout -q -- .
