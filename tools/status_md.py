#!/usr/bin/env python3
"""regenerate the list of full statements (every `def X : Prop` in Props/*.lean) with their status — proved (some theorem
has type `X`), refuted (some theorem has type `¬ X`), open — between STATUS-BEGIN / STATUS-END in DESIGN.md"""
import glob, os, re
ROOT = os.path.dirname(os.path.dirname(os.path.abspath(__file__)))
P = os.path.join(ROOT, "lean", "LexVerif", "Props")
src = {}
for f in sorted(glob.glob(P + "/*.lean")):
    src[os.path.basename(f)[:-5]] = open(f).read()
alltext = "\n".join(src.values())
rows = []
SKIP = re.compile(r"^(Is[A-Z]|RatEq|Inv$|StdFmt|ExpInRange|SepPrefixFree|RescanSafe|WriteNumericValid|IntPowStmt|NegFit|SlowDomain)")
for mod, s in src.items():
    for m in re.finditer(r"^def ([A-Za-z0-9_]+)((?: *\([^)]*\))*) *: Prop *:=", s, re.M):
        name = m.group(1)
        if SKIP.match(name) or m.group(2).strip():
            continue
        proved = re.findall(r"theorem ([A-Za-z0-9_]+)[^\n:]*: *(?:[A-Za-z0-9_.]*\.)?%s *:=" % re.escape(name), alltext)
        refuted = re.findall(r"theorem ([A-Za-z0-9_]+)[^\n:]*: *¬ *(?:[A-Za-z0-9_.]*\.)?%s *:=" % re.escape(name), alltext)
        if proved:
            st = "proved: `%s`" % proved[0]
        elif refuted:
            st = "refuted (decided counter-example): `%s`" % refuted[0]
        else:
            st = "OPEN"
        rows.append((mod, name, st))
text = "| module | full statement | status |\n|---|---|---|\n" + "\n".join("| Props/%s | `%s` | %s |" % r for r in rows)
p = os.path.join(ROOT, "DESIGN.md")
s = open(p).read()
b, e = "<!-- STATUS-BEGIN -->", "<!-- STATUS-END -->"
if b in s:
    s = s[:s.index(b) + len(b)] + "\n" + text + "\n" + s[s.index(e):]
    open(p, "w").write(s)
    print("DESIGN.md updated: %d statements, %d open" % (len(rows), sum(1 for r in rows if r[2] == "OPEN")))
else:
    print(text)
