#!/usr/bin/env python3
"""Writes harness/formats.txt: the FORMAT constants instantiated (const generics) in the harness.
Each line: <I|F|B> <hex u128> <name>. Generators (gens.py / fmtlib.py) only use formats listed here.
Per-property catalogues `fmtcat_*.py` (each with `extra_formats()`) are appended."""
import glob, importlib, os, sys
ROOT = os.path.dirname(os.path.dirname(os.path.abspath(__file__)))
sys.path.insert(0, ROOT)
import fmtlib

formats = list(fmtlib.all_formats())
for p in sorted(glob.glob(os.path.join(ROOT, "fmtcat_*.py"))):
    formats += importlib.import_module(os.path.basename(p)[:-3]).extra_formats()
lines = []
seen = set()
for kind, val, name in formats:
    key = (kind, val)
    if key in seen:
        continue
    seen.add(key)
    lines.append("%s %x %s" % (kind, val, name))
open(os.path.join(ROOT, "harness", "formats.txt"), "w").write("\n".join(lines) + "\n")
print(len(lines), "formats")
