#!/usr/bin/env python3
"""Writes harness/formats.txt: the FORMAT constants instantiated (const generics) in the harness.
Each line: <I|F|B> <hex u128> <name>. Generators (gens.py / fmtlib.py) only use formats listed here."""
import os, sys
sys.path.insert(0, os.path.dirname(os.path.dirname(os.path.abspath(__file__))))
import fmtlib

lines = []
seen = set()
for kind, val, name in fmtlib.all_formats():
    key = (kind, val)
    if key in seen:
        continue
    seen.add(key)
    lines.append("%s %x %s" % (kind, val, name))
open(os.path.join(os.path.dirname(os.path.dirname(os.path.abspath(__file__))), "harness", "formats.txt"), "w").write("\n".join(lines) + "\n")
print(len(lines), "formats")
