#!/usr/bin/env python3
"""Writes harness/formats-<group>.txt: the FORMAT constants instantiated (const generics) in the harness,
one file per *format group* so that each harness binary compiles a bounded number of monomorphisations.
Each line: <I|F|B> <hex u128> <name>. (harness/formats.txt = group `base`, the default of build.rs.)
Per-property catalogues `fmtcat_*.py` (each with `extra_formats()`) are assigned to groups below; a property
module names its group with FORMAT_GROUP (default "base")."""
import importlib, os, sys
ROOT = os.path.dirname(os.path.dirname(os.path.abspath(__file__)))
sys.path.insert(0, ROOT)
import fmtlib

GROUPS = {
    "base": ["fmtcat_main", "fmtcat_c18", "fmtcat_wfmt", "fmtcat_rt"],
    "syntax": ["fmtcat_main", "fmtcat_pnum", "fmtcat_grammar", "fmtcat_intfmt"],
    "total": ["fmtcat_pnum", "fmtcat_total", "fmtcat_dbg", "fmtcat_c18"],
    "sep": ["fmtcat_sep"],
}


def write_group(group, cats):
    formats = list(fmtlib.all_formats())
    for c in cats:
        try:
            formats += importlib.import_module(c).extra_formats()
        except ImportError:
            pass
    lines, seen = [], set()
    for kind, val, name in formats:
        key = (kind, val)
        if key in seen:
            continue
        seen.add(key)
        lines.append("%s %x %s" % (kind, val, name))
    fn = "formats.txt" if group == "base" else "formats-%s.txt" % group
    open(os.path.join(ROOT, "harness", fn), "w").write("\n".join(lines) + "\n")
    print(group, len(lines), "formats")


for g, cats in GROUPS.items():
    write_group(g, cats)
