#!/usr/bin/env python3
"""regenerate the findings tables of DESIGN.md (between the FINDINGS-BEGIN / FINDINGS-END markers) from known_findings.json"""
import json, os, re, subprocess
ROOT = os.path.dirname(os.path.dirname(os.path.abspath(__file__)))
k = json.load(open(os.path.join(ROOT, "known_findings.json")))


def short(s, n=230):
    s = re.sub(r"^fixed: property=\S+ \S+ ", "", s)
    return s if len(s) <= n else s[:n - 1].rstrip() + "…"


out = []
fixed = [f for f in k["findings"] if f["status"] == "fixed"]
opened = [f for f in k["findings"] if f["status"] != "fixed"]
out.append("**Repaired in /repo (%d `fix:` commits, oldest first; each entry is `fixed` in `known_findings.json` and suppresses nothing).**\n" %
           len({f["commit"] for f in fixed}))
out.append("| commit | property | what failed |")
out.append("|---|---|---|")
order = subprocess.run(["git", "-C", "/repo", "log", "--reverse", "--format=%h"], capture_output=True, text=True).stdout.split()
pos = {c[:7]: i for i, c in enumerate(order)}
for f in sorted(fixed, key=lambda f: (pos.get(f["commit"][:7], 999), f["property"])):
    out.append("| %s | %s | %s |" % (f["commit"], f["property"], short(f["what"]).replace("|", "\\|")))
out.append("")
out.append("**Recorded as open findings (%d entries, %d root causes; the check prints `KNOWN-FINDING` and exits 0 for exactly these classes).**\n" %
           (len(opened), len({re.sub(r'^C\d\d-(dbg-)?', '', f['id']) for f in opened})))
out.append("| id | what fails | replay op (feature set) |")
out.append("|---|---|---|")
for f in sorted(opened, key=lambda f: f["id"]):
    r = f.get("replay", {})
    out.append("| %s | %s | `%s` (%s) |" % (f["id"], short(f["what"]).replace("|", "\\|"), r.get("op", "-")[:110], r.get("featureset", "-")))
text = "\n".join(out)
p = os.path.join(ROOT, "DESIGN.md")
s = open(p).read()
b, e = "<!-- FINDINGS-BEGIN -->", "<!-- FINDINGS-END -->"
if b in s:
    s = s[:s.index(b) + len(b)] + "\n" + text + "\n" + s[s.index(e):]
    open(p, "w").write(s)
    print("DESIGN.md updated: %d fixed, %d open" % (len(fixed), len(opened)))
else:
    print(text)
