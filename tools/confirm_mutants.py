#!/usr/bin/env python3
"""Re-confirm every seeded mutant in a scratch worktree of /repo (never in /repo itself):
 (a) patch applies to /repo HEAD, (b) the default-feature test suite passes with it, (c) the demonstration fails with
 it and passes without it. Results are written into seeded/<id>/meta.json under "confirmed"."""
import glob, json, os, re, subprocess, sys, time
ROOT = os.path.dirname(os.path.dirname(os.path.abspath(__file__)))
K = os.environ.get("K", "")
W = "/tmp/mconf" + K
ENV = dict(os.environ, CARGO_NET_OFFLINE="true", CARGO_TARGET_DIR="/tmp/mconf-target" + K)


def sh(cmd, cwd=None, timeout=3600):
    p = subprocess.run(cmd, cwd=cwd, shell=isinstance(cmd, str), stdout=subprocess.PIPE, stderr=subprocess.STDOUT, env=ENV, timeout=timeout)
    return p.returncode, p.stdout.decode("utf-8", "replace")


def main():
    only = sys.argv[1:]
    if not os.path.isdir(W):
        sh(["git", "-C", "/repo", "worktree", "add", "--detach", W, "HEAD"])
    head = sh(["git", "-C", "/repo", "rev-parse", "HEAD"])[1].strip()
    for d in sorted(glob.glob(os.path.join(ROOT, "seeded", "C*-*"))):
        mid = os.path.basename(d)
        if only and mid not in only:
            continue
        meta_p = os.path.join(d, "meta.json")
        meta = json.load(open(meta_p)) if os.path.exists(meta_p) else {}
        if meta.get("confirmed", {}).get("repo_head") == head and not only:
            continue
        sh(["git", "-C", W, "checkout", "-q", "--detach", head])
        sh(["git", "-C", W, "checkout", "-q", "--", "."])
        res = {"repo_head": head, "at": time.strftime("%Y-%m-%dT%H:%M:%SZ", time.gmtime())}
        rc, out = sh(["git", "-C", W, "apply", "--check", os.path.join(d, "patch.diff")])
        res["applies"] = rc == 0
        demo = os.path.join(d, "demo")
        def run_demo():
            if not os.path.isdir(demo):
                return None, "no demo directory"
            tmp = "/tmp/mconf-demo" + K
            sh("rm -rf %s && cp -r %s %s" % (tmp, demo, tmp))
            for fn in glob.glob(tmp + "/**/Cargo.toml", recursive=True):
                s = open(fn).read()
                s = re.sub(r"/tmp/mut-C[0-9]+b?", W, s)
                s = re.sub(r'path\s*=\s*"(\.\./)+', 'path = "%s/' % W, s)
                open(fn, "w").write(s)
            sh("rm -f %s/Cargo.lock" % tmp)
            rc, out = sh("cargo run --offline --release 2>&1 || true; echo RC=$?", cwd=tmp, timeout=1800)
            rc2, out2 = sh("cargo run --offline --release >/dev/null 2>&1; echo $?", cwd=tmp, timeout=1800)
            return int(out2.strip().split("\n")[-1]), out[-400:]
        if res["applies"]:
            sh(["git", "-C", W, "apply", os.path.join(d, "patch.diff")])
            rc, out = sh("cargo test --workspace --no-fail-fast --offline 2>&1 | grep -E '^test result|FAILED|error(\\[|:)' | tail -100", cwd=W, timeout=3600)
            passed = sum(int(m) for m in re.findall(r"ok\. (\d+) passed", out))
            failed = sum(int(m) for m in re.findall(r"(\d+) failed", out))
            res["suite_with_mutant"] = {"passed": passed, "failed": failed, "ok": failed == 0 and passed > 300 and "error" not in out}
            rcm, tail = run_demo()
            res["demo_with_mutant_exit"] = rcm
            sh(["git", "-C", W, "checkout", "-q", "--", "."])
            rcc, tail2 = run_demo()
            res["demo_clean_exit"] = rcc
            res["demo_ok"] = (rcm not in (0, None)) and rcc == 0
        meta["confirmed"] = res
        json.dump(meta, open(meta_p, "w"), indent=1)
        print(mid, json.dumps(res))
        sys.stdout.flush()


if __name__ == "__main__":
    main()
