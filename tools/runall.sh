#!/bin/sh
# usage: tools/runall.sh [seed] [tier]  — run every registered check, print one summary line each
cd "$(dirname "$0")/.."
SEED=${1:-1}; TIER=${2:-quick}
for f in props/C[0-9][0-9].py; do
  p=$(basename $f .py)
  VERIF_SEED=$SEED ./check $p $TIER 2>&1 | grep -E "^VIOLATION|^KNOWN|^check |^BROKEN" | cut -c1-220
done
