#!/usr/bin/env python3
"""regenerate the seeded-change table of DESIGN.md (between SEEDED-BEGIN / SEEDED-END) from seeded/*/meta.json"""
import glob, json, os, re
ROOT = os.path.dirname(os.path.dirname(os.path.abspath(__file__)))


def short(s, n):
    s = " ".join(str(s).split())
    return s if len(s) <= n else s[:n - 1].rstrip() + "…"


def mech(ev):
    out = []
    for b in ev.get("broken_obligations", []):
        m = re.match(r"lake-build\[LexVerif\.Props\.(.*)\]", b)
        name = m.group(1) if m else b
        if name.startswith("Literals."):
            out.append("S: literal/shape tie `%s`" % name)
        elif name.startswith("Tables") or "Literals" in name:
            out.append("R: table theorem `%s`" % name)
        else:
            out.append("proof obligation `%s`" % name)
    if ev.get("failing_input_found"):
        out.append("C: %s failing inputs (impl ≠ spec / relation)" % ev.get("new_violations"))
    return "; ".join(out) if out else "-"


rows = []
for d in sorted(glob.glob(os.path.join(ROOT, "seeded", "C*-*"))):
    mid = os.path.basename(d)
    meta = json.load(open(os.path.join(d, "meta.json")))
    ev = meta.get("evaluated", {})
    conf = meta.get("confirmed", {})
    status = "not evaluated"
    if ev:
        if ev.get("detected") and ev.get("failing_input_found"):
            status = "VIOLATION + replay input"
        elif ev.get("detected"):
            status = "VIOLATION no-failing-input-found"
        else:
            status = "MISSED"
    rows.append("| %s | %s | %s | %s | %s | %s |" % (
        mid, short(meta.get("summary", ""), 150).replace("|", "\\|"), short(meta.get("needs", ""), 110).replace("|", "\\|"),
        "yes" if conf.get("demo_ok") and conf.get("suite_with_mutant", {}).get("ok") else "?", status, mech(ev).replace("|", "\\|")))
text = "| id | seeded change | needs | confirmed (suite passes, demo fails) | quick check result | what caught it |\n|---|---|---|---|---|---|\n" + "\n".join(rows)
p = os.path.join(ROOT, "DESIGN.md")
s = open(p).read()
b, e = "<!-- SEEDED-BEGIN -->", "<!-- SEEDED-END -->"
if b in s:
    s = s[:s.index(b) + len(b)] + "\n" + text + "\n" + s[s.index(e):]
    open(p, "w").write(s)
    print("DESIGN.md updated: %d seeded changes" % len(rows))
else:
    print(text)
