#!/usr/bin/env python3
"""Correspondence of the format-feature integer model (Model.ParseIntFormat) with the implementation on the `pi`
ops of the C10/C11/C12/C13 generators (helper for development; the registered checks do the same through ./check).

usage: tools/intfmt_corr.py [C12 C11 C10 C13 | EXTRA] [--fs radix+format] [--dbg]
`EXTRA`: exhaustive short strings + long digit runs over the formats of fmtcat_intfmt.py (group `syntax`).
`--dbg`: run the harness `dbg` profile and evaluate the model in debug mode (ops are sent to the driver as `Dpi`).
"""
import importlib, os, random, sys
ROOT = os.path.dirname(os.path.dirname(os.path.abspath(__file__)))
sys.path.insert(0, ROOT)
import vlib


class ExtraStreams:
    FORMAT_GROUP = "syntax"

    @staticmethod
    def streams(tier, rng, fs, profile):
        import itertools
        import fmtcat_intfmt
        from gens import hexs
        ops = []
        for fmt, name in fmtcat_intfmt.INT_FORMATS:
            radix = (fmt >> 104) & 0xFF
            suf = (fmt >> 96) & 0xFF
            a = ["+", "-", "0", "1", "9" if radix == 10 else "f", "_", " "]
            if suf:
                a += [chr(suf), chr(suf).upper()]
            strs = [""]
            for n in range(1, 5):
                strs += ["".join(t) for t in itertools.product(a, repeat=n)]
            for _ in range(1500):
                strs.append("".join(rng.choice(a[2:5] * 4 + a) for _ in range(rng.randint(5, 24))))
            for s in strs:
                ty = rng.choice(["i8", "u8", "i16", "u16", "i32", "u32", "i64", "u64", "i128", "u128"])
                ops.append("pi %s %x %s %s %s" % (ty, fmt, rng.choice("01"), rng.choice("01"), hexs(s.encode("latin-1"))))
        return [("extra", ops)]


def main():
    args = [a for a in sys.argv[1:] if not a.startswith("--")]
    props = args or ["C12", "C11", "C10", "C13"]
    fs = "radix+format"
    if "--fs" in sys.argv:
        fs = sys.argv[sys.argv.index("--fs") + 1]
        props = [p for p in props if p != fs]
    dbg = "--dbg" in sys.argv
    profile = "dbg" if dbg else "release"
    total = bad = 0
    for prop in props:
        if prop == "EXTRA":
            mod = ExtraStreams
        else:
            mod = importlib.import_module("props." + prop)
        group = getattr(mod, "FORMAT_GROUP", "base")
        binp = vlib.build_harness(fs, profile, ("run",), group)
        rng = random.Random(12345)
        ops = []
        for sname, sops in mod.streams("quick", rng, fs, profile):
            ops += [o for o in sops if o.split(" ")[0] in ("pi", "Lpi")]
        ops = list(dict.fromkeys(ops))
        if not ops:
            print(prop, "no pi ops")
            continue
        impl = vlib.run_impl(binp, ops)
        dops = [("D" + o.lstrip("L")) for o in ops] if dbg else ops
        drv = vlib.run_driver(fs, dops)
        n = 0
        kinds = {}
        for op, ir, (mr, sr) in zip(ops, impl, drv):
            if ir in ("nofmt", "badop"):
                continue
            total += 1
            k = ir.split(" ")[0] + ("/" + ir.split(" ")[1] if ir.startswith("err") else "")
            kinds[k] = kinds.get(k, 0) + 1
            if mr == "-" or not vlib.agrees(ir, mr) or (mr.split(" ")[0] != ir.split(" ")[0]):
                n += 1
                if n <= 25:
                    print("MISMATCH %s: %s\n   impl  %s\n   model %s" % (prop, op, ir, mr))
        bad += n
        print("%s [%s,%s,%s]: %d pi ops, %d mismatches; impl kinds %s" % (prop, fs, profile, group, len(ops), n, kinds))
    print("TOTAL %d ops compared, %d mismatches" % (total, bad))
    return 1 if bad else 0


if __name__ == "__main__":
    sys.exit(main())
