#!/usr/bin/env python3
"""usage: tools/recordeval.py <evalmut log>...  — record, in seeded/<id>/meta.json under "evaluated", what tools/evalmut.sh
observed when the property's quick check ran against a scratch worktree of /repo carrying the seeded change
(later logs override earlier ones)."""
import json, os, re, sys, time
ROOT = os.path.dirname(os.path.dirname(os.path.abspath(__file__)))


def main():
    for log in sys.argv[1:]:
        cur = None
        recs = {}
        for line in open(log, errors="replace"):
            m = re.match(r"== (C\d\d) on (C\d\d-\d+)", line)
            if m:
                cur = (m.group(2), m.group(1))
                recs[cur] = {"violation": None, "check": None, "broken": [], "known": 0}
                continue
            if cur is None:
                continue
            r = recs[cur]
            mp = re.match(r"(?:VIOLATION property=|check )(C\d\d)", line)
            if mp and mp.group(1) != cur[1]:
                cur = None          # output of another run whose header line was cut off
                continue
            if line.startswith("VIOLATION"):
                r["violation"] = re.sub(r"replay=\S*/replay/", "replay=replay/", line.strip())
            elif line.startswith("check "):
                r["check"] = line.strip()
            elif line.startswith("BROKEN"):
                r["broken"].append(line.strip()[7:])
            elif line.startswith("KNOWN-FINDING"):
                r["known"] += 1
        for (mid, prop), r in recs.items():
            if not r["check"]:
                continue
            p = os.path.join(ROOT, "seeded", mid, "meta.json")
            if not os.path.exists(p):
                continue
            meta = json.load(open(p))
            m = re.search(r"new=(\d+)", r["check"])
            new = int(m.group(1)) if m else None
            detected = r["violation"] is not None
            meta["evaluated"] = {
                "command": "tools/evalmut.sh seeded/%s/patch.diff %s  (= VERIF_REPO=<scratch worktree of /repo HEAD + patch> ./check %s quick)" % (mid, prop, prop),
                "log_mtime": time.strftime("%Y-%m-%dT%H:%M:%SZ", time.gmtime(os.path.getmtime(log))),
                "detected": detected,
                "failing_input_found": bool(detected and new and "no-failing-input-found" not in r["violation"]),
                "new_violations": new,
                "violation_line": r["violation"],
                "broken_obligations": r["broken"],
                "check_line": r["check"],
            }
            json.dump(meta, open(p, "w"), indent=1)
            print(mid, "detected" if detected else "MISSED", "input" if meta["evaluated"]["failing_input_found"] else "no-input", r["broken"][:3])


main()
