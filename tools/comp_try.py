#!/usr/bin/env python3
"""development aid: run the component streams of gens_algos through implementation and driver, print mismatches.
usage: tools/comp_try.py FEATURESET [stream,stream..] [tier]"""
import os, random, sys
sys.path.insert(0, os.path.join(os.path.dirname(os.path.abspath(__file__)), ".."))
import vlib, gens_algos
fs = sys.argv[1]
which = sys.argv[2].split(",") if len(sys.argv) > 2 else ("cf", "lm", "bel", "bin", "sbin", "fp")
tier = sys.argv[3] if len(sys.argv) > 3 else "quick"
rng = random.Random(int(os.environ.get("VERIF_SEED", "7")))
binp = vlib.bin_path(fs, "run", "release")
tot = 0
for name, ops in gens_algos.algo_streams(rng, fs, tier, which):
    impl = vlib.run_impl(binp, ops)
    drv = vlib.run_driver(fs, ops)
    bad_m = [(o, i, m) for o, i, (m, s) in zip(ops, impl, drv) if not vlib.agrees(i, m)]
    bad_s = [(o, i, s) for o, i, (m, s) in zip(ops, impl, drv) if not vlib.agrees(i, s)]
    kinds = {}
    for i in impl:
        kinds[i.split(" ")[0]] = kinds.get(i.split(" ")[0], 0) + 1
    print(name, len(ops), "model-mismatch", len(bad_m), "spec-mismatch", len(bad_s), kinds)
    for b in bad_m[:8]:
        print("   M", b)
    for b in bad_s[:8]:
        print("   S", b)
    tot += len(ops)
print("total", tot)
