#!/usr/bin/env python3
"""Writes MANIFEST.json from the property modules that exist (props/Cxx.py)."""
import importlib, json, os, sys
ROOT = os.path.dirname(os.path.dirname(os.path.abspath(__file__)))
sys.path.insert(0, ROOT)
ALL = ["C%02d" % i for i in range(1, 20)]
checks = []
na = []
for pid in ALL:
    if not os.path.exists(os.path.join(ROOT, "props", pid + ".py")):
        na.append({"property_id": pid, "reason": "check under construction in this round (no registered command yet); see DESIGN.md section 6 for the planned theorems"})
        continue
    m = importlib.import_module("props." + pid)
    checks.append({
        "property_id": pid,
        "quick_cmd": "./check %s quick" % pid,
        "thorough_cmd": "./check %s thorough" % pid,
        "evidence_file": "/verif/evidence/%s.json" % pid,
        "replay_cmd_template": "./check %s --replay {path}" % pid,
        "engine": "lean-proof+correspondence",
        "level_claimed": {
            "category": "proof",
            "text": m.LEVEL_TEXT,
            "design_ref": "DESIGN.md section 6, " + pid,
        },
        "level_note": m.LEVEL_NOTE,
        "technique": m.TECHNIQUE,
    })
man = {
    "version": 1,
    "setup_cmd": "./setup.sh",
    "hooks": {
        "guard": "--cfg lexical_verif",
        "enable": "RUSTFLAGS='--cfg lexical_verif' (set by vlib.py for every harness build); hooks are #[cfg(lexical_verif)] add-only accessors",
        "baseline_off_cmd": "cd /repo && cargo test --workspace --no-fail-fast --offline",
        "source_commits": json.load(open(os.path.join(ROOT, "hooks.json")))["commits"],
        "add_only": True,
    },
    "engines": [{
        "name": "lean-proof+correspondence",
        "path": "/verif/check",
        "serves_properties": [c["property_id"] for c in checks],
        "kind_free_text": "Lean 4 theorems about executable models/specifications (lean/LexVerif/Props), regenerated tables (R dump -> Gen/*.lean), and a correspondence run of the real crate (Rust harness, in-process) against the compiled Lean driver",
    }],
    "checks": checks,
    "not_applicable": na,
    "notes": "Single entry point ./check <id> quick|thorough. known_findings.json lists genuine defects (open/fixed). See DESIGN.md.",
}
json.dump(man, open(os.path.join(ROOT, "MANIFEST.json"), "w"), indent=1)
print("checks:", len(checks), "not_applicable:", len(na))
