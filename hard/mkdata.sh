#!/bin/sh
# regenerates hard/data/*.txt (committed; mathematical facts independent of the code under test)
cd "$(dirname "$0")"
python3 hardgen.py 10 f64 -345 310 > data/r10_f64.txt &
python3 hardgen.py 10 f32 -70 45 > data/r10_f32.txt &
wait
for r in 2 3 4 5 6 7 8 9 11 12 13 14 15 16 17 18 19 20 21 22 23 24 25 26 27 28 29 30 31 32 33 34 35 36; do
  python3 - "$r" <<'PY' &
import sys, math, subprocess
r = int(sys.argv[1])
q64 = int(1130 / math.log2(r)); q32 = int(170 / math.log2(r))
for ty, q in (("f64", q64), ("f32", q32)):
    out = subprocess.run([sys.executable, "hardgen.py", str(r), ty, str(-q), str(q)], stdout=subprocess.PIPE).stdout.decode().splitlines()
    # keep a deterministic third of the lines for the non-decimal radices
    keep = [l for i, l in enumerate(out) if i % 3 == 0]
    open("data/r%d_%s.txt" % (r, ty), "w").write("\n".join(keep) + "\n")
PY
done
wait
wc -l data/*.txt | tail -1
