#!/usr/bin/env python3
"""Number-theoretic worst cases for string->float rounding (G-hard, DESIGN.md section 5).

For a mantissa radix r, a float format (p, emin) and each power q, find the mantissas m in a digit-count
window whose exact value m * r^q lies *closest to a midpoint* between two adjacent floats, using the
classic "smallest m with (a*m mod b) in [L,R]" Euclid-style recursion. These are mathematical facts,
independent of the code under test; the bulk is precomputed once into hard/data/*.txt.

usage: hardgen.py RADIX f32|f64 QMIN QMAX > file     (lines: m q)
"""
import sys
from fractions import Fraction
from math import gcd

sys.setrecursionlimit(100000)


def first_in_range(a, b, L, R):
    """smallest m >= 0 with L <= (a*m) mod b <= R  (0 <= L <= R < b); None if none"""
    def rec(a, b, L, R):
        if L == 0:
            return 0
        a %= b
        if a == 0:
            return None
        if 2 * a > b:
            return rec(b - a, b, b - R, b - L)
        k = (L + a - 1) // a
        if k * a <= R:
            return k
        bb = b % a
        c = (-L) % a
        lo = (0 - c) % a
        hi = (R - L - c) % a
        aa = (a - bb) % a
        if lo <= hi:
            t = rec(aa, a, lo, hi)
        else:
            cands = [x for x in (rec(aa, a, lo, a - 1), rec(aa, a, 0, hi)) if x is not None]
            t = min(cands) if cands else None
        if t is None:
            return None
        return (L + b * t + a - 1) // a
    return rec(a % b, b, L, R)


def closest(a, b, target, mlo, mhi):
    """m in [mlo, mhi] with (a*m mod b) close to target: widen the window geometrically, return first hit"""
    base = (a * mlo) % b
    d = 1
    while d < b:
        L = (target - d - base) % b
        R = (target + d - base) % b
        if L <= R:
            m = first_in_range(a, b, L, R)
        else:
            c = [x for x in (first_in_range(a, b, L, b - 1), first_in_range(a, b, 0, R)) if x is not None]
            m = min(c) if c else None
        if m is not None and mlo + m <= mhi:
            return mlo + m
        d *= 4
    return None


def ilog2(x):
    n, d = x.numerator, x.denominator
    e = n.bit_length() - d.bit_length()
    if Fraction(2) ** e > x:
        e -= 1
    return e


def gen(r, p, emin_lsb, qmin, qmax, windows):
    out = []
    for q in range(qmin, qmax + 1):
        for (mlo, mhi) in windows:
            x = Fraction(mlo) * Fraction(r) ** q
            E = ilog2(x)
            for dE in range(0, min(5, max(2, (mhi // mlo).bit_length() + 1))):
                s = E + dE - p              # midpoints in binade E+dE are odd multiples of 2^s
                if s < emin_lsb - 1:
                    s = emin_lsb - 1
                # x / 2^(s+1) = m * A / B must have fractional part 1/2
                A = Fraction(r) ** q / Fraction(2) ** (s + 1)
                a, b = A.numerator, A.denominator
                if b == 1:
                    continue
                m = closest(a % b, b, b // 2, mlo, mhi)
                if m is not None:
                    out.append((m, q))
    return out


if __name__ == "__main__":
    r = int(sys.argv[1])
    ty = sys.argv[2]
    qmin, qmax = int(sys.argv[3]), int(sys.argv[4])
    p, emin_lsb = (53, -1074) if ty == "f64" else (24, -149)
    # digit-count windows: full u64-step mantissas, just-above 2^p, short mantissas
    step = 0
    while r ** (step + 1) <= 2 ** 64:
        step += 1
    windows = [(r ** (step - 1), r ** step - 1), (2 ** (p - 1), 2 ** p + 5), (1, r ** max(1, step * 3 // 4))]
    seen = set()
    for m, q in gen(r, p, emin_lsb, qmin, qmax, windows):
        if (m, q) not in seen:
            seen.add((m, q))
            print(m, q)
