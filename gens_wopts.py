"""G-opt: write-float option sets, curated rounding-sensitive values, parsing of written outputs (C14 / C09 / C17)."""
import struct
from fractions import Fraction

import gens

EXP_CHARS = [101, 69, 94, 112, 80, 64, 126, 120]          # e E ^ p P @ ~ x
DP_CHARS = [46, 44, 59, 95, 32, 39, 58]                    # . , ; _ space ' :
MAXS = [1, 2, 3, 4, 5, 6, 8, 9, 10, 15, 16, 17, 18, 19, 20, 21, 28, 29, 30, 40, 63, 64]
BIG = [100, 128, 300, 500]
POS_BREAKS = [1, 2, 3, 5, 8, 9, 10, 15, 16, 17, 20, 21, 22, 37, 38, 39, 60, 100, 200, 307, 308, 309, 400, 1100]
NEG_BREAKS = [-1, -2, -3, -5, -6, -7, -10, -17, -20, -37, -38, -44, -45, -46, -60, -100, -200, -307, -323, -324, -325, -400,
              -1100]


def f64_bits(x):
    return struct.unpack("<Q", struct.pack("<d", x))[0]


def f32_bits(x):
    return struct.unpack("<I", struct.pack("<f", x))[0]


CURATED = [0.5, 0.25, 0.125, 0.375, 2.5, 3.5, 1.25, 1.35, 1.45, 1.5, 9.5, 0.95, 0.99, 0.0999, 0.999, 99.99, 9.96, 9.94,
           9.999999e22, 9.5e-6, 9.96e-6, 9.5e9, 9.96e9, 9.5e-5, 1e21, 1e22, 1e23, 1e-7, 123456789.0, 1234567890.0,
           1.203, 1.003, 1.2003, 120.3, 1002003.0, 255.9375, 0.1, 0.3, 1.0, 10.0, 100.0, 15.0, 1e9, 1e10, 1e-5, 1e-6,
           1.7976931348623157e308, 2.2250738585072014e-308, 5e-324, 9.5e100, 1e100, 1.5e100, 9.5e-100, 1e-100,
           1.2345678901234567e-100, 1.2345678901234567e100, 1.5e-300, 9.999e307, 4.35, 0.285, 1.005, 2.675,
           8.5, 7.5, 6.5, 0.045, 0.055, 19.5, 199.5, 0.00995, 999999.5, 9999999.5, 99999999.5]


def curated_bits(ty):
    out = set()
    for x in CURATED:
        for s in (1, -1):
            if ty == "f64":
                out.add(f64_bits(s * x))
            else:
                try:
                    out.add(f32_bits(s * x))
                except OverflowError:
                    pass
    return sorted(out)


def rand_opts(rng, extreme=False, radix=10, punct=True):
    """one option set as a dict (always valid for OptionsBuilder::build)"""
    k = rng.random()
    mx = None if k < 0.25 else (rng.choice(BIG) if k > 0.95 else rng.choice(MAXS))
    k = rng.random()
    mn = None
    if k > 0.45:
        mn = rng.choice(BIG) if (k > 0.93 or (extreme and k > 0.8)) else rng.choice(MAXS)
        if mx is not None and mn > mx:
            if rng.random() < 0.5:
                mn = rng.randint(1, mx)
            else:
                mx = None if rng.random() < 0.5 else mn
    pb = None if rng.random() < 0.35 else rng.choice(POS_BREAKS)
    nb = None if rng.random() < 0.35 else rng.choice(NEG_BREAKS)
    if not extreme:
        # keep the positional expansions moderate most of the time
        if pb is not None and pb > 60 and rng.random() < 0.7:
            pb = rng.choice(POS_BREAKS[:12])
        if nb is not None and nb < -60 and rng.random() < 0.7:
            nb = rng.choice(NEG_BREAKS[:12])
    e = gens.exp_char(radix)
    d = 46
    if punct and rng.random() < 0.3:
        e = rng.choice([c for c in EXP_CHARS if radix <= 10 or c in (94, 64, 126)])
        d = rng.choice(DP_CHARS)
    return {"mx": mx, "mn": mn, "pb": pb, "nb": nb, "rnd": rng.choice("rrt"), "trim": rng.choice([0, 0, 1]), "exp": e, "dp": d}


def opt_str(o, nan=gens.DEF_NAN, inf=gens.DEF_INF):
    def s(x):
        return "-" if x is None else str(x)
    return gens.wopts(mx=s(o["mx"]), mn=s(o["mn"]), pb=s(o["pb"]), nb=s(o["nb"]), rnd=o["rnd"], trim=o["trim"], exp=o["exp"],
                      dp=o["dp"], nan=nan, inf=inf)


def opts_of_fields(t):
    """dict from the 10 option fields of a wf op"""
    def n(x):
        return None if x == "-" else int(x)
    return {"mx": n(t[0]), "mn": n(t[1]), "pb": n(t[2]), "nb": n(t[3]), "rnd": t[4], "trim": int(t[5]), "exp": int(t[6]),
            "dp": int(t[7]), "nan": t[8], "inf": t[9]}


class Written:
    """a written float, split with the configured punctuation"""

    def __init__(self, data, exp_char, dp, radix=10):
        self.ok = False
        self.sign = b""
        body = data
        if body[:1] in (b"+", b"-"):
            self.sign, body = body[:1], body[1:]
        alphabet = gens.DIGITS[:radix].encode() + gens.DIGITS[:radix].lower().encode()
        i = 0
        while i < len(body) and body[i] in alphabet and body[i] != dp and body[i] != exp_char:
            i += 1
        self.int = body[:i]
        self.frac = None
        if i < len(body) and body[i] == dp:
            j = i + 1
            while j < len(body) and body[j] in alphabet and body[j] != exp_char:
                j += 1
            self.frac = body[i + 1:j]
            i = j
        self.exp = None
        self.exp_sign = b""
        if i < len(body) and body[i] == exp_char:
            e = body[i + 1:]
            if e[:1] in (b"+", b"-"):
                self.exp_sign, e = e[:1], e[1:]
            if not e or any(c not in alphabet for c in e):
                return
            self.exp = e
            i = len(body)
        if i != len(body) or not self.int or (self.frac is not None and not self.frac):
            return
        self.ok = True
        self.mantissa = body[:len(self.int) + (0 if self.frac is None else 1 + len(self.frac))]

    def all_digits(self):
        return (self.int + (self.frac or b"")).decode()

    def sig(self):
        """(significant digits from the first non-zero one, the same without trailing zeros); zero: all digits"""
        d = self.all_digits()
        s = d.lstrip("0")
        if not s:
            return d, ""
        return s, s.rstrip("0")

    def exp_value(self, radix=10):
        if self.exp is None:
            return 0
        v = int(self.exp.decode(), radix)
        return -v if self.exp_sign == b"-" else v

    def sci_and_digits(self, radix=10):
        """(digit values without leading/trailing zeros, scientific exponent); zero -> ([0], 0)"""
        d = self.all_digits()
        s = d.lstrip("0")
        if not s:
            return [0], 0
        lead = len(d) - len(s)
        sci = self.exp_value(radix) + len(self.int) - 1 - lead
        s = s.rstrip("0")
        return [int(c, 36) for c in s], sci

    def value(self, radix=10):
        d = self.all_digits()
        m = int(d, radix)
        e = self.exp_value(radix) - len(self.frac or b"")
        return Fraction(m) * (Fraction(radix) ** e)


def digits_hex(ds):
    return "".join("%02x" % d for d in ds) or "_"
