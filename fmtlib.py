"""The catalogue of number formats the harness instantiates, with names and bit packing."""
from gens import pack

# flag bits (restated by Gen/FormatFlags.lean from the compiled crate; checked in Props/C18)
F = {
    "required_integer_digits": 1 << 0, "required_fraction_digits": 1 << 1, "required_exponent_digits": 1 << 2,
    "required_mantissa_digits": 1 << 3, "no_positive_mantissa_sign": 1 << 4, "required_mantissa_sign": 1 << 5,
    "no_exponent_notation": 1 << 6, "no_positive_exponent_sign": 1 << 7, "required_exponent_sign": 1 << 8,
    "no_exponent_without_fraction": 1 << 9, "no_special": 1 << 10, "case_sensitive_special": 1 << 11,
    "no_integer_leading_zeros": 1 << 12, "no_float_leading_zeros": 1 << 13, "required_exponent_notation": 1 << 14,
    "case_sensitive_exponent": 1 << 15, "case_sensitive_base_prefix": 1 << 16, "case_sensitive_base_suffix": 1 << 17,
    "integer_internal_digit_separator": 1 << 32, "fraction_internal_digit_separator": 1 << 33,
    "exponent_internal_digit_separator": 1 << 34, "integer_leading_digit_separator": 1 << 35,
    "fraction_leading_digit_separator": 1 << 36, "exponent_leading_digit_separator": 1 << 37,
    "integer_trailing_digit_separator": 1 << 38, "fraction_trailing_digit_separator": 1 << 39,
    "exponent_trailing_digit_separator": 1 << 40, "integer_consecutive_digit_separator": 1 << 41,
    "fraction_consecutive_digit_separator": 1 << 42, "exponent_consecutive_digit_separator": 1 << 43,
    "special_digit_separator": 1 << 44,
}
STD_FLAGS = 0xC
MIXED = [(4, 2), (8, 2), (16, 2), (32, 2), (16, 4)]


def radix_formats():
    return [("B", pack(r), "radix%d" % r) for r in range(2, 37)]


def mixed_formats():
    out = []
    for (r, b) in MIXED:
        for er in (10, r, b):
            out.append(("F", pack(r, b, er), "mixed_%d_%d_%d" % (r, b, er)))
    # decimal exponent radix with non-decimal mantissa, and vice versa
    for r in (2, 3, 8, 12, 16, 24, 36):
        out.append(("F", pack(r, r, 10), "radix%d_exp10" % r))
    return out


def all_formats():
    out = radix_formats() + mixed_formats()
    try:
        import fmtcat
        out += fmtcat.extra_formats()
    except ImportError:
        pass
    try:  # TEMPORARY (pnum branch): wire the syntax-layer catalogue
        import fmtcat_pnum
        out += fmtcat_pnum.extra_formats()
    except ImportError:
        pass
    return out
