"""Generators for the float *syntax* layer (C10-C13, C15): `pf` (API level) and `pn` (component level:
`parse_number` after `parse_mantissa_sign`) op lists, per format of the catalogue `fmtcat_pnum`.

Families (G-fmt of DESIGN.md section 5):
  short     exhaustive strings up to length 3 (quick) over a reduced per-format alphabet, sampled beyond
  long      digit runs of 7..25 digits per component (reach parse_8digits and the many_digits re-parse)
            with separators sprinkled at leading / internal / trailing / consecutive positions
  exp       huge exponents: > 19 digits, 0x0FFFFFFF .. 0x10000001, leading zeros
  special   inputs near the nan / inf / infinity strings (default and custom option strings)
  bytes     arbitrary bytes
  options   invalid options / punctuation, formats invalid in the feature set (error paths of the entry points)
"""
import itertools

import fmtcat_pnum
from gens import hexs, pack

DEFAULT_SPECIALS = ("4e614e", "696e66", "696e66696e697479")


def fmt_info(fmt):
    r = (fmt >> 104) & 0xFF
    return {
        "fmt": fmt, "radix": r, "base": (fmt >> 112) & 0xFF or r, "exprad": (fmt >> 120) & 0xFF or r,
        "sep": (fmt >> 64) & 0xFF, "prefix": (fmt >> 88) & 0xFF, "suffix": (fmt >> 96) & 0xFF,
        "flags": fmt & ((1 << 64) - 1),
        "int_sep": bool(fmt & (0x249 << 32)), "frac_sep": bool(fmt & (0x492 << 32)), "exp_sep": bool(fmt & (0x924 << 32)),
        "special_sep": bool(fmt & (1 << 44)),
    }


def valid_in(fmt, fs):
    need = fmtcat_pnum.needs(fmt)
    if "format" not in fs:
        return False
    if need == "format":
        return True
    if need == "pow2+format":
        return "radix" in fs or "pow2" in fs
    return "radix" in fs


def value_reliable(info):
    """formats on which `pf` ops compare values. Was `radix == exponent base` while the native fast path
    mis-scaled mixed bases; fixed in /repo (5add295), so every format qualifies now."""
    return True


def long_reliable(info):
    """formats on which long digit runs are compared at API level (`pf`); the others get `pn` ops only.
    Excluded: integer or fraction flags = I+T+C exactly (no L): `is_itc!(@first)` answers differently at buffer
    start (prev = None) and after a sign / decimal point, so the stored integer/fraction slices are re-scanned
    differently from the first scan and the many-digit mantissa is built from a separator byte (C13 finding)."""
    if info["sep"] == 0:
        return True
    fl = info["fmt"] >> 32

    def comp(shift):
        return tuple(bool(fl >> (shift + 3 * k) & 1) for k in range(4))  # (i, l, t, c)
    return comp(0) != (True, False, True, True) and comp(1) != (True, False, True, True)


def risky_value(info, o, s):
    """inputs whose *value* conversion is known to be wrong in the implementation (kept to `pn`). Was: non-decimal
    radix with a 3+ digit exponent (zero mantissa -> infinity, exponent wrap in calculate_power2); fixed in /repo
    (ead3b71, 220c4cc), so nothing is excluded now."""
    return False


class Opts:
    def __init__(self, exp=ord("e"), dp=ord("."), nan=DEFAULT_SPECIALS[0], inf=DEFAULT_SPECIALS[1],
                 infinity=DEFAULT_SPECIALS[2], lossy=0):
        self.exp, self.dp, self.nan, self.inf, self.infinity, self.lossy = exp, dp, nan, inf, infinity, lossy

    def fields(self):
        return "%d %d %d %s %s %s" % (self.lossy, self.exp, self.dp, self.nan, self.inf, self.infinity)


def default_opts(info):
    # 'e' is a digit from radix 15 on: hex floats use 'p'
    m = max(info["radix"], info["exprad"])
    exp = ord("e") if m < 15 else (ord("p") if m < 26 else ord("^"))
    return Opts(exp=exp)


def digits_of(info):
    r = info["radix"]
    if r <= 10:
        return ["0", "1", chr(ord("0") + r - 1)]
    hi = "0123456789abcdefghijklmnopqrstuvwxyz"[r - 1]
    return ["0", "1", "9", hi, hi.upper()]


def alphabet(info, o):
    a = ["+", "-"] + digits_of(info)[:4] + [chr(o.dp), chr(o.exp)]
    if chr(o.exp).isalpha():
        a.append(chr(o.exp).swapcase())
    if info["sep"]:
        a.append(chr(info["sep"]))
    if info["prefix"]:
        a += [chr(info["prefix"]), chr(info["prefix"]).swapcase()]
    if info["suffix"]:
        a += [chr(info["suffix"]), chr(info["suffix"]).swapcase()]
    a.append(" ")
    out = []
    for x in a:
        if x not in out:
            out.append(x)
    return out


def short_strings(info, o, rng, exh=3, nsample=600, maxlen=6):
    a = alphabet(info, o)
    out = [""]
    for n in range(1, exh + 1):
        out += ["".join(t) for t in itertools.product(a, repeat=n)]
    wide = a + ["n", "a", "i", "f", "t", "y", "N", "I", "\x00", "\xff", "_", "x", "z"]
    for _ in range(nsample):
        n = rng.randint(exh + 1, maxlen)
        src = a if rng.random() < 0.8 else wide
        out.append("".join(rng.choice(src) for _ in range(n)))
    return out


def sprinkle(run, sep, rng, where):
    """insert separators into a digit run: where in {none, l, i, t, lc, ic, tc, all, rand}"""
    if not sep or where == "none":
        return run
    s = chr(sep)
    if where == "l":
        return s + run
    if where == "t":
        return run + s
    if where == "lc":
        return s + s + run
    if where == "tc":
        return run + s + s
    if where in ("i", "ic") and len(run) >= 2:
        k = rng.randint(1, len(run) - 1)
        return run[:k] + (s if where == "i" else s + s) + run[k:]
    if where == "all":
        return s + s.join(run) + s
    if where == "rand":
        out = ""
        for ch in run:
            out += ch
            if rng.random() < 0.25:
                out += s * rng.choice((1, 1, 2))
        return out
    return run


WHERES = ["none", "none", "l", "i", "t", "lc", "ic", "tc", "all", "rand"]
RUNS = [0, 1, 2, 7, 8, 9, 15, 16, 17, 19, 20, 21, 24, 25]


def digit_run(info, n, rng, zeros=False):
    r = info["radix"]
    ds = "0123456789abcdefghijklmnopqrstuvwxyz"[:r]
    s = "".join(rng.choice(ds) for _ in range(n))
    if n and not zeros and s[0] == "0":
        s = ds[1] + s[1:]
    if rng.random() < 0.3:
        s = s.upper()
    return s


def long_strings(info, o, rng, n=120):
    out = []
    sep = info["sep"]
    for _ in range(n):
        ni = rng.choice(RUNS)
        nf = rng.choice(RUNS + [None, None])
        ne = rng.choice([None, None, 0, 1, 2, 3])
        lead = rng.choice(["", "", "", "0", "00", "0" * rng.randint(1, 20)])
        s = rng.choice(["", "", "+", "-"])
        if info["prefix"] and rng.random() < 0.5:
            s += "0" + chr(info["prefix"])
        s += sprinkle(lead + digit_run(info, ni, rng), sep, rng, rng.choice(WHERES))
        if nf is not None:
            fl = rng.choice(["", "", "0" * rng.randint(1, 22)])
            s += chr(o.dp) + sprinkle(fl + digit_run(info, nf, rng, zeros=True), sep, rng, rng.choice(WHERES))
        if ne is not None:
            e = "".join(rng.choice("0123456789"[:min(info["exprad"], 10)]) for _ in range(ne))
            s += rng.choice([chr(o.exp), chr(o.exp).swapcase()]) + rng.choice(["", "+", "-"]) + sprinkle(e, sep, rng, rng.choice(WHERES))
        if info["suffix"] and rng.random() < 0.5:
            s += chr(info["suffix"])
        if rng.random() < 0.15:
            s += rng.choice([" ", "x", chr(o.dp), "_", "1"])
        out.append(s)
    return out


def exponent_strings(info, o, rng):
    e = chr(o.exp)
    er = info["exprad"]

    def to_r(n):
        ds = "0123456789abcdefghijklmnopqrstuvwxyz"
        s = ""
        while n:
            s = ds[n % er] + s
            n //= er
        return s or "0"
    vals = [0x0FFFFFFF, 0x10000000, 0x10000001, 0x0FFFFFFF * er, 0x10000000 * er - 1, 10 ** 19, 10 ** 25, 2 ** 64, 2 ** 63 - 1,
            0x0FFFFFFF // er, 99999, 400, 309, 324]
    out = []
    for v in vals:
        for m in ("1", "0", "0.0", "1.5", "123456789012345678901234"):
            for sg in ("", "-", "+"):
                out.append(m.replace(".", chr(o.dp)) + e + sg + to_r(v))
    out += ["1" + e + "0" * 30 + "1", "1" + e + "-" + "0" * 30 + "12", "1" + e + "9" * 40, "0" + e + "-" + "9" * 40,
            "1" + e, "1" + e + "+", "1" + e + "-", e + "1", "1" + e + e + "1", "1" + e + "1" + chr(o.dp) + "5"]
    if info["sep"]:
        s = chr(info["sep"])
        out += ["1" + e + s + "5", "1" + e + "5" + s, "1" + e + "1" + s + "5", "1" + e + "+" + s + "5", "1" + e + s + "+5",
                "1" + e + "1" + s + s + "5", "1" + e + s, "1" + s + e + "5", "1" + e + "1" + s + "a", "1" + e + "a" + s + "1"]
    return out


def flip(s, rng):
    return "".join(ch.swapcase() if rng.random() < 0.5 else ch for ch in s)


def special_strings(info, o, rng):
    out = []
    strs = [bytes.fromhex(x).decode("latin-1") for x in (o.nan, o.inf, o.infinity) if x not in ("-", "_")]
    sep = chr(info["sep"]) if info["sep"] else "_"
    for t in strs:
        vs = [t, t.lower(), t.upper(), flip(t, rng), t[:-1], t + "x", t + t[-1], t + "1", t + " ", t[:1], t[:2],
              chr(ord(t[0]) ^ 0x20) + t[1:], t[:-1] + chr(ord(t[-1]) ^ 0x20), t[:-1] + chr(ord(t[-1]) ^ 0x40),
              t[:1] + sep + t[1:], sep + t, t + sep, t + sep + sep, sep + sep + t, sep.join(t), t + sep + "x",
              t[:-1] + sep, "0" + t, t + "0", t + chr(o.dp), t + chr(o.exp) + "1"]
        for v in vs:
            for sg in ("", "+", "-", "--", sep + "-"):
                out.append(sg + v)
    out += ["in", "inf", "infi", "infin", "infini", "infinit", "infinity", "infinityy", "i", "n", "na", "nan", "nann", "-", "+",
            "NAN", "INF", "Inf", "iNfInItY", "nan(1)", "1nan", ".nan", "@an", "n@n", "\x0eaN"]
    return out


SPECIAL_OPTS = [
    DEFAULT_SPECIALS,
    ("6e616e", "69", "696e66"),                      # nan / i / inf : inf is a prefix of infinity
    ("4e", "496e66", "496e6666"),                    # N / Inf / Inff
    ("6e696c", "-", "696e66696e697479"),             # nil / None / infinity
    ("-", "-", "-"),                                 # all disabled
    ("6e616e", "696e66696e697479", "696e66696e697479"),  # inf == infinity
    ("-", "696e66", "696e66696e697479"),
]
BAD_OPTS = [
    ("78", "696e66", "696e66696e697479"),            # nan not starting with n
    ("6e31", "696e66", "696e66696e697479"),          # non-letter
    ("6e616e", "696e66", "-"),                       # inf without infinity
    ("6e616e", "696e66", "6966"),                    # infinity shorter than inf
    ("_", "696e66", "696e66696e697479"),             # empty nan
    ("6e" + "61" * 50, "696e66", "696e66696e697479"),  # too long
]


def op_pf(ty, fmt, partial, o, s):
    return "pf %s %x %d %s %s" % (ty, fmt, partial, o.fields(), hexs(s.encode("latin-1") if isinstance(s, str) else s))


def op_pn(fmt, partial, o, s):
    return "pn %x %d %s %s" % (fmt, partial, o.fields(), hexs(s.encode("latin-1") if isinstance(s, str) else s))


def plain_radix_formats(fs):
    """flag-free formats of fmtlib (radix / mixed-base) that the feature set supports"""
    out = [pack(10)]
    if "radix" in fs:
        out += [pack(r) for r in (2, 3, 8, 16, 36)]
    elif "pow2" in fs:
        out += [pack(r) for r in (2, 4, 8, 16, 32)]
    if "radix" in fs or "pow2" in fs:
        out += [pack(16, 2, 10), pack(4, 2, 4), pack(8, 2, 2), pack(32, 2, 10), pack(16, 4, 16), pack(16, 16, 10)]
    return out


def formats_for(fs):
    """formats usable as parsers in feature set fs: plain radix formats + (with `format`) the catalogue"""
    out = plain_radix_formats(fs)
    if "format" not in fs:
        return out
    for _, v, _ in fmtcat_pnum.extra_formats():
        if valid_in(v, fs) and not any(v == w for w, _ in fmtcat_pnum.CATALOGUE["invalid"]):
            out.append(v)
    return out


def float_syntax_ops(rng, fs, scale=1, families=("short", "long", "exp", "special", "bytes", "options")):
    """returns {family: [ops]}"""
    res = {f: [] for f in families}
    fmts = formats_for(fs)
    for fmt in fmts:
        info = fmt_info(fmt)
        o = default_opts(info)
        alt = Opts(exp=ord("^"), dp=ord(","))
        vr = value_reliable(info)

        def emit(fam, s, oo, want_pf=True, want_pn=True, ty=None):
            p = rng.randint(0, 1)
            if want_pf and vr and not risky_value(info, oo, s):
                res[fam].append(op_pf(ty or ("f64" if rng.random() < 0.8 else "f32"), fmt, p, oo, s))
                if want_pn:
                    oo2 = Opts(oo.exp, oo.dp, oo.nan, oo.inf, oo.infinity, lossy=rng.randint(0, 1))
                    res[fam].append(op_pn(fmt, 1 - p, oo2, s))
            elif want_pn:
                res[fam].append(op_pn(fmt, p, oo, s))
                res[fam].append(op_pn(fmt, 1 - p, oo, s))

        if "short" in families:
            for s in short_strings(info, o, rng, exh=3, nsample=500 * scale, maxlen=6 if scale == 1 else 8):
                emit("short", s, o)
            for s in short_strings(info, alt, rng, exh=2, nsample=60 * scale):
                emit("short", s, alt)
        if "long" in families:
            for s in long_strings(info, o, rng, n=150 * scale):
                emit("long", s, o, want_pf=long_reliable(info))
        if "exp" in families:
            for s in exponent_strings(info, o, rng):
                emit("exp", s, o, want_pf=long_reliable(info))
        if "special" in families:
            for sp in SPECIAL_OPTS:
                oo = Opts(o.exp, o.dp, *sp)
                ss = special_strings(info, oo, rng)
                if sp is not DEFAULT_SPECIALS:
                    ss = rng.sample(ss, min(len(ss), 60 * scale))
                for s in ss:
                    emit("special", s, oo, want_pn=False)
        if "bytes" in families:
            for _ in range(150 * scale):
                n = rng.randint(0, 12)
                s = bytes(rng.randrange(256) if rng.random() < 0.5 else ord(rng.choice(alphabet(info, o))) for _ in range(n))
                emit("bytes", s, o)
    if "options" in families:
        std = pack(10)
        strs = ["1.5e3", "nan", "inf", "", "1", "1e5", "1,5", "0x1p3"]
        for sp in BAD_OPTS:
            for s in strs[:3]:
                for p in (0, 1):
                    res["options"].append(op_pf("f64", std, p, Opts(nan=sp[0], inf=sp[1], infinity=sp[2]), s))
        puncts = [(ord("e"), ord("e")), (ord("."), ord(".")), (ord("1"), ord(".")), (ord("e"), ord("1")), (0, ord(".")),
                  (ord("e"), 0), (ord("+"), ord(".")), (ord("e"), ord("-")), (0x7F, ord(".")), (ord("e"), 0x80),
                  (ord("_"), ord(".")), (ord("e"), ord("_")), (ord("x"), ord(".")), (ord("e"), ord("h")), (ord("E"), ord(".")),
                  (ord("\t"), ord(" "))]
        pf_fmts = [std] + [f for f in fmts if fmt_info(f)["sep"] or fmt_info(f)["prefix"] or fmt_info(f)["suffix"]][:12]
        for (e, d) in puncts:
            for f in pf_fmts:
                if not value_reliable(fmt_info(f)):
                    continue
                for s in strs:
                    res["options"].append(op_pf("f64", f, rng.randint(0, 1), Opts(exp=e, dp=d), s))
        # formats that are invalid (in this feature set): both entry points, error kinds differ
        if "format" in fs:
            bad = [v for v, _ in fmtcat_pnum.CATALOGUE["invalid"]]
            bad += [v for _, v, _ in fmtcat_pnum.extra_formats() if not valid_in(v, fs)]
        else:
            bad = [pack(10, flags=0xC | 1), pack(10, flags=0x8), pack(10, sep=0x5F)]
            bad = [b for b in bad if any(b == v for _, v, _ in fmtcat_pnum.extra_formats())]
        for f in bad:
            for s in strs:
                for p in (0, 1):
                    res["options"].append(op_pf("f64", f, p, default_opts(fmt_info(f)), s))
    return res
