"""Shared machinery for ./check: builds, extraction, lake, op streams, comparison, findings, evidence."""
import hashlib
import json
import os
import re
import subprocess
import sys
import time

ROOT = os.path.dirname(os.path.abspath(__file__))
CACHE = os.path.join(ROOT, ".cache")
LEAN = os.path.join(ROOT, "lean")
HARNESS = os.path.join(ROOT, "harness")
WORK = os.path.join(ROOT, "work")
# The code under test. Checks registered in MANIFEST.json always use /repo; VERIF_REPO exists only so that
# seeded mutants can be evaluated in a scratch worktree while other builds keep using /repo.
REPO = os.environ.get("VERIF_REPO", "/repo").rstrip("/")
if REPO != "/repo":
    _tag = hashlib.sha1(REPO.encode()).hexdigest()[:10]
    _alt = os.path.join(CACHE, "harness-" + _tag)
    if not os.path.isdir(_alt):
        import shutil
        shutil.copytree(HARNESS, _alt, ignore=shutil.ignore_patterns("target"))
    else:
        import shutil
        for _fn in os.listdir(HARNESS):
            _src = os.path.join(HARNESS, _fn)
            if os.path.isfile(_src):
                shutil.copy(_src, os.path.join(_alt, _fn))
        shutil.copytree(os.path.join(HARNESS, "src"), os.path.join(_alt, "src"), dirs_exist_ok=True)
    _ct = open(os.path.join(HARNESS, "Cargo.toml")).read().replace('"/repo/', '"%s/' % REPO)
    open(os.path.join(_alt, "Cargo.toml"), "w").write(_ct)
    HARNESS = _alt
    CACHE = os.path.join(CACHE, "alt-" + _tag)

ENV = dict(os.environ)
ENV.update({"CARGO_NET_OFFLINE": "true", "RUSTFLAGS": "--cfg lexical_verif -Awarnings"})

# feature-set name -> cargo features of the harness crate
FEATURE_SETS = {
    "default": "std",
    "compact": "std,compact",
    "pow2": "std,power-of-two",
    "radix": "std,radix",
    "format": "std,format",
    "radix+format": "std,radix,format",
    "compact+radix+format": "std,compact,radix,format",
    "compact+radix": "std,compact,radix",
    "nostd": "",
    "nostd+compact+radix+format": "compact,radix,format",
}
# name understood by the Lean driver's Features.ofString
DRIVER_FEATS = {
    "default": "default",
    "compact": "compact",
    "pow2": "power-of-two",
    "radix": "radix",
    "format": "format",
    "radix+format": "radix+format",
    "compact+radix+format": "compact+radix+format",
    "compact+radix": "compact+radix",
    "nostd": "nostd",
    "nostd+compact+radix+format": "nostd+compact+radix+format",
}


class Broken(Exception):
    """A tie or proof obligation no longer checks (build failure of harness or Lean)."""

    def __init__(self, what, detail):
        super().__init__(what)
        self.what = what
        self.detail = detail


def sh(cmd, cwd=None, env=None, timeout=None, input=None):
    p = subprocess.run(cmd, cwd=cwd, env=env or ENV, stdout=subprocess.PIPE, stderr=subprocess.STDOUT,
                       timeout=timeout, input=input)
    return p.returncode, p.stdout.decode("utf-8", "replace")


# ---------------------------------------------------------------------------------------------
# builds

def target_dir(fs, profile="release", group="base"):
    return os.path.join(CACHE, "target", fs if group == "base" else "%s@%s" % (fs, group))


def bin_path(fs, name, profile="release", group="base"):
    return os.path.join(target_dir(fs, profile, group), profile, name)


def build_harness(fs, profile="release", bins=("run", "dump"), group="base"):
    """cargo-build the harness against /repo's current working tree for one feature set and format group."""
    feats = FEATURE_SETS[fs]
    cmd = ["cargo", "build", "--offline", "--profile", profile, "--no-default-features"]
    if feats:
        cmd += ["--features", feats]
    for b in bins:
        cmd += ["--bin", b]
    env = dict(ENV)
    env["CARGO_TARGET_DIR"] = target_dir(fs, profile, group)
    if group != "base":
        env["LEXVERIF_FORMATS"] = os.path.join(HARNESS, "formats-%s.txt" % group)
    rc, out = sh(cmd, cwd=HARNESS, env=env)
    if rc != 0:
        raise Broken("harness-build[%s,%s,%s]" % (fs, profile, group), out[-6000:])
    return bin_path(fs, "run", profile, group)


def build_many(sets, profile="release", group="base"):
    """build several feature sets in parallel"""
    from concurrent.futures import ThreadPoolExecutor
    with ThreadPoolExecutor(max_workers=4) as ex:
        futs = {fs: ex.submit(build_harness, fs, profile, ("run", "dump"), group) for fs in sets}
        return {fs: f.result() for fs, f in futs.items()}


def lake_build(targets):
    rc, out = sh(["lake", "build"] + list(targets), cwd=LEAN)
    if rc != 0:
        raise Broken("lake-build[%s]" % ",".join(targets), out[-8000:])
    return out


def driver_path():
    return os.path.join(LEAN, ".lake", "build", "bin", "driver")


# ---------------------------------------------------------------------------------------------
# lean audit

ALLOWED_AXIOMS = {"propext", "Classical.choice", "Quot.sound"}


def theorems_in(module):
    """names of theorems declared in a Props module (fully qualified by its namespace)"""
    path = os.path.join(LEAN, *module.split(".")) + ".lean"
    src = open(path).read()
    ns = []
    names = []
    for line in src.splitlines():
        m = re.match(r"\s*namespace\s+(\S+)", line)
        if m:
            ns.append(m.group(1))
            continue
        m = re.match(r"\s*end\s+(\S+)", line)
        if m and ns and ns[-1] == m.group(1):
            ns.pop()
            continue
        m = re.match(r"\s*(?:@\[[^\]]*\]\s*)?(?:private\s+|protected\s+)?theorem\s+(\S+)", line)
        if m:
            names.append(".".join(ns + [m.group(1)]))
    return names


def forbidden_tokens():
    """grep the Lean sources for escape hatches (comments discarded)"""
    bad = []
    pat = re.compile(r"\b(sorry|admit|native_decide|bv_decide|implemented_by|unsafe )\b|^axiom |maxHeartbeats 0")
    for dp, _, fns in os.walk(os.path.join(LEAN, "LexVerif")):
        for fn in fns:
            if not fn.endswith(".lean"):
                continue
            p = os.path.join(dp, fn)
            src = open(p).read()
            src = re.sub(r"/-.*?-/", "", src, flags=re.S)
            for i, line in enumerate(src.splitlines()):
                line = line.split("--")[0]
                if pat.search(line):
                    bad.append("%s:%d: %s" % (p, i + 1, line.strip()))
    return bad


def audit(module, allow_extra=()):
    """#print axioms for each theorem of module; returns {theorem: [axioms]}"""
    names = theorems_in(module)
    if not names:
        return {}
    os.makedirs(WORK, exist_ok=True)
    f = os.path.join(WORK, "Audit_%s.lean" % module.replace(".", "_"))
    with open(f, "w") as fh:
        fh.write("import %s\n" % module)
        for n in names:
            fh.write("#print axioms %s\n" % n)
    rc, out = sh(["lake", "env", "lean", f], cwd=LEAN)
    if rc != 0:
        raise Broken("audit[%s]" % module, out[-4000:])
    res = {}
    # output: "'name' depends on axioms: [a, b]" or "'name' does not depend on any axioms"
    for m in re.finditer(r"'([^']+)' (does not depend on any axioms|depends on axioms: \[([^\]]*)\])", out, flags=re.S):
        axs = [a.strip() for a in (m.group(3) or "").replace("\n", " ").split(",") if a.strip()]
        res[m.group(1)] = axs
    for n in names:
        if n not in res:
            raise Broken("audit[%s]" % module, "no axiom report for %s\n%s" % (n, out[-2000:]))
        extra = [a for a in res[n] if a not in ALLOWED_AXIOMS and a not in allow_extra]
        if extra:
            raise Broken("axioms[%s]" % n, "theorem %s depends on non-allow-listed axioms %s" % (n, extra))
    return res


# ---------------------------------------------------------------------------------------------
# op streams

def hexs(b):
    if isinstance(b, str):
        b = b.encode()
    return b.hex() if b else "_"


def run_impl(binpath, ops, extra_env=None):
    """run the Rust harness over ops; a crash (signal) is located and reported as `fault`, a non-terminating op is
    located by a watchdog and reported as `hang`; the run resumes after the offending op"""
    results = []
    i = 0
    incidents = 0
    env = dict(ENV)
    if extra_env:
        env.update(extra_env)
    while i < len(ops):
        chunk = ops[i:]
        budget = 120 + len(chunk) * 0.002
        try:
            p = subprocess.run([binpath], input=("\n".join(chunk) + "\n").encode(), stdout=subprocess.PIPE,
                               stderr=subprocess.PIPE, env=env, timeout=budget)
            lines = p.stdout.decode("utf-8", "replace").split("\n")
            if lines and lines[-1] == "":
                lines.pop()
            if p.returncode == 0 and len(lines) == len(chunk):
                results.extend(lines)
                break
        except subprocess.TimeoutExpired:
            pass
        # crashed or hung: rerun flushing each line, with a per-op watchdog, to find the op
        lines, status = _run_watchdog(binpath, chunk, env)
        if status == "done" and len(lines) >= len(chunk):
            results.extend(lines[:len(chunk)])
            break
        results.extend(lines)
        results.append("hang" if status == "hang" else "fault rc=%s" % status)
        i += len(lines) + 1
        incidents += 1
        if incidents >= 6:
            # enough evidence; do not spend the time budget on locating further hangs/crashes of the same stream
            results.extend(["skipped"] * (len(ops) - len(results)))
            break
    return results


def _run_watchdog(binpath, chunk, env, stall=20.0):
    """line-flushed run; returns (result lines read so far, "done" | "hang" | returncode)"""
    import select
    import threading
    env2 = dict(env)
    env2["LEXVERIF_FLUSH"] = "1"
    p = subprocess.Popen([binpath], stdin=subprocess.PIPE, stdout=subprocess.PIPE, stderr=subprocess.DEVNULL, env=env2)

    def feed():
        try:
            p.stdin.write(("\n".join(chunk) + "\n").encode())
            p.stdin.close()
        except (BrokenPipeError, OSError):
            pass
    th = threading.Thread(target=feed, daemon=True)
    th.start()
    lines = []
    buf = b""
    fd = p.stdout.fileno()
    status = None
    while True:
        r, _, _ = select.select([fd], [], [], stall)
        if not r:
            status = "hang"
            p.kill()
            break
        data = os.read(fd, 1 << 16)
        if not data:
            p.wait()
            status = "done" if p.returncode == 0 else p.returncode
            break
        buf += data
        while b"\n" in buf:
            l, buf = buf.split(b"\n", 1)
            lines.append(l.decode("utf-8", "replace"))
        if len(lines) >= len(chunk):
            p.wait()
            status = "done" if p.returncode == 0 else p.returncode
            break
    try:
        p.kill()
    except OSError:
        pass
    return lines, status


def run_driver(fs, ops):
    p = subprocess.run([driver_path(), DRIVER_FEATS[fs]], input=("\n".join(ops) + "\n").encode(),
                       stdout=subprocess.PIPE, stderr=subprocess.PIPE)
    if p.returncode != 0:
        raise Broken("driver-run", p.stderr.decode()[-2000:])
    lines = p.stdout.decode("utf-8", "replace").split("\n")
    if lines and lines[-1] == "":
        lines.pop()
    if len(lines) != len(ops):
        raise Broken("driver-run", "driver produced %d lines for %d ops" % (len(lines), len(ops)))
    out = []
    for l in lines:
        m = re.match(r"M (.*) \| S (.*)$", l)
        if not m:
            out.append(("-", "-"))
        else:
            out.append((m.group(1), m.group(2)))
    return out


def agrees(impl, pred):
    """impl result agrees with a prediction: one of the `||` alternatives matches on all its tokens"""
    if pred == "-":
        return True
    it = impl.split(" ")
    for alt in pred.split(" || "):
        at = alt.split(" ")
        if at == ["err"] and it[0] == "err":
            return True
        if it[:len(at)] == at:
            return True
    return False


# ---------------------------------------------------------------------------------------------
# findings

def load_findings():
    p = os.path.join(ROOT, "known_findings.json")
    if not os.path.exists(p):
        return []
    return json.load(open(p))["findings"]


def match_finding(findings, prop, fs, op, impl=None, klass=None, profile=None):
    for f in findings:
        if f.get("status") != "open" or f["property"] != prop:
            continue
        m = f["match"]
        if "class" in m and m["class"] != klass:
            continue
        if "profile" in m and profile is not None and m["profile"] != profile:
            continue
        if "featureset" in m and not re.fullmatch(m["featureset"], fs):
            continue
        if "op" in m and not re.fullmatch(m["op"], op):
            continue
        if "impl" in m and impl is not None and not re.fullmatch(m["impl"], impl):
            continue
        return f
    return None


# ---------------------------------------------------------------------------------------------
# evidence

MAX_RESULT_KINDS = 48
MAX_EVIDENCE_BYTES = 1 << 20
_WORD = re.compile(r"[A-Za-z][A-Za-z_-]*\Z")
_HEX = re.compile(r"[0-9a-fA-F]+\Z")


def result_kind(ir):
    """class of one harness answer for the input-distribution histogram: the leading status word (`ok`, `panic`,
    `err/<ErrorKind>`, ...); an answer that is a bare value (a number, a packed format in hex) is counted as
    `value`, never keyed by the value itself -- the histogram must stay a histogram"""
    t = ir.split(" ")
    if ir.startswith("err") and len(t) > 1:
        return "err/" + t[1]
    if _WORD.match(t[0]) and not _HEX.match(t[0]) and len(t[0]) <= 40:
        return t[0]
    return "value"


def _shrink(o, depth=0):
    """last-resort size guard: collapse any dict/list with more than 64 entries below the top levels"""
    if isinstance(o, dict):
        if depth >= 2 and len(o) > 64:
            keep = dict(list(o.items())[:16])
            keep["(truncated)"] = "%d entries in total" % len(o)
            o = keep
        return {k: _shrink(v, depth + 1) for k, v in o.items()}
    if isinstance(o, list):
        if depth >= 2 and len(o) > 64:
            o = o[:16] + ["(truncated: %d entries in total)" % len(o)]
        return [_shrink(v, depth + 1) for v in o]
    if isinstance(o, str) and len(o) > 4000:
        return o[:4000] + "...(truncated)"
    return o


def write_evidence(prop, tier, seed, cov, wall, violations, assumptions):
    os.makedirs(os.path.join(ROOT, "evidence"), exist_ok=True)
    if len(json.dumps(cov)) > MAX_EVIDENCE_BYTES:
        cov = _shrink(cov)
    ev = {
        "property_id": prop,
        "tier": tier,
        "seed": seed,
        "level": "proof",
        "coverage": cov,
        "assumptions": assumptions,
        "wall_s": round(wall, 2),
        "violations": violations,
    }
    with open(os.path.join(ROOT, "evidence", prop + ".json"), "w") as fh:
        json.dump(ev, fh, indent=1)


def write_replay(prop, payload):
    d = os.path.join(ROOT, "replay")
    os.makedirs(d, exist_ok=True)
    blob = json.dumps(payload, sort_keys=True)
    h = hashlib.sha1(blob.encode()).hexdigest()[:12]
    p = os.path.join(d, "%s-%s.json" % (prop, h))
    with open(p, "w") as fh:
        json.dump(payload, fh, indent=1)
    return p


# ---------------------------------------------------------------------------------------------
# native exhaustive sweeps (thorough tier; supporting evidence)

def run_sweeps(binpath, ops, workers=16):
    """run sweep ops (xwi/xpi/xwf/xpf), one process per op, in parallel; returns list of (op, result line)"""
    from concurrent.futures import ThreadPoolExecutor

    def one(op):
        p = subprocess.run([binpath], input=(op + "\n").encode(), stdout=subprocess.PIPE, stderr=subprocess.PIPE)
        out = p.stdout.decode().strip().split("\n")[0] if p.stdout else "fault rc=%d" % p.returncode
        return (op, out)
    with ThreadPoolExecutor(max_workers=workers) as ex:
        return list(ex.map(one, ops))


def sweep_ops(kind, ty, lo, hi, shards):
    """split [lo, hi) into `shards` contiguous ranges"""
    n = hi - lo
    step = (n + shards - 1) // shards
    ops = []
    s = lo
    while s < hi:
        c = min(step, hi - s)
        ops.append("%s %s %d %d" % (kind, ty, s, c))
        s += c
    return ops


def sweep_violations(results, fs, profile, single_op):
    """turn sweep results into violation dicts; `single_op(op, first)` builds the replayable single-value op"""
    viol = []
    checked = 0
    for op, res in results:
        t = res.split(" ")
        if t[0] != "ok":
            viol.append({"kind": "input", "featureset": fs, "profile": profile, "stream": "sweep", "op": op,
                         "implementation": res, "specification": "sweep completes", "model": "-"})
            continue
        checked += int(t[1])
        if int(t[2]) != 0:
            viol.append({"kind": "input", "featureset": fs, "profile": profile, "stream": "sweep",
                         "op": single_op(op, t[3]), "implementation": "%s mismatches in %s, first at %s" % (t[2], op, t[3]),
                         "specification": "agrees with the standard library on the whole range", "model": "-"})
    return viol, checked
