"""Integer-parser formats for C10 / C11 (kind "I": instantiated for the integer APIs only): digits not required,
digit separators in the integer component (every I/L/T/C shape), base prefix / suffix, no_integer_leading_zeros,
sign flags, and combinations.  Appended to harness/formats.txt by tools/genformats.py."""
from gens import pack
from fmtlib import F, STD_FLAGS

US = ord("_")


def isep(letters):
    bits = 0
    for c in letters:
        kind = {"i": "internal", "l": "leading", "t": "trailing", "c": "consecutive"}[c]
        bits |= F["integer_%s_digit_separator" % kind]
    return bits


def extra_formats():
    S = STD_FLAGS
    x, d, h = ord("x"), ord("d"), ord("h")
    nolz = F["no_integer_leading_zeros"]
    out = [
        ("I", pack(10, flags=0), "int_noreq"),
        ("I", pack(16, flags=0), "int_noreq_hex"),
    ]
    for c in ("i", "l", "t", "ilt", "ic", "lc", "tc", "itc", "iltc"):
        out.append(("I", pack(10, flags=S | isep(c), sep=US), "int_sep_" + c))
    out += [
        ("I", pack(10, flags=isep("iltc"), sep=US), "int_sep_iltc_noreq"),
        ("I", pack(16, flags=S | isep("iltc"), sep=US), "int_sep_iltc_hex"),
        ("I", pack(16, flags=S, prefix=x), "int_prefix_x"),
        ("I", pack(16, flags=S | F["case_sensitive_base_prefix"], prefix=x), "int_prefix_x_cased"),
        ("I", pack(10, flags=S, prefix=d), "int_prefix_d"),
        ("I", pack(10, flags=0, prefix=d), "int_prefix_d_noreq"),
        ("I", pack(16, flags=S, suffix=h), "int_suffix_h"),
        ("I", pack(10, flags=S | F["case_sensitive_base_suffix"], suffix=h), "int_suffix_h_cased"),
        ("I", pack(16, flags=S, prefix=x, suffix=h), "int_prefix_x_suffix_h"),
        ("I", pack(16, flags=S | isep("iltc"), sep=US, prefix=x, suffix=h), "int_prefix_suffix_sep_iltc"),
        ("I", pack(16, flags=S | isep("i"), sep=US, prefix=x), "int_prefix_sep_i"),
        ("I", pack(16, flags=S | isep("l"), sep=US, prefix=x), "int_prefix_sep_l"),
        ("I", pack(10, flags=S | nolz), "int_nolz"),
        ("I", pack(10, flags=nolz), "int_nolz_noreq"),
        ("I", pack(16, flags=S | nolz, prefix=x), "int_nolz_prefix_x"),
        ("I", pack(10, flags=S | nolz | isep("iltc"), sep=US), "int_nolz_sep_iltc"),
        ("I", pack(10, flags=S | nolz | isep("l"), sep=US), "int_nolz_sep_l"),
        ("I", pack(10, flags=S | F["no_positive_mantissa_sign"]), "int_nopossign"),
        ("I", pack(10, flags=F["required_mantissa_sign"]), "int_reqsign_noreq"),
    ]
    return out
