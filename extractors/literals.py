"""S extraction (literal level): the integer literals and the token *shape* of a whitelist of small arithmetic
kernels are read from /repo's source text on every run and written to lean/LexVerif/Gen/Literals.lean.
`Props/Literals.lean` proves (by `decide`) that they equal the committed snapshot the hand-written models were
transcribed from (`LexVerif/Spec/LiteralsExpected.lean`). A changed magic number, shift, mask, comparison
constant or a restructured kernel therefore breaks an obligation that names the function.

A real tokenizer (comments, strings, char literals, lifetimes, numeric suffixes), not line regexes."""
import hashlib
import os
import re

import extract
import vlib
from vlib import Broken

# (crate-relative file, function or macro name, kind)   kind: fn | macro
WHITELIST = [
    ("lexical-parse-integer/src/algorithm.rs", "is_4digits", "fn"),
    ("lexical-parse-integer/src/algorithm.rs", "parse_4digits", "fn"),
    ("lexical-parse-integer/src/algorithm.rs", "is_8digits", "fn"),
    ("lexical-parse-integer/src/algorithm.rs", "parse_8digits", "fn"),
    ("lexical-parse-integer/src/algorithm.rs", "can_try_parse_multidigits", "fn"),
    ("lexical-util/src/num.rs", "overflow_digits", "fn"),
    ("lexical-util/src/digit.rs", "char_to_valid_digit_const", "fn"),
    ("lexical-util/src/digit.rs", "char_to_digit_const", "fn"),
    ("lexical-util/src/digit.rs", "digit_to_char_const", "fn"),
    ("lexical-parse-float/src/lemire.rs", "compute_float", "fn"),
    ("lexical-parse-float/src/lemire.rs", "compute_product_approx", "fn"),
    ("lexical-parse-float/src/lemire.rs", "power", "fn"),
    ("lexical-parse-float/src/lemire.rs", "full_multiplication", "fn"),
    ("lexical-parse-float/src/lemire.rs", "compute_error_scaled", "fn"),
    ("lexical-parse-float/src/lemire.rs", "lemire", "fn"),
    ("lexical-parse-float/src/bellerophon.rs", "bellerophon", "fn"),
    ("lexical-parse-float/src/bellerophon.rs", "error_is_accurate", "fn"),
    ("lexical-parse-float/src/bellerophon.rs", "error_scale", "fn"),
    ("lexical-parse-float/src/bellerophon.rs", "mul", "fn"),
    ("lexical-parse-float/src/bellerophon.rs", "normalize", "fn"),
    ("lexical-parse-float/src/binary.rs", "binary", "fn"),
    ("lexical-parse-float/src/binary.rs", "slow_binary", "fn"),
    ("lexical-parse-float/src/shared.rs", "calculate_shift", "fn"),
    ("lexical-parse-float/src/shared.rs", "calculate_power2", "fn"),
    ("lexical-parse-float/src/shared.rs", "log2", "fn"),
    ("lexical-parse-float/src/shared.rs", "round", "fn"),
    ("lexical-parse-float/src/shared.rs", "round_nearest_tie_even", "fn"),
    ("lexical-parse-float/src/number.rs", "is_fast_path", "fn"),
    ("lexical-parse-float/src/number.rs", "try_fast_path", "fn"),
    ("lexical-parse-float/src/mask.rs", "lower_n_mask", "fn"),
    ("lexical-parse-float/src/mask.rs", "lower_n_halfway", "fn"),
    ("lexical-parse-float/src/mask.rs", "nth_bit", "fn"),
    ("lexical-parse-float/src/slow.rs", "scientific_exponent", "fn"),
    ("lexical-parse-float/src/slow.rs", "round_up_truncated", "macro"),
    ("lexical-parse-float/src/slow.rs", "round_up_nonzero", "macro"),
    ("lexical-parse-float/src/slow.rs", "slow_radix", "fn"),
    ("lexical-parse-float/src/slow.rs", "digit_comp", "fn"),
    ("lexical-parse-float/src/slow.rs", "positive_digit_comp", "fn"),
    ("lexical-parse-float/src/slow.rs", "negative_digit_comp", "fn"),
    ("lexical-parse-float/src/slow.rs", "parse_mantissa", "fn"),
    ("lexical-parse-float/src/slow.rs", "byte_comp", "fn"),
    ("lexical-parse-float/src/slow.rs", "compare_bytes", "fn"),
    ("lexical-parse-float/src/slow.rs", "b", "fn"),
    ("lexical-parse-float/src/slow.rs", "bh", "fn"),
    ("lexical-write-float/src/algorithm.rs", "compute_nearest_shorter", "fn"),
    ("lexical-write-float/src/algorithm.rs", "compute_nearest_normal", "fn"),
    ("lexical-write-float/src/algorithm.rs", "floor_log2", "fn"),
    ("lexical-write-float/src/algorithm.rs", "floor_log10_pow2", "fn"),
    ("lexical-write-float/src/algorithm.rs", "floor_log2_pow10", "fn"),
    ("lexical-write-float/src/algorithm.rs", "floor_log5_pow2", "fn"),
    ("lexical-write-float/src/algorithm.rs", "floor_log5_pow2_minus_log5_3", "fn"),
    ("lexical-write-float/src/algorithm.rs", "floor_log10_pow2_minus_log10_4_over_3", "fn"),
    ("lexical-write-float/src/algorithm.rs", "umul128_upper64", "fn"),
    ("lexical-write-float/src/algorithm.rs", "umul192_upper128", "fn"),
    ("lexical-write-float/src/algorithm.rs", "umul192_lower128", "fn"),
    ("lexical-write-float/src/algorithm.rs", "umul96_upper64", "fn"),
    ("lexical-write-float/src/algorithm.rs", "umul96_lower64", "fn"),
    ("lexical-write-float/src/algorithm.rs", "is_endpoint", "fn"),
    ("lexical-write-float/src/algorithm.rs", "is_right_endpoint", "fn"),
    ("lexical-write-float/src/algorithm.rs", "is_left_endpoint", "fn"),
    ("lexical-write-float/src/shared.rs", "truncate_and_round_decimal", "fn"),
    ("lexical-write-float/src/shared.rs", "round_up", "fn"),
    ("lexical-write-float/src/shared.rs", "min_exact_digits", "fn"),
    ("lexical-write-float/src/shared.rs", "write_exponent_sign", "fn"),
    ("lexical-write-float/src/binary.rs", "calculate_shl", "fn"),
    ("lexical-write-float/src/binary.rs", "scale_sci_exp", "fn"),
    ("lexical-write-float/src/binary.rs", "fast_ceildiv", "fn"),
    ("lexical-write-float/src/binary.rs", "inverse_remainder", "fn"),
    ("lexical-write-float/src/binary.rs", "truncate_and_round", "fn"),
    ("lexical-write-float/src/compact.rs", "round_digit", "fn"),
    ("lexical-write-float/src/compact.rs", "generate_digits", "fn"),
    ("lexical-write-float/src/compact.rs", "grisu", "fn"),
    ("lexical-write-float/src/compact.rs", "normalized_boundaries", "fn"),
    ("lexical-write-integer/src/digit_count.rs", "fast_log2", "fn"),
    ("lexical-write-integer/src/decimal.rs", "fast_log10", "fn"),
    ("lexical-write-integer/src/decimal.rs", "fallback_digit_count", "fn"),
    ("lexical-write-integer/src/jeaiii.rs", "write_digits", "macro"),
    ("lexical-write-integer/src/jeaiii.rs", "from_u8", "fn"),
    ("lexical-write-integer/src/jeaiii.rs", "from_u16", "fn"),
    ("lexical-write-integer/src/jeaiii.rs", "from_u32", "fn"),
    ("lexical-write-integer/src/jeaiii.rs", "from_u64", "fn"),
    ("lexical-write-integer/src/jeaiii.rs", "from_u128", "fn"),
    ("lexical-write-integer/src/algorithm.rs", "write_digits", "fn"),
    ("lexical-write-integer/src/compact.rs", "compact", "fn"),
    ("lexical-util/src/div128.rs", "fast_u128_divrem", "fn"),
    ("lexical-util/src/div128.rs", "moderate_u128_divrem", "fn"),
    ("lexical-util/src/div128.rs", "slow_u128_divrem", "fn"),
    ("lexical-util/src/div128.rs", "pow2_u128_divrem", "fn"),
    ("lexical-util/src/mul.rs", "mulhi", "fn"),
    ("lexical-write-float/src/options.rs", "buffer_size_const", "fn"),
]

TOKEN = re.compile(r"""
    (?P<lcomment>//[^\n]*)
  | (?P<bcomment>/\*.*?\*/)
  | (?P<string>b?"(?:\\.|[^"\\])*")
  | (?P<char>b?'(?:\\.|[^'\\])')
  | (?P<lifetime>'[A-Za-z_][A-Za-z0-9_]*)
  | (?P<number>0x[0-9a-fA-F_]+(?:[iu](?:8|16|32|64|128|size))?|0b[01_]+(?:[iu](?:8|16|32|64|128|size))?|0o[0-7_]+|[0-9][0-9_]*(?:\.[0-9][0-9_]*)?(?:[eE][+-]?[0-9_]+)?(?:_?(?:[iu](?:8|16|32|64|128|size)|f32|f64))?)
  | (?P<ident>[A-Za-z_][A-Za-z0-9_]*!?)
  | (?P<op><<=|>>=|\.\.=|\.\.\.|<<|>>|<=|>=|==|!=|&&|\|\||\+=|-=|\*=|/=|%=|\^=|&=|\|=|->|=>|::|\.\.|[-+*/%^&|!<>=~?@#$.,;:(){}\[\]])
  | (?P<ws>\s+)
""", re.X | re.S)


def tokenize(src):
    out = []
    pos = 0
    while pos < len(src):
        m = TOKEN.match(src, pos)
        if not m:
            raise Broken("S-lexer", "cannot tokenize at %r" % src[pos:pos + 40])
        kind = m.lastgroup
        if kind not in ("lcomment", "bcomment", "ws"):
            out.append((kind, m.group(0)))
        pos = m.end()
    return out


def number_value(tok):
    t = tok.replace("_", "")
    t = re.sub(r"(?:[iu](?:8|16|32|64|128|size)|f32|f64)$", "", t)
    if t.startswith("0x"):
        return int(t, 16)
    if t.startswith("0b"):
        return int(t, 2)
    if t.startswith("0o"):
        return int(t, 8)
    if re.fullmatch(r"[0-9]+", t):
        return int(t)
    return None        # float literal: kept in the shape, not in the value list


def find_item(tokens, name, kind):
    """token range of the body `{…}` of every definition of fn/macro `name` (there may be cfg variants)"""
    bodies = []
    i = 0
    n = len(tokens)
    while i < n:
        k, t = tokens[i]
        hit = False
        if kind == "fn" and t == "fn" and i + 1 < n and tokens[i + 1][1] == name:
            hit = True
        if kind == "macro" and t == "macro_rules!" and i + 1 < n and tokens[i + 1][1] == name:
            hit = True
        if hit:
            j = i + 2
            depth = 0
            while j < n and not (tokens[j][1] == "{" and depth == 0):
                if tokens[j][1] in "([":
                    depth += 1
                elif tokens[j][1] in ")]":
                    depth -= 1
                elif tokens[j][1] == ";" and depth == 0:
                    break            # declaration without body (trait method)
                j += 1
            if j < n and tokens[j][1] == "{":
                depth = 0
                start = j
                while j < n:
                    if tokens[j][1] == "{":
                        depth += 1
                    elif tokens[j][1] == "}":
                        depth -= 1
                        if depth == 0:
                            break
                    j += 1
                bodies.append(tokens[i:j + 1])
                i = j
        i += 1
    return bodies


def extract_all():
    cache = {}
    rows = []
    for (rel, name, kind) in WHITELIST:
        path = os.path.join(vlib.REPO, rel)
        if path not in cache:
            try:
                cache[path] = tokenize(open(path).read())
            except OSError as e:
                raise Broken("S-read[%s]" % rel, repr(e))
        bodies = find_item(cache[path], name, kind)
        if not bodies:
            raise Broken("S-find[%s::%s]" % (rel, name), "whitelisted %s `%s` not found in %s" % (kind, name, rel))
        lits = []
        shape = []
        for b in bodies:
            for (k, t) in b:
                if k == "number":
                    v = number_value(t)
                    if v is not None:
                        lits.append(v)
                        shape.append("#")
                        continue
                if k in ("string",):
                    shape.append("S")          # message strings do not matter
                    continue
                shape.append(t)
            shape.append("|")
        h = int(hashlib.sha1(" ".join(shape).encode()).hexdigest()[:12], 16)
        rows.append((rel, name, lits, h))
    return rows


def lean_name(rel, name):
    crate = rel.split("/")[0].replace("lexical-", "").replace("-", "_")
    mod = os.path.basename(rel)[:-3]
    return "%s_%s_%s" % (crate, mod, name)


def render(rows, namespace, header):
    s = [header, "namespace %s" % namespace, ""]
    for rel, name, lits, h in rows:
        s.append("/-- `%s` in %s: integer literals in source order, and a hash of the token shape (literals abstracted) -/" % (name, rel))
        s.append("def %s : List Nat × Nat := ([%s], %d)" % (lean_name(rel, name), ", ".join(map(str, lits)), h))
    s.append("")
    s.append("def all : List (String × (List Nat × Nat)) := [")
    s.append(",\n".join('  ("%s", %s)' % (lean_name(rel, name), lean_name(rel, name)) for rel, name, _, _ in rows))
    s += ["]", "", "end %s" % namespace, ""]
    return "\n".join(s)


def generate():
    rows = extract_all()
    extract.write_if_changed(os.path.join(extract.GEN_DIR, "Literals.lean"),
                             render(rows, "LexVerif.Gen.Literals",
                                    "/-! GENERATED by extractors/literals.py from /repo's source text on every run — do not edit. -/"))
    return rows


def snapshot():
    """(re)create the committed snapshot the models were transcribed from — run by hand, reviewed, committed"""
    rows = extract_all()
    p = os.path.join(vlib.LEAN, "LexVerif", "Spec", "LiteralsExpected.lean")
    open(p, "w").write(render(rows, "LexVerif.Spec.LiteralsExpected",
                              "/-! Snapshot of the literals and token shapes of the whitelisted kernels at the time the hand-written models\n"
                              "were transcribed (created by `python3 -c 'import extractors.literals as l; l.snapshot()'`, then committed).\n"
                              "`Props/Literals.lean` proves `Gen.Literals` (regenerated from /repo on every run) equal to it. -/"))
    fams = {}
    for rel, name, _, _ in rows:
        n = lean_name(rel, name)
        fam = "".join(w.capitalize() for w in n.split("_")[:2])      # ParseInteger, ParseFloat, WriteFloat, WriteInteger, UtilX
        if fam.startswith("Util"):
            fam = "Util"
        fams.setdefault(fam, []).append(n)
    os.makedirs(os.path.join(vlib.LEAN, "LexVerif", "Props", "Literals"), exist_ok=True)
    for fam, names in fams.items():
        t = ["import LexVerif.Gen.Literals", "import LexVerif.Spec.LiteralsExpected", "/-!",
             "# Literals.%s — whitelisted arithmetic kernels of /repo still carry the literals (and token shape) the models" % fam,
             "were transcribed from",
             "",
             "`Gen.Literals` is re-extracted from /repo's source text on every run (extractors/literals.py: a tokenizer, the",
             "integer literals of each whitelisted function/macro in source order, and a hash of its token sequence with the",
             "literals abstracted). `Spec.LiteralsExpected` is the committed snapshot. One theorem per kernel, so that a failing",
             "obligation names the function whose source moved. (Written by `snapshot()` together with the snapshot.)",
             "-/", "namespace LexVerif.Props.Literals.%s" % fam, "open LexVerif", ""]
        for n in names:
            t.append("theorem %s : Gen.Literals.%s = Spec.LiteralsExpected.%s := by decide" % (n, n, n))
        t += ["", "end LexVerif.Props.Literals.%s" % fam, ""]
        open(os.path.join(vlib.LEAN, "LexVerif", "Props", "Literals", fam + ".lean"), "w").write("\n".join(t))
    return rows
