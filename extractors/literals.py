"""S extraction (literal level): the integer literals and the token *shape* of a whitelist of small arithmetic
kernels are read from /repo's source text on every run and written to lean/LexVerif/Gen/Literals.lean.
`Props/Literals.lean` proves (by `decide`) that they equal the committed snapshot the hand-written models were
transcribed from (`LexVerif/Spec/LiteralsExpected.lean`). A changed magic number, shift, mask, comparison
constant or a restructured kernel therefore breaks an obligation that names the function.

A real tokenizer (comments, strings, char literals, lifetimes, numeric suffixes), not line regexes."""
import hashlib
import os
import re

import extract
import vlib
from vlib import Broken

# Whole files are covered: every `fn` and `macro_rules!` item found in these files is an entry (cfg variants and
# per-type impls of the same name are concatenated in source order).
FILES = [
    "lexical-parse-integer/src/algorithm.rs", "lexical-parse-integer/src/api.rs", "lexical-parse-integer/src/parse.rs",
    "lexical-parse-float/src/parse.rs", "lexical-parse-float/src/number.rs", "lexical-parse-float/src/lemire.rs",
    "lexical-parse-float/src/bellerophon.rs", "lexical-parse-float/src/binary.rs", "lexical-parse-float/src/shared.rs",
    "lexical-parse-float/src/mask.rs", "lexical-parse-float/src/slow.rs", "lexical-parse-float/src/bigint.rs",
    "lexical-parse-float/src/float.rs", "lexical-parse-float/src/limits.rs", "lexical-parse-float/src/api.rs",
    "lexical-parse-float/src/options.rs",
    "lexical-write-float/src/algorithm.rs", "lexical-write-float/src/compact.rs", "lexical-write-float/src/binary.rs",
    "lexical-write-float/src/hex.rs", "lexical-write-float/src/radix.rs", "lexical-write-float/src/shared.rs",
    "lexical-write-float/src/write.rs", "lexical-write-float/src/options.rs", "lexical-write-float/src/api.rs",
    "lexical-write-float/src/float.rs",
    "lexical-write-integer/src/algorithm.rs", "lexical-write-integer/src/compact.rs", "lexical-write-integer/src/decimal.rs",
    "lexical-write-integer/src/digit_count.rs", "lexical-write-integer/src/jeaiii.rs", "lexical-write-integer/src/radix.rs",
    "lexical-write-integer/src/write.rs", "lexical-write-integer/src/api.rs",
    "lexical-util/src/digit.rs", "lexical-util/src/div128.rs", "lexical-util/src/mul.rs", "lexical-util/src/step.rs",
    "lexical-util/src/num.rs", "lexical-util/src/skip.rs", "lexical-util/src/noskip.rs", "lexical-util/src/iterator.rs",
    "lexical-util/src/format_flags.rs", "lexical-util/src/feature_format.rs", "lexical-util/src/not_feature_format.rs",
    "lexical-util/src/format_builder.rs", "lexical-util/src/ascii.rs", "lexical-util/src/algorithm.rs", "lexical-util/src/constants.rs",
    "lexical-util/src/options.rs", "lexical-util/src/extended_float.rs",
    "lexical-util/src/libm.rs", "lexical-util/src/format.rs", "lexical-util/src/error.rs", "lexical-util/src/assert.rs",
    "lexical-util/src/api.rs", "lexical-util/src/result.rs",
    "lexical-parse-float/src/libm.rs", "lexical-parse-float/src/fpu.rs", "lexical-parse-integer/src/options.rs",
    "lexical-write-integer/src/options.rs", "lexical-write-float/src/index.rs",
    "lexical-core/src/lib.rs", "lexical/src/lib.rs",
]

TOKEN = re.compile(r"""
    (?P<lcomment>//[^\n]*)
  | (?P<bcomment>/\*.*?\*/)
  | (?P<string>b?"(?:\\.|[^"\\])*")
  | (?P<char>b?'(?:\\.|[^'\\])')
  | (?P<lifetime>'[A-Za-z_][A-Za-z0-9_]*)
  | (?P<number>0x[0-9a-fA-F_]+(?:[iu](?:8|16|32|64|128|size))?|0b[01_]+(?:[iu](?:8|16|32|64|128|size))?|0o[0-7_]+|[0-9][0-9_]*(?:\.[0-9][0-9_]*)?(?:[eE][+-]?[0-9_]+)?(?:_?(?:[iu](?:8|16|32|64|128|size)|f32|f64))?)
  | (?P<ident>[A-Za-z_][A-Za-z0-9_]*!?)
  | (?P<op><<=|>>=|\.\.=|\.\.\.|<<|>>|<=|>=|==|!=|&&|\|\||\+=|-=|\*=|/=|%=|\^=|&=|\|=|->|=>|::|\.\.|[-+*/%^&|!<>=~?@#$.,;:(){}\[\]])
  | (?P<ws>\s+)
""", re.X | re.S)


def tokenize(src):
    out = []
    pos = 0
    while pos < len(src):
        m = TOKEN.match(src, pos)
        if not m:
            raise Broken("S-lexer", "cannot tokenize at %r" % src[pos:pos + 40])
        kind = m.lastgroup
        if kind not in ("lcomment", "bcomment", "ws"):
            out.append((kind, m.group(0)))
        pos = m.end()
    return out


def number_value(tok):
    t = tok.replace("_", "")
    t = re.sub(r"(?:[iu](?:8|16|32|64|128|size)|f32|f64)$", "", t)
    if t.startswith("0x"):
        return int(t, 16)
    if t.startswith("0b"):
        return int(t, 2)
    if t.startswith("0o"):
        return int(t, 8)
    if re.fullmatch(r"[0-9]+", t):
        return int(t)
    return None        # float literal: kept in the shape, not in the value list


def find_item(tokens, name, kind):
    """token range of the body `{…}` of every definition of fn/macro `name` (there may be cfg variants)"""
    bodies = []
    i = 0
    n = len(tokens)
    while i < n:
        k, t = tokens[i]
        hit = False
        if kind == "fn" and t == "fn" and i + 1 < n and tokens[i + 1][1] == name:
            hit = True
        if kind == "macro" and t == "macro_rules!" and i + 1 < n and tokens[i + 1][1] == name:
            hit = True
        if hit:
            j = i + 2
            depth = 0
            while j < n and not (tokens[j][1] == "{" and depth == 0):
                if tokens[j][1] in "([":
                    depth += 1
                elif tokens[j][1] in ")]":
                    depth -= 1
                elif tokens[j][1] == ";" and depth == 0:
                    break            # declaration without body (trait method)
                j += 1
            if j < n and tokens[j][1] == "{":
                depth = 0
                start = j
                while j < n:
                    if tokens[j][1] == "{":
                        depth += 1
                    elif tokens[j][1] == "}":
                        depth -= 1
                        if depth == 0:
                            break
                    j += 1
                bodies.append(tokens[i:j + 1])
                i = j
        i += 1
    return bodies


def items_of(tokens):
    """distinct (name, kind) of all fn / macro_rules! items, in order of first appearance"""
    out = []
    seen = set()
    for i, (k, t) in enumerate(tokens[:-1]):
        nk, nt = tokens[i + 1]
        if t == "fn" and nk == "ident":
            key = (nt, "fn")
        elif t == "macro_rules!" and nk == "ident":
            key = (nt, "macro")
        else:
            continue
        if key not in seen:
            seen.add(key)
            out.append(key)
    return out


def file_module(rel):
    crate = rel.split("/")[0].replace("lexical-", "").replace("-", "_").replace("lexical", "facade")
    mod = os.path.basename(rel)[:-3]
    return "".join(w.capitalize() for w in (crate + "_" + mod).split("_"))


def extract_all():
    """{module: [(item name, kind, literals, shape hash)]}"""
    res = {}
    for rel in FILES:
        path = os.path.join(vlib.REPO, rel)
        try:
            toks = tokenize(open(path).read())
        except OSError as e:
            raise Broken("S-read[%s]" % rel, repr(e))
        rows = []
        for (name, kind) in items_of(toks):
            bodies = find_item(toks, name, kind)
            lits, shape = [], []
            for b in bodies:
                for (k, t) in b:
                    if k == "number":
                        v = number_value(t)
                        if v is not None:
                            lits.append(v)
                            shape.append("#")
                            continue
                    if k == "string":
                        shape.append("S")
                        continue
                    shape.append(t)
                shape.append("|")
            h = int(hashlib.sha1(" ".join(shape).encode()).hexdigest()[:12], 16)
            rows.append((name + ("_macro" if kind == "macro" else ""), lits, h))
        res[file_module(rel)] = (rel, rows)
    return res


def ident(name):
    return "k_" + re.sub(r"[^A-Za-z0-9_]", "_", name)


def render(res, namespace, header):
    s = [header, "namespace %s" % namespace, ""]
    for mod, (rel, rows) in res.items():
        s.append("namespace %s  -- %s" % (mod, rel))
        for name, lits, h in rows:
            s.append("def %s : List Nat × Nat := ([%s], %d)" % (ident(name), ", ".join(map(str, lits)), h))
        s.append("def items : List String := [%s]" % ", ".join('"%s"' % n for n, _, _ in rows))
        s.append("end %s" % mod)
        s.append("")
    s += ["end %s" % namespace, ""]
    return "\n".join(s)


def generate():
    res = extract_all()
    extract.write_if_changed(os.path.join(extract.GEN_DIR, "Literals.lean"),
                             render(res, "LexVerif.Gen.Literals",
                                    "/-! GENERATED by extractors/literals.py from /repo's source text on every run — do not edit.\n"
                                    "Per source file: every fn / macro_rules! item with its integer literals in source order and a hash of its\n"
                                    "token sequence (literals abstracted, comments and string contents ignored). -/"))
    return res


def snapshot():
    """(re)create the committed snapshot the models were transcribed from, and the theorem files — run by hand after
    reviewing a source change (e.g. a `fix:` commit), then commit the result"""
    import shutil
    res = extract_all()
    open(os.path.join(vlib.LEAN, "LexVerif", "Spec", "LiteralsExpected.lean"), "w").write(
        render(res, "LexVerif.Spec.LiteralsExpected",
               "/-! Snapshot of the literals and token shapes of the covered source files at the time the hand-written models were\n"
               "transcribed / last reviewed (created by `extractors.literals.snapshot()`, then committed).\n"
               "`Props/Literals/*.lean` prove `Gen.Literals` (regenerated from /repo on every run) equal to it, item by item. -/"))
    d = os.path.join(vlib.LEAN, "LexVerif", "Props", "Literals")
    shutil.rmtree(d, ignore_errors=True)
    os.makedirs(d)
    for mod, (rel, rows) in res.items():
        t = ["import LexVerif.Gen.Literals", "import LexVerif.Spec.LiteralsExpected", "/-!",
             "# Literals.%s — %s still has the literals and token shape the models were transcribed from" % (mod, rel),
             "",
             "`Gen.Literals.%s` is re-extracted from /repo's source text on every run; `Spec.LiteralsExpected.%s` is the" % (mod, mod),
             "committed snapshot. One theorem per fn / macro item, so a failing obligation names the item whose source moved;",
             "`items_same` catches added or removed items. (Written by `extractors.literals.snapshot()`.)",
             "-/", "namespace LexVerif.Props.Literals.%s" % mod, "open LexVerif", ""]
        t.append("theorem items_same : Gen.Literals.%s.items = Spec.LiteralsExpected.%s.items := by decide" % (mod, mod))
        for name, _, _ in rows:
            t.append("theorem %s : Gen.Literals.%s.%s = Spec.LiteralsExpected.%s.%s := by decide" % (ident(name), mod, ident(name), mod, ident(name)))
        t += ["", "end LexVerif.Props.Literals.%s" % mod, ""]
        open(os.path.join(d, mod + ".lean"), "w").write("\n".join(t))
    return res
