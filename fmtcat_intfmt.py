"""Format catalogue for the format-feature integer model (Model.ParseIntFormat): integer formats that exercise branches
of `algorithm!` not reached by the other catalogues (kind "I": instantiated for the integer parsers only).

* a digit-separator byte whose flags sit on the fraction / exponent only (integer iterator contiguous, `Bytes` not):
  `current_count()` of the integer iterator is then the per-buffer digit count, which `next()` never increments;
* base suffix together with `no_integer_leading_zeros` (no prefix);
* base suffix with a separator byte that the integer component does not use."""
from gens import pack
from fmtlib import F, STD_FLAGS

SEP = 0x5F


def _fmts():
    fr_i = F["fraction_internal_digit_separator"]
    ex_i = F["exponent_internal_digit_separator"]
    nolz = F["no_integer_leading_zeros"]
    return [
        (pack(10, sep=SEP, flags=STD_FLAGS | fr_i), "intfmt_sep_fraction_only"),
        (pack(16, sep=SEP, flags=STD_FLAGS | ex_i), "intfmt_sep_exponent_only_hex"),
        (pack(10, sep=SEP, flags=(STD_FLAGS | fr_i) & ~F["required_mantissa_digits"]), "intfmt_sep_fraction_only_noreq"),
        (pack(10, sep=SEP, flags=STD_FLAGS | fr_i | nolz), "intfmt_sep_fraction_only_nolz"),
        (pack(10, suffix=ord("h"), flags=STD_FLAGS | nolz), "intfmt_suffix_h_nolz"),
        (pack(16, suffix=ord("h"), sep=SEP, flags=STD_FLAGS | fr_i), "intfmt_suffix_h_sep_fraction_only_hex"),
    ]


INT_FORMATS = _fmts()


def extra_formats():
    return [("I", f, n) for f, n in INT_FORMATS]
