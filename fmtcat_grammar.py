"""Format catalogue for the *integer* half of C12 (`pi` ops against Spec.Grammar.grammarIntComplete):
the flags documented as "Used For: Parse Integer" — mantissa sign flags, no_integer_leading_zeros, base prefix /
suffix with their case flags — plus "no digits required". Kind "I": integer APIs only."""
from gens import pack
from fmtlib import F, STD_FLAGS


def _fl(*names, base=STD_FLAGS):
    v = base
    for n in names:
        v |= F[n]
    return v


x, d, h = ord("x"), ord("d"), ord("h")
INT_FORMATS = [
    (pack(10, flags=_fl("no_integer_leading_zeros")), "int_nolz"),
    (pack(10, flags=_fl("no_positive_mantissa_sign")), "int_nopos"),
    (pack(10, flags=0), "int_noreq"),
    (pack(10, flags=_fl("no_integer_leading_zeros", base=0)), "int_nolz_noreq"),
    (pack(10, flags=_fl("required_integer_digits", base=0)), "int_reqint_only"),
    (pack(16, prefix=x), "int_prefix_x_hex"),
    (pack(16, prefix=x, flags=_fl("case_sensitive_base_prefix")), "int_prefix_x_cased"),
    (pack(10, prefix=d), "int_prefix_d"),
    (pack(10, prefix=d, flags=_fl("no_integer_leading_zeros")), "int_prefix_d_nolz"),
    (pack(10, suffix=h), "int_suffix_h"),
    (pack(10, suffix=h, flags=_fl("case_sensitive_base_suffix")), "int_suffix_h_cased"),
    (pack(10, prefix=d, suffix=h), "int_prefix_d_suffix_h"),
    (pack(10, prefix=d, flags=0), "int_prefix_d_noreq"),
]


def extra_formats():
    return [("I", v, n) for v, n in INT_FORMATS]
