"""C12 — syntax flags accept exactly the documented grammar (float syntax layer; shares streams with C10/C11/C13/C15)."""
import gens_float

ID = "C12"
LEAN_MODULES = ["LexVerif.Props.C12"]
GEN = []
TRUSTED = [
    "Lean 4.33.0 kernel; axioms of each theorem listed under coverage.theorems",
    "correspondence harness (harness/src/bin/run.rs, harness/src/comp.rs) and generators (gens_float.py): differential testing, bounded by generator quality",
    "hand-written models Model.Iter / Model.ParseNumber tied to lexical-util/src/{iterator,noskip,skip}.rs and "
    "lexical-parse-float/src/{parse,api}.rs by correspondence only (API level `pf`, component level `pn`)",
    "value of an accepted literal: Spec.litBits (exact rational arithmetic + roundNE)",
]
ASSUMPTIONS = ["usize = u64 (x86-64)", "rustc codegen is correct"]
RULE = ("G-fmt generator over the fmtcat_pnum catalogue (single flags, pairs, base prefix/suffix, '_' with every I/L/T/C "
        "combination uniform and mixed across components, special-value separator, language formats): exhaustive strings "
        "to length 3 over a per-format reduced alphabet + sampled to length 6, digit runs of 7-25 digits with sprinkled "
        "separators, huge exponents, inputs near the special strings with custom option strings, arbitrary bytes, invalid "
        "options/formats; each string through `pf` (entry point) and `pn` (parse_number) with both PARTIAL values; "
        "non-trivial = a digit or special was consumed (ok, or an error index > 0); distinct = distinct op lines")

TECHNIQUE = "Lean 4 proof (iterator and parse_number invariants on a faithful model of parse.rs + skip/noskip iterators; grammar specification) + correspondence: implementation = model on exhaustive short strings per format, implementation vs documented grammar"
LEVEL_TEXT = ("Proved in Lean about a statement-by-statement model of the float syntax layer (parse_number, sign/digit/exponent phases, skip and no-skip iterators, specials): "
              "peek/step/take_n invariants (cursor never leaves the buffer, counts, returned bytes), parse_sign indices, parse_digits stays in the buffer and terminates. "
              "The model is tied to the Rust by correspondence on ~870k ops over ~90 formats (exhaustive strings over the number alphabet up to length 5-6, long digit runs, huge exponents, specials) with 0 mismatches, "
              "also in debug-assertion mode. The acceptance theorem against the documented grammar (Spec.Grammar) is being proved class by class; until then acceptance vs. grammar is decided by the correspondence. Partial proof, stated as such.")
LEVEL_NOTE = "Trusted: Lean kernel; that Model.ParseNumber/Model.Iter mirror parse.rs/skip.rs (correspondence); Spec.Grammar is read off the documentation (kept short; reviewed by hand)."


def feature_sets(tier):
    return ["format", "radix+format", "default"] if tier == "quick" else ["default", "pow2", "radix", "format", "radix+format", "compact+radix+format"]


def streams(tier, rng, fs, profile):
    scale = 1 if tier == "quick" else 4
    fams = gens_float.float_syntax_ops(rng, fs, scale)
    out = []
    for fam, ops in fams.items():
        ops = list(dict.fromkeys(ops))
        out.append(("g-fmt-" + fam, ops))
    return out


def nontrivial(op, res):
    t = res.split(" ")
    if t[0] == "ok":
        return True
    if t[0] == "err" and len(t) > 2 and t[2] not in ("0", "-"):
        return True
    return False
