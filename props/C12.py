"""C12 — syntax flags accept exactly the documented grammar (float syntax layer; shares streams with C10/C11/C13/C15)."""
import itertools

import fmtcat_grammar
import fmtcat_intfmt
import gens_float
from gens import hexs

ID = "C12"
FORMAT_GROUP = "syntax"
LEAN_MODULES = ["LexVerif.Props.C12", "LexVerif.Props.C12Sep", "LexVerif.Props.C12Full", "LexVerif.Props.C04Format", "LexVerif.Props.Literals.ParseFloatParse", "LexVerif.Props.Literals.ParseFloatShared", "LexVerif.Props.Literals.ParseIntegerAlgorithm", "LexVerif.Props.Literals.UtilSkip", "LexVerif.Props.Literals.UtilNoskip", "LexVerif.Props.Literals.UtilIterator", "LexVerif.Props.Literals.UtilDigit", "LexVerif.Props.Literals.ParseFloatApi", "LexVerif.Props.Literals.ParseIntegerApi", "LexVerif.Props.Literals.UtilFormatFlags", "LexVerif.Props.Literals.UtilFeatureFormat", "LexVerif.Props.Literals.UtilFormatBuilder"]
GEN = ["literals"]
TRUSTED = [
    "Lean 4.33.0 kernel; axioms of each theorem listed under coverage.theorems",
    "correspondence harness (harness/src/bin/run.rs, harness/src/comp.rs) and generators (gens_float.py): differential testing, bounded by generator quality",
    "hand-written models Model.Iter / Model.ParseNumber tied to lexical-util/src/{iterator,noskip,skip}.rs and "
    "lexical-parse-float/src/{parse,api}.rs by correspondence only (API level `pf`, component level `pn`)",
    "value of an accepted literal: Spec.litBits (exact rational arithmetic + roundNE)",
]
ASSUMPTIONS = ["usize = u64 (x86-64)", "rustc codegen is correct"]
RULE = ("G-fmt generator over the fmtcat_pnum catalogue (single flags, pairs, base prefix/suffix, '_' with every I/L/T/C "
        "combination uniform and mixed across components, special-value separator, language formats): exhaustive strings "
        "to length 3 over a per-format reduced alphabet + sampled to length 6, digit runs of 7-25 digits with sprinkled "
        "separators, huge exponents, inputs near the special strings with custom option strings, arbitrary bytes, invalid "
        "options/formats; each string through `pf` (entry point) and `pn` (parse_number) with both PARTIAL values; "
        "non-trivial = a digit or special was consumed (ok, or an error index > 0); distinct = distinct op lines")

TECHNIQUE = "Lean 4 proof (iterator and parse_number invariants on a faithful model of parse.rs + skip/noskip iterators; grammar specification) + correspondence: implementation = model on exhaustive short strings per format, implementation vs documented grammar"
LEVEL_TEXT = ("Proved in Lean about a statement-by-statement model of the float syntax layer (parse_number, sign/digit/exponent phases, skip and no-skip iterators, specials): "
              "peek/step/take_n invariants (cursor never leaves the buffer, counts, returned bytes), parse_sign indices, parse_digits stays in the buffer and terminates. "
              "The model is tied to the Rust by correspondence on ~870k ops over ~90 formats (exhaustive strings over the number alphabet up to length 5-6, long digit runs, huge exponents, specials) with 0 mismatches, "
              "also in debug-assertion mode. The acceptance theorem against the documented grammar (Spec.Grammar) is being proved class by class; until then acceptance vs. grammar is decided by the correspondence. Partial proof, stated as such. "
              "Proved so far: accepts_iff_grammar_partial (Props/C12.lean: every format without digit separator and base prefix, every feature set) and "
              "accepts_iff_grammar_sep_partial (Props/C12Sep.lean: every format without base prefix, digit-separator byte and separator flags on ANY "
              "components, on inputs without the separator byte = the scope of C12): accepted => the grammar derives the input with the same sign, "
              "digit slices and exponent (or the same special), Error => the grammar rejects. The digit-separator exclusion fell with the repaired "
              "finding sep-format-uncounted-8digit-block (/repo 7e8a135 + 12a2453; regression_sep_format_* are the former witnesses '12345678', "
              "'1.123456789'). Still excluded, with decided witnesses: base prefix, empty input / bare sign. "
              "Entry point (Props/C12Full.lean): syntax_dichotomy (with C10 the complete parser is ok+Verdict or Error+grammar rejects, no panic/fault case; "
              "empty input / bare sign included whenever the format requires integer or mantissa digits: emptybody_rejects), entry_guards_pass (the four "
              "validation guards of parse_with_options pass under the property's hypotheses; SpecialsWF/LettersOnly follow from OptionsBuilder::build), "
              "accepted_value (numberBits of an accepted Number = litBits of the grammar's literal: unconditionally for the many-digit re-parse, from "
              "NumberExactAt (Props.C01Main, proved separately) for an untruncated mantissa) and accepts_iff_grammar_entry_partial: the conclusion of "
              "accepts_iff_grammar verbatim (printed line = rendering of grammarFloatComplete, or the grammar rejects and the line starts with err) for f32/f64 "
              "under: radix feature implies power-of-two, no base prefix, not (empty body and no digits required), input shorter than (2^28-1200)/6 bytes "
              "(beyond that the saturating exponent accumulator is visible in the value), NumberExactAt for few-digit numbers; "
              "accepts_iff_grammar_of_numberExact reduces the whole class to the one open statement NumberExactC12 (def); accepts_iff_grammar_decimal_partial has C01Main's NumberExact as its one named hypothesis. accepts_iff_grammar itself stays a def: it is refuted on "
              "the no-digits finding (C12.finding_empty_input); the former refutation by the base-prefix finding is repaired (regression_accepts_prefix_zero, regression_prefix_zero).")
LEVEL_NOTE = "Trusted: Lean kernel; that Model.ParseNumber/Model.Iter mirror parse.rs/skip.rs (correspondence); Spec.Grammar is read off the documentation (kept short; reviewed by hand)."


def feature_sets(tier):
    return ["format", "radix+format", "default"] if tier == "quick" else ["default", "pow2", "radix", "format", "radix+format", "compact+radix+format"]


def streams(tier, rng, fs, profile):
    scale = 1 if tier == "quick" else 4
    fams = gens_float.float_syntax_ops(rng, fs, scale)
    out = []
    for fam, ops in fams.items():
        ops = list(dict.fromkeys(ops))
        out.append(("g-fmt-" + fam, ops))
    if "format" in fs and ("radix" in fs or "pow2" in fs):
        out.append(("g-fmt-int", list(dict.fromkeys(int_format_ops(rng, scale)))))
    if fs == "default":
        out.append(("fromstr", fromstr_ops(rng, scale)))
    return out


# ---------------------------------------------------------------------------------------------------------
# integer half: `pi` ops over the fmtcat_grammar formats (SPEC column = Spec.Grammar.grammarIntComplete)

def int_format_ops(rng, scale):
    ops = []
    # + the separator-free integer format of fmtcat_intfmt (base suffix together with no_integer_leading_zeros)
    for fmt, name in fmtcat_grammar.INT_FORMATS + [x for x in fmtcat_intfmt.INT_FORMATS if x[1] == "intfmt_suffix_h_nolz"]:
        radix = (fmt >> 104) & 0xFF
        pre, suf = (fmt >> 88) & 0xFF, (fmt >> 96) & 0xFF
        a = ["+", "-", "0", "1", "9" if radix == 10 else "f", " "]
        if radix == 16:
            a.append("F")
        for c in (pre, suf):
            if c:
                a += [chr(c), chr(c).upper()]
        strs = [""]
        for n in range(1, 4):
            strs += ["".join(t) for t in itertools.product(a, repeat=n)]
        for _ in range(600 * scale):
            strs.append("".join(rng.choice(a) for _ in range(rng.randint(4, 8))))
        big = ["127", "128", "-128", "-129", "255", "256", "0255", "0x7f", "0x80", "0xff", "0x100", "0d127", "0d128",
               "-0d128", "-0d129", "127h", "128h", "0d127h", "00000000000000000000127", "0d00127", "00x1f", "+000X1", "-00x1", "00d12", "000d7h", "65535", "65536",
               "-32768", "-32769", "4294967295", "4294967296", "18446744073709551615", "18446744073709551616",
               "-9223372036854775808", "-9223372036854775809", "0xffffffffffffffff", "0x10000000000000000"]
        for s in strs + big:
            ty = rng.choice(["i8", "u8", "i8", "u8", "i16", "u16", "i32", "u32", "i64", "u64", "i128", "u128"])
            p = "0" if rng.random() < 0.8 else "1"
            ops.append("pi %s %x %s %s %s" % (ty, fmt, p, rng.choice("01"), hexs(s.encode("latin-1"))))
    return ops


# ---------------------------------------------------------------------------------------------------------
# STANDARD vs Rust's own `FromStr` (`str::parse::<f64>()` / `::<i64>()`), default features.
# The documentation calls STANDARD "identical to the Rust string format". Rust's documented float grammar
# (core::str::FromStr for f64):   Float ::= Sign? ( 'inf' | 'infinity' | 'nan' | Number ),
#   Number ::= ( Digit+ | Digit+ '.' Digit* | Digit* '.' Digit+ ) Exp?,  Exp ::= 'e' Sign? Digit+   (all case-insensitive)
# which is exactly `Spec.parseStdComplete` with the default option strings NaN / inf / infinity. Hence the
# check is plain equality of acceptance and value on every input; the points where one might expect a
# difference and there is none are listed so the stream exercises them: ".", "+", "-", "", "1e", "1e+", "e5",
# ".e5", "+.5", "5.", "+nan", "-nan" (both accept; NaN payload/sign not compared), "+inf", "-Infinity", "infinit",
# "1_0", " 1", "1 ", "0x10", "1f32", non-UTF-8 bytes (a `&str` cannot hold them; lexical rejects every byte >= 0x80).
# Integers: Sign? Digit+ with '-' a sign only for signed types ("-0".parse::<u8>() is an error in both), "+" / "-" /
# "" errors in both, overflow an error in both.

FROMSTR_ALPHA_F = ["+", "-", "0", "1", "9", ".", "e", "E", "n", "a", "N", "i", "f", "I", " ", "_"]
FROMSTR_FIXED_F = ["", ".", "+", "-", "1e", "1e+", "1e-", "e5", ".e5", "+.5", "-.5", "5.", "5.e3", ".5e3", "+nan", "-nan", "NAN", "nAn",
                   "+inf", "-inf", "-Infinity", "+INFINITY", "infinit", "infinityy", "in", "na", "1_0", " 1", "1 ", "0x10",
                   "1f32", "1e400", "-1e400", "1e-400", "-1e-400", "0e999999999999999999999", "1e-999999999999999999999",
                   "1e999999999999999999999", "00000000000000000000000000000000000000001", "1." + "0" * 400 + "1",
                   "0." + "0" * 400 + "1e401", "9007199254740993", "9007199254740992.5", "9007199254740993.0000000000000001",
                   "2.2250738585072011e-308", "4.9406564584124654e-324", "2.4703282292062327e-324", "2.4703282292062328e-324",
                   "1.7976931348623158e308", "1.7976931348623159e308", "123456789012345678901234567890e-10", "é", "1é",
                   "١", "nan\u0000", "1\u0000"]
FROMSTR_FIXED_I = ["", "+", "-", "0", "-0", "+0", "00", "007", "-007", "+-1", "--1", "1-", "1+", " 1", "1 ", "1_0", "0x10", "1e3", "1.0",
                   "127", "128", "-128", "-129", "255", "256", "-1", "32767", "32768", "-32768", "-32769", "65535", "65536",
                   "2147483647", "2147483648", "-2147483648", "-2147483649", "4294967295", "4294967296",
                   "9223372036854775807", "9223372036854775808", "-9223372036854775808", "-9223372036854775809",
                   "18446744073709551615", "18446744073709551616", "170141183460469231731687303715884105727",
                   "170141183460469231731687303715884105728", "-170141183460469231731687303715884105728",
                   "-170141183460469231731687303715884105729", "340282366920938463463374607431768211455",
                   "340282366920938463463374607431768211456", "0" * 50 + "1", "١"]


def fromstr_ops(rng, scale):
    ops = []
    strs = list(FROMSTR_FIXED_F)
    for n in range(1, 4):
        strs += ["".join(t) for t in itertools.product(FROMSTR_ALPHA_F, repeat=n)]
    for _ in range(4000 * scale):
        strs.append("".join(rng.choice(FROMSTR_ALPHA_F) for _ in range(rng.randint(4, 9))))
    for _ in range(1500 * scale):   # well-formed numbers with many digits / large exponents
        s = rng.choice(["", "", "+", "-"]) + "".join(rng.choice("0123456789") for _ in range(rng.randint(0, 25)))
        if rng.random() < 0.6:
            s += "." + "".join(rng.choice("0123456789") for _ in range(rng.randint(0, 25)))
        if rng.random() < 0.5:
            s += rng.choice("eE") + rng.choice(["", "+", "-"]) + str(rng.randint(0, 400))
        strs.append(s)
    for s in strs:
        b = s.encode("utf-8")
        for ty in (("f64", "f32") if rng.random() < 0.3 else ("f64",)):
            ops.append("dpf %s 0 %s" % (ty, hexs(b)))
            ops.append("fs %s %s" % (ty, hexs(b)))
    for raw in (b"\xff", b"1\xff", b"\xc3", b"nan\xc3\x28", b"\x80"):
        ops.append("dpf f64 0 %s" % hexs(raw))
        ops.append("fs f64 %s" % hexs(raw))
    istrs = list(FROMSTR_FIXED_I)
    ia = ["+", "-", "0", "1", "9", " ", "a"]
    for n in range(1, 5):
        istrs += ["".join(t) for t in itertools.product(ia, repeat=n)]
    for s in istrs:
        b = s.encode("utf-8")
        for ty in ("i8", "u8", "i64", "u64") if len(s) <= 4 else ("i8", "u8", "i16", "u16", "i32", "u32", "i64", "u64", "i128", "u128"):
            ops.append("dpi %s 0 %s" % (ty, hexs(b)))
            ops.append("fs %s %s" % (ty, hexs(b)))
    return ops


def post(ctx, bins):
    """STANDARD (`dpf`/`dpi` complete) against Rust's FromStr (`fs`): same acceptance, same value"""
    viol = []
    n = 0
    for (fs, profile, sname), (ops, impl, drv) in ctx["results"].items():
        if sname != "fromstr":
            continue
        for i in range(0, len(ops) - 1, 2):
            a, b = ops[i], ops[i + 1]
            if not (a.startswith("dp") and b.startswith("fs ")):
                continue
            n += 1
            ra, rb = impl[i].split(" "), impl[i + 1].split(" ")
            same = (ra[0] == "err" and rb[0] == "err") or (ra[0] == "ok" and rb[0] == "ok" and ra[1] == rb[1])
            if not same:
                viol.append({"kind": "input", "featureset": fs, "profile": profile, "stream": "fromstr", "op": a,
                             "implementation": impl[i], "specification": "Rust FromStr: " + impl[i + 1], "model": drv[i][0],
                             "detail": "STANDARD differs from core::str::FromStr on this input"})
    ctx["post_evaluations"] = ctx.get("post_evaluations", 0) + n
    return viol


def nontrivial(op, res):
    if op.startswith("fs "):
        return False
    t = res.split(" ")
    if t[0] == "ok":
        return True
    if t[0] == "err" and len(t) > 2 and t[2] not in ("0", "-"):
        return True
    return False


def classify(v):
    """call-site classes of known findings (findlib.py)"""
    import findlib
    return findlib.syntax_class(v["op"], v["implementation"])
