"""C06 — power-of-two radix float output is exact and round-trips."""
import gens
import gens_walgos
import vlib
from props import judges
from props.common import TRUSTED_BASE, ASSUMPTIONS

ID = "C06"
LEAN_MODULES = ["LexVerif.Props.Literals.UtilLibm", "LexVerif.Props.C06", "LexVerif.Props.RoundNE", "LexVerif.Props.TablesWrite", "LexVerif.Props.Literals.WriteFloatBinary", "LexVerif.Props.Literals.WriteFloatHex", "LexVerif.Props.Literals.WriteFloatShared", "LexVerif.Props.Literals.WriteFloatWrite", "LexVerif.Props.Literals.WriteIntegerRadix", "LexVerif.Props.Literals.WriteIntegerAlgorithm", "LexVerif.Props.Literals.WriteIntegerDigitCount", "LexVerif.Props.Literals.UtilDigit", "LexVerif.Props.LiteralsModelWrite"]
GEN = ["write_tables", "literals"]
TRUSTED = TRUSTED_BASE + [
    "binary.rs / hex.rs are modelled in Lean (Model/WriteBinary.lean; the `wf` model column must equal the implementation's bytes on every op). "
    "Proved for ALL finite floats (sign removed, zero included), radices 2/4/8/16/32, all documented base pairs, all three notations: the laid-out digits denote exactly "
    "the float (writeBinary_exact_digits_partial) and re-round to the same bits (writeBinary_roundtrip_partial). Also proved at BYTE level (writeBinary_exact_holds): "
    "parseStdComplete(bytes written) is a literal that litBits maps back to the same bits, for every finite float of either sign. NOT proved: specials, max_significant_digits, formats with syntax flags: covered by the exact-value judge on every op; "
    "mantissa digits are Spec.toDigits (the integer writer is C03's subject)",
]
RULE = ("for radix 2/4/8/16/32 and the mixed formats 4/2, 8/2, 16/2, 32/2, 16/4 (exponent radix 10, radix, base): every binade x "
        "{min, max, half, random mantissa} so that every residue of the exponent modulo bits-per-digit occurs, all subnormal powers of two, "
        "G-bits specials; default options and exponent breaks forcing positional / scientific notation. Judged: output value == float value exactly "
        "(Lean oracle, big rationals), implementation re-parse == same bits. non-trivial = finite non-zero; distinct = distinct ops")
TECHNIQUE = "Lean 4 oracle theorems (roundNE exact on floats) + exact rational evaluation of every written output by the Lean driver + re-parse correspondence"
LEVEL_TEXT = ("Proved in Lean: roundNE returns a float when given that float's exact value (roundNE_of_valQ), so 'output denotes exactly the float' implies "
              "'re-parsing correctly returns identical bits'. For the Lean model of binary.rs/hex.rs (default digit options): calculate_shl / scale_sci_exp / fast_ceildiv are floor division and modulus, and for every finite f32/f64 the digits written in scientific or positional notation denote exactly the float, and the written bytes parse back (Spec.parseStdComplete, Spec.litBits) to the same bits (writeBinary_exact_holds). Each output on the stream is evaluated exactly "
              "(no rounding) by the Lean driver and compared with the float, and re-parsed by the implementation. Partial proof, stated as such.")
LEVEL_NOTE = "Trusted: Lean kernel; rustc; differential harness; generators; the tie model<->code is the byte-for-byte wf correspondence (>= 120k ops per feature set)."

MIXED = [(4, 2), (8, 2), (16, 2), (32, 2), (16, 4)]


def feature_sets(tier):
    return ["radix", "pow2"] if tier == "quick" else ["radix", "pow2", "radix+format", "compact+radix"]


def exp_for(r):
    return 94 if r > 25 else (112 if r >= 15 else 101)


def formats():
    out = []
    for r in (2, 4, 8, 16, 32):
        out.append((r, r, r))
    for (r, b) in MIXED:
        for er in (10, r, b):
            out.append((r, b, er))
    return out


def streams(tier, rng, fs, profile):
    quick = tier == "quick"
    ops = []
    for ty in ("f64", "f32"):
        cases = gens.float_bits_cases(rng, ty, 300 if quick else 6000, rich=True)
        if quick:
            cases = [c for i, c in enumerate(cases) if i % 7 == rng.randrange(7) or i > len(cases) - 600]
        for (r, b, er) in formats():
            f = gens.fmt_hex(gens.pack(r, b, er))
            e = exp_for(r)
            sub = cases if not quick else rng.sample(cases, min(len(cases), 500))
            for bits in sub:
                k = rng.random()
                if k < 0.6:
                    o = gens.wopts(exp=e)
                elif k < 0.8:
                    o = gens.wopts(exp=e, pb=rng.choice([1, 2, 200, 1100]), nb=rng.choice([-1, -2, -200, -1100]))   # mostly positional
                else:
                    o = gens.wopts(exp=e, pb=1, nb=-1, trim=rng.choice([0, 1]))                                   # mostly scientific
                ops.append("wf %s %s %x %s -" % (ty, f, bits, o))
    return [("g-bits-pow2", ops)] + gens_walgos.pow2_model_stream(tier, rng, formats(), exp_for)


def all_digits(outhex, fmt):
    r = (int(fmt, 16) >> 104) & 255
    body = bytes.fromhex(outhex).lstrip(b"+-")
    return all(c in gens.DIGITS[:r].encode() + gens.DIGITS[:r].lower().encode() for c in body)


def nontrivial(op, res):
    return res.startswith("ok")


def post(ctx, bins):
    viol = []
    n = 0
    for (fs, profile, sname), (ops, impl, drv) in ctx["results"].items():
        items, idx = [], []
        for i, (op, ir) in enumerate(zip(ops, impl)):
            it = ir.split(" ")
            if it[0] != "ok":
                viol.append(judges.viol(fs, profile, sname, op, ir, "ok <bytes>", "writer did not succeed"))
                continue
            ty, fmt, bits, o = judges.wf_fields(op)
            items.append((ty, fmt, o, bits, it[1]))
            idx.append(i)
        verdicts = judges.exact_value_judge(fs, items)
        back = vlib.run_impl(bins[(fs, profile)], judges.reparse_ops(items))
        n += 2 * len(items)
        for i, it, vd, bk in zip(idx, items, verdicts, back):
            ty, fmt, o, bits, out = it
            b = int(bits, 16)
            p, eb = gens.FLOAT_TYPES[ty]
            special = ((b >> (p - 1)) & ((1 << eb) - 1)) == (1 << eb) - 1
            if vd is None:
                viol.append(judges.viol(fs, profile, sname + "/exact", ops[i], impl[i], "a literal of the format", "output not accepted by the grammar oracle"))
            elif not special and not vd["exact"]:
                viol.append(judges.viol(fs, profile, sname + "/exact", ops[i], impl[i], "value exactly equal to the float",
                                        "output value differs from the float (nearest float is %d ulp away)" % vd["ulp"]))
            if special and all_digits(out, fmt):
                continue        # e.g. radix 32: "inf"/"NaN" are ordinary digit strings of the radix, not specials
            bt = bk.split(" ")
            want = "nan" if (special and (b & ((1 << (p - 1)) - 1))) else "%x" % b
            if bt[0] != "ok" or bt[1] != want:
                viol.append(judges.viol(fs, profile, sname + "/reparse", ops[i], impl[i], "re-parse gives %s" % want, "implementation re-parse: " + bk))
    ctx["post_evaluations"] = n
    return viol
