"""C07 — generic-radix float output is well-formed, near-exact, and exact for integers."""
import gens
import vlib
from props import judges
from props.common import TRUSTED_BASE, ASSUMPTIONS

ID = "C07"
LEAN_MODULES = ["LexVerif.Props.Literals.UtilLibm", "LexVerif.Props.C07", "LexVerif.Props.RoundNE", "LexVerif.Props.Literals.WriteFloatRadix", "LexVerif.Props.Literals.WriteFloatShared", "LexVerif.Props.Literals.WriteFloatWrite"]
GEN = ["literals"]
TRUSTED = TRUSTED_BASE + [
    "write-float/src/radix.rs runs in hardware floating point of the float's own type (f32 is NOT widened). The WHOLE function is modelled in Lean "
    "(Model/WriteRadix.lean): every *, +, -, /, %, floor, as-cast is 'exact rational result, then IEEE round-to-nearest-even' (Spec.roundNE, whose "
    "nearest/ties-even/monotone theorems are proved); that hardware arithmetic is IEEE-754-correct (incl. an exact fmod) is trusted. "
    "% and floor being exact is PROVED about the model (fmod_exact, ffloor_exact), not assumed",
    "the model is tied to radix.rs only by the wf correspondence (byte-for-byte, panics included, all option combinations the op carries); "
    "Model.WriteRadix.repoHasCarryFix selects the round-up back-trace of the code under test (true = /repo at or after dbb7ae7)",
    "the ulp clause is proved on the DIGITS the model generates (radix_error_bound); that the written TEXT denotes the same number holds when the layout keeps all "
    "digits (default max_significant_digits and PositionalFits: radix_layout_keeps_all_digits) — the value of a text is not formalised in Lean, it is evaluated exactly "
    "by the Lean oracle on every output of the stream (grammar + big rationals, ulp distance)",
]
RULE = ("29 generic radices x {f32,f64} x G-bits (every binade min/max/half/random, subnormals, integers below 2^53/2^24 incl. r^k-1, r^k, r^k+1 and carry chains "
        "(values just below powers of the radix), random) x options (default, breaks forcing positional / scientific). Stage 1: implementation vs Lean model of the "
        "whole writer, byte for byte. Judged: only digits < radix plus at most one point "
        "and one exponent (oracle grammar accepts), implementation parser accepts it in the same format, exact distance to the float below 2048/256 ulp, integers exact. "
        "non-trivial = finite non-zero; distinct = distinct ops")
TECHNIQUE = ("Lean 4 model of the whole generic-radix writer with exactly modelled IEEE arithmetic, tied byte-exactly to radix.rs by differential correspondence; theorems on the model for "
             "every finite f32/f64 and every generic radix (well-formedness, termination inside the scratch buffer, integer exactness, per-step exactness); "
             "exact rational evaluation of each output by the Lean driver for the ulp clause; re-parse correspondence")
LEVEL_TEXT = ("Proved in Lean on the model of the whole writer (code as in /repo after the repairs dbb7ae7, f386e72, 2de23fc, b4fa7d0, fb86b3a, a288c48), for EVERY finite binary32/binary64 pattern and every generic "
              "radix (no bound): (a) radix_wellformed — for every option set the text is digits below the radix, at most one decimal point, at most one exponent, no exclusion; "
              "(b) radix_generate_total, radix_write_total — the loops stay inside the scratch buffer and nothing panics except a too short output slice; (c) "
              "radix_integer_exact_full / radix_integer_text_full — integers below 2^53 / 2^24 are written exactly (IeeeExact proved: ieeeExact_modelOps); (d) the ulp clause, "
              "radix_error_bound : C07_radix_error_bound — the generated digits denote a number whose nearest float is within 1364 (binary64) / 246 (binary32) patterns of the input "
              "(judge limits 2048 / 256): radix_error_bound_small_partial (0 <= |x| < 1: 1364 / 196, relative error 2^-p per step, at most 679 / 95 digits), "
              "radix_error_bound_mid_partial (1 <= |x| < 2^p: 34), radix_error_bound_big_partial (|x| >= 2^p: 1340 / 246, zero padding within (1 +- 2^-p)^z, z <= 613 / 66). "
              "Text level: since b4fa7d0 the positional digit window starts at the first significant digit, so the layout uses all digits unless more than 232 digits are SIGNIFICANT (radix_layoutW_keeps_all_digits under SigFits; before the repair leading zeros used up the window: positional_truncation_root_cause). Still measured, "
              "not proved: the numeric value of the laid-out text (trailing-zero trimming, exponent) and the re-parse, judged exactly on every output.")
LEVEL_NOTE = ("Trusted: Lean kernel; rustc; hardware IEEE-754 arithmetic incl. exact fmod; differential harness and generators (the model is hand-written, tied by correspondence). "
              "Proof level for all three clauses on the model at digit level; text-value and re-parse are judged exactly on the stream.")

GENERIC = [r for r in range(3, 37) if r not in (4, 8, 10, 16, 32)]


def feature_sets(tier):
    # the no_std build uses lexical-util's own libm (floor) inside radix.rs: it is a different arithmetic tie
    return ["radix", "nostd+compact+radix+format"] if tier == "quick" else ["radix", "radix+format", "compact+radix", "nostd+compact+radix+format"]


def int_cases(rng, ty, r):
    p, eb = gens.FLOAT_TYPES[ty]
    lim = 1 << p
    vals = set()
    k = 1
    while r ** k < lim:
        for d in (-1, 0, 1):
            vals.add(r ** k + d)
        vals.add(r ** k * (r - 1))
        vals.add(lim - r ** k if lim - r ** k > 0 else 1)
        k += 1
    vals.update([1, 2, lim - 1, lim - 2, lim // 3])
    for _ in range(12):
        vals.add(rng.randrange(1, lim))
    import struct
    out = []
    for v in sorted(vals):
        if 0 < v < lim:
            if ty == "f64":
                out.append(struct.unpack("<Q", struct.pack("<d", float(v)))[0])
            else:
                out.append(struct.unpack("<I", struct.pack("<f", float(v)))[0])
    return out


def streams(tier, rng, fs, profile):
    quick = tier == "quick"
    rads = GENERIC
    if quick:
        k = rng.randrange(3)
        rads = [r for i, r in enumerate(GENERIC) if i % 3 == k or r in (3, 36)]
    ops = []
    for ty in ("f64", "f32"):
        cases = gens.float_bits_cases(rng, ty, 200 if quick else 3000, rich=True)
        if quick:
            cases = rng.sample(cases, min(len(cases), 700))
        for r in rads:
            f = gens.fmt_hex(gens.pack(r))
            e = gens.exp_char(r)
            for bits in cases + int_cases(rng, ty, r):
                k = rng.random()
                if k < 0.5:
                    o = gens.wopts(exp=e)
                elif k < 0.75:
                    o = gens.wopts(exp=e, pb=rng.choice([1, 3, 100, 700]), nb=rng.choice([-1, -3, -100, -700]))
                else:
                    o = gens.wopts(exp=e, pb=1, nb=-1, trim=rng.choice([0, 1]))
                ops.append("wf %s %s %x %s -" % (ty, f, bits, o))
    # regression classes of two repaired defects (/repo f386e72, 2de23fc): values whose digits are all zero under
    # required_exponent_notation (honoured by `format` builds only), and a large max_significant_digits on tiny values
    # in positional notation (the leading-zero allowance of truncate_and_round)
    extra = []
    REQEXP36 = 0x2424240000000000000000000000400c
    for ty in ("f64", "f32"):
        p, eb = gens.FLOAT_TYPES[ty]
        sign = 1 << (p + eb - 1)
        # (a non-`format` build rejects a format with syntax flags: documented panic, skipped by post)
        for bits in ((0, sign, 1, sign | 1, 2, 3, 1 << (p - 2), (1 << (p - 1)) - 1, 1 << (p - 1)) if gens.has_format(fs) else (0,)):
            for o in (gens.wopts(exp=94), gens.wopts(exp=94, trim=1), gens.wopts(exp=94, mn=5), gens.wopts(exp=94, pb=700, nb=-700)):
                extra.append("wf %s %x %x %s -" % (ty, REQEXP36, bits, o))
        tiny = [b for b in gens.float_bits_cases(rng, ty, 40, rich=True) if (b & (sign - 1)) >> (p - 1) < 12]
        for r in (rads if quick else GENERIC):
            f = gens.fmt_hex(gens.pack(r))
            e = gens.exp_char(r)
            for bits in rng.sample(tiny, min(len(tiny), 6 if quick else 40)):
                mx = rng.choice([100, 128, 300, 500])
                mn = rng.choice(["-", str(mx)])
                nb = rng.choice([-307, -700, -1100]) if ty == "f64" else rng.choice([-40, -100, -307])
                extra.append("wf %s %s %x %s -" % (ty, f, bits, gens.wopts(exp=e, mx=str(mx), mn=mn, pb=1, nb=nb)))
    return [("g-bits-radix", ops), ("g-zero-reqexp-maxdigits", extra)]


def nontrivial(op, res):
    return res.startswith("ok")


def post(ctx, bins):
    viol = []
    n = 0
    for (fs, profile, sname), (ops, impl, drv) in ctx["results"].items():
        items, idx = [], []
        for i, (op, ir) in enumerate(zip(ops, impl)):
            it = ir.split(" ")
            if it[0] != "ok":
                if ir == "panic" and drv[i][1] == "panic":
                    continue      # the specification demands this panic (format with syntax flags on a non-`format` build)
                viol.append(judges.viol(fs, profile, sname, op, ir, "ok <bytes>", "writer did not succeed"))
                continue
            ty, fmt, bits, o = judges.wf_fields(op)
            items.append((ty, fmt, o, bits, it[1]))
            idx.append(i)
        verdicts = judges.exact_value_judge(fs, items)
        back = vlib.run_impl(bins[(fs, profile)], judges.reparse_ops(items))
        n += 2 * len(items)
        for i, it, vd, bk in zip(idx, items, verdicts, back):
            ty, fmt, o, bits, out = it
            b = int(bits, 16)
            p, eb = gens.FLOAT_TYPES[ty]
            mag = b & ((1 << (p + eb - 1)) - 1)
            special = (mag >> (p - 1)) == (1 << eb) - 1
            if special:
                continue
            limit = 2048 if ty == "f64" else 256
            if vd is None:
                viol.append(judges.viol(fs, profile, sname + "/wellformed", ops[i], impl[i], "digits < radix, at most one point and one exponent",
                                        "output is not derivable from the format's grammar"))
                continue
            if vd["ulp"] > limit:
                viol.append(judges.viol(fs, profile, sname + "/ulp", ops[i], impl[i], "exact value within %d ulp of the float" % limit,
                                        "nearest float of the output's exact value is %d ulp away" % vd["ulp"]))
            if is_small_integer(mag, p, eb) and not vd["exact"]:
                viol.append(judges.viol(fs, profile, sname + "/integer", ops[i], impl[i], "integer below 2^%d written exactly" % p,
                                        "integral float not written exactly"))
            if not bk.startswith("ok"):
                viol.append(judges.viol(fs, profile, sname + "/reparse", ops[i], impl[i], "accepted by the parser in the same format", "implementation re-parse: " + bk))
    ctx["post_evaluations"] = n
    return viol


def is_small_integer(mag, p, eb):
    ef = mag >> (p - 1)
    m = mag & ((1 << (p - 1)) - 1)
    if ef == 0:
        return mag == 0
    e = ef - ((1 << (eb - 1)) - 1) - (p - 1)
    m |= 1 << (p - 1)
    if e >= 0:
        return e == 0 or False   # >= 2^p: not "below 2^p" unless e == 0 (value < 2^p)
    if -e >= p:
        return False
    return m & ((1 << (-e)) - 1) == 0


def classify(v):
    """call-site classes of known findings (see known_findings.json)"""
    import math
    t = v["op"].split(" ")
    it = v["implementation"].split(" ")
    if t[0] != "wf" or it[0] != "ok":
        return None
    r = (int(t[2], 16) >> 104) & 255
    out = bytes.fromhex(it[1]) if it[1] != "_" else b""
    body = out.lstrip(b"+-")
    dp = int(t[11])
    expc = int(t[10])
    positional = bytes([expc]) not in body and bytes([expc]).lower() not in body.lower()
    ty = t[1]
    p, eb = gens.FLOAT_TYPES[ty]
    b = int(t[3], 16) & ((1 << (p + eb - 1)) - 1)
    ef = b >> (p - 1)
    m = b & ((1 << (p - 1)) - 1)
    if ef == 0:
        e2 = 1 - ((1 << (eb - 1)) - 1) - (p - 1)
    else:
        m |= 1 << (p - 1)
        e2 = ef - ((1 << (eb - 1)) - 1) - (p - 1)
    if m == 0:
        return None
    log_r = (math.log2(m) + e2) / math.log2(r)      # log_r(value)
    # the fraction round-up back-trace increments a digit without carrying: the character after the largest digit appears
    bad = gens.digit_after_max(r)
    if bad is not None and bytes([bad]) in body:
        return "generic-radix-roundup-invalid-digit"
    # positional output of a value < 1 whose significant digits extend past the 64-character window
    if positional and body[:1] == b"0" and body[1:2] == bytes([dp]) and log_r < -(64 - 60.0 / math.log2(r) - 4):
        return "generic-radix-positional-small-truncated"
    return None
