"""C01 — decimal string->float parsing is correctly rounded."""
import gens
import gens_algos
from props.common import TRUSTED_BASE, ASSUMPTIONS

ID = "C01"
LEAN_MODULES = ["LexVerif.Props.C01", "LexVerif.Props.RoundNE", "LexVerif.Props.TablesParse"]
GEN = ["parse_tables"]
TRUSTED = TRUSTED_BASE + [
    "full correctness of Eisel-Lemire / Bellerophon / big-integer slow path is NOT proved in Lean: the proved part is the oracle (roundNE) and the tables; the algorithms are compared with the oracle on number-theoretic worst cases",
]
RULE = ("G-hard: per decimal power q, mantissas m < 10^19 (and near 2^53, and short) for which m*10^q is closest to a midpoint "
        "between adjacent floats (Euclid-style search, hard/hardgen.py), each as plain / pointed / truncation-crossing "
        "((m-1)999.., m000..1) / zero-padded / 20..2000-digit-tail literals; G-exp: exponents at every cut-off; random structured "
        "decimals. non-trivial = accepted literal with a finite non-zero result or a result decided at a cut-off; distinct = distinct op lines")


TECHNIQUE = 'Lean 4 proof (oracle roundNE nearest/ties-even; all power/limit tables kernel-checked against closed forms) + correspondence on number-theoretic worst cases'
LEVEL_TEXT = 'Proved in Lean for all inputs: the specification oracle (roundNE is the nearest float, ties to even, monotone, exact on floats, correct overflow threshold) and, for every row, that the Eisel-Lemire / small-power / Bellerophon / big-integer tables and limits regenerated from the compiled crate equal their closed forms. NOT proved: the Eisel-Lemire, Bellerophon and big-integer algorithms themselves; they are compared with the oracle on worst-case inputs (closest-to-midpoint mantissas per power, truncation-crossing and long-tail literals, exponent cut-offs) on four to eight feature sets. Partial proof, stated as such.'
LEVEL_NOTE = "Trusted: Lean kernel; rustc; the dump binary and generator (R); the differential harness and generators (C). The float algorithms' control flow is modelled by the oracle only (no Lean model of lemire/bellerophon/slow yet)."


def feature_sets(tier):
    if tier == "quick":
        return ["default", "compact", "radix+format", "compact+radix+format"]
    return ["default", "compact", "radix+format", "compact+radix+format", "radix", "format", "pow2", "nostd"]


def streams(tier, rng, fs, profile):
    n = 250 if tier == "quick" else 4000
    return [
        ("g-hard", gens.float_parse_hard_ops(rng, fs, [10], n, rich=True, tails=8 if tier == "quick" else 120)),
        ("g-exp", gens.float_exp_ops(rng, fs, [10])),
        ("g-random", gens.float_random_ops(rng, fs, [10], 1500 if tier == "quick" else 30000)),
    ] + gens_algos.algo_streams(rng, fs, tier)   # component level: compute_float / lemire / bellerophon / binary / fast path


def nontrivial(op, res):
    t = res.split(" ")
    if op.split(" ")[0] in ("cf", "lm", "bel", "bin", "sbin", "fp"):
        return t[0] in ("ok", "inv", "some") and (len(t) < 2 or t[1] not in ("0",))
    return t[0] == "ok" and t[1] not in ("0", "80000000", "8000000000000000", "nan")
