"""C01 — decimal string->float parsing is correctly rounded."""
import gens
import vlib
import gens_algos
import gens_slow
from props.common import TRUSTED_BASE, ASSUMPTIONS

ID = "C01"
LEAN_MODULES = ["LexVerif.Props.Literals.ParseFloatLibm", "LexVerif.Props.Literals.ParseFloatFpu", "LexVerif.Props.C01", "LexVerif.Props.C01Slow", "LexVerif.Props.C01SlowMain", "LexVerif.Props.RoundNE", "LexVerif.Props.TablesParse", "LexVerif.Props.Literals.ParseFloatParse", "LexVerif.Props.Literals.ParseFloatNumber", "LexVerif.Props.Literals.ParseFloatLemire", "LexVerif.Props.Literals.ParseFloatBellerophon", "LexVerif.Props.Literals.ParseFloatSlow", "LexVerif.Props.Literals.ParseFloatBigint", "LexVerif.Props.Literals.ParseFloatShared", "LexVerif.Props.Literals.ParseFloatFloat", "LexVerif.Props.Literals.ParseFloatMask", "LexVerif.Props.Literals.ParseFloatLimits", "LexVerif.Props.Literals.ParseIntegerAlgorithm", "LexVerif.Props.Literals.UtilDigit", "LexVerif.Props.Literals.UtilStep", "LexVerif.Props.LiteralsModel", "LexVerif.Props.C01Main", "LexVerif.Props.C01SlowDomain", "LexVerif.Props.C01Number", "LexVerif.Props.C01Trunc", "LexVerif.Props.C01Compact", "LexVerif.Props.C01Final"]
GEN = ["parse_tables", "literals"]
TRUSTED = TRUSTED_BASE + [
    "Eisel-Lemire (Model/Lemire.lean, tied to the code by the cf/lm component streams) is PROVED in full on its model: lemire_sound_proved (Props/C01.lean) - for every i64 exponent and u64 mantissa compute_float never panics, a valid answer is roundNE(w*10^q) (exact rows 0..27; truncated rows 28..308 and -342..-28 by stability of the upper product bits, normal and subnormal results; rows -27..-1 rounded up: no borrow by divisibility, round-to-even test exact incl. a kernel-evaluated per-row check), and an invalid-marked answer brackets the value as negative_digit_comp needs (lemire_fallback_brackets, lemire_estimate_facts); the many_digits wrapper for every exponent (lemire_wrapper_all). Bellerophon (compact builds) is proved sound on its model (bellerophon_sound). The big-integer slow path is modelled and proved on an explicit domain (Props/C01Slow.lean); Props/C01Final.lean composes them: for every decimal input of every build no hypothesis is left (C01_decimal_full_proved; NumberExact, SlowDomain for Eisel-Lemire and for Bellerophon, truncation_invariant are proved)",
    "IEEE assumption of the fast path: u64->float conversion, float * and / are correctly rounded (Model/ExtFloat.lean: ofU64, fmul, fdiv)",
]
RULE = ("G-ties: literals that are EXACTLY half-way between two adjacent floats for every q of the round-to-even window (plus just-above/just-below variants); G-hard: per decimal power q, mantissas m < 10^19 (and near 2^53, and short) for which m*10^q is closest to a midpoint "
        "between adjacent floats (Euclid-style search, hard/hardgen.py), each as plain / pointed / truncation-crossing "
        "((m-1)999.., m000..1) / zero-padded / 20..2000-digit-tail literals; G-exp: exponents at every cut-off; random structured "
        "decimals; component level (gens_algos.py): compute_float on every q in [-342,308] x {1, 2^p-1, 2^p, 2^64-1, worst-case mantissas of hard/data and their neighbours, random, sparse}, lemire / bellerophon with many_digits and lossy both ways, try_fast_path over all exponents and boundary mantissas. non-trivial = accepted literal with a finite non-zero result or a result decided at a cut-off; distinct = distinct op lines")


TECHNIQUE = 'Lean 4 proof (oracle roundNE nearest/ties-even; all power/limit tables kernel-checked against closed forms; fast path exact; Eisel-Lemire for every q >= 0 and the cut-offs; two-pass wrapper; API-level pipeline theorem C01_main with named hypotheses) + component- and API-level correspondence on number-theoretic worst cases'
LEVEL_TEXT = 'Proved in Lean for all inputs: the specification oracle (roundNE is the nearest float, ties to even, monotone, exact on floats, correct overflow threshold) and, for every row, that the Eisel-Lemire / small-power / Bellerophon / big-integer tables and limits regenerated from the compiled crate equal their closed forms. Also proved on Lean models tied to the code by component-level correspondence (ops fp/cf/lm/bel): try_fast_path returns roundNE(m*10^e) whenever it answers (fastPath_exact, normal and disguised, both float types, all builds); a valid answer of compute_float equals roundNE(w*10^q) for every w < 2^64 and every q >= 0 or beyond the cut-offs (lemire_sound_partial, lemire_sound_nonneg, lemire_neg_sound), and an invalid-marked answer brackets it (lemire_fallback_brackets): lemire_sound_proved - the full statement lemire_sound is a theorem, for all q and w, no continued fractions; the many_digits two-pass wrapper is correct for every value in [w, w+1]*10^q relative to compute_float (lemire_wrapper). Bellerophon (the moderate path of compact builds) is proved sound on its model: every valid non-lossy answer is roundNE of the true value, truncated mantissas included (bellerophon_sound: table facts kernel-checked on the accessors, mul = exact product rounded half-up, error accounting against the truncated tables, error_is_accurate decision, rounding). The composition is machine-checked (Props/C01Main.lean): parseFloatAlgoModel = syntax -> try_fast_path -> moderate_path -> slow_path -> to_native, tied to the API by the pipe-* streams; C01_main: lemire_sound -> SlowPathCorrect slow -> NumberExact -> the pipeline model prints litBits of the digit content for every untruncated decimal input (non-compact builds); unconditional corollaries for fast-path inputs, Eisel-Lemire with q >= 0 or on its cut-offs, Bellerophon-decided inputs (compact) and power-of-two radices. The big-integer slow path (slow.rs/bigint.rs) has a Lean model (Model/Slow.lean: value-level big integers with the real BIGINT_LIMBS capacity checks; Model/SlowBytes.lean: byte_comp on limbs) tied to the code by the component op sl (gens_slow.py: half-way literals with 20..800 digits +-1 in the last digit, cuts around max_digits with zero/non-zero tails, subnormal and overflow boundaries; the error float is taken from the real moderate path on the Rust side and from the moderate path of the MODEL on the Lean side, 0 model mismatches, panics predicted), and is proved on that model for ALL digit strings and exponents, f32/f64, builds default/compact/radix/compact+radix (Props/C01Slow.lean): parse_mantissa returns exactly the value and count of the first max_digits significant digits, +1 iff a non-zero digit was cut, and cannot overflow its big integer (parseMantissa_value); for a non-negative exponent the result is roundNE(M*10^e), overflow to infinity included, whenever M*10^e fits BIGINT_LIMBS, which holds for everything Eisel-Lemire can hand over (positive_digit_comp_correct, positive_guard_decimal); for a negative exponent, given that the error float is normalised, above the underflow cut, rounds down to a finite b with b <= M/10^j <= next(b) and the two scaled integers fit, the comparison with b+h is exact and the result is roundNE(M/10^j) (negative_digit_comp_correct); slow_radix composes them (slow_radix_correct) and the rounded number is the value of the whole literal when at most max_digits digits are significant or only zeros are cut (value_untruncated, value_zero_tail). The decimal pipeline is CLOSED at API level for EVERY build (Props/C01Final.lean: C01_decimal_full_proved = C01_decimal_correct_slow for Eisel-Lemire builds + C01_decimal_correct_compact for compact builds; no hypothesis besides radix 10, the separator-free format classes of C12 and input length < 2^60; axioms propext/Classical.choice/Quot.sound): for f32/f64, complete and partial parser and EVERY input - any number of digits - parseFloatAlgoModel slowModel (syntax -> try_fast_path -> lemire with both passes and compute_error, or bellerophon -> slow_radix with parse_mantissa, its digit limit, positive/negative_digit_comp and the big-integer capacity checks -> to_native) prints litBits of the digit content, the same count, the same errors. Ingredients: NumberExact is proved from the syntax model, untruncated and truncated (Props/C01Number.lean: number_exact_of_syntax, number_truncated_of_syntax - the words are the first 19 significant digits and the matching exponent); every SlowDomain condition is derived (Props/C01SlowDomain.lean slowDomain_of_exact from lemire_estimate_facts; Props/C01Trunc.lean slowDomain_of_truncated): lemire never panics and every invalid-marked answer, compute_error included, is the normalised upper product word of a row inside the table, an estimate of w*10^q for every row and any low word (Proof/LemireError.lean; rows -27..-1 by divisibility), hence a 40-unit estimate of the value of all the digits, which still brackets it (Proof/LemireWide.lean) and bounds both big integers of negative_digit_comp (neg_guard_bounds); the estimate may round down to a finite float, to +0 below the underflow cut, or to +infinity (negativeDigitComp_inf, negative_digit_comp_correct_total); truncation_invariant is PROVED (Proof/SlowTruncation.lean: roundNE is constant strictly between P*u and (P+1)*u when P has max_digits digits, because every half-way point (2q+1)*2^k/2^(L+1) written in the even radix has a numerator below radix^max_digits - the two facts that define max_digits are kernel-evaluated for every build and every radix with a digit limit, Proof/SlowTables.lean halfwayB), so slow_radix_correct_full is a theorem (slow_radix_correct_full_proved) for all those radices. compact builds: an invalid-marked answer of bellerophon is the scaled extended float itself, a TWO-SIDED estimate of the true value (Proof/BellEstimate.lean from prepare_cases: mant-4 < value < mant+41 units, truncated mantissas included), which still brackets it (Proof/BellBracket.lean: a value a few units below val(b) is above the midpoint to the previous float) and bounds both big integers (Props/C01Compact.lean: slowDomain_core, slowDomain_bell_exact/_truncated). NOT proved: byte_comp for odd radices (correspondence only); non-decimal radices at pipeline level. Those parts are compared with the oracle on worst-case inputs (closest-to-midpoint mantissas per power, truncation-crossing and long-tail literals, exponent cut-offs) on four to eight feature sets. Partial proof, stated as such.'
LEVEL_NOTE = "Trusted: Lean kernel; rustc; the dump binary and generator (R); the differential harness and generators (C); IEEE-754 correct rounding of hardware int->float, * and / (fast path). Lean models of number.rs (fast path), lemire.rs, bellerophon.rs exist and agree with the compiled code on >= 200k component ops per feature set; slow.rs and bigint.rs have a value-level Lean model with the real capacity checks (op sl, ~5k ops per set, composition moderate path -> slow path included)."


def feature_sets(tier):
    if tier == "quick":
        return ["default", "compact", "radix+format", "compact+radix+format"]
    return ["default", "compact", "radix+format", "compact+radix+format", "radix", "format", "pow2", "nostd"]


def streams(tier, rng, fs, profile):
    n = 250 if tier == "quick" else 4000
    api = [
        ("g-hard", gens.float_parse_hard_ops(rng, fs, [10], n, rich=True, tails=8 if tier == "quick" else 120)),
        ("g-ties", gens.exact_tie_ops(rng, fs, per_q=6 if tier == "quick" else 60)),
        ("g-exp", gens.float_exp_ops(rng, fs, [10])),
        ("g-random", gens.float_random_ops(rng, fs, [10], 1500 if tier == "quick" else 30000)),
    ]
    # pipe-*: the same inputs against the algorithmic pipeline model (Props.C01Main is about that model)
    out = api + gens_algos.apf_streams(api) + gens_algos.algo_streams(rng, fs, tier)   # component level: compute_float / lemire / bellerophon / binary / fast path
    return out + gens_slow.slow_streams(rng, fs, tier, [10])   # component level: slow_radix (big-integer slow path) fed by the moderate path


def nontrivial(op, res):
    t = res.split(" ")
    if op.split(" ")[0] == "sl":
        return t[0] == "slow" and t[1] not in ("0",)
    if op.split(" ")[0] in ("cf", "lm", "bel", "bin", "sbin", "fp"):
        return t[0] in ("ok", "inv", "some") and (len(t) < 2 or t[1] not in ("0",))
    return t[0] == "ok" and t[1] not in ("0", "80000000", "8000000000000000", "nan")


def post(ctx, bins):
    return sweep_post(ctx, bins)


def sweep_post(ctx, bins):
    """thorough tier: the shortest and the 9-digit text of every finite f32 (std formatting) must parse back to the same bits"""
    if ctx["tier"] != "thorough":
        return []
    viol = []
    total = 0
    for (fs, profile), binp in sorted(bins.items()):
        if fs not in ("default", "compact"):
            continue
        ops = vlib.sweep_ops("xpf", "f32", 0, 0x7f800000, 64) + vlib.sweep_ops("xpf", "f64", 0x3ff0000000000000, 0x3ff0000000000000 + 40000000, 16)
        res = vlib.run_sweeps(binp, ops)
        v, n = vlib.sweep_violations(res, fs, profile, lambda op, first: "xpf %s %d 1" % (op.split(" ")[1], int(first, 16)))
        viol += v
        total += n
    ctx["post_evaluations"] = ctx.get("post_evaluations", 0) + total
    return viol
