"""C01 — decimal string->float parsing is correctly rounded."""
import gens
import vlib
from props.common import TRUSTED_BASE, ASSUMPTIONS

ID = "C01"
LEAN_MODULES = ["LexVerif.Props.C01", "LexVerif.Props.RoundNE", "LexVerif.Props.TablesParse", "LexVerif.Props.Literals.ParseFloat", "LexVerif.Props.Literals.ParseInteger"]
GEN = ["parse_tables", "literals"]
TRUSTED = TRUSTED_BASE + [
    "full correctness of Eisel-Lemire / Bellerophon / big-integer slow path is NOT proved in Lean: the proved part is the oracle (roundNE) and the tables; the algorithms are compared with the oracle on number-theoretic worst cases",
]
RULE = ("G-ties: literals that are EXACTLY half-way between two adjacent floats for every q of the round-to-even window (plus just-above/just-below variants); G-hard: per decimal power q, mantissas m < 10^19 (and near 2^53, and short) for which m*10^q is closest to a midpoint "
        "between adjacent floats (Euclid-style search, hard/hardgen.py), each as plain / pointed / truncation-crossing "
        "((m-1)999.., m000..1) / zero-padded / 20..2000-digit-tail literals; G-exp: exponents at every cut-off; random structured "
        "decimals. non-trivial = accepted literal with a finite non-zero result or a result decided at a cut-off; distinct = distinct op lines")


TECHNIQUE = 'Lean 4 proof (oracle roundNE nearest/ties-even; all power/limit tables kernel-checked against closed forms) + correspondence on number-theoretic worst cases'
LEVEL_TEXT = 'Proved in Lean for all inputs: the specification oracle (roundNE is the nearest float, ties to even, monotone, exact on floats, correct overflow threshold) and, for every row, that the Eisel-Lemire / small-power / Bellerophon / big-integer tables and limits regenerated from the compiled crate equal their closed forms. NOT proved: the Eisel-Lemire, Bellerophon and big-integer algorithms themselves; they are compared with the oracle on worst-case inputs (closest-to-midpoint mantissas per power, truncation-crossing and long-tail literals, exponent cut-offs) on four to eight feature sets. Partial proof, stated as such.'
LEVEL_NOTE = "Trusted: Lean kernel; rustc; the dump binary and generator (R); the differential harness and generators (C). The float algorithms' control flow is modelled by the oracle only (no Lean model of lemire/bellerophon/slow yet)."


def feature_sets(tier):
    if tier == "quick":
        return ["default", "compact", "radix+format", "compact+radix+format"]
    return ["default", "compact", "radix+format", "compact+radix+format", "radix", "format", "pow2", "nostd"]


def streams(tier, rng, fs, profile):
    n = 250 if tier == "quick" else 4000
    return [
        ("g-hard", gens.float_parse_hard_ops(rng, fs, [10], n, rich=True, tails=8 if tier == "quick" else 120)),
        ("g-ties", gens.exact_tie_ops(rng, fs, per_q=6 if tier == "quick" else 60)),
        ("g-exp", gens.float_exp_ops(rng, fs, [10])),
        ("g-random", gens.float_random_ops(rng, fs, [10], 1500 if tier == "quick" else 30000)),
    ]


def nontrivial(op, res):
    t = res.split(" ")
    return t[0] == "ok" and t[1] not in ("0", "80000000", "8000000000000000", "nan")


def post(ctx, bins):
    return sweep_post(ctx, bins)


def sweep_post(ctx, bins):
    """thorough tier: the shortest and the 9-digit text of every finite f32 (std formatting) must parse back to the same bits"""
    if ctx["tier"] != "thorough":
        return []
    viol = []
    total = 0
    for (fs, profile), binp in sorted(bins.items()):
        if fs not in ("default", "compact"):
            continue
        ops = vlib.sweep_ops("xpf", "f32", 0, 0x7f800000, 64) + vlib.sweep_ops("xpf", "f64", 0x3ff0000000000000, 0x3ff0000000000000 + 40000000, 16)
        res = vlib.run_sweeps(binp, ops)
        v, n = vlib.sweep_violations(res, fs, profile, lambda op, first: "xpf %s %d 1" % (op.split(" ")[1], int(first, 16)))
        viol += v
        total += n
    ctx["post_evaluations"] = ctx.get("post_evaluations", 0) + total
    return viol
