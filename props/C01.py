"""C01 — decimal string->float parsing is correctly rounded."""
import gens
from props.common import TRUSTED_BASE, ASSUMPTIONS

ID = "C01"
LEAN_MODULES = ["LexVerif.Props.C01"]
GEN = []
TRUSTED = TRUSTED_BASE + [
    "full correctness of Eisel-Lemire / Bellerophon / big-integer slow path is NOT proved in Lean: the proved part is the oracle (roundNE) and the tables; the algorithms are compared with the oracle on number-theoretic worst cases",
]
RULE = ("G-hard: per decimal power q, mantissas m < 10^19 (and near 2^53, and short) for which m*10^q is closest to a midpoint "
        "between adjacent floats (Euclid-style search, hard/hardgen.py), each as plain / pointed / truncation-crossing "
        "((m-1)999.., m000..1) / zero-padded / 20..2000-digit-tail literals; G-exp: exponents at every cut-off; random structured "
        "decimals. non-trivial = accepted literal with a finite non-zero result or a result decided at a cut-off; distinct = distinct op lines")


def feature_sets(tier):
    if tier == "quick":
        return ["default", "compact", "radix+format", "compact+radix+format"]
    return ["default", "compact", "radix+format", "compact+radix+format", "radix", "format", "pow2", "nostd"]


def streams(tier, rng, fs, profile):
    n = 250 if tier == "quick" else 4000
    return [
        ("g-hard", gens.float_parse_hard_ops(rng, fs, [10], n, rich=True, tails=8 if tier == "quick" else 120)),
        ("g-exp", gens.float_exp_ops(rng, fs, [10])),
        ("g-random", gens.float_random_ops(rng, fs, [10], 1500 if tier == "quick" else 30000)),
    ]


def nontrivial(op, res):
    t = res.split(" ")
    return t[0] == "ok" and t[1] not in ("0", "80000000", "8000000000000000", "nan")
