"""C08 — what lexical writes, lexical parses back to the same value in the same format."""
import gens
import vlib
import fmtcat_rt
from props import judges
from props.common import TRUSTED_BASE, ASSUMPTIONS

ID = "C08"
LEAN_MODULES = ["LexVerif.Props.TablesWrite", "LexVerif.Props.TablesParse", "LexVerif.Props.C03Tie", "LexVerif.Props.Literals.WriteFloatAlgorithm", "LexVerif.Props.Literals.WriteFloatCompact", "LexVerif.Props.Literals.WriteFloatBinary", "LexVerif.Props.Literals.WriteFloatHex", "LexVerif.Props.Literals.WriteFloatRadix", "LexVerif.Props.Literals.WriteIntegerDecimal", "LexVerif.Props.Literals.WriteIntegerJeaiii", "LexVerif.Props.Literals.WriteIntegerDigitCount", "LexVerif.Props.Literals.WriteIntegerAlgorithm", "LexVerif.Props.Literals.WriteIntegerRadix", "LexVerif.Props.Literals.ParseFloatLemire", "LexVerif.Props.Literals.ParseFloatSlow", "LexVerif.Props.Literals.ParseFloatBigint", "LexVerif.Props.Literals.ParseFloatBellerophon", "LexVerif.Props.Literals.ParseFloatBinary", "LexVerif.Props.C08", "LexVerif.Props.C08Decimal", "LexVerif.Props.C08Parser", "LexVerif.Props.C03", "LexVerif.Props.C04", "LexVerif.Props.RoundNE", "LexVerif.Props.Literals.WriteFloatWrite", "LexVerif.Props.Literals.WriteFloatShared", "LexVerif.Props.Literals.ParseFloatParse", "LexVerif.Props.Literals.ParseIntegerAlgorithm", "LexVerif.Props.Literals.WriteIntegerApi", "LexVerif.Props.Literals.CoreLib"]
GEN = ["literals"]
TRUSTED = TRUSTED_BASE + [
    "integers: the round trip is composed from separately proved halves (C03 writer = numeral, C04 parser = exact scan; oracle exactness) for plain formats; for flagged integer formats it is measured",
    "floats, decimal: proved from the formatting-layer model (tied to the code by the `wf` correspondence of C14/C09) to the documented grammar (tied to the parser model by C12 and to the code by the `pf` "
    "correspondence); the writer's digits enter as the named hypothesis WriterDigitsShortest (C02; discharged for all zero-mantissa-field floats); the parser's conversion of the literal is C01's",
    "floats, non-decimal radices and everything else end-to-end: measured — the implementation's own parser is run on the implementation's own output",
]
RULE = ("write with the real writer, parse with the real complete parser in the SAME format with options agreeing on radix, decimal point, exponent character and special strings; "
        "compare bits. Integers: 12 types x radices x sign-flag formats x G-int values. Floats: decimal, power-of-two and mixed-base formats x syntax-flag formats (required/forbidden "
        "signs, required/forbidden exponent notation, exponent-without-fraction, required digits) x options (custom decimal point / exponent character, special strings, trim_floats, "
        "exponent breaks) x G-bits values incl. specials and signed zeros. non-trivial = written ok; distinct = distinct ops")
TECHNIQUE = ("Lean 4 proof (integers: round trip on the models from the C03 and C04 theorems; floats: writer formatting-layer model -> documented grammar of the same format for every valid decimal "
             "format and compatible option pair, specials, signed zeros, value equality from Spec.shortest via roundNE) + write->parse correspondence through the real code for every format/option pair")
LEVEL_TEXT = ("Proved in Lean: (integers) for plain formats, parse(spec) of the canonical numeral written by the proved writer model returns the value. (floats, decimal mantissa, any flags / exponent radix) "
              "roundtrip_float_shape / roundtrip_float_model: whatever the write_float model returns for a finite value is derived in full by the documented grammar of the same format as a number with the written "
              "sign, exactly the rounded digits and the carried exponent (exact value digits'*10^(sci'-len+1)), for every valid format and every valid option pair agreeing on punctuation and special strings, with one "
              "exclusion (PrefixClear; negation witness finding_prefix_case); the text is separator-free; roundtrip_special / roundtrip_signed_zero; roundtrip_decimal_value: without a digit limit the bits read back "
              "equal the bits written given WriterDigitsShortest (C02's open part; discharged for every zero-mantissa-field float of f32/f64 in C08Decimal); roundtrip_float_parser_model composes with C12 down to the "
              "parser model for formats without separator/prefix. Not proved: non-decimal float radices, C01's conversion inside the parser, C02 in general. Partial proof, stated as such; everything is also "
              "exercised end-to-end on the real code.")
LEVEL_NOTE = "Trusted: Lean kernel; C03/C04 model<->code correspondence; differential harness; generators."


def feature_sets(tier):
    return ["default", "radix+format", "compact"] if tier == "quick" else ["default", "format", "radix", "radix+format", "compact", "compact+radix+format", "pow2"]


INT_FLAG_FORMATS = [0xC, 0xC | (1 << 5), 0xC | (1 << 4), 0xC | (1 << 12), 0xC | 0x3]
FLOAT_FLAG_FORMATS = [0xC, 0xC | (1 << 5), 0xC | (1 << 4), 0xC | (1 << 14), 0xC | (1 << 6), 0xC | (1 << 8), 0xC | (1 << 7), 0xC | (1 << 9),
                      0xC | (1 << 0), 0xC | (1 << 1), 0xC | 0x3, 0xC | (1 << 15), 0xC | (1 << 13)]
# combinations of the flags the float writer honours (fmtcat_rt.py; Props/C08.lean `roundtrip_float_shape` covers all of them)
FLOAT_FLAG_COMBOS = sorted(v & 0xFFFFFFFF for v in fmtcat_rt.DECIMAL.values())


def int_ops(rng, fs, quick):
    ops = []
    rads = gens.radices(fs)
    if quick and len(rads) > 8:
        rads = [2, 3, 10, 16, 25, 36]
    for r in rads:
        flagsets = INT_FLAG_FORMATS if (gens.has_format(fs) and r in (10, 2, 16, 36)) else [0xC]
        for fl in flagsets:
            if fl != 0xC and r != 10 and fl != (0xC | (1 << 5)):
                continue
            f = gens.fmt_hex(gens.pack(r, flags=fl)) if (fl != 0xC or r != 10) else gens.fmt_hex(gens.pack(10))
            for ty in gens.INT_TYPES:
                lo, hi = gens.int_range(ty)
                vals = [v for v in gens.interesting_values(ty, r, rng, extra=2) if lo <= v <= hi]
                if quick:
                    vals = rng.sample(vals, min(len(vals), 14)) + [lo, hi, 0]
                for v in vals:
                    ops.append("wi %s %s %d 200" % (ty, f, v))
    return ops


def short_decimal_ops(rng, quick):
    """floats whose shortest decimal significand is short (1 .. 5 digits: every d <= 2100, sampled above), at several
    exponents: the writers' digit-count and table look-ups are indexed by the significand, not by the float's bits"""
    import struct
    ops = []
    f = gens.fmt_hex(gens.pack(10))
    ds = list(range(1, 2101)) + [rng.randrange(2101, 100000) for _ in range(400 if quick else 20000)]
    for d in ds:
        for k in ((-3, 0, 7) if quick else (-30, -7, -3, 0, 2, 7, 20, 30)):
            v = float("%de%d" % (d, k))
            for ty in ("f32", "f64"):
                if quick and rng.random() < 0.5:
                    continue
                bits = struct.unpack("<I", struct.pack("<f", v))[0] if ty == "f32" else struct.unpack("<Q", struct.pack("<d", v))[0]
                ops.append("wf %s %s %x %s -" % (ty, f, bits, gens.wopts()))
    return ops


def float_ops(rng, fs, quick):
    ops = []
    fmts = []
    fmts.append((10, 10, 10, 0xC))
    if gens.has_format(fs):
        for fl in FLOAT_FLAG_FORMATS[1:] + FLOAT_FLAG_COMBOS:
            fmts.append((10, 10, 10, fl))
    if "radix" in fs:
        # decimal mantissa, exponent digits in another radix (the exponent character must not be a digit of it)
        fmts.append((10, 10, 16, 0xC))
        fmts.append((10, 10, 2, 0xC))
    if "radix" in fs or "pow2" in fs:
        for r in (2, 4, 8, 16, 32):
            fmts.append((r, r, r, 0xC))
        for (r, b) in ((4, 2), (8, 2), (16, 2), (32, 2), (16, 4)):
            fmts.append((r, b, 10, 0xC))
        if gens.has_format(fs):
            fmts.append((16, 16, 16, 0xC | (1 << 14)))
            fmts.append((2, 2, 2, 0xC | (1 << 5)))
    for ty in ("f64", "f32"):
        cases = gens.float_bits_cases(rng, ty, 150 if quick else 3000, rich=True)
        if quick:
            cases = rng.sample(cases[:-8], min(len(cases) - 8, 260)) + cases[-8:]
        for (r, b, er, fl) in fmts:
            f = gens.fmt_hex(gens.pack(r, b, er, flags=fl))
            combo = r == 10 and (fl in FLOAT_FLAG_COMBOS or er != 10)
            echar = 94 if (r > 25 or er > 10) else (112 if r >= 15 else 101)
            nper = (60 if combo else 120) if quick else len(cases)
            for bits in (cases if not quick else rng.sample(cases, min(len(cases), nper)) + cases[-8:]):
                k = rng.random()
                dp, e = 46, echar
                if k < 0.2 and r == 10 and er == 10:
                    dp, e = rng.choice([(44, 101), (46, 69), (44, 94), (59, 120)])
                nan, inf = gens.DEF_NAN, gens.DEF_INF
                if rng.random() < 0.15:
                    nan, inf = gens.hexs(rng.choice(["nan", "NAN", "N"])), gens.hexs(rng.choice(["Inf", "i", "INFINITY"]))
                # digit options (decimal only): min digits pads (value unchanged), max digits rounds (acceptance only)
                mx, mn = "-", "-"
                kd = rng.random()
                if r == 10 and kd < 0.2:
                    mn = rng.choice([1, 2, 5, 17, 25])
                elif r == 10 and kd < 0.35:
                    mx = rng.choice([1, 2, 3, 8, 16])
                    if rng.random() < 0.3:
                        mn = rng.choice([1, mx])
                o = gens.wopts(mx=mx, mn=mn, exp=e, dp=dp, nan=nan, inf=inf, trim=1 if rng.random() < 0.25 else 0,
                               rnd=rng.choice("rrt"),
                               pb=rng.choice(["-", "-", 1, 30, 400]), nb=rng.choice(["-", "-", -1, -30, -400]))
                ops.append("wf %s %s %x %s -" % (ty, f, bits, o))
    return ops


def bits_of(x, ty):
    import struct
    return struct.unpack("<Q", struct.pack("<d", x))[0] if ty == "f64" else struct.unpack("<I", struct.pack("<f", x))[0]


def prefix_ops(rng, fs, quick):
    """decimal formats with a base prefix (`format` + `power-of-two`): the writer never writes the prefix; the parser must
    still read `0.5`, `0`, `0e0` back (Props/C08.lean `finding_prefix_case`; C12's base-prefix finding seen through C08)"""
    if not (gens.has_format(fs) and ("radix" in fs or "pow2" in fs)):
        return []
    ops = []
    vals = [0.0, -0.0, 0.5, -0.25, 0.0625, 1.5, 10.0, 1e30, 1e-40, 0.1]
    for name in ("rt_prefix_x", "rt_prefix_x_cs", "rt_prefix_x_reqexp"):
        f = gens.fmt_hex(fmtcat_rt.PREFIX[name])
        for ty in ("f64", "f32"):
            for x in vals:
                for (dp, e) in ((46, 101), (88, 101), (46, 88), (44, 94)):
                    for trim in (0, 1):
                        ops.append("wf %s %s %x %s -" % (ty, f, bits_of(x, ty), gens.wopts(exp=e, dp=dp, trim=trim)))
    return ops


def special_punct_ops(rng, fs, quick):
    """special strings that coincide with a punctuation character (nothing in either Options type or in
    `is_valid_options_punctuation` relates them): Props/C08.lean `finding_special_is_point`"""
    if not gens.has_format(fs):
        return []
    ops = []
    fmts = [gens.pack(10)] + [fmtcat_rt.NOREQ[n] for n in ("rt_noreq_mant", "rt_noreq_any")]
    for fmt in fmts:
        f = gens.fmt_hex(fmt)
        for ty in ("f64", "f32"):
            p, eb = gens.FLOAT_TYPES[ty]
            inf = ((1 << eb) - 1) << (p - 1)
            for bits in (inf, inf | (1 << (p + eb - 1)), inf | (1 << (p - 2)), bits_of(1.5, ty), 0):
                for (nan, infs, dp, e) in (("N", "inf", 78, 101), ("NaN", "i", 46, 105), ("n", "I", 46, 110), ("NaN", "i", 105, 101),
                                           ("NaN", "inf", 46, 101)):
                    ops.append("wf %s %s %x %s -" % (ty, f, bits, gens.wopts(exp=e, dp=dp, nan=gens.hexs(nan), inf=gens.hexs(infs))))
    return ops


def streams(tier, rng, fs, profile):
    quick = tier == "quick"
    return [("int-write", int_ops(rng, fs, quick)), ("float-write", float_ops(rng, fs, quick) + short_decimal_ops(rng, quick)),
            ("float-prefix", prefix_ops(rng, fs, quick)), ("float-special-punct", special_punct_ops(rng, fs, quick))]


def nontrivial(op, res):
    return res.startswith("ok")


def post(ctx, bins):
    viol = []
    n = 0
    for (fs, profile, sname), (ops, impl, drv) in ctx["results"].items():
        if sname == "int-write":
            pops, idx = [], []
            for i, (op, ir) in enumerate(zip(ops, impl)):
                t, it = op.split(" "), ir.split(" ")
                if it[0] != "ok":
                    viol.append(judges.viol(fs, profile, sname, op, ir, "ok <bytes>", "writer did not succeed with a large buffer"))
                    continue
                pops.append("pi %s %s 0 0 %s" % (t[1], t[2], it[1]))
                idx.append(i)
            back = vlib.run_impl(bins[(fs, profile)], pops)
            n += len(pops)
            for i, bk in zip(idx, back):
                want = "ok %s -" % ops[i].split(" ")[3]
                if bk != want:
                    viol.append(judges.viol(fs, profile, sname + "/reparse", ops[i], impl[i], want, "complete parser on the written bytes: " + bk))
        elif sname in ("float-write", "float-prefix", "float-special-punct"):
            items, idx = [], []
            for i, (op, ir) in enumerate(zip(ops, impl)):
                it = ir.split(" ")
                if it[0] != "ok":
                    viol.append(judges.viol(fs, profile, sname, op, ir, "ok <bytes>", "writer did not succeed"))
                    continue
                ty, fmt, bits, o = judges.wf_fields(op)
                items.append((ty, fmt, o, bits, it[1]))
                idx.append(i)
            back = vlib.run_impl(bins[(fs, profile)], judges.reparse_ops(items))
            n += len(items)
            for i, it, bk in zip(idx, items, back):
                ty, fmt, o, bits, out = it
                b = int(bits, 16)
                p, eb = gens.FLOAT_TYPES[ty]
                mag = b & ((1 << (p + eb - 1)) - 1)
                special = (mag >> (p - 1)) == (1 << eb) - 1
                is_nan = special and (mag & ((1 << (p - 1)) - 1)) != 0
                r = (int(fmt, 16) >> 104) & 255
                if special and all_digits(out, r):
                    continue
                want = "nan" if is_nan else "%x" % b
                bt = bk.split(" ")
                if o[0] != "-" and not special:
                    # max_significant_digits set: the digits may be rounded; the text must still be accepted as a finite
                    # or infinite number of the written sign (the exact digits are the subject of C14)
                    sign = b >> (p + eb - 1)
                    if bt[0] != "ok" or bt[1] == "nan" or (int(bt[1], 16) >> (p + eb - 1)) != sign:
                        viol.append(judges.viol(fs, profile, sname + "/reparse", ops[i], impl[i], "complete parse of the written bytes gives a number of the same sign",
                                                "implementation re-parse: " + bk))
                    continue
                if bt[0] != "ok" or bt[1] != want:
                    viol.append(judges.viol(fs, profile, sname + "/reparse", ops[i], impl[i], "complete parse of the written bytes gives %s" % want,
                                            "implementation re-parse: " + bk))
    ctx["post_evaluations"] = n
    return viol


def classify(v):
    """call-site class of a float re-parse violation (known_findings.json `match.class`)"""
    if "/reparse" not in v.get("stream", "") or not v["op"].startswith("wf "):
        return None
    t = v["op"].split(" ")
    fmt = int(t[2], 16)
    pre = (fmt >> 88) & 0xFF
    it = v["implementation"].split(" ")
    if it[0] == "ok" and it[1] != "_":
        text = bytes.fromhex(it[1]).lstrip(b"+-")
        p, eb = gens.FLOAT_TYPES[t[1]]
        mag = int(t[3], 16) & ((1 << (p + eb - 1)) - 1)
        if (mag >> (p - 1)) == (1 << eb) - 1 and text and all(c in (int(t[10]), int(t[11])) for c in text):
            return "special-string-is-punctuation"
    if not pre or it[0] != "ok":
        return None
    body = bytes.fromhex(it[1]).lstrip(b"+-")
    if body[:1] != b"0":
        return None
    if len(body) >= 2 and body[1] != pre and bytes([body[1]]).lower() == bytes([pre]).lower():
        return "base-prefix-case-folds-punctuation"
    return "base-prefix-swallows-leading-zero"


def all_digits(outhex, r):
    body = bytes.fromhex(outhex).lstrip(b"+-")
    return all(c in gens.DIGITS[:r].encode() + gens.DIGITS[:r].lower().encode() for c in body)
