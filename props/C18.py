"""C18 — format and options validation is sound and complete."""
import itertools
import subprocess

import fmtcat_c18
import gens
import vlib
from fmtlib import F
from gens import pack, fmt_hex
from vlib import Broken

ID = "C18"
LEAN_MODULES = ["LexVerif.Props.Literals.UtilFormat", "LexVerif.Props.Literals.UtilAssert", "LexVerif.Props.Literals.ParseIntegerOptions", "LexVerif.Props.Literals.WriteIntegerOptions", "LexVerif.Props.C18", "LexVerif.Props.C18Builder", "LexVerif.Props.C18Options", "LexVerif.Props.Literals.UtilFormatFlags", "LexVerif.Props.Literals.UtilFeatureFormat", "LexVerif.Props.Literals.UtilNotFeatureFormat", "LexVerif.Props.Literals.UtilFormatBuilder", "LexVerif.Props.Literals.ParseFloatApi", "LexVerif.Props.Literals.ParseFloatOptions", "LexVerif.Props.Literals.ParseIntegerApi", "LexVerif.Props.Literals.WriteFloatOptions", "LexVerif.Props.Literals.WriteFloatWrite", "LexVerif.Props.Literals.WriteIntegerApi"]
GEN = ["format_flags", "literals"]
TRUSTED = [
    "Lean 4.33.0 kernel; axioms of each theorem listed under coverage.theorems",
    "R tie: harness `dump format_flags` (prints the constants of the compiled crate) and extractors/format_flags.py",
    "hand-written model Model.FormatError tied to format_flags.rs / feature_format.rs / not_feature_format.rs / "
    "format_builder.rs by the generated constants and by correspondence on the run-time hook "
    "`verif_format_error` (the const-generic `NumberFormat::<F>::error()` evaluates the same function)",
    "Spec.FormatValid: the documented constraints as read by a human from the doc comments",
]
ASSUMPTIONS = ["rustc evaluates `format_error_impl` identically in const and run-time contexts",
               "Option<NonZeroU8> is represented by the byte with 0 = None"]
RULE = ("fe/vp/rb component ops: every single flag and flag pair (known and reserved bits), each punctuation byte and "
        "radix byte exhaustively over 0..255 with the others fixed at several bases, random joint samples; "
        "pi/pf/wi/wf API ops on deliberately invalid const-generic formats and clashing option characters; "
        "non-trivial = any result other than the first error branch (InvalidMantissaRadix); distinct = distinct op lines")

FLAG_BITS = sorted(F.values())
RESERVED_BITS = [1 << i for i in (18, 19, 31, 45, 46, 63)] + [1 << i for i in (72, 79, 80, 87)]
DEFAULT_NAN = "4e614e"
DEFAULT_INF = "696e66"
DEFAULT_INFINITY = "696e66696e697479"
US = ord("_")


TECHNIQUE = 'Lean 4 proof: model of format_error_impl over regenerated flag constants = declarative validity specification, for every 128-bit format and feature set; builder/getter/setter lemmas; correspondence on exhaustive per-field streams'
LEVEL_TEXT = "Complete Lean theorems for every packed format (all 2^128 values) and feature set: formatError = first violated documented constraint, valid iff FormatValid, build_strict panics iff invalid, getters reflect setters; bit layout constants are regenerated from the compiled crate and proved equal to the model's layout. rebuild/build round trips are proved exactly (Props/C18Builder: rebuild (build b) = normalize b; which bits build (rebuild f) keeps, clears, fills). Option validators (parse/write float, integer) are modelled and proved sound and complete w.r.t. the documented constraints (Props/C18Options). Entry-point behaviour on invalid formats/punctuation is checked by correspondence (all four with_options entry points)."
LEVEL_NOTE = 'Trusted: Lean kernel; that Model.FormatError mirrors feature_format.rs/not_feature_format.rs (correspondence via the verif_format_error hook on >300k formats); option validators: Model.OptionsValid tied to options.rs by correspondence (pf/wf/bs opterr kinds, po/wo component ops).'


def feature_sets(tier):
    return ["default", "format", "radix", "radix+format"] if tier == "quick" else \
        ["default", "pow2", "format", "radix", "radix+format", "compact+radix+format"]


def bases():
    """a few packed formats around which single fields are varied"""
    S = 0xC
    sepf = F["integer_internal_digit_separator"]
    return [
        pack(10, flags=S),
        pack(10, flags=S | sepf, sep=US),
        pack(16, flags=S | sepf, sep=US, prefix=ord("x"), suffix=ord("h")),
        pack(36, flags=S | sepf, sep=US),
        pack(16, 2, 10, flags=S),
        pack(2, flags=S | sepf | F["special_digit_separator"], sep=ord(","), prefix=ord("b")),
    ]


def with_byte(f, shift, v):
    return (f & ~(0xFF << shift)) | (v << shift)


def fe_flag_ops():
    ops = []
    allbits = FLAG_BITS + RESERVED_BITS
    for base in (pack(10, flags=0), pack(10, flags=0xC), pack(10, flags=0xC, sep=US), pack(16, flags=0, sep=US, prefix=ord("x"))):
        ops.append("fe %x" % base)
        for b in allbits:
            ops.append("fe %x" % (base ^ b if b <= (1 << 63) else base | b))
        for a, b in itertools.combinations(allbits, 2):
            ops.append("fe %x" % (base | a | b))
    # each separator-flag group exhaustively (2^13), twice: with and without a separator character
    for sep in (0, US):
        for m in range(1 << 13):
            ops.append("fe %x" % pack(10, flags=0xC | (m << 32), sep=sep))
    # the 18 syntax flags exhaustively over the low 12 bits and sampled pairs with the high 6
    for m in range(1 << 12):
        ops.append("fe %x" % pack(10, flags=m))
    return ops


def fe_byte_ops():
    ops = []
    for base in bases():
        for shift in (64, 72, 80, 88, 96, 104, 112, 120):
            for v in range(256):
                ops.append("fe %x" % with_byte(base, shift, v))
    # radix triples near the boundaries
    edge = [0, 1, 2, 3, 4, 8, 9, 10, 11, 16, 32, 35, 36, 37, 64, 255]
    for m in edge:
        for b in edge:
            for e in edge:
                ops.append("fe %x" % pack(m, b, e, flags=0xC))
    return ops


INTERESTING_BYTES = [0, 1, 8, 9, 13, 14, 31, 32, 43, 45, 46, 47, 48, 49, 57, 58, 64, 65, 70, 71, 90, 91, 95, 96, 97,
                     101, 102, 103, 104, 120, 122, 123, 126, 127, 128, 255]


def rand_format(rng):
    flags = 0
    mode = rng.random()
    if mode < 0.3:
        flags = 0xC
    elif mode < 0.6:
        for b in FLAG_BITS:
            if rng.random() < 0.12:
                flags |= b
    else:
        flags = rng.getrandbits(64) & rng.getrandbits(64)
    def byte(p0):
        r = rng.random()
        if r < p0:
            return 0
        if r < 0.9:
            return rng.choice(INTERESTING_BYTES)
        return rng.randrange(256)
    radix = rng.choice([10, 10, 10, 2, 4, 8, 16, 32, 36, 3, 7, 12, 0, 1, 37, rng.randrange(256)])
    f = flags | (byte(0.4) << 64) | (byte(0.6) << 88) | (byte(0.6) << 96) | (radix << 104) | \
        (rng.choice([0, radix, 2, 4, 10, 16, rng.randrange(256)]) << 112) | \
        (rng.choice([0, radix, 10, 10, 16, 36, rng.randrange(256)]) << 120)
    if rng.random() < 0.1:
        f |= rng.getrandbits(16) << 72
    return f


def fe_random_ops(rng, n):
    return ["fe %x" % rand_format(rng) for _ in range(n)]


def vp_ops(rng, n):
    ops = []
    for base in bases():
        for c in range(256):
            ops.append("vp %x %d 46" % (base, c))
            ops.append("vp %x 101 %d" % (base, c))
            ops.append("vp %x %d %d" % (base, c, c))
    for _ in range(n):
        f = rand_format(rng) if rng.random() < 0.5 else rng.choice(bases())
        ops.append("vp %x %d %d" % (f, rng.choice(INTERESTING_BYTES), rng.choice(INTERESTING_BYTES)))
    return ops


def rb_ops(rng, n):
    ops = ["rb %x" % b for b in bases()]
    ops += ["rb %x" % rand_format(rng) for _ in range(n)]
    ops += ["rb %x" % rng.getrandbits(128) for _ in range(n // 4)]
    return ops


def api_ops():
    """the four `*_with_options` entry points on invalid const-generic formats / clashing option characters"""
    ops = []
    cat = fmtcat_c18.extra_formats()
    inputs = ["1e5", "1.5", "12", "1_0", "+1", ""]
    for kind, f, name in cat:
        h = fmt_hex(f)
        if name.startswith("c18_ok"):
            continue
        for s in inputs:
            hs = gens.hexs(s)
            for partial in "01":
                if kind in ("B", "I"):
                    ops.append("pi i32 %s %s 0 %s" % (h, partial, hs))
                    ops.append("pi u64 %s %s 0 %s" % (h, partial, hs))
                if kind in ("B", "F"):
                    ops.append("pf f64 %s %s 0 101 46 %s %s %s %s" % (h, partial, DEFAULT_NAN, DEFAULT_INF, DEFAULT_INFINITY, hs))
                    ops.append("pf f32 %s %s 0 101 46 %s %s %s %s" % (h, partial, DEFAULT_NAN, DEFAULT_INF, DEFAULT_INFINITY, hs))
        if kind in ("B", "I"):
            ops.append("wi i32 %s -12 -" % h)
            ops.append("wi u64 %s 12 -" % h)
        if kind in ("B", "F"):
            ops.append("wf f64 %s 3ff8000000000000 - - - - r 0 101 46 %s %s -" % (h, DEFAULT_NAN, DEFAULT_INF))
            ops.append("wf f32 %s 3fc00000 - - - - r 0 101 46 %s %s -" % (h, DEFAULT_NAN, DEFAULT_INF))
    # valid formats, invalid punctuation options (exponent, decimal point)
    names = fmtcat_c18.by_name()
    std = pack(10)
    hexf = pack(16)
    clashes = [
        (std, 101, 101), (std, 46, 46), (std, 49, 46), (std, 101, 57), (std, 43, 46), (std, 101, 45),
        (std, 0, 46), (std, 101, 0), (std, 127, 46), (std, 101, 128), (std, 255, 46),
        (hexf, 101, 46), (hexf, 69, 46), (hexf, 112, 102),
        (names["c18_ok_sep"], 101, US), (names["c18_ok_sep"], US, 46),
        (names["c18_ok_prefix_suffix"], ord("x"), 46), (names["c18_ok_prefix_suffix"], 101, ord("h")),
        (names["c18_ok_prefix_suffix"], ord("h"), 46), (names["c18_ok_prefix_suffix"], ord("p"), ord("x")),
    ]
    for f, e, d in clashes:
        for s in ("1e5", "1.5", "1" + chr(e if 32 <= e < 127 else 101) + "5"):
            for partial in "01":
                ops.append("pf f64 %x %s 0 %d %d %s %s %s %s" % (f, partial, e, d, DEFAULT_NAN, DEFAULT_INF, DEFAULT_INFINITY, gens.hexs(s)))
    return ops


def streams(tier, rng, fs, profile):
    n = 20000 if tier == "quick" else 400000
    return [
        ("fe-flags", fe_flag_ops()),
        ("fe-bytes", fe_byte_ops()),
        ("fe-random", fe_random_ops(rng, n)),
        ("vp", vp_ops(rng, n // 4)),
        ("rb", rb_ops(rng, n // 4)),
        ("api-invalid", api_ops()),
        ("opts-strings", opts_string_ops(rng, tier)),
    ]


LETTERS = "abcdefghijklmnopqrstuvwxyz"


def _special_strings(first, rng):
    """candidate special strings: valid and invalid ones around every documented constraint"""
    out = [None, "", first, first.upper(), first + "a", "x" + first, first + "1", first + "_", first + " ", first + "\xff",
           first + "a" * 48, first + "a" * 49, first + "a" * 50, first + "a" * 51, first.upper() + "B" * 49, first + "A" * 99]
    for _ in range(3):
        n = rng.choice([2, 3, 8, 49, 50, 51])
        out.append(first + "".join(rng.choice(LETTERS + LETTERS.upper()) for _ in range(n - 1)))
    return out


def parse_opts_spec(exp, dp, nan, inf, infinity):
    """documented validity of ParseFloatOptions (docs of lexical-parse-float/src/options.rs): error kind or None"""
    ascii_ok = _ascii_ok
    if not ascii_ok(exp):
        return "InvalidExponentSymbol"
    if not ascii_ok(dp):
        return "InvalidDecimalPoint"
    letters = lambda s: all(ch in LETTERS or ch in LETTERS.upper() for ch in s)
    if nan is not None:
        if nan == "" or nan[0] not in "Nn" or not letters(nan):
            return "InvalidNanString"
        if len(nan) > 50:
            return "NanStringTooLong"
    if inf is not None and infinity is None:
        return "InfinityStringTooShort"
    if inf is not None:
        if inf == "" or inf[0] not in "Ii" or not letters(inf):
            return "InvalidInfString"
        if len(inf) > 50:
            return "InfStringTooLong"
    if infinity is not None:
        if infinity == "" or infinity[0] not in "Ii" or not letters(infinity):
            return "InvalidInfinityString"
        if len(infinity) > 50:
            return "InfinityStringTooLong"
        if inf is not None and len(infinity) < len(inf):
            return "InfinityStringTooShort"
    return None


def _h(s):
    return "-" if s is None else ("_" if s == "" else s.encode("latin-1").hex())


def opts_string_ops(rng, tier):
    """ParseFloatOptions / WriteFloatOptions builders on special strings around every documented constraint"""
    ops = []
    std = "a0000000000000000000000000c"
    nans = _special_strings("n", rng)
    infs = _special_strings("i", rng)
    combos = []
    for nan in nans:
        combos.append((nan, "inf", "infinity"))
    for inf in infs:
        combos.append(("NaN", inf, "infinity"))
        combos.append(("NaN", inf, inf))
        combos.append(("NaN", inf, None))
    for infinity in infs:
        combos.append(("NaN", "inf", infinity))
        combos.append(("NaN", None, infinity))
        combos.append(("NaN", "i" + "n" * 49, infinity))
    for (nan, inf, infinity) in combos:
        for (e, d) in ((101, 46), (200, 46), (101, 255)):
            ops.append("pf f64 %s 0 0 %d %d %s %s %s 31" % (std, e, d, _h(nan), _h(inf), _h(infinity)))
        ops.append("wf f64 %s 3ff8000000000000 - - - - r 0 101 46 %s %s -" % (std, _h(nan), _h(inf)))
        # the validators themselves (is_valid, build, *_is_valid): harness/src/comp_opts.rs
        for (e, d) in ((101, 46), (127, 46), (101, 8), (9, 13)):
            ops.append("po %d %d %s %s %s" % (e, d, _h(nan), _h(inf), _h(infinity)))
    ops += opts_numeric_ops(rng, nans, infs)
    return list(dict.fromkeys(ops))


DIGIT_PAIRS = [("-", "-"), ("3", "5"), ("5", "3"), ("5", "5"), ("1", "1"), ("0", "5"), ("5", "0"), ("3", "-"), ("-", "5"),
               ("64", "64"), ("1", "2"), ("49", "50")]
POS_BREAKS = ["-", "1", "9", "-1", "-9", "0"]
NEG_BREAKS = ["-", "-1", "-5", "1", "5", "0"]


def opts_numeric_ops(rng, nans, infs):
    """write-side numeric options around every test of `OptionsBuilder::build` (max < min digits, exponent breaks of
    the wrong sign), alone and combined with bad strings / punctuation so that the ORDER of the tests is observed"""
    ops = []
    std = "a0000000000000000000000000c"
    for (mx, mn) in DIGIT_PAIRS:
        for pb in POS_BREAKS:
            for nb in NEG_BREAKS:
                ops.append("wf f64 %s 3ff8000000000000 %s %s %s %s r 0 101 46 %s %s -" % (std, mx, mn, pb, nb, DEFAULT_NAN, DEFAULT_INF))
                ops.append("wo %s %s %s %s 101 46 %s %s" % (mx, mn, pb, nb, DEFAULT_NAN, DEFAULT_INF))
    mixes = [("3", "5", "-", "-"), ("-", "-", "-1", "-"), ("-", "-", "-", "1"), ("3", "5", "-1", "1"), ("-", "-", "-", "-")]
    for (mx, mn, pb, nb) in mixes:
        for (e, d) in ((101, 46), (200, 46), (101, 255), (127, 127)):
            for nan in nans:
                ops.append("wf f64 %s 3ff8000000000000 %s %s %s %s r 0 %d %d %s %s -" % (std, mx, mn, pb, nb, e, d, _h(nan), DEFAULT_INF))
                ops.append("wo %s %s %s %s %d %d %s %s" % (mx, mn, pb, nb, e, d, _h(nan), DEFAULT_INF))
            for inf in infs:
                ops.append("wf f64 %s 3ff8000000000000 %s %s %s %s r 0 %d %d %s %s -" % (std, mx, mn, pb, nb, e, d, DEFAULT_NAN, _h(inf)))
                ops.append("wo %s %s %s %s %d %d %s %s" % (mx, mn, pb, nb, e, d, DEFAULT_NAN, _h(inf)))
        ops.append("bs f64 %s %s %s %s %s r 0 101 46 %s %s" % (std, mx, mn, pb, nb, DEFAULT_NAN, DEFAULT_INF))
    return ops


def _special_err(s, first, invalid, too_long):
    letters = lambda x: all(ch in LETTERS or ch in LETTERS.upper() for ch in x)
    if s is None:
        return None
    if s == "" or s[0] not in first or not letters(s):
        return invalid
    if len(s) > 50:
        return too_long
    return None


def _ascii_ok(c):
    """`Any non-control character is valid, but \\t to \\r are also valid` (options.rs)"""
    return 9 <= c <= 13 or 32 <= c < 127


def write_opts_spec(mx, mn, pb, nb, exp, dp, nan, inf):
    """documented validity of WriteFloatOptions: error kind (in the order `build` documents them) or None"""
    nz = lambda x: None if x in ("-", "0") else int(x)
    mx, mn, pb, nb = nz(mx), nz(mn), nz(pb), nz(nb)
    e = _special_err(nan, "Nn", "InvalidNanString", "NanStringTooLong") or \
        _special_err(inf, "Ii", "InvalidInfString", "InfStringTooLong")
    if e:
        return e
    if mx is not None and mn is not None and mx < mn:
        return "InvalidFloatPrecision"
    if nb is not None and nb > 0:
        return "InvalidNegativeExponentBreak"
    if pb is not None and pb < 0:
        return "InvalidPositiveExponentBreak"
    if not _ascii_ok(exp):
        return "InvalidExponentSymbol"
    if not _ascii_ok(dp):
        return "InvalidDecimalPoint"
    return None


def op_check(op, ir, fs, profile):
    """option builders: the reported configuration error must be the documented one"""
    t = op.split(" ")
    un = lambda h: None if h == "-" else ("" if h == "_" else bytes.fromhex(h).decode("latin-1"))
    got = ir.split(" ")
    if t[0] == "pf" and len(t) == 11 and t[-1] == "31":
        want = parse_opts_spec(int(t[5]), int(t[6]), un(t[7]), un(t[8]), un(t[9]))
    elif t[0] == "wf" and len(t) == 15:
        want = write_opts_spec(t[4], t[5], t[6], t[7], int(t[10]), int(t[11]), un(t[12]), un(t[13]))
    elif t[0] == "bs" and len(t) == 13:
        want = write_opts_spec(t[3], t[4], t[5], t[6], int(t[9]), int(t[10]), un(t[11]), un(t[12]))
    elif t[0] == "po":
        # is_valid, build, Options::is_valid must all agree with the documented validity
        want = parse_opts_spec(int(t[1]), int(t[2]), un(t[3]), un(t[4]), un(t[5]))
        ok = "true" if want is None else "false"
        if got[1] != (want or "ok") or got[0] != ok or got[5] != ok:
            return "parse options: documented result %s, validators say `%s`" % (want or "ok", ir)
        return None
    elif t[0] == "wo":
        # build must report the documented kind. (is_valid ignores the numeric options: reported as a finding by
        # Props/C18Options.writeOptions_isValid_not_build_ok, not judged here.)
        want = write_opts_spec(t[1], t[2], t[3], t[4], int(t[5]), int(t[6]), un(t[7]), un(t[8]))
        if got[1] != (want or "ok"):
            return "write options: documented result %s, build says `%s`" % (want or "ok", ir)
        return None
    else:
        return None
    if want is None:
        return None if got[0] != "opterr" else "valid options rejected by the builder: " + ir
    if got[0] != "opterr" or got[1] != want:
        return "invalid options: expected configuration error %s, got `%s`" % (want, ir)
    return None


def result_kind(op, res):
    """histogram class of an answer; `rb` answers with the rebuilt packed format itself, which is classed by
    whether rebuild-then-build returned the input bits, not keyed by its value"""
    if op.startswith("rb "):
        try:
            return "rb-unchanged" if int(res, 16) == int(op.split(" ")[1], 16) else "rb-normalized"
        except ValueError:
            return vlib.result_kind(res)
    return vlib.result_kind(res)


def nontrivial(op, res):
    if op.startswith("fe "):
        return res != "InvalidMantissaRadix"
    return True


def post(ctx, bins):
    """R tie, other feature sets: the flag constants carry no `cfg`, every build must print the same values"""
    out = []
    ref = None
    n = 0
    for (fs, profile), binp in sorted(bins.items()):
        d = vlib.bin_path(fs, "dump", profile)
        p = subprocess.run([d, "format_flags"], stdout=subprocess.PIPE, stderr=subprocess.PIPE)
        if p.returncode != 0:
            raise Broken("dump[format_flags,%s]" % fs, p.stderr.decode("utf-8", "replace")[-1000:])
        n += 1
        if ref is None:
            ref = (fs, p.stdout)
        elif p.stdout != ref[1]:
            raise Broken("dump[format_flags]", "feature sets %s and %s print different flag constants" % (ref[0], fs))
    ctx["post_evaluations"] = n
    return out
