"""C09 — writers honour the documented buffer bound and never touch memory outside the slice."""
import fmtcat_wfmt
import gens
import gens_wopts as gw
import vlib
from props import judges
from props.common import TRUSTED_BASE, ASSUMPTIONS

ID = "C09"
LEAN_MODULES = ["LexVerif.Props.C09", "LexVerif.Props.Literals.WriteFloatOptions", "LexVerif.Props.Literals.WriteFloatWrite", "LexVerif.Props.Literals.WriteFloatAlgorithm", "LexVerif.Props.Literals.WriteFloatCompact", "LexVerif.Props.Literals.WriteFloatShared", "LexVerif.Props.Literals.WriteFloatBinary", "LexVerif.Props.Literals.WriteFloatHex", "LexVerif.Props.Literals.WriteFloatRadix", "LexVerif.Props.Literals.WriteIntegerAlgorithm", "LexVerif.Props.Literals.WriteIntegerJeaiii", "LexVerif.Props.Literals.UtilConstants", "LexVerif.Props.Literals.UtilOptions", "LexVerif.Props.Literals.FacadeLib"]
GEN = ["write_tables", "literals"]
TRUSTED = TRUSTED_BASE + [
    "real stray reads/writes cannot be exhibited by the Lean model: the harness places every buffer against PROT_NONE pages "
    "(harness/src/guard.rs; a stray access is a `fault` line) and checks a canary in front of the buffer (`dirty`); observation, not proof",
    "the digit writers enter the buffer model through their contract (jeaiii: `&mut buffer[..20|..10]` then exactly the digits; compact: "
    "`copy_to_dst` of exactly the digits), tied by this correspondence and by C03's model of the integer writers",
]
RULE = ("(a) `bs` (buffer_size_const) vs the Lean model over G-opt x format catalogue; (b) wf/wi with a buffer of exactly the documented bound "
        "over option extremes (min/max digits to 500, breaks over the whole exponent range so that positional notation writes hundreds of zeros, "
        "trim, required signs, every radix of the feature set), values placed on the break points, all-nines carries, 17-digit significands, "
        "3-digit exponents; MODEL-GUIDED: a candidate pool is evaluated by the buffer-faithful Lean model (judge op jbuf on the implementation's "
        "default digits) and every op for which the model predicts a slice-index panic is replayed on the implementation; (c) the same ops with "
        "shorter buffers (0, 1, 2, bound-1, bound-2, random) must end `ok` inside the buffer or `panic`, never `fault`/`dirty`. "
        "non-trivial = `ok` result of a non-default option set or a panic; distinct = distinct ops")
TECHNIQUE = ("Lean 4 theorems on the buffer-faithful model (high-water mark < buffer_size_const for every valid option set; short buffers give PANIC or an in-buffer result, never FAULT) + correspondence incl. guard pages")
LEVEL_TEXT = ("Proved in Lean (Props/C09.lean) on the buffer-faithful model of write_float and both decimal back-ends (algorithm.rs, compact.rs), for the "
              "buffer_size_const of the current tree (repaired by /repo fb7040b / 2d9b865; tied by the `bs` op and the literal snapshot): float_bound - for "
              "every digit list the generators can produce, every scientific exponent of a finite float, every valid decimal format and all valid options "
              "(no exclusion), a buffer of buffer_size_const bytes suffices: the call returns, writes at most buffer_size_const bytes and never touches an "
              "index >= buffer_size_const (the slice need of every layout function is characterised exactly: panic <-> len < need). short_buffer_safe - any "
              "buffer: PANIC or an in-buffer result, never FAULT. int_bound - the integer buffer_size_const holds sign (incl. a required '+' of unsigned "
              "types) + numeral of every integer type in every radix (kernel-evaluated table); writeInt_size_suffices_compact transfers C03's writer "
              "correctness to that size. History kept as theorems about the formulas before the repairs (float_bound_before_fix under SafeOpts, its full "
              "statement refuted by three decided witnesses float_bound_before_fix_full_false, int_plus_sign_exception_before_fix). Generic radices: "
              "Props/C07 radix_write_total (the radix.rs model never panics for any option set given the scratch buffer, panic iff bytes shorter than the "
              "highest index touched). Power-of-two writers: correspondence only.")
LEVEL_NOTE = ("Trusted: Lean kernel; rustc; harness (guard pages observe, do not prove, absence of stray accesses). The bound for non-decimal float "
              "writers (that buffer_size_const covers the highest index the radix.rs / binary.rs / hex.rs writers touch) is correspondence only.")

BIGBUF = 4000
# `dbg` = release-like build with debug assertions (harness/Cargo.toml): only the small stream `float-sign-dbg` runs there
PROFILES = {"quick": ["release", "dbg"], "thorough": ["release", "dbg"]}


def feature_sets(tier):
    return ["default", "compact", "radix+format"] if tier == "quick" else \
        ["default", "compact", "radix+format", "compact+radix+format", "format", "radix", "pow2", "compact+radix"]


def fbits(ty, x):
    try:
        return gw.f64_bits(x) if ty == "f64" else gw.f32_bits(x)
    except OverflowError:
        return None


def float_at(ty, mant, e):
    """bits of mant x 10^e (None when out of range)"""
    lim = 308 if ty == "f64" else 38
    low = -323 if ty == "f64" else -45
    if e > lim or e < low:
        return None
    try:
        x = float("%se%d" % (mant, e))
    except (OverflowError, ValueError):
        return None
    if x == 0.0 or x == float("inf"):
        return None
    b = fbits(ty, x)
    if b is None or b == 0:
        return None
    return b


MANTS = ["1", "9.5", "9.96", "1.5", "1.2345678901234567", "9.999999999999999", "1.2345678", "9.9999994", "5", "2.5", "1.25",
         "9.999999", "1.0000001"]


def extreme_opts(rng):
    o = gw.rand_opts(rng, extreme=True)
    k = rng.random()
    if k < 0.35:
        o["mx"] = rng.choice([1, 2, 3, 5, 9, 10, 16, 17, 18, 19, 20, 27, 28, 29])
        if o["mn"] is not None and o["mn"] > o["mx"]:
            o["mn"] = rng.choice([None, o["mx"], 1])
    elif k < 0.5:
        o["mx"] = None
    return o


def candidate_pool(rng, fs, n):
    """(ty, fmt, bits, opts) candidates for the exact-bound stream"""
    fmts = [gens.pack(10)]
    if gens.has_format(fs):
        fmts += list(fmtcat_wfmt.DECIMAL.values())
    out = []
    while len(out) < n:
        ty = rng.choice(["f64", "f64", "f32"])
        k = rng.random()
        if k < 0.55:
            o = extreme_opts(rng)
            lo = -5 if o["nb"] is None else o["nb"]
            hi = 9 if o["pb"] is None else o["pb"]
            es = [hi, hi - 1, hi + 1, lo, lo + 1, lo - 1, 0, -1, rng.randint(-330, 310), 300, -300, 38, -38, -45, -323, 308]
            e = rng.choice(es)
        else:
            # solved from the model: regions where the high-water mark / slice demand can reach the bound
            o = gw.rand_opts(rng, extreme=True)
            lim = (308, -323) if ty == "f64" else (38, -45)
            if k < 0.7:
                # many leading zeros, then the digit writer's fixed slice demand (Dragonbox builds)
                o["nb"] = -rng.randint(min(30, -lim[1] - 3), -lim[1] + 2)
                o["pb"] = rng.choice([None, 5, 20])
                o["mx"] = rng.choice([None, 1, 5, 8, 9, 10, 17, 18, 19, 20, 21, 27, 28])
                o["mn"] = rng.choice([None, 1, 9, 18, 19, 20, 21]) if o["mx"] is None else rng.choice([None, 1, o["mx"]])
                e = o["nb"] + rng.choice([0, 0, 1, 2, 10])
            elif k < 0.85:
                # many padding zeros, then the exponent writer's fixed slice demand
                o["mn"] = rng.randint(40, 520)
                o["mx"] = rng.choice([None, None, o["mn"], o["mn"] + 5])
                o["pb"] = rng.choice([None, 1, 5, 9, 10, 11, 12, 13, 14, 20])
                o["nb"] = rng.choice([None, -1, -5, -9, -10, -11, -12, -13, -14, -20])
                e = rng.choice([lim[0], lim[1], 100, -100, 15, -15, 10, 11, 12, 13, -10, -11, -12, -13, -6, 30, -30])
            else:
                # large positive break, one or two digits kept, ".0", sign, carry
                o["pb"] = rng.randint(min(50, lim[0] - 3), lim[0] + 2)
                o["nb"] = rng.choice([None, -5, -20])
                o["mx"] = rng.choice([1, 1, 2, 2, 3, 4])
                o["mn"] = rng.choice([None, 1, o["mx"]])
                e = o["pb"] - rng.choice([0, 0, 0, 1, 2])
        b = float_at(ty, rng.choice(MANTS), e)
        if b is None:
            continue
        if rng.random() < 0.5:
            b |= 1 << (63 if ty == "f64" else 31)
        f = rng.choice(fmts) if rng.random() < 0.5 else fmts[0]
        out.append((ty, f, b, o))
    return out


def default_digits(fs, profile, items):
    """digits / scientific exponent of the implementation's default decimal output for (ty, bits) items"""
    ops = ["wf %s %x %x %s %d" % (ty, gens.pack(10), b & ~(1 << (63 if ty == "f64" else 31)), gens.wopts(), BIGBUF)
           for (ty, b) in items]
    res = vlib.run_impl(vlib.bin_path(fs, "run", profile), ops)
    out = []
    for r in res:
        t = r.split(" ")
        if t[0] != "ok":
            out.append(None)
            continue
        w = gw.Written(bytes.fromhex(t[1]), 101, 46)
        out.append(w.sci_and_digits() if w.ok else None)
    return out


def jbuf_ops(cands, digs, buflen="-"):
    ops = []
    for (ty, f, b, o), d in zip(cands, digs):
        ds, sci = d if d else ([0], 0)
        ops.append("jbuf %s %x %x %s %s %d %s" % (ty, f, b, gw.opt_str(o), gw.digits_hex(ds), sci, buflen))
    return ops


def bounds_of(fs, ops):
    """buffer_size_const of wf ops, from the Lean model (`bs`; itself compared with the implementation in stream `bs`)"""
    bops = []
    for op in ops:
        w = op.split(" ")
        bops.append("bs %s %s %s" % (w[1], w[2], " ".join(w[4:14])))
    out = []
    for (mr, _) in vlib.run_driver(fs, bops):
        r = mr.split(" ")
        out.append(int(r[1]) if r[0] == "ok" else 64)
    return out


def short_lengths(rng, bound):
    ls = {0, 1, 2, 3, max(bound - 1, 0), max(bound - 2, 0), max(bound - 10, 0), max(bound - 21, 0), bound // 2}
    for _ in range(3):
        ls.add(rng.randrange(bound))
    return sorted(x for x in ls if x < bound)


def dbg_streams(rng, fs):
    """debug-assertion builds: signed values into a buffer of exactly buffer_size_const bytes.  The non-decimal writers
    `debug_assert!(bytes.len() >= BUFFER_SIZE)` on the slice that remains AFTER the sign byte was written."""
    ops = []
    fmts = [(gens.pack(r), 94 if r >= 15 else 101) for r in gens.radices(fs)]
    if "radix" in fs or "pow2" in fs:
        fmts += [(gens.pack(r, b, 10), 112) for (r, b) in ((4, 2), (8, 2), (16, 2), (32, 2), (16, 4))]
    for f, e in fmts:
        for ty in ("f64", "f32"):
            for x in (1.5, -1.5, 1.5e20, -1.5e20, 1.5e-20, -1.5e-20, 255.9375, -255.9375, -0.0):
                b = fbits(ty, x)
                if b is None:
                    continue
                ops.append("wf %s %x %x %s -" % (ty, f, b, gens.wopts(exp=e)))
                o = gw.rand_opts(rng, radix=(f >> 104) & 255, punct=False)
                o["exp"] = e
                ops.append("wf %s %x %x %s -" % (ty, f, b, gw.opt_str(o)))
    return [("float-sign-dbg", ops)]


def streams(tier, rng, fs, profile):
    if profile == "dbg":
        return dbg_streams(rng, fs)
    quick = tier == "quick"
    out = []
    # (a) buffer_size_const
    fmts = [gens.pack(10)] + [gens.pack(r) for r in gens.radices(fs) if r in (2, 3, 16, 36)]
    if gens.has_format(fs):
        fmts += list(fmtcat_wfmt.DECIMAL.values()) + list(fmtcat_wfmt.RADIX.values())
    fmts = [f for f in fmts if ((f >> 104) & 255) in gens.radices(fs)]
    bs = []
    for _ in range(1500 if quick else 20000):
        o = extreme_opts(rng)
        bs.append("bs %s %x %s" % (rng.choice(["f32", "f64"]), rng.choice(fmts), gw.opt_str(o)))
    out.append(("bs", bs))

    # (b) decimal floats at exactly the documented bound, model-guided
    cands = candidate_pool(rng, fs, 4000 if quick else 60000)
    digs = default_digits(fs, profile, [(c[0], c[2]) for c in cands])
    pred = vlib.run_driver(fs, jbuf_ops(cands, digs))
    hunted, calm = [], []
    for c, (_, sr) in zip(cands, pred):
        op = "wf %s %x %x %s -" % (c[0], c[1], c[2], gw.opt_str(c[3]))
        (hunted if sr.startswith("panic") else calm).append((op, sr))
    rng.shuffle(hunted)
    rng.shuffle(calm)
    hunted = hunted[:(700 if quick else 8000)]
    calm = calm[:(1500 if quick else 20000)]
    out.append(("float-exact-model-predicts-panic", [op for op, _ in hunted]))
    out.append(("float-exact", [op for op, _ in calm]))

    # (c) shorter buffers
    short = []
    sel = [op for op, _ in calm[:(250 if quick else 3000)] + hunted[:(60 if quick else 600)]]
    for op, bound in zip(sel, bounds_of(fs, sel)):
        for L in short_lengths(rng, bound):
            short.append(op[:-1] + str(L))
    out.append(("float-short", short))

    # non-decimal float writers at the bound and below
    rads = [r for r in gens.radices(fs) if r != 10]
    if rads:
        rops = []
        rfm = [gens.pack(r) for r in rads]
        if gens.has_format(fs):
            rfm += [v for v in fmtcat_wfmt.RADIX.values()]
        rfm += [gens.pack(r, b, 10) for (r, b) in ((4, 2), (8, 2), (16, 2), (32, 2), (16, 4))]
        for _ in range(1500 if quick else 30000):
            ty = rng.choice(["f64", "f32"])
            f = rng.choice(rfm)
            r = (f >> 104) & 255
            o = extreme_opts(rng)
            o["exp"] = gens.exp_char(r) if r <= 25 else 94
            if r >= 15:
                o["exp"] = 94
            o["dp"] = 46
            p, eb = gens.FLOAT_TYPES[ty]
            e = rng.choice([0, 1, (1 << eb) - 2, (1 << (eb - 1)) - 1, (1 << (eb - 1)), rng.randrange((1 << eb) - 1)])
            m = rng.choice([0, 1, (1 << (p - 1)) - 1, rng.getrandbits(p - 1), rng.getrandbits(p - 1)])
            b = (e << (p - 1)) | m | (rng.getrandbits(1) << (p + eb - 1))
            rops.append("wf %s %x %x %s -" % (ty, f, b, gw.opt_str(o)))
        if gens.has_format(fs) and 36 in rads:
            # all-zero digit strings under required_exponent_notation in a generic radix (panicked before /repo f386e72)
            for ty in ("f64", "f32"):
                p, eb = gens.FLOAT_TYPES[ty]
                for b in (0, 1 << (p + eb - 1), 1, 2):
                    for o in (gens.wopts(exp=94), gens.wopts(exp=94, trim=1, mn=7)):
                        rops.append("wf %s %x %x %s -" % (ty, 0x2424240000000000000000000000400c, b, o))
        out.append(("float-radix-exact", rops))
        rshort = []
        sel = rops[:(150 if quick else 2000)]
        for op, bound in zip(sel, bounds_of(fs, sel)):
            for L in short_lengths(rng, bound):
                rshort.append(op[:-1] + str(L))
        out.append(("float-radix-short", rshort))

    # integers: exact bound, required sign, shorter buffers
    out.append(("int-exact", gens.int_write_ops(rng, fs, scale=1)))
    if gens.has_format(fs):
        out.append(("int-reqsign", gens.int_write_reqsign(rng, fs)))
        # exactly the documented size with a required '+' sign (unsigned types: known finding)
        ex = []
        for r in (10, 2, 7, 16, 36):
            if r not in gens.radices(fs):
                continue
            f = gens.fmt_hex(gens.pack(r, flags=0xC | (1 << 5)))
            for ty in gens.INT_TYPES:
                lo, hi = gens.int_range(ty)
                for v in (0, 1, hi, lo, hi // 3, rng.randint(lo, hi)):
                    ex.append("wi %s %s %d -" % (ty, f, v))
        out.append(("int-reqsign-exact", ex))
    out.append(("int-short", gens.int_write_shortbuf(rng, fs)))
    return out


def nontrivial(op, res):
    t = op.split(" ")
    if t[0] == "wf":
        return res.startswith("panic") or (res.startswith("ok") and t[4:10] != ["-", "-", "-", "-", "r", "0"])
    return res.startswith("ok") or res.startswith("panic")


def op_check(op, ir, fs, profile):
    t = op.split(" ")
    it = ir.split(" ")
    if it[0] == "fault":
        return "the process crashed (guard page hit or abort): out-of-slice access"
    if "dirty" in it:
        return "bytes in front of the caller's slice were modified"
    name = t[0].lstrip("L")
    if name in ("wf", "dwf", "wi", "dwi") and it[0] not in ("ok", "panic"):
        return "writer returned neither a result nor a panic"
    if name == "wf" and t[-1] == "-":
        if it[0] != "ok":
            return "panic with a buffer of exactly buffer_size_const bytes"
        if len(it) >= 4 and (0 if it[1] == "_" else len(it[1]) // 2) > int(it[3]):
            return "returned slice longer than buffer_size_const"
    if name == "wf" and t[-1] != "-" and it[0] == "ok":
        if (0 if it[1] == "_" else len(it[1]) // 2) > int(t[-1]):
            return "returned slice longer than the buffer"
    return None


def post(ctx, bins):
    """model vs implementation on the exact-bound decimal streams for EVERY build (jbuf on the implementation's default digits)"""
    viol = []
    n = 0
    for (fs, profile, sname), (ops, impl, drv) in ctx["results"].items():
        if (not sname.startswith("float-exact") and sname != "float-short") or profile != "release":
            continue
        cands = []
        for op in ops:
            t = op.split(" ")
            cands.append((t[1], int(t[2], 16), int(t[3], 16), gw.opts_of_fields(t[4:14]), t[14]))
        digs = default_digits(fs, profile, [(c[0], c[2]) for c in cands])
        jops = []
        for c, d in zip(cands, digs):
            ds, sci = d if d else ([0], 0)
            jops.append("jbuf %s %x %x %s %s %d %s" % (c[0], c[1], c[2], gw.opt_str(c[3]), gw.digits_hex(ds), sci, c[4]))
        res = vlib.run_driver(fs, jops)
        n += 2 * len(jops)
        for op, ir, (_, sr) in zip(ops, impl, res):
            st = sr.split(" ")
            pred = " ".join(st[:4]) if st[0] == "ok" else sr
            if not vlib.agrees(ir, pred):
                viol.append({"kind": "correspondence", "featureset": fs, "profile": profile, "stream": sname + "/jbuf", "op": op,
                             "implementation": ir, "specification": pred, "model": pred,
                             "detail": "buffer-faithful model (on the implementation's default digits) disagrees with the implementation"})
    ctx["post_evaluations"] = n
    return viol


def classify(v):
    """call-site classes of known findings (findlib.py)"""
    import findlib
    return findlib.write_class(v)
