"""C11 — partial and complete parsers agree."""
import gens_total
import vlib
from props.common import TRUSTED_BASE, ASSUMPTIONS

ID = "C11"
FORMAT_GROUP = "total"
LEAN_MODULES = ["LexVerif.Props.C11", "LexVerif.Props.C11Sep", "LexVerif.Props.C04Format", "LexVerif.Props.C11Int", "LexVerif.Props.Literals.ParseFloatParse", "LexVerif.Props.Literals.ParseFloatShared", "LexVerif.Props.Literals.ParseIntegerAlgorithm", "LexVerif.Props.Literals.UtilSkip", "LexVerif.Props.Literals.UtilNoskip", "LexVerif.Props.Literals.UtilIterator", "LexVerif.Props.Literals.UtilDigit", "LexVerif.Props.Literals.ParseFloatApi", "LexVerif.Props.Literals.ParseIntegerApi"]
GEN = ["literals"]
TRUSTED = TRUSTED_BASE + [
    "the two relations are checked on the IMPLEMENTATION's results (second stage: the complete parser is re-run on the prefix "
    "the partial parser reported); the Lean theorems state them on the model",
]
RULE = ("G-agree generator (gens_total.agree_ops): every input through the complete AND the partial entry point (adjacent ops; "
        "`pi`, `pf`, default API `dpi`/`dpf`, `lexical` facade). Floats: the C12 syntax inputs of gens_float per float format of the "
        "catalogue (exhaustive strings to length 2 over the per-format alphabet + sampled to length 6, long digit runs with "
        "sprinkled separators, exponent edge cases, special strings with 7 option sets), inputs ending in separators / signs / "
        "exponent characters / decimal points / prefix and suffix letters, special strings and their prefixes (NaN, inf, infinity, "
        "-inf, +NaN, nan1, infinit, ...) also in radix >= 16 formats where their letters are digits, custom EXP / DP bytes; "
        "integers: +a, +, -, a, 12a, 1_, ... per integer format (radices, required sign, separators / prefix / suffix / digits "
        "not required: fmtcat_total.py), boundary values. Checked: (R1) complete = ok v <=> partial = ok (v, length); "
        "(R2) partial = ok (v, n), n > 0 => complete on the first n bytes = ok v (second-stage run). "
        "non-trivial = a byte was consumed (ok, or an error index > 0); distinct = distinct op lines")

TECHNIQUE = ("Lean 4 proof on the models: isPartial only selects an error kind inside parse_number; complete_iff_partial and "
             "partial_prefix (truncation lemma through every phase incl. the many-digits re-parse) under explicit, exact hypotheses, "
             "decided counter-example witnesses for every excluded class; integers via the C04 specification; + metamorphic "
             "correspondence: both relations are evaluated on the implementation's own results, the prefix relation by re-running "
             "the complete parser")
LEVEL_TEXT = ("Props/C11.lean (float syntax model, every feature set): complete_of_partial (<=) and partial_of_complete for number/zero "
              "results hold for EVERY format with no hypothesis; the => direction for special values and complete_iff_partial hold "
              "exactly under NoShadow (shadow_disagree: its negation yields a real disagreement), syntactically: required mantissa "
              "digits, no separator byte, first byte of each special string not a mantissa digit / decimal point "
              "(complete_iff_partial_syntactic). partial_prefix_contiguous: partial s = ok (v,n) => complete (s.take n) = ok v for "
              "every build without a digit-separator byte (non-format builds and all separator-free formats; prefix, suffix, all "
              "flags allowed), number results unconditionally, special results under SpecialHeadsOK; partial_prefix_model at the API "
              "level. partial_prefix_number / partial_prefix_model_number: number results also when a separator byte exists but "
              "integer, fraction and exponent have no separator flag (NumContig, e.g. special_digit_separator alone: non-contiguous "
              "buffer, digit counts by increment_count - exact since the repaired 8-digit-block counting, /repo 7e8a135 + 12a2453; "
              "regression_A/B_sep_format_8digit_block are the former failing inputs '12345678', '12345678x' of a fraction-only "
              "separator format, now agreeing with content). Both full statements are FALSE (not_complete_iff_partial_full, not_partial_prefix_full) with decided witnesses: "
              "digits not required ('NaN' -> (0.0,0), '-inf' -> (-0.0,1), '-+'), radix >= 19 where letters of inf/NaN are digits "
              "('inf' radix 20, 'infinity' radix 30, 'nan^' radix 24), sep_i_hexfloat_prefix '1p1_a'. Props/C11Int.lean (integer "
              "model, complete): int_complete_iff_partial holds with no exclusion; int_partial_prefix holds iff a digit was consumed "
              "(int_partial_prefix_iff), witness '+a' -> (0,1) vs '+' -> Empty(1). Formats WITH separator flags on integer, fraction or "
              "exponent (Props/C11Sep.lean): partial_prefix_sep (number AND special-value results; _number, _special, _model, "
              "_model_number, partial_prefix_sep_full_partial) proves the prefix relation for EVERY combination of the 14 "
              "separator predicates (or none) on the three digit components - including I+T+C and I+L+C, whose known defects "
              "accept more but consistently before and after the cut - in the release build, base prefix and suffix allowed, "
              "mantissa digits required, punctuation not colliding with the separator (SepCfg; derived from "
              "format.is_valid + valid options + is_valid_options_punctuation by sepCfg_of_valid, plus: the separator is not the "
              "other ASCII case of the exponent / prefix / suffix character). Key lemma peek_trunc: a cut at the returned count changes "
              "the look-ahead of a skip decision only from `some x` to end of input, all predicates are monotone for that change "
              "(holds_weaken) unless they ask for a digit after the separator (i, il, ic, ilc@first), and that digit is then "
              "consumed by the digit loop - EXCEPT in the exponent when mantissa_radix > exponent_radix: the exact exclusion "
              "`digit-seeking exponent predicate => mantissa_radix <= exponent_radix` (ExpRadixOK, number results only), shown exact by "
              "witness_sep_hex_i/_il/_ic ('1p1_a' -> (2.0,4), '1p1_' -> InvalidDigit; reproduced on the implementation: the open "
              "finding 'exponent is_digit uses the mantissa radix'). The count may stand after trailing separators a peek skipped "
              "('1__2__x' -> 6 with I+L+T+C); the many-digits re-parse is covered (ZerosMirror: skip_zeros repeats the peek "
              "decisions of the first pass while the digits are zeros). Special values: the special iterator is no-skip or skips "
              "every separator run, parse_positive_special commutes with every cut at or behind its match for EVERY format "
              "(parsePositiveSpecial_prefix), and the number parser fails on the cut buffer as on the whole one when no byte "
              "matching a special head is a mantissa digit / the decimal point (SpecialHeadsOK, necessary) / the separator "
              "('-_n_a__n__x' -> (NaN, 9) with special_digit_separator). Open (partial_prefix_sep_full): a separator that is the "
              "other ASCII case of the exponent, prefix or suffix character or one "
              "of I i N n (exhaustive model search to length 5-6 over all uniform decimal/hex separator formats, also with a "
              "base prefix, found no violation besides the radix one).")
LEVEL_NOTE = ("Trusted: Lean kernel; rustc; that the models mirror the Rust control flow (correspondence only). The integer parser with the "
              "`format` feature (prefix/suffix/separators/leading-zero flags) is modelled by Model.ParseIntFormat; Props/C04Format.lean "
              "int_format_complete_iff_partial proves clause 1 for EVERY valid format (lockstep of the two runs, Proof/ParseIntFormatAgree.lean); "
              "clause 2 is false for base suffix / base prefix (decided witnesses I3 '1+1', I4 '0xg').")


def feature_sets(tier):
    return ["default", "radix+format", "compact+radix+format"]


def streams(tier, rng, fs, profile):
    scale = 1.0 if tier == "quick" else 5.0
    fams = gens_total.agree_ops(rng, fs, scale)
    return [("g-agree-" + fam, dedup_pairs(ops)) for fam, ops in fams.items()]


def dedup_pairs(ops):
    """ops come as (complete, partial) pairs: drop repeated pairs, keep adjacency"""
    seen = set()
    out = []
    for i in range(0, len(ops) - 1, 2):
        if ops[i] in seen:
            continue
        seen.add(ops[i])
        out += [ops[i], ops[i + 1]]
    return out


def compare(op, impl_result, spec_result):
    """C11 is a relation between two entry points of the implementation (checked in `post`); whether either accepts
    exactly the documented grammar / computes the right value is C04/C05/C12/C13's business"""
    return True


def op_check(op, ir, fs, profile):
    if ir == "panic" or ir.startswith("fault"):
        return "%s (%s build): no result to relate" % (ir, profile)
    return None


def nontrivial(op, res):
    t = res.split(" ")
    if t[0] == "ok":
        return True
    if t[0] == "err" and len(t) > 2 and t[2] not in ("0", "-"):
        return True
    return False


def _viol(fs, profile, sname, op, ir, spec, detail, mr="-"):
    return {"kind": "input", "featureset": fs, "profile": profile, "stream": sname, "op": op, "implementation": ir,
            "specification": spec, "model": mr, "detail": detail}


def post(ctx, bins):
    """(R1) complete = ok v <=> partial = ok (v, len);  (R2) partial = ok (v, n), n > 0 => complete(first n bytes) = ok v"""
    viol = []
    nrel = 0
    # results per (fs, profile): op -> implementation result
    table = {}
    for (fs, profile, sname), (ops, impl, drv) in ctx["results"].items():
        d = table.setdefault((fs, profile), {})
        for op, ir in zip(ops, impl):
            d[op] = ir
    for (fs, profile, sname), (ops, impl, drv) in ctx["results"].items():
        d = table[(fs, profile)]
        stage2 = []      # (partial op, partial result, model result, complete-on-prefix op)
        for op, ir, (mr, sr) in zip(ops, impl, drv):
            p = gens_total.op_parts(op)
            if p is None:
                continue
            t, pidx, data = p
            if t[pidx] != "1":
                continue
            cop = gens_total.with_input(t, pidx, 0, data)
            cr = d.get(cop)
            it = ir.split(" ")
            if cr is not None:
                nrel += 1
                ct = cr.split(" ")
                c_ok = ct[0] == "ok"
                p_ok_full = it[0] == "ok" and len(it) >= 3 and it[2] == "%d" % len(data)
                if c_ok and not (p_ok_full and it[1] == ct[1]):
                    viol.append(_viol(fs, profile, sname + "/R1", op, ir,
                                      "ok %s %d (the complete parser on the same input returned `%s`)" % (ct[1], len(data), cr),
                                      "R1 =>: complete = ok v but partial is not ok (v, length)", mr))
                elif p_ok_full and not (c_ok and it[1] == ct[1]):
                    viol.append(_viol(fs, profile, sname + "/R1", op, ir,
                                      "complete parser on the same input must return ok %s; it returned `%s`" % (it[1], cr),
                                      "R1 <=: partial = ok (v, length) but complete is not ok v", mr))
            if it[0] == "ok" and len(it) >= 3 and it[2].isdigit():
                n = int(it[2])
                if n > len(data):
                    viol.append(_viol(fs, profile, sname + "/R2", op, ir, "count <= %d" % len(data),
                                      "partial count exceeds the input length", mr))
                elif 0 < n < len(data):
                    stage2.append((op, ir, mr, gens_total.with_input(t, pidx, 0, data[:n])))
        if not stage2:
            continue
        need = [x[3] for x in stage2 if x[3] not in d]
        need = list(dict.fromkeys(need))
        if need:
            for o2, r2 in zip(need, vlib.run_impl(bins[(fs, profile)], need)):
                d[o2] = r2
        for op, ir, mr, op2 in stage2:
            nrel += 1
            r2 = d[op2]
            it = ir.split(" ")
            t2 = r2.split(" ")
            if not (t2[0] == "ok" and t2[1] == it[1]):
                viol.append(_viol(fs, profile, sname + "/R2", op, ir,
                                  "complete parser on the first %s bytes (`%s`) must return ok %s; it returned `%s`"
                                  % (it[2], op2, it[1], r2),
                                  "R2: partial = ok (v, n), n > 0, but complete on the first n bytes is not ok v", mr))
    ctx["post_evaluations"] = nrel
    return viol


def classify(v):
    """call-site classes of known findings (findlib.py)"""
    import findlib
    return findlib.c11_class(v["op"], v["implementation"])
