"""C15 — special values and signed zero are handled consistently."""
import gens
import gens_float
import vlib
from props.common import TRUSTED_BASE, ASSUMPTIONS

ID = "C15"
FORMAT_GROUP = "syntax"
LEAN_MODULES = ["LexVerif.Props.C15", "LexVerif.Props.C15Write", "LexVerif.Props.Literals.ParseFloatParse", "LexVerif.Props.Literals.ParseFloatShared", "LexVerif.Props.Literals.ParseFloatOptions", "LexVerif.Props.Literals.WriteFloatWrite", "LexVerif.Props.Literals.WriteFloatOptions", "LexVerif.Props.Literals.UtilNum", "LexVerif.Props.Literals.UtilSkip"]
GEN = ["literals"]
TRUSTED = TRUSTED_BASE + [
    "the special-string grammar for flagged formats (no_special, case_sensitive_special, special_digit_separator) is specified by Spec.Grammar; for plain formats by Spec.StdFloat.parseSpecial",
]
RULE = ("inputs near the three special strings (exact, every case variant class, proper prefixes, one-letter extensions, doubled, with sign, with trailing bytes, "
        "embedded digits) x option strings (defaults, 1-letter, 50-letter, mixed case, inf/infinity prefix-related pairs, None) x formats {STANDARD, no_special, "
        "case_sensitive_special, special_digit_separator, radix-36 where the strings are digit strings} x {f32,f64} x partial/complete; writer: NaN (both signs, "
        "payloads), +-inf, +-0 with every option-string variant incl. None (must panic) and required_mantissa_sign. non-trivial = accepted special or written special; distinct = distinct ops")
TECHNIQUE = "Lean 4 proof (special_iff / numeric_never_nan / sign preservation on the model and grammar; writer half nan_written_as_configured / nan_never_minus / inf_written_with_sign / finite_written_with_sign / disabled_special_panics on the write_float model) + correspondence on inputs around the configured strings and on special-value writes"
LEVEL_TEXT = ("Proved in Lean (Props/C15.lean): on the specification grammar a non-numeric input is accepted as NaN/inf exactly when, after the optional sign, it equals a configured string "
              "under the case rule; numeric inputs never give NaN; signs of zero and infinity are preserved; the model's special-value parser agrees with the grammar for plain formats. Writer half (Props/C15Write.lean, on the buffer-faithful write_float model): a completed call on any NaN returns the configured string after at most a '+' and never a '-'; +-infinity and every finite value incl. +-0 carry '-' exactly when the sign bit is set; a special whose string is None makes the call panic (no return, no fault); the same clauses for the power-of-two writers (pow2_nan_written, pow2_inf_written, pow2_finite_written on WriteBinary.writeFloatO). "
              "The implementation is tied to model and grammar by correspondence over a dense neighbourhood of the configured strings, and the writer's special/zero output is compared byte-for-byte with the model.")
LEVEL_NOTE = "Trusted: Lean kernel; model<->code correspondence; option-string validators are exercised (invalid strings must be rejected by the builder) but modelled by correspondence only."


def feature_sets(tier):
    return ["default", "radix+format", "compact"] if tier == "quick" else ["default", "format", "radix+format", "compact", "compact+radix+format", "radix"]


NANS = ["NaN", "nan", "N", "NAN", "NotANumber", "n" + "a" * 49, "nAn"]
INFS = [("inf", "infinity"), ("i", "i"), ("Inf", "Infinity"), ("in", "inf"), ("inf", "inf"), ("INF", "INFINITYX"), ("i", "i" + "n" * 49), ("inf", "infx")]


def variants(s, rng):
    out = {s, s.upper(), s.lower(), s.swapcase(), s[:-1], s + s[-1], s + s, s + "x", s + "1", "1" + s, s[0], s + " ", " " + s,
           s[: len(s) // 2] + "_" + s[len(s) // 2:], s + "\x00", s[:-1] + chr(ord(s[-1]) ^ 0x20), s[:-1] + chr(ord(s[-1]) ^ 0x40)}
    alt = "".join(c.upper() if i % 2 else c.lower() for i, c in enumerate(s))
    out.add(alt)
    return sorted(x for x in out)


def parse_ops(rng, fs, quick):
    fmts = [gens.STANDARD]
    if gens.has_format(fs):
        fmts += [gens.pack(10, flags=0xC | (1 << 10)), gens.pack(10, flags=0xC | (1 << 11)),
                 gens.pack(10, flags=0xC | (1 << 44) | (1 << 32) | (1 << 33), sep=ord("_"))]
    if "radix" in fs:
        fmts += [gens.pack(36), gens.pack(16)]
    ops = []
    for f in fmts:
        r = (f >> 104) & 255
        for nan in NANS + [None]:
            for (inf, infinity) in INFS + [(None, None)]:
                if quick and rng.random() < 0.55:
                    continue
                o = gens.popts(r, nan=gens.hexs(nan) if nan else "-", inf=gens.hexs(inf) if inf else "-",
                               infinity=gens.hexs(infinity) if infinity else "-")
                words = set()
                for s in (nan or "NaN", inf or "inf", infinity or "infinity"):
                    words.update(variants(s, rng))
                words.update(["nan", "inf", "infinity", "NaN", "i", "n", "", "+", "-", "0", "-0", "-0.0", "+0.0", "0e0", "-0e5", "1", "nan(1)", "infinit", "infinityy"])
                for w in sorted(words):
                    for sign in ("", "-", "+"):
                        if quick and sign and rng.random() < 0.5:
                            continue
                        ty = rng.choice(["f64", "f32"])
                        for partial in (0, 1):
                            ops.append("pf %s %x %d %s %s" % (ty, f, partial, o, gens.hexs((sign + w).encode("latin-1"))))
    return ops


def write_ops(rng, fs, quick):
    fmts = [gens.STANDARD]
    if gens.has_format(fs):
        fmts += [gens.pack(10, flags=0xC | (1 << 5)), gens.pack(10, flags=0xC | (1 << 10))]
    if "radix" in fs:
        fmts += [gens.pack(16), gens.pack(3)]
    ops = []
    vals = {"f64": [0x7ff8000000000000, 0xfff8000000000000, 0x7ff0000000000001, 0xffffffffffffffff, 0x7ff0000000000000, 0xfff0000000000000, 0, 1 << 63,
                    0x3ff0000000000000, 0xbff0000000000000],
            "f32": [0x7fc00000, 0xffc00000, 0x7f800001, 0xffffffff, 0x7f800000, 0xff800000, 0, 1 << 31, 0x3f800000, 0xbf800000]}
    for f in fmts:
        r = (f >> 104) & 255
        e = 94 if r >= 15 else 101
        for nan in NANS + [None]:
            for inf in [x[0] for x in INFS] + [None]:
                o = gens.wopts(exp=e, nan=gens.hexs(nan) if nan else "-", inf=gens.hexs(inf) if inf else "-")
                for ty, bl in vals.items():
                    for b in bl:
                        ops.append("wf %s %x %x %s -" % (ty, f, b, o))
    return ops


def syntax_streams(tier, rng, fs, profile):
    scale = 1 if tier == "quick" else 4
    fams = gens_float.float_syntax_ops(rng, fs, scale, families=("special",))
    ops = list(dict.fromkeys(fams["special"]))
    zeros = []
    for fmt in gens_float.formats_for(fs):
        info = gens_float.fmt_info(fmt)
        o = gens_float.default_opts(info)
        for s in ("-0", "+0", "0", "-0.0", "-.0", "-0.", "-0" + chr(o.exp) + "5", "-.0" + chr(o.exp) + "-5", "-", "+", "",
                  "-00", "-0.000", "--0", "-+0"):
            for p in (0, 1):
                zeros.append(gens_float.op_pf("f64", fmt, p, o, s.replace(".", chr(o.dp))))
                zeros.append(gens_float.op_pf("f32", fmt, p, o, s.replace(".", chr(o.dp))))
    return [("g-special", ops), ("g-signed-zero", list(dict.fromkeys(zeros)))]



def streams(tier, rng, fs, profile):
    quick = tier == "quick"
    return [("specials-parse", parse_ops(rng, fs, quick)), ("specials-write", write_ops(rng, fs, quick))] + syntax_streams(tier, rng, fs, profile)


def nontrivial(op, res):
    t = res.split(" ")
    if op.startswith("pf"):
        return t[0] == "ok" and t[1] in ("nan", "7ff0000000000000", "fff0000000000000", "7f800000", "ff800000", "0", "8000000000000000", "80000000")
    return t[0] in ("ok", "panic")


def op_check(op, ir, fs, profile):
    """direct clauses of the property on the implementation's answer"""
    t = op.split(" ")
    it = ir.split(" ")
    if t[0] == "wf" and it[0] == "ok" and it[1] != "_":
        out = bytes.fromhex(it[1])
        bits = int(t[3], 16)
        width = 64 if t[1] == "f64" else 32
        mbits = 52 if width == 64 else 23
        expf = (bits >> mbits) & ((1 << (width - 1 - mbits)) - 1)
        is_nan = expf == (1 << (width - 1 - mbits)) - 1 and (bits & ((1 << mbits) - 1)) != 0
        neg = bits >> (width - 1)
        if is_nan and out.startswith(b"-"):
            return "NaN written with a minus sign"
        if not is_nan and neg and not out.startswith(b"-"):
            return "negative value (zero/infinity/finite) written without '-'"
        if not is_nan and not neg and out.startswith(b"-"):
            return "positive value written with '-'"
    return None


def classify(v):
    """call-site classes of known findings (findlib.py)"""
    import findlib
    return findlib.syntax_class(v["op"], v["implementation"])
