"""C15 — specials and signed zero (float syntax layer; theorems in Props/C15.lean over Model.ParseNumber vs Spec.Grammar)."""
import gens_float

ID = "C15"
LEAN_MODULES = ["LexVerif.Props.C15"]
GEN = []
TRUSTED = [
    "Lean 4.33.0 kernel; axioms of each theorem listed under coverage.theorems",
    "correspondence harness (harness/src/bin/run.rs) and generators (gens_float.py `special` family): differential testing",
    "hand-written models Model.Iter / Model.ParseNumber tied to lexical-parse-float/src/{parse,shared}.rs by correspondence only",
    "Spec.Grammar (documented grammar incl. special strings and case rule) as SPEC column for non-plain formats, "
    "Spec.parseStdComplete for plain ones (Props.C12.grammar_standard_eq_std: the two agree)",
]
ASSUMPTIONS = ["usize = u64 (x86-64)", "rustc codegen is correct"]
RULE = ("inputs near the nan / inf / infinity strings (exact, case-flipped, truncated, extended, with separators, signed, "
        "doubly signed) x 7 option-string sets (default, prefix-related, single-letter, None) x every format of the "
        "fmtcat_pnum catalogue valid in the feature set, plus signed zeros (`-0`, `-0.0`, `-.0e5`, `-`, `+`); each through "
        "`pf` with both PARTIAL values; non-trivial = a special or a digit was consumed")


def feature_sets(tier):
    return ["radix+format", "default"] if tier == "quick" else ["default", "pow2", "radix", "format", "radix+format", "compact+radix+format"]


def streams(tier, rng, fs, profile):
    scale = 1 if tier == "quick" else 4
    fams = gens_float.float_syntax_ops(rng, fs, scale, families=("special",))
    ops = list(dict.fromkeys(fams["special"]))
    zeros = []
    for fmt in gens_float.formats_for(fs):
        info = gens_float.fmt_info(fmt)
        o = gens_float.default_opts(info)
        for s in ("-0", "+0", "0", "-0.0", "-.0", "-0.", "-0" + chr(o.exp) + "5", "-.0" + chr(o.exp) + "-5", "-", "+", "",
                  "-00", "-0.000", "--0", "-+0"):
            for p in (0, 1):
                zeros.append(gens_float.op_pf("f64", fmt, p, o, s.replace(".", chr(o.dp))))
                zeros.append(gens_float.op_pf("f32", fmt, p, o, s.replace(".", chr(o.dp))))
    return [("g-special", ops), ("g-signed-zero", list(dict.fromkeys(zeros)))]


def nontrivial(op, res):
    t = res.split(" ")
    return t[0] == "ok" or (t[0] == "err" and len(t) > 2 and t[2] not in ("0", "-"))
