"""C13 — digit separators never change a value and are accepted only where enabled.

Implementation-level metamorphic check. The four relations of the property are judged on the IMPLEMENTATION's
results (`pf` ops for f64/f32, `pi` ops for integers; complete and partial parsers) in `post`:

  R1 strip      accepted with value v  =>  the input with every separator byte deleted is accepted with v
  R2 position   every separator of an accepted input is leading / internal / trailing in the integer, fraction or
                exponent digits and that flag is on (runs of 2+ need the consecutive flag); the classifier
                below is written from docs/DigitSeparators.md only
  R3 insert     accepted separator-free input + separators at enabled positions of components containing a
                digit  =>  accepted with the same value
  R4 sep-free   an input without the separator byte gets the identical result line (value, count, error kind
                and index) from F and from F with separator flags and separator byte cleared

The first-stage ops of `streams` also pass through the Lean model (correspondence of Model.ParseNumber); the
second stage (stripped / inserted inputs, exhaustive strings of the last length) runs through `vlib.run_impl`.
Violations are grouped into classes (relation x component flags x kind); one minimal op per class is returned.
"""
import itertools
import re

import fmtcat_sep
import vlib
from gens_float import Opts, op_pf
from gens import hexs
from props.common import TRUSTED_BASE, ASSUMPTIONS

ID = "C13"
FORMAT_GROUP = "sep"
LEAN_MODULES = ["LexVerif.Props.C13", "LexVerif.Props.C13Gen", "LexVerif.Props.Literals.ParseFloatParse", "LexVerif.Props.Literals.ParseFloatShared", "LexVerif.Props.Literals.ParseIntegerAlgorithm", "LexVerif.Props.Literals.UtilSkip", "LexVerif.Props.Literals.UtilNoskip", "LexVerif.Props.Literals.UtilIterator", "LexVerif.Props.Literals.UtilDigit", "LexVerif.Props.Literals.ParseFloatApi", "LexVerif.Props.Literals.ParseIntegerApi", "LexVerif.Props.Literals.ParseFloatSlow", "LexVerif.Props.Literals.ParseFloatBinary"]
GEN = ["literals"]
TRUSTED = TRUSTED_BASE + [
    "R1-R4 are judged on implementation results only (metamorphic; no oracle needed): props/C13.py `post`, with the "
    "position classifier `classify` written from docs/DigitSeparators.md",
    "Model.Iter / Model.ParseNumber are tied to skip.rs / parse.rs by correspondence (first-stage ops of this check and C12)",
]
RULE = ("fmtcat_sep catalogue: all 14 valid I/L/T/C combinations uniform across components, component-only (i, l, t, iltc per "
        "component) and two mixed formats, in radix 10 and as hex floats (16/2/10, 'p'), each with its separator-free counterpart; "
        "floats f64 (+ f32 sample) and integers i32/u64. Inputs: every string up to length 3 over {+,-,0,1,9|f,_,.,e|p,x}, every "
        "grammar-plausible string up to length 6 (quick) / 7 (thorough), junk-suffixed "
        "strings for the partial parsers, digit runs of 0-30 digits per component (8-digit fast path, >19 significant digits, leading "
        "zeros) with separators sprinkled at leading / internal / trailing / consecutive positions of each component, and the "
        "separator-free grid of the same lengths. Second stage: every accepted input stripped (R1), every accepted separator-free "
        "input with separators inserted at each enabled position kind of each digit-bearing component (R3). "
        "non-trivial = accepted input; distinct = distinct op lines")
TECHNIQUE = ("Lean 4 theorems about the skip-iterator / parse_number model (what peek skips, separator-free inputs, strip and insert for the "
             "I+L+T+C class) + metamorphic check of the implementation (strip, position classifier, insert, separator-free counterpart)")
LEVEL_TEXT = ("Proved in Lean on the model (Model.Iter + Model.ParseNumber, all inputs): (1) every skip iterator's peek moves only over "
              "separator bytes and parse_digits yields exactly the non-separator bytes of the region it consumed, in order; (2) "
              "sep_free_same: on inputs without the separator byte EVERY valid separator format - separator flags on any components, or a "
              "separator byte without flags - gives the same result (value, count, error kind, index; complete and partial parser, many-digit re-parse "
              "and 8-digit fast path included) as its separator-free counterpart; the unrestricted statement sep_free_same_full is now PROVED "
              "(sep_free_same_full_holds; before /repo 7e8a135 + 12a2453 it was refuted for the integer-only / fraction-only / exponent-only / "
              "no-flag classes - those kernel-evaluated witnesses are now the regression theorems sep_free_regression_*); "
              "(3) strip_preserves (R1): Props/C13Gen.lean strip_preserves_all - for EVERY flag combination on every component (no flag, I, L, T, "
              "I+L, I+T, L+T, I+L+T, each with or without C) except I+T+C on the integer or fraction component (no base prefix/suffix, STANDARD "
              "required digits): an input the complete parser accepts as a number is accepted as the same number (same mantissa/exponent words, "
              "same numberBits value) after deleting all separators; the I+T+C exclusion was necessary for the predicate before /repo 5dae23b (strip_witness_itc is about that predicate); with the repaired is_itc! / is_ilc! (model switches Fix.itc / Fix.ilc = true, the current code) strip_preserves_all_fixed and insert_preserves_doc_fixed hold for EVERY flag combination, position_fixed_itc / position_fixed_ilc are the regressions; "
              "proof: predicate-agnostic traces of the digit loops + a locality lemma (the skip predicates look at a small neighbourhood; what the "
              "many-digit re-scan of a stored slice sees at the slice boundary never turns a skip into a non-skip, except for is_itc); "
              "strip_preserves (Props/C13.lean) is the all-I+L+T+C instance; (4) insert_preserves (R3): insert_preserves_doc - same classes - "
              "if the stripped input is accepted and every separator of s is at a position the documented rules enable (DocEnabled: between two "
              "digits of its component needs I, before the first L, after the last T, next to another separator C; integer / fraction / exponent "
              "part delimited by sign, decimal point, exponent character) and no separator run directly precedes a sign, then s is accepted as "
              "the same number with the same value; insert_preserves_gen (semantic form: no digit iterator stops on a separator) and "
              "insert_preserves_seps (separators only in I+L+T+C components, any flags elsewhere) are the intermediate forms; enabled_holds shows "
              "for all 15 peek variants that an enabled run is skipped. "
              "R2 is not a theorem (witnesses for I+T+C and I+L+C only). The implementation is checked directly by the metamorphic "
              "relations R1-R4 on exhaustive short and structured long inputs; on the unchanged tree this check reports violation classes.")
LEVEL_NOTE = ("Trusted: Lean kernel; rustc; harness; the model is tied to the code by correspondence only. The relations are judged on "
              "implementation results, bounded by the input generators described under `rule`. The Lean R1/R3 theorems exclude exactly I+T+C on the "
              "integer / fraction component (recorded defects sep-itc-*); I+L+C needs no exclusion for R1/R3 (its defect is R2: it accepts MORE positions). "
              "Class hypotheses (GenStrip): release build, no base prefix/suffix, no_float_leading_zeros off, exponent/mantissa digits required, separator is "
              "no sign/decimal point/exponent character/digit; bytes < 256.")

SEP = "_"


def feature_sets(tier):
    return ["radix+format"] if tier == "quick" else ["radix+format", "compact+radix+format"]


PROFILES = {"quick": ["release"], "thorough": ["release"]}

# ---------------------------------------------------------------------------------------------
# formats

FLOAT_TY = "f64"
INT_TYPES = ("i32", "u64")


class FInfo:
    def __init__(self, d):
        self.fmt = d["fmt"]
        self.name = d["name"]
        self.radix = d["radix"]            # 'dec' | 'hex'
        self.cls = d["cls"]
        self.flags = d["flags"]            # comp -> letters
        self.counterpart = d["counterpart"]
        self.is_int = d["int"]
        self.mdigits = "0123456789" if self.radix == "dec" else "0123456789abcdefABCDEF"
        self.edigits = "0123456789"
        self.expch = "e" if self.radix == "dec" else "p"
        self.opts = Opts(exp=ord(self.expch))

    def any_flags(self, comp):
        return self.flags[comp] != ""


FORMATS = [FInfo(d) for d in fmtcat_sep.FORMATS]
BY_HEX = {"%x" % f.fmt: f for f in FORMATS}
COUNTERPARTS = {}
for _f in FORMATS:
    COUNTERPARTS.setdefault(_f.counterpart, _f)     # counterpart fmt -> a representative (for alphabet / options)


def mk_pf(f, fmt, ty, partial, s):
    return op_pf(ty, fmt, partial, f.opts, s)


def mk_pi(fmt, ty, partial, s):
    return "pi %s %x %d 0 %s" % (ty, fmt, partial, hexs(s))


def parse_op(op):
    """-> (api, ty, fmthex, partial, input string) for pf / pi ops"""
    t = op.split(" ")
    if t[0] == "pf":
        return "pf", t[1], t[2], t[3] == "1", _unhex(t[-1])
    if t[0] == "pi":
        return "pi", t[1], t[2], t[3] == "1", _unhex(t[-1])
    return None


def _unhex(h):
    return "" if h == "_" else bytes.fromhex(h).decode("latin-1")


# ---------------------------------------------------------------------------------------------
# inputs

def alphabet(radix):
    return ["+", "-", "0", "1", "9" if radix == "dec" else "f", SEP, ".", "e" if radix == "dec" else "p", "x"]


def plausible_re(radix):
    d = "019" if radix == "dec" else "01f"
    e = "e" if radix == "dec" else "p"
    return re.compile(r"^_*[+-]?[%s_]*(\.[%s_]*)?(%s_*[+-]?[%s_]*)?$" % (d, d, e, d))


_short_cache = {}


def short_strings(radix, full_len, plaus_len):
    """(all strings up to full_len over the 9-symbol alphabet) + (grammar-plausible strings up to plaus_len);
    returns {length: [strings]} for the plausible part beyond full_len so callers can split by length"""
    key = (radix, full_len, plaus_len)
    if key in _short_cache:
        return _short_cache[key]
    a = alphabet(radix)
    full = [""]
    for n in range(1, full_len + 1):
        full += ["".join(t) for t in itertools.product(a, repeat=n)]
    pat = plausible_re(radix)
    a8 = [x for x in a if x != "x"]
    by_len = {}
    for n in range(full_len + 1, plaus_len + 1):
        by_len[n] = [s for s in ("".join(t) for t in itertools.product(a8, repeat=n)) if pat.match(s)]
    _short_cache[key] = (full, by_len)
    return full, by_len


def int_strings(radix, maxlen):
    a = ["+", "-", "0", "1", "9" if radix == "dec" else "f", SEP, "x"]
    out = [""]
    pat = re.compile(r"^_*[+-]?[^+-]*$")
    for n in range(1, maxlen + 1):
        out += [s for s in ("".join(t) for t in itertools.product(a, repeat=n)) if n <= 3 or pat.match(s)]
    return out


RUNS = [0, 1, 2, 7, 8, 9, 15, 16, 17, 19, 20, 21, 25, 30]


def digit_run(f, n, rng, lead_zeros=0, exp=False):
    ds = "0123456789" if (f.radix == "dec" or exp) else "0123456789abcdef"
    s = "".join(rng.choice(ds) for _ in range(n))
    if n and s[0] == "0":
        s = rng.choice(ds[1:]) + s[1:]
    return "0" * lead_zeros + s


def sprinkle(run, rng, where):
    """separators into a digit run: none | l | t | i | lc | tc | ic | all | rand (whether or not enabled)"""
    s = SEP
    if where == "none" or not run and where in ("i", "ic", "all", "rand"):
        return run
    if where == "l":
        return s + run
    if where == "t":
        return run + s
    if where == "lc":
        return s + s + run
    if where == "tc":
        return run + s + s
    if where in ("i", "ic"):
        if len(run) < 2:
            return run
        k = rng.choice([x for x in (1, 7, 8, 9, 16, 19, 20, len(run) - 1, rng.randint(1, len(run) - 1)) if 1 <= x < len(run)])
        return run[:k] + (s if where == "i" else s + s) + run[k:]
    if where == "all":
        return s + s.join(run) + s
    out = ""
    for ch in run:
        out += ch
        if rng.random() < 0.2:
            out += s * rng.choice((1, 1, 2))
    return out


WHERES = ["none", "l", "t", "i", "lc", "tc", "ic", "all", "rand"]


def enabled_wheres(letters):
    """sprinkle modes that only use positions the component's flags enable"""
    out = ["none"]
    for k in "lti":
        if k in letters:
            out.append(k)
            if "c" in letters:
                out.append(k + "c")
    return out


def long_strings(f, rng, n, api="pf"):
    """digit runs with separators at chosen position kinds, half of them restricted to enabled positions"""
    out = []
    for j in range(n):
        legal = j % 2 == 0

        def modes(comp):
            return enabled_wheres(f.flags[comp]) if legal else WHERES
        ni = rng.choice(RUNS)
        lz = rng.choice([0, 0, 0, 1, 2, rng.randint(1, 22)])
        s = rng.choice(["", "", "+", "-"])
        s += sprinkle(digit_run(f, ni, rng, lz), rng, rng.choice(modes("integer")))
        if api == "pi":
            out.append(s)
            continue
        nf = rng.choice(RUNS + [None, None])
        if nf is not None:
            fz = rng.choice([0, 0, rng.randint(1, 22)])
            s += "." + sprinkle(digit_run(f, nf, rng, fz), rng, rng.choice(modes("fraction")))
        ne = rng.choice([None, None, 1, 2, 3])
        if ne is not None:
            s += rng.choice([f.expch, f.expch.upper()]) + rng.choice(["", "+", "-"])
            s += sprinkle(digit_run(f, ne, rng, rng.choice([0, 0, 1]), exp=True), rng, rng.choice(modes("exponent")))
        out.append(s)
    return out


def sepfree_grid(f, rng, dense):
    """separator-free long inputs: (integer digits) x (fraction digits) x exponent variants"""
    out = []
    runs = RUNS if dense else [0, 1, 7, 8, 9, 16, 19, 20, 21, 30]
    for ni in runs:
        for nf in [None] + runs:
            if ni == 0 and not nf:
                continue
            for ev in ("", "E5", "E-12"):
                if ev and rng.random() < 0.5:
                    continue
                lz = rng.choice([0, 0, 0, 1, 3])
                s = rng.choice(["", "", "-"]) + digit_run(f, ni, rng, lz)
                if nf is not None:
                    s += "." + digit_run(f, nf, rng, rng.choice([0, 0, 2]))
                s += ev.replace("E", f.expch)
                out.append(s)
    return out


def _midpoints_dec(rng, n):
    """(integer digits, fraction digits) of exact midpoints between adjacent f64 values in [1, 2^53]"""
    from fractions import Fraction
    out = []
    for e in ([0, 3, 10, 20, 26, 40, 52] * n)[:n]:
        m = (1 << 52) | rng.getrandbits(52)
        mid = Fraction(2 * m + 1, 1 << (53 - e)) if e <= 52 else Fraction((2 * m + 1) << (e - 53))
        k = mid.denominator.bit_length() - 1
        digits = str(mid.numerator * 5 ** k)
        out.append((digits[:len(digits) - k], digits[len(digits) - k:]) if k else (digits, ""))
    return out


def halfway_strings(f, rng):
    """inputs on (or a hair beside) the midpoint of two adjacent floats: only the slow big-integer path can decide the
    rounding, from the digits after position 19 — so a re-scan of the stored integer / fraction slices that loses
    or invents digits shows in the value. Separators at every position kind of each component (enabled or not)."""
    out = []
    pairs = []
    if f.radix == "dec":
        for ip, fp in _midpoints_dec(rng, 7):
            pairs += [(ip, fp), (ip, fp + "1"), (ip, fp[:max(1, 24 - len(ip))])]
    else:
        for _ in range(5):
            m = "1" + "".join(rng.choice("0123456789abcdef") for _ in range(rng.choice([3, 9, 12])))
            fr = "".join(rng.choice("0123456789abcdef") for _ in range(13 - (len(m) - 1)))
            pairs += [(m, fr + "8"), (m, fr + "80000000001"), (m, fr + "7ffffffffff")]
    modes_i = ("none", "i", "l", "t", "ic", "all")
    modes_f = ("none", "l", "i", "t", "lc", "ic", "tc", "all")
    for ip, fp in pairs:
        for _ in range(5):
            wi, wf = rng.choice(modes_i), rng.choice(modes_f)
            out.append(sprinkle(ip, rng, wi) + "." + sprinkle(fp, rng, wf))
        out.append(ip + "." + fp)
    return out


def int_long_strings(f, rng, n):
    out = []
    for s in long_strings(f, rng, n, api="pi"):
        out.append(s)
    for nd in (1, 7, 8, 9, 10, 11, 19, 20, 21):
        out.append(digit_run(f, nd, rng))
        out.append("-" + digit_run(f, nd, rng, 2))
    return out


# ---------------------------------------------------------------------------------------------
# R2: the position classifier (docs/DigitSeparators.md)

def split_components(f, api, s):
    """[sign] integer [. fraction] [e [sign] exponent]  ->  list of (component, start, text) and the rest index.
    A component's text is the maximal run of its digits and separator bytes. Returns (comps, outside, end):
    `outside` = positions of separator bytes that belong to no component's digit run (before a sign)."""
    i = 0
    n = len(s)
    comps = []
    outside = []
    if i < n and s[i] in "+-":
        i += 1

    def run(i, digits):
        j = i
        while j < n and (s[j] in digits or s[j] == SEP):
            j += 1
        return j
    j = run(i, f.mdigits)
    # separators directly followed by a sign stand before the sign: not inside the digits of any component
    if j < n and s[j] in "+-" and i == 0 and all(ch == SEP for ch in s[i:j]) and j > i:
        outside += list(range(i, j))
        return comps, outside, i
    comps.append(("integer", i, s[i:j]))
    i = j
    if api == "pi":
        return comps, outside, i
    if i < n and s[i] == ".":
        j = run(i + 1, f.mdigits)
        comps.append(("fraction", i + 1, s[i + 1:j]))
        i = j
    if i < n and s[i].lower() == f.expch:
        k = i + 1
        k2 = k
        while k2 < n and s[k2] == SEP:
            k2 += 1
        if k2 < n and s[k2] in "+-":
            outside += list(range(k, k2))
            k = k2 + 1
        j = run(k, f.edigits)
        comps.append(("exponent", k, s[k:j]))
        i = j
    return comps, outside, i


def sep_positions(f, api, s):
    """-> list of (component, kind, run length, position) for each maximal separator run of s;
    kind in leading | internal | trailing | digitless | outside | unparsed"""
    comps, outside, end = split_components(f, api, s)
    out = []
    for p in outside:
        out.append(("-", "outside", 1, p))
    for comp, start, text in comps:
        has_digit = any(ch != SEP for ch in text)
        first = next((k for k, ch in enumerate(text) if ch != SEP), None)
        last = max((k for k, ch in enumerate(text) if ch != SEP), default=None)
        k = 0
        while k < len(text):
            if text[k] != SEP:
                k += 1
                continue
            m = k
            while m < len(text) and text[m] == SEP:
                m += 1
            if not has_digit:
                kind = "digitless"
            elif m <= first:
                kind = "leading"
            elif k > last:
                kind = "trailing"
            else:
                kind = "internal"
            out.append((comp, kind, m - k, start + k))
            k = m
    for p in range(end, len(s)):
        if s[p] == SEP:
            out.append(("-", "unparsed", 1, p))
    return out


def position_violations(f, api, s):
    """separator runs of s standing where the flags do not allow them: list of (component, reason)"""
    bad = []
    for comp, kind, length, pos in sep_positions(f, api, s):
        if kind in ("outside", "unparsed"):
            bad.append((comp, kind))
            continue
        fl = f.flags[comp]
        if kind == "digitless":
            if "l" not in fl and "t" not in fl:
                bad.append((comp, "digitless component, neither L nor T"))
        elif kind[0] not in fl:
            bad.append((comp, kind + " off"))
        if length > 1 and "c" not in fl and kind != "digitless":
            bad.append((comp, "consecutive off (%s run)" % kind))
    return bad


# ---------------------------------------------------------------------------------------------
# R3: insertions at enabled positions

def insertions(f, api, s, rng, many):
    """separator-free accepted s -> list of (s', description): one separator (and a run of two if C is on) at each
    enabled position kind of each component that contains a digit; plus everything at once"""
    comps, _, _ = split_components(f, api, s)
    out = []
    allpos = []
    for comp, start, text in comps:
        fl = f.flags[comp]
        if not text or not fl.replace("c", ""):
            continue
        n = len(text)
        pos = []
        if "l" in fl:
            pos.append(("l", 0))
        if "t" in fl:
            pos.append(("t", n))
        if "i" in fl and n >= 2:
            gaps = list(range(1, n))
            if len(gaps) > (6 if many else 2):
                cand = [g for g in (1, 7, 8, 9, 16, 19, 20, n - 1) if 1 <= g < n]
                gaps = sorted(set(rng.sample(cand, min(len(cand), 3 if many else 2)) + [rng.choice(gaps)]))
            pos += [("i", g) for g in gaps]
        for kind, p in pos:
            for reps in ((1, 2) if "c" in fl else (1,)):
                q = start + p
                out.append((s[:q] + SEP * reps + s[q:], "%s:%s%s" % (comp, kind, "c" if reps == 2 else "")))
            allpos.append((start + p, 2 if "c" in fl and rng.random() < 0.5 else 1))
    if len(allpos) > 1:
        t = s
        for q, reps in sorted(allpos, reverse=True):
            t = t[:q] + SEP * reps + t[q:]
        out.append((t, "all"))
    return out


# ---------------------------------------------------------------------------------------------
# streams (first stage: implementation + Lean model) and the implementation-only bulk

def model_reliable_long(f):
    """formats on which many-digit inputs are compared with the Lean model's *value*. The model computes the exact
    value of the digits; the implementation re-scans the stored integer / fraction slices, and does so wrongly
    (a) for I+T+C without L (`prev = None` at the start of the slice), (b) whenever integer and fraction flags differ
    (slow.rs parses the fraction slice with `integer_iter`). Those inputs are judged in `post` on the implementation
    alone (R1 / R3) and reported there."""
    fi, ff = f.flags["integer"], f.flags["fraction"]
    return fi == ff and fi != "itc"


def float_inputs(f, tier, rng):
    """-> (model_pairs, impl_pairs): [(partial, string)] for one separator format. `model_pairs` go through `streams`
    (implementation + Lean model), `impl_pairs` are run by `post` on the implementation only."""
    full, by_len = short_strings(f.radix, 3, 5 if tier == "quick" else 6)
    model, impl = [], []
    for s in full:
        model.append((0, s))
        model.append((1, s))
    for n, lst in by_len.items():
        dst = model if n <= 4 else impl
        for s in lst:
            dst.append((0, s))
        if n <= 4:
            for s in lst:
                model.append((1, s))
                impl.append((1, s + "x"))
    nl = 160 if tier == "quick" else 1200
    dst = model if model_reliable_long(f) else impl
    for s in long_strings(f, rng, nl):
        dst.append((0, s))
        if rng.random() < 0.3:
            dst.append((1, s + rng.choice(["", "x", SEP, ".", "1" + SEP])))
    for s in halfway_strings(f, rng):
        dst.append((0, s))
    for s in sepfree_grid(f, rng, tier != "quick"):
        model.append((0, s))
    return model, impl


def int_inputs(f, tier, rng):
    """-> [(ty, partial, string)] for the integer parsers (implementation only: the integer model has no skip iterators)"""
    out = []
    strs = int_strings(f.radix, 5 if tier == "quick" else 6) + int_long_strings(f, rng, 60 if tier == "quick" else 400)
    for k, s in enumerate(dict.fromkeys(strs)):
        for ty in INT_TYPES:
            for p in ((0, 1) if len(s) <= 4 or k % 3 == 0 else (0,)):
                out.append((ty, p, s))
    return out


def _all_inputs(tier, seed):
    """deterministic in (tier, seed): {fmt: (model_pairs, impl_pairs, int_triples)}"""
    import random
    out = {}
    for k, f in enumerate(FORMATS):
        rng = random.Random(seed * 1009 + k)
        m, i = float_inputs(f, tier, rng)
        out[f.fmt] = (list(dict.fromkeys(m)), list(dict.fromkeys(i)), int_inputs(f, tier, rng) if f.is_int else [])
    return out


_inputs_cache = {}


def all_inputs(tier, seed):
    if (tier, seed) not in _inputs_cache:
        _inputs_cache[(tier, seed)] = _all_inputs(tier, seed)
    return _inputs_cache[(tier, seed)]


def _ty(tier, k):
    return FLOAT_TY if (tier == "quick" or k % 5) else "f32"


def streams(tier, rng, fs, profile):
    import os
    seed = int(os.environ.get("VERIF_SEED", "20260926"))
    inputs = all_inputs(tier, seed)
    out = []
    cp = {}    # counterpart fmt -> {(ty, partial, s)}: the separator-free inputs given to the separator formats
    for radix in ("dec", "hex"):
        ops = []
        iops = []
        for f in FORMATS:
            if f.radix != radix:
                continue
            model, impl, ints = inputs[f.fmt]
            for k, (p, s) in enumerate(model):
                ty = _ty(tier, k)
                ops.append(mk_pf(f, f.fmt, ty, p, s))
                if SEP not in s:
                    cp.setdefault(f.counterpart, set()).add((ty, p, s))
            # a sample of the integer ops goes through the driver too (the model column is "-" for them)
            for ty, p, s in ints[::40]:
                iops.append(mk_pi(f.fmt, ty, p, s))
        out.append(("sep-float-" + radix, ops))
        out.append(("sep-int-" + radix, iops))
    cops = []
    for cfmt, items in sorted(cp.items()):
        f = COUNTERPARTS[cfmt]
        for ty, p, s in sorted(items):
            cops.append(mk_pf(f, cfmt, ty, p, s))
    out.append(("counterparts", cops))
    return out


def impl_only_ops(tier, seed):
    """the bulk that `post` runs on the implementation alone"""
    inputs = all_inputs(tier, seed)
    ops = []
    for f in FORMATS:
        model, impl, ints = inputs[f.fmt]
        for k, (p, s) in enumerate(impl):
            ops.append(mk_pf(f, f.fmt, _ty(tier, k), p, s))
        for ty, p, s in ints:
            ops.append(mk_pi(f.fmt, ty, p, s))
    return ops


def nontrivial(op, res):
    return res.startswith("ok")


# ---------------------------------------------------------------------------------------------
# post: the four relations

def _value(res):
    t = res.split(" ")
    return t[1] if t[0] == "ok" else None


def _count(res):
    t = res.split(" ")
    return int(t[2]) if t[0] == "ok" and len(t) > 2 and t[2] != "-" else None


def _shape(f, s):
    """abstract an input: digit runs -> d (1-7) D (8-19) L (20+), zeros-only run -> z"""
    out = ""
    i = 0
    while i < len(s):
        ch = s[i]
        if ch in f.mdigits:
            j = i
            while j < len(s) and s[j] in f.mdigits:
                j += 1
            n = j - i
            out += "d" if n < 8 else ("D" if n < 20 else "L")
            i = j
        else:
            out += "s" if ch in "+-" else ch.lower()
            i += 1
    return out


class Judge:
    def __init__(self, fs, profile, binp, tier, rng):
        self.fs, self.profile, self.binp, self.tier, self.rng = fs, profile, binp, tier, rng
        self.known = {}          # op line -> implementation result
        self.pending = []        # (second-stage op, callback data)
        self.classes = {}        # class key -> [count, minimal violation dict]
        self.evaluations = 0
        self.checked = {"R1": 0, "R2": 0, "R3": 0, "R4": 0}

    def add_results(self, ops, impl):
        for op, r in zip(ops, impl):
            self.known[op] = r

    def run_missing(self, ops):
        need = [op for op in dict.fromkeys(ops) if op not in self.known]
        if need:
            res = vlib.run_impl(self.binp, need)
            self.evaluations += len(need)
            for op, r in zip(need, res):
                self.known[op] = r

    def report(self, rel, f, api, comp_flags, kind, op, s, impl, demand, shape_of=None):
        key = (rel, api, f.radix, comp_flags, kind)
        v = {"kind": "input", "featureset": self.fs, "profile": self.profile, "stream": "post/" + rel, "op": op,
             "implementation": impl, "specification": demand, "model": "-",
             "class": "%s | %s %s | flags %s | %s" % (rel, api, f.radix, comp_flags, kind),
             "format": f.name, "input": s, "shape": _shape(f, shape_of if shape_of is not None else s)}
        cur = self.classes.get(key)
        if cur is None:
            self.classes[key] = [1, v, {f.name}, {v["shape"]}]
        else:
            cur[0] += 1
            cur[2].add(f.name)
            if len(cur[3]) < 40:
                cur[3].add(v["shape"])
            old = cur[1]
            if (len(s), s, f.name) < (len(old["input"]), old["input"], old["format"]):
                cur[1] = v

    def mk(self, f, api, ty, partial, s, fmt=None):
        fmt = f.fmt if fmt is None else fmt
        return mk_pf(f, fmt, ty, int(partial), s) if api == "pf" else mk_pi(fmt, ty, int(partial), s)

    def judge(self):
        items = [(op, r) for op, r in self.known.items()]
        second = []      # (relation, f, api, ty, partial, s, op, r, new op, extra)
        for op, r in items:
            po = parse_op(op)
            if po is None:
                continue
            api, ty, fh, partial, s = po
            f = BY_HEX.get(fh)
            if f is None:
                continue                       # a counterpart format: looked up from the separator format's side
            if r in ("nofmt", "badop") or r.startswith("fault"):
                continue
            # R4
            if SEP not in s:
                cop = self.mk(f, api, ty, partial, s, fmt=f.counterpart)
                second.append(("R4", f, api, ty, partial, s, op, r, cop, None))
            if not r.startswith("ok"):
                continue
            v = _value(r)
            acc = s
            if partial:
                n = _count(r)
                if n is None or n > len(s):
                    continue
                acc = s[:n]
            if SEP in acc:
                # R2
                self.checked["R2"] += 1
                for comp, reason in position_violations(f, api, acc):
                    fl = f.flags.get(comp, "-") if comp != "-" else "/".join(f.flags[c] or "-" for c in ("integer", "fraction", "exponent"))
                    self.report("R2", f, api, "%s=%s" % (comp, fl or "-"), reason, op, s, r,
                                "rejected (or separator not consumed): separator at a position the flags do not enable", shape_of=acc)
                # R1
                stripped = acc.replace(SEP, "")
                sop = self.mk(f, api, ty, partial, stripped)
                second.append(("R1", f, api, ty, partial, s, op, r, sop, (v, len(stripped) if partial else None, acc)))
            elif acc == s or (partial and not s[len(acc):].startswith(SEP)):
                # R3 (separator-free accepted part; for the partial parser the unconsumed tail is kept, unless it
                # starts with a separator, which would merge with an inserted trailing one)
                if any(f.flags[c] for c in f.flags):
                    long_in = len(s) > 6
                    if long_in and self.tier == "quick" and self.rng.random() < 0.5:
                        continue
                    for t, desc in insertions(f, api, acc, self.rng, many=long_in):
                        t2 = t + s[len(acc):]
                        iop = self.mk(f, api, ty, partial, t2)
                        second.append(("R3", f, api, ty, partial, s, op, r, iop, (v, len(t) if partial else None, desc, t2)))
        self.run_missing([x[8] for x in second])
        for rel, f, api, ty, partial, s, op, r, op2, extra in second:
            r2 = self.known[op2]
            self.checked[rel] += 1
            allfl = "/".join(f.flags[c] or "-" for c in ("integer", "fraction", "exponent"))
            if rel == "R4":
                if r2 != r:
                    kind = "%s vs counterpart %s" % (" ".join(r.split(" ")[:2]) if not r.startswith("ok") else "ok",
                                                     " ".join(r2.split(" ")[:2]) if not r2.startswith("ok") else "ok")
                    if r.startswith("ok") and r2.startswith("ok"):
                        kind = "different value/count"
                    contig = "/".join("sep" if f.flags[c] else "contig" for c in ("integer", "fraction", "exponent"))
                    self.report("R4", f, api, contig, kind, op, s, r, "same as counterpart format %x: %s" % (f.counterpart, r2))
            elif rel == "R1":
                v, cnt, acc = extra
                ok = r2.startswith("ok") and _value(r2) == v and (cnt is None or _count(r2) == cnt)
                if not ok:
                    kind = "stripped input rejected" if not r2.startswith("ok") else \
                        ("stripped input has another value" if _value(r2) != v else "stripped input: other count")
                    self.report("R1", f, api, allfl, kind, op, s, r,
                                "stripped input %r accepted with value %s; implementation: %s" % (acc.replace(SEP, ""), v, r2), shape_of=acc)
            else:
                v, cnt, desc, t2 = extra
                ok = r2.startswith("ok") and _value(r2) == v and (cnt is None or _count(r2) == cnt)
                if not ok:
                    kind = "rejected" if not r2.startswith("ok") else ("other value" if _value(r2) != v else "other count")
                    comp = desc.split(":")[0]
                    fl = f.flags.get(comp, allfl) if comp != "all" else allfl
                    self.report("R3", f, api, "%s=%s" % (comp, fl), "insert %s -> %s" % (desc.split(":")[-1], kind), op2, t2, r2,
                                "accepted with value %s like the separator-free input %r" % (v, s), shape_of=t2)

    def violations(self):
        out = []
        for key in sorted(self.classes):
            n, v, fmts, shapes = self.classes[key]
            v = dict(v)
            v["detail"] = "class [%s]: %d ops in %d formats (e.g. %s); minimal input %r; shapes %s" % (
                v["class"], n, len(fmts), ",".join(sorted(fmts)[:4]), v["input"], " ".join(sorted(shapes, key=lambda x: (len(x), x))[:8]))
            out.append(v)
        return out


def extra_exhaustive(tier, seed):
    """second-stage-only exhaustive strings (implementation only): the next length of plausible strings"""
    out = {}
    n = 6 if tier == "quick" else 7
    for radix in ("dec", "hex"):
        _, by_len = short_strings(radix, 3, n)
        out[radix] = by_len[n]
    return out


def post(ctx, bins):
    import random
    viol = []
    total = 0
    summary = {}
    tier = ctx["tier"]
    for (fs, profile), binp in sorted(bins.items()):
        rng = random.Random(ctx["seed"] * 7919 + 13)
        j = Judge(fs, profile, binp, tier, rng)
        for (fs2, profile2, sname), (ops, impl, drv) in ctx["results"].items():
            if (fs2, profile2) == (fs, profile) and sname != "corpus":
                j.add_results(ops, impl)
        # implementation-only bulk: plausible strings of length 5 (6), junk-suffixed partial inputs, integers, the
        # many-digit inputs of formats whose re-scan is known to differ from the model; then the exhaustive
        # strings of the next length
        ops = impl_only_ops(tier, ctx["seed"])
        extra = extra_exhaustive(tier, ctx["seed"])
        for k, f in enumerate(FORMATS):
            for s in extra[f.radix]:
                ops.append(mk_pf(f, f.fmt, FLOAT_TY, 0, s))
        j.run_missing(ops)
        j.judge()
        total += j.evaluations
        viol += j.violations()
        summary["%s/%s" % (fs, profile)] = dict(j.checked, classes=len(j.classes), second_stage_ops=j.evaluations)
    ctx["post_evaluations"] = total
    ctx["c13_summary"] = summary
    print("C13 relations checked: %s" % summary)
    for v in viol:
        print("C13-CLASS %s :: %s :: op=%s -> %s" % (v["class"], v["detail"].split(": ", 1)[1], v["op"], v["implementation"]))
    return viol


def classify(v):
    """root-cause classes of known findings (findlib.py)"""
    import findlib
    return findlib.c13_class(v)
