"""C05 — non-decimal radix string->float parsing is correctly rounded."""
import gens
import gens_algos
import gens_slow
from props.common import TRUSTED_BASE, ASSUMPTIONS

ID = "C05"
LEAN_MODULES = ["LexVerif.Props.Literals.ParseFloatLibm", "LexVerif.Props.Literals.ParseFloatFpu", "LexVerif.Props.C05", "LexVerif.Props.C01Slow", "LexVerif.Props.RoundNE", "LexVerif.Props.TablesParse", "LexVerif.Props.Literals.ParseFloatParse", "LexVerif.Props.Literals.ParseFloatNumber", "LexVerif.Props.Literals.ParseFloatLemire", "LexVerif.Props.Literals.ParseFloatBellerophon", "LexVerif.Props.Literals.ParseFloatSlow", "LexVerif.Props.Literals.ParseFloatBigint", "LexVerif.Props.Literals.ParseFloatShared", "LexVerif.Props.Literals.ParseFloatFloat", "LexVerif.Props.Literals.ParseFloatMask", "LexVerif.Props.Literals.ParseFloatLimits", "LexVerif.Props.Literals.ParseIntegerAlgorithm", "LexVerif.Props.Literals.UtilDigit", "LexVerif.Props.Literals.UtilStep", "LexVerif.Props.Literals.ParseFloatBinary", "LexVerif.Props.LiteralsModel", "LexVerif.Props.C05Bytes", "LexVerif.Props.C05Final", "LexVerif.Props.C05Number", "LexVerif.Props.C05Syntax"]
GEN = ["parse_tables", "literals"]
TRUSTED = TRUSTED_BASE + [
    "of the big-integer slow paths digit_comp (even radices) IS proved on its Lean model under the bracket precondition (Props/C01Slow.lean; truncation_invariant_proved and slow_radix_correct_full_proved: the whole digit string, any number of digits, every radix with a digit limit), byte_comp (odd radices) is modelled on limbs and proved on that model (Props/C05Bytes.lean: byte_comp_correct, whenever it returns); the non-decimal pipeline is composed in Props/C05Final.lean (C05_radix_main; residual: SyntaxFacts, SlowFacts) and the syntax layer is discharged in Props/C05Syntax.lean (C05_pow2_main: unconditional, mixed-base pairs included; C05_generic_main: residual SlowFacts; C05_radix_full_partial); proved: the oracle, the per-radix tables, "
    "the fast path for every radix, the complete power-of-two path (binary, slow_binary) and Bellerophon for all 29 generic radices on their Lean models; "
    "the slow paths are compared with the oracle on per-radix number-theoretic worst cases",
    "IEEE assumption of the fast path: u64->float conversion, float * and / are correctly rounded",
]
RULE = ("per radix 2..36: G-hard worst cases (m*r^q closest to a float midpoint, m up to u64_step digits) as plain / pointed / "
        "truncation-crossing / zero-padded / long-tail literals, G-exp cut-offs, random structured literals; the five mixed-base "
        "formats with exponent radix in {10, radix, base}. non-trivial = accepted, finite non-zero result; distinct = distinct op lines")

MIXED = [(4, 2), (8, 2), (16, 2), (32, 2), (16, 4)]


TECHNIQUE = 'Lean 4 proof (oracle; per-radix tables incl. split_radix/large powers kernel-checked for all 35 radices) + correspondence on per-radix worst cases and mixed-base formats'
LEVEL_TEXT = 'Proved in Lean: the oracle (roundNE/litBits) and, for all 35 radices, that small/large power tables, Bellerophon tables, limits, steps and split_radix regenerated from the crate equal their closed forms (this is the theorem family that exposes a wrong split_radix arm). Also proved on Lean models tied to the code by component-level correspondence (ops fp/bin/sbin): try_fast_path is exact for all 35 radices; the power-of-two path is complete: binary returns roundNE(m*base^e) whenever it decides (denormals, half-way/even, zero/infinity cut-offs, no exclusions: the invalid-marker overflow at power2 >= 32768 was fixed in /repo 6cdda4d and binary_marker_overflow is now a positive regression example), a valid answer for a truncated mantissa is right for every value in [M, M+1), and slow_binary (digit loops, leading zeros, sticky flag) returns roundNE of the whole literal when binary was undecided. Bellerophon is proved sound on its model for all 29 generic radices, radix and compact tables, truncated mantissas included (bellerophon_radix_sound). The big-integer slow path of the 12 even generic radices (digit_comp: 6, 12, 14, 18, 20, 22, 24, 26, 28, 30, 34, 36) is proved on its Lean model (Model/Slow.lean, tied by the component op sl, 0 mismatches, the error float coming from the real / the modelled Bellerophon) for all digit strings and exponents, f32/f64, builds radix and compact+radix (Props/C01Slow.lean): parseMantissa_value (exact digits, +1 iff a non-zero digit is cut, no capacity overflow), positive_digit_comp_correct (= roundNE(M*r^e) whenever M*r^e fits BIGINT_LIMBS), negative_digit_comp_correct (= roundNE(M/r^j) given the bracket b <= x <= next(b) of the error float and the capacity guard; the comparison with b+h through split_radix/large powers is exact), slow_radix_correct, value_untruncated/value_zero_tail; the table facts pow needs (split_radix, large powers, u64_power_limit, small int powers for r, r/2, 2) are kernel-evaluated for every such radix. byte_comp (the 17 odd radices) is modelled on limbs (Model/SlowBytes.lean), agrees with the code on the sl stream (upper- and lower-case digits: compare_bytes compared raw bytes with upper-case digit characters until /repo 6651793, found by this model) and is now PROVED on that model (Props/C05Bytes.lean): every limb-level Bigfloat operation denotes the right number, keeps the normal form and fails exactly when the result does not fit (Proof/BytesLimbs.lean, Proof/BytesMul.lean: small_mul, compare, shl_bits/shl_limbs/shl, small/large_add_from, long_mul, large_mul, pow; large_quorem: the single-limb quotient estimate plus one correction is the exact quotient once the top limb of the divisor exceeds radix+1 - which the normalisation shift (leading zeros - integral_binary_factor) & 31 guarantees, den_top); compare_bytes is the comparison of the value of all significant digits with num/den and cannot panic after that normalisation (Proof/BytesCompare.lean: cmpDigits_spec, compareBytes_spec); byte_comp_correct / slow_radix_bytes_correct: whenever byte_comp returns (no capacity panic of the Bigfloat arithmetic before the digit loop) it returns roundNE of the value of the digits, for an estimate that weakly brackets the value, in all three regimes (below the underflow cut, finite, +infinity: Proof/SlowRegimes.lean roundFacts_of_weak), under the explicit condition FirstDigitFits ((b+h)/radix^sci_exp < radix+1, otherwise large_quorem asserts on an oversized numerator); the pow tables, split_radix = (r,0) and integral_binary_factor are kernel-evaluated for every odd radix and both radix builds (Proof/BytesTables.lean). truncation_invariant is proved (slow_radix_correct_full_proved). The NON-decimal pipeline is composed in Props/C05Final.lean: C05_radix_main - for every radix class (power-of-two radices with every supported exponent base incl. the five mixed-base pairs; the 29 generic radices of radix builds, compact or not), f32/f64, complete and partial parser, parseFloatAlgoModel slowModel = parseFloatModel (litBits with radix/base), with the residual hypotheses stated per Number: SyntaxFacts (the syntax layer for non-decimal radices: exact words / TruncPow2At / true value of a truncated generic mantissa) and, for generic radices only, SlowFacts (what slow_radix returns for the bracketing estimate). Proved inside: the moderate-path contract of Bellerophon for all generic radices UNCONDITIONALLY (moderateContract_bell: no panic, valid answers by bellerophon_radix_sound, invalid-marked answers bracket the value by Proof/BellEstimate + Proof/BellBracket), truncated generic mantissas (numberToFloat_generic_truncated), and the power-of-two classes need SyntaxFacts only: untruncated by binary_decides/binary_correct (pipeline_binary), truncated by binary_truncated_correct when binary decides and slowBinary_correct when it does not (numberToFloat_pow2_truncated). SyntaxFacts is PROVED for every class (Props/C05Number.lean: number_exact_of_syntax_r / number_truncated_of_syntax_r, the decimal syntax-layer theorems for an arbitrary radix r with r^u64_step <= 2^64 and any exponent base b with r = b^k, the implicit exponent scaled by k as scale_exponent does - this covers the five mixed-base pairs 4/2, 8/2, 16/2, 32/2, 16/4, i.e. hex floats; Props/C05Syntax.lean: BasePair, syntaxFacts_generic, syntaxFacts_pow2). The exponent-range hypothesis of the power-of-two path is CLOSED: Proof/BinaryWide.lean proves binary for every exponent in +-2^59 (calculatePower2_wide: with the i64 saturating arithmetic and the clamp of /repo 220c4cc the modelled power2 is the exact one clamped at +-(2^30-1); above 2^27 the answer is +infinity and every value >= base^e rounds there, below -2^27 it is 0 and every value < 2^64*base^e rounds there: binary_hi/lo, roundNE_hi/lo), and the syntax layer bounds the exponent word by 5*(2*len+64)+2^40 (the explicit exponent saturates). Result: C05_pow2_main - radices 2, 4, 8, 16, 32, exponent base = radix or a mixed pair, every power-of-two build, f32/f64, complete and partial, separator-free format classes, inputs shorter than 2^54 bytes: parseFloatAlgoModel slowModel = parseFloatModel UNCONDITIONALLY (no slow-path, exponent or syntax hypothesis). C05_generic_main (29 generic radices): residual per Number SlowFacts only, plus for radix 31 with f64 a truncated mantissa of at least 55 bits (31^11 is about 2^54.5; f32 is closed, 54 bits suffice). C05_radix_full_partial states both with the remaining hypotheses listed. A kernel-evaluated example runs the whole pipeline on 46-digit radix-3 literals around the half-way point 2^53+1 (Bellerophon undecided, byte_comp decides). C05_radix_full : Prop keeps the unconditional statement. NOT proved: SlowFacts for the generic radices from the input alone - SlowDomain (capacity guards, exponent ranges) for what Bellerophon hands over (done for decimal), FirstDigitFits and absence of capacity failures of the 18-limb Bigfloat in byte_comp; the radix-31 f64 mantissa bound. Those parts are compared with the oracle on per-radix worst cases, exponent cut-offs, long tails and the five mixed-base formats x three exponent radices. Partial proof, stated as such.'
LEVEL_NOTE = 'Trusted: Lean kernel; rustc; R dump+generator; differential harness; IEEE-754 correct rounding of int->float, * and / (fast path). Lean models of number.rs, binary.rs, bellerophon.rs, shared.rs rounding agree with the compiled code on component-level streams; slow.rs/bigint.rs have a value-level Lean model with the real capacity checks (digit_comp) and a limb-level one (byte_comp), op sl.'


def feature_sets(tier):
    return ["radix", "compact+radix", "pow2"] if tier == "quick" else ["radix", "compact+radix", "pow2", "radix+format", "compact+radix+format"]


def mixed_ops(rng, n):
    """mixed-base literals: mantissa radix r, exponent base b, exponent digits in radix er"""
    ops = []
    for (r, b) in MIXED:
        for er in (10, r, b):
            fmt = gens.fmt_hex(gens.pack(r, b, er))
            for _ in range(n):
                ty = rng.choice(["f64", "f32"])
                nd = rng.choice([1, 2, 3, 8, 13, 14, 15, 16, 17, 20, 30])
                d = "".join(gens.DIGITS[rng.randrange(r)] for _ in range(nd))
                pt = rng.randint(0, nd)
                q = rng.randint(-40, 40) if rng.random() < 0.7 else rng.randint(-1200, 1200)
                e = "^" if r > 25 else ("p" if r >= 15 else "e")
                s = "%s.%s%s%s" % (d[:pt], d[pt:], e, gens.exp_str(q, er))
                if rng.random() < 0.3:
                    s = d + e + gens.exp_str(q, er)
                ops.append("pf %s %s %d %s %s" % (ty, fmt, rng.choice([0, 1]), gens.popts(r, exp=ord(e)), gens.hexs(s)))
    return ops


def streams(tier, rng, fs, profile):
    rads = [r for r in gens.radices(fs) if r != 10]
    quick = tier == "quick"
    if quick and len(rads) > 10:
        # every radix gets exponent cut-offs; hard cases rotate over a third of the generic radices per seed
        k = rng.randrange(3)
        hard_rads = [r for i, r in enumerate(rads) if i % 3 == k or r in (2, 4, 8, 16, 32, 12, 24)]
    else:
        hard_rads = rads
    out = [
        ("g-hard", gens.float_parse_hard_ops(rng, fs, hard_rads, 40 if quick else 400, rich=True, tails=2 if quick else 20)),
        ("g-ties", gens.exact_tie_radix_ops(rng, fs, rads, per_radix=4 if quick else 40)),
        ("g-ties-int", gens.exact_tie_int_ops(rng, fs, rads, per_radix=3 if quick else 30)),
        ("g-exp", gens.float_exp_ops(rng, fs, rads if not quick else hard_rads)),
        ("g-random", gens.float_random_ops(rng, fs, rads, 60 if quick else 1500)),
        ("g-mixed", mixed_ops(rng, 60 if quick else 1500)),
    ]
    # power-of-two moderate path: the invalid marker `power2 + INVALID_FP` at exponents beyond 32768
    comp, api = gens_algos.marker_overflow_ops(rng, fs, tier)
    out += [("g-marker", api), ("comp-bin-marker", comp)]
    # pipe-*: the API streams against the algorithmic pipeline model (every radix, mixed bases, slow_binary dispatch)
    out = out + gens_algos.apf_streams(out)
    return out + gens_slow.slow_streams(rng, fs, tier, rads)   # component level: slow_radix (digit_comp / byte_comp) fed by the moderate path


def nontrivial(op, res):
    t = res.split(" ")
    if op.split(" ")[0] == "sl":
        return t[0] == "slow" and t[1] not in ("0",)
    return t[0] == "ok" and t[1] not in ("0", "80000000", "8000000000000000", "nan")
