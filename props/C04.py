"""C04 — string->integer parsing is exact with exact overflow detection."""
import gens
import vlib

ID = "C04"
LEAN_MODULES = ["LexVerif.Props.Literals.UtilError", "LexVerif.Props.C04", "LexVerif.Props.C04Format", "LexVerif.Props.TablesUtil", "LexVerif.Props.Literals.ParseIntegerAlgorithm", "LexVerif.Props.Literals.ParseIntegerApi", "LexVerif.Props.Literals.ParseIntegerParse", "LexVerif.Props.Literals.UtilDigit", "LexVerif.Props.Literals.UtilNum", "LexVerif.Props.Literals.UtilNoskip"]
GEN = ["util_tables", "literals"]
TRUSTED = [
    "Lean 4.33.0 kernel; axioms of each theorem listed under coverage.theorems",
    "correspondence harness (harness/src/bin/run.rs) and generators (gens.py): differential testing, bounded by generator quality",
    "hand-written model Model.ParseInt tied to lexical-parse-integer/src/algorithm.rs by correspondence only",
]
ASSUMPTIONS = ["usize = u64 (x86-64)", "rustc codegen is correct"]
RULE = ("G-int generator: per (type, radix) boundary values r^k-1, r^k, r^k+1, min/max +-1, overflow_digits-length "
        "strings, leading zeros, upper/lower-case digits, one illegal byte at each position, sign variants, "
        "SWAR-window alignments; non-trivial = reaches a digit (result ok with count>0, Overflow, Underflow or InvalidDigit at index>0); "
        "distinct = distinct op lines")


TECHNIQUE = 'Lean 4 proof: model of algorithm.rs (unchecked prefix, SWAR 4/8-digit loops, checked tail) = left-to-right specification scan, for every input; overflow_digits table by decide +kernel; correspondence ties the model to the code'
LEVEL_TEXT = "Complete Lean theorem parseInt_model_eq_spec: for all 12 integer types, radices 2..36, partial/complete, no_multi_digit on/off and EVERY byte string, the model of lexical-parse-integer's algorithm (non-format build) returns exactly the specification's result (value, Empty/InvalidDigit/Overflow/Underflow with exact index), FAULT unreachable, indices <= length; SWAR lemmas proved by byte decomposition. The model is tied to the Rust by the correspondence run (hundreds of thousands of boundary inputs, 3-6 feature sets)."
LEVEL_NOTE = 'Trusted: Lean kernel; that Model.ParseInt mirrors algorithm.rs (checked by correspondence only); format-feature branches (prefix/suffix/leading zeros/integer separators) are not covered by this theorem (see C12/C13); for the format build C04Format.parseIntFormat_simple_spec proves the same result for every format without integer separator flags / prefix / suffix / leading-zero flag - any separator byte and any fraction/exponent separator flags (the former exclusion of separator bytes fell with the repaired defect, regression_sep_elsewhere) - also on inputs containing the separator byte.'


def feature_sets(tier):
    return ["default", "radix", "compact"] if tier == "quick" else ["default", "compact", "pow2", "radix", "format", "compact+radix+format"]


def streams(tier, rng, fs, profile):
    n = 1 if tier == "quick" else 6
    return [("g-int-parse", gens.int_parse_ops(rng, fs, scale=n))]


def nontrivial(op, res):
    t = res.split(" ")
    if t[0] == "ok":
        return True
    if t[0] == "err" and t[1] in ("Overflow", "Underflow"):
        return True
    if t[0] == "err" and t[1] == "InvalidDigit" and t[2] not in ("0", "-"):
        return True
    return False


def post(ctx, bins):
    return sweep_post(ctx, bins)


def sweep_post(ctx, bins):
    """thorough tier: Display's text of every u32/i32 value parses back (complete and partial), natively"""
    if ctx["tier"] != "thorough":
        return []
    viol = []
    total = 0
    for (fs, profile), binp in sorted(bins.items()):
        if fs not in ("default", "compact"):
            continue
        ops = vlib.sweep_ops("xpi", "u32", 0, 1 << 32, 64) + vlib.sweep_ops("xpi", "i32", -(1 << 31), 1 << 31, 64)
        res = vlib.run_sweeps(binp, ops)
        v, n = vlib.sweep_violations(res, fs, profile, lambda op, first: "dpi %s 0 %s" % (op.split(" ")[1], first.encode().hex()))
        viol += v
        total += n
    ctx["post_evaluations"] = ctx.get("post_evaluations", 0) + total
    return viol
