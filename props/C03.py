"""C03 — integer->string output is the exact canonical numeral in every radix."""
import gens
import vlib

ID = "C03"
LEAN_MODULES = ["LexVerif.Props.Literals.WriteIntegerOptions", "LexVerif.Props.C03", "LexVerif.Props.C03Tie", "LexVerif.Props.TablesWrite", "LexVerif.Props.Literals.WriteIntegerAlgorithm", "LexVerif.Props.Literals.WriteIntegerCompact", "LexVerif.Props.Literals.WriteIntegerDecimal", "LexVerif.Props.Literals.WriteIntegerDigitCount", "LexVerif.Props.Literals.WriteIntegerJeaiii", "LexVerif.Props.Literals.WriteIntegerRadix", "LexVerif.Props.Literals.WriteIntegerWrite", "LexVerif.Props.Literals.WriteIntegerApi", "LexVerif.Props.Literals.UtilDiv128", "LexVerif.Props.Literals.UtilMul", "LexVerif.Props.Literals.UtilStep", "LexVerif.Props.Literals.UtilDigit", "LexVerif.Props.Literals.UtilConstants"]
GEN = ["write_tables", "literals"]
TRUSTED = [
    "Lean 4.33.0 kernel; axioms of each theorem listed under coverage.theorems",
    "correspondence harness (harness/src/bin/run.rs) and generators (gens.py): differential testing, bounded by generator quality",
    "hand-written model Model.WriteInt tied to lexical-write-integer/src/*.rs, lexical-util/src/{div128,step,mul,constants}.rs "
    "by correspondence only (release-mode semantics; debug_assert!/overflow checks of debug builds are not modelled)",
    "digit-pair tables enter the model through their closed form (Model.WriteInt.digitPairTable); Props/C03Tie.tableGet_is_named_table proves it equal to the compiled tables",
]
ASSUMPTIONS = ["usize = u64 (x86-64)", "rustc codegen is correct", "release profile (wrapping arithmetic)"]
RULE = ("G-int-write generator: per (type, radix): every u8/i8 value (all radices) and every u16/i16 value (a few radices), "
        "r^k-1, r^k, r^k+1 for every k, 2^k-1, 2^k, 10^k-1, 10^k (jeaiii branch thresholds), values around r^(j*u64_step(r)) "
        "for the 128-bit chunking, min/max, random values of every bit length; short buffers for the panic paths; "
        "non-trivial = result ok with at least one digit; distinct = distinct op lines")

TECHNIQUE = "Lean 4 proof: the model of every integer writer (compact.rs; algorithm.rs/digit_count.rs incl. algorithm_u128 with u128_divrem; decimal.rs/jeaiii.rs) = sign ++ canonical numeral, for every value of every type in every radix and feature set; numeral theory (ofDigits/toDigits); model constants equated with the tables/literals regenerated from the crate (C03Tie)"
LEVEL_TEXT = ("Proved in Lean for every value (writeInt_correct_full_holds): all 12 integer types x every radix 2..36 x feature sets x both sign settings, buffer >= buffer_size_const: output = sign ++ canonical numeral at offset 0, count = its length, rest of buffer untouched, no FAULT/PANIC. "
              "Built from: numeral theory; compact writer; 4-2-1 digit-pair loop = toDigits with exact digit counts (fast_log2, naive, chunked u128); u128_divrem = (n / r^step, n % r^step) for all 35 radices (mulhi = high word, Granlund-Montgomery identity, slow_u128_divrem loop invariant); "
              "jeaiii: one fixed-point lemma per multiplier, every write_digits! arm, @10alex, comparison trees from_u8..from_u128; decimal digit counts (fast_digit_count all u32, fallback_digit_count/fast_log10). "
              "Props/C03Tie equates the model's tables, per-radix constants and magic literals with Gen.IntTables / Gen.Sizes / Gen.Literals regenerated from the crate on every run. "
              "Exclusion (finding, reported under C09): unsigned type + required '+' sign needs one byte more than buffer_size_const.")
LEVEL_NOTE = "Trusted: Lean kernel; that Model.WriteInt mirrors the Rust (correspondence, ~2M ops); release-mode semantics (debug assertions not modelled); rustc."


def feature_sets(tier):
    return ["default", "compact", "radix", "pow2"] if tier == "quick" else \
        ["default", "compact", "pow2", "radix", "format", "radix+format", "compact+radix", "compact+radix+format"]


def streams(tier, rng, fs, profile):
    n = 1 if tier == "quick" else 6
    return [
        ("g-int-write", gens.int_write_ops(rng, fs, scale=n)),
        ("g-int-write-exhaustive-small", gens.int_write_small_exhaustive(rng, fs, tier)),
        ("g-int-write-shortbuf", gens.int_write_shortbuf(rng, fs)),
        ("g-int-write-reqsign", gens.int_write_reqsign(rng, fs)),
    ]


def nontrivial(op, res):
    t = res.split(" ")
    return t[0] == "ok" and len(t) > 1 and t[1] != "_"


def op_check(op, ir, fs, profile):
    """extra per-op checks on the implementation's answer: untouched tail, Display equality for the default API"""
    t = ir.split(" ")
    if t[0] != "ok":
        return None
    if len(t) > 2 and t[2] == "dirty":
        return "bytes past the returned slice were modified"
    if op.startswith("dwi") and len(t) > 3 and t[3] != "display":
        return "decimal output differs from core::fmt::Display"
    return None


def post(ctx, bins):
    return sweep_post(ctx, bins)


def sweep_post(ctx, bins):
    """thorough tier: every u32/i32 value (decimal, default API) against core::fmt::Display, natively"""
    if ctx["tier"] != "thorough":
        return []
    viol = []
    total = 0
    for (fs, profile), binp in sorted(bins.items()):
        if fs not in ("default", "compact"):
            continue
        ops = vlib.sweep_ops("xwi", "u32", 0, 1 << 32, 64) + vlib.sweep_ops("xwi", "i32", -(1 << 31), 1 << 31, 64)
        ops += vlib.sweep_ops("xwi", "u64", (1 << 63) - 50000000, (1 << 63) + 50000000, 16)
        res = vlib.run_sweeps(binp, ops)
        v, n = vlib.sweep_violations(res, fs, profile, lambda op, first: "dwi %s %s -" % (op.split(" ")[1], first))
        viol += v
        total += n
    ctx["post_evaluations"] = ctx.get("post_evaluations", 0) + total
    return viol
