"""C16 — cargo features are additive: enabling one never changes existing results."""
import gens
import vlib
from props import judges
from props.common import TRUSTED_BASE, ASSUMPTIONS

ID = "C16"
LEAN_MODULES = ["LexVerif.Props.Literals.UtilLibm", "LexVerif.Props.Literals.ParseFloatLibm", "LexVerif.Props.Literals.ParseFloatFpu", "LexVerif.Props.Literals.UtilAlgorithm", "LexVerif.Props.Literals.UtilExtendedFloat", "LexVerif.Props.C16", "LexVerif.Props.C04", "LexVerif.Props.RoundNE", "LexVerif.Props.TablesParse", "LexVerif.Props.Literals.ParseFloatParse", "LexVerif.Props.Literals.ParseFloatFloat", "LexVerif.Props.Literals.ParseFloatBigint", "LexVerif.Props.Literals.ParseIntegerAlgorithm", "LexVerif.Props.Literals.WriteFloatWrite", "LexVerif.Props.Literals.WriteIntegerWrite", "LexVerif.Props.Literals.UtilIterator"]
GEN = ["parse_tables", "literals"]
TRUSTED = TRUSTED_BASE + [
    "feature independence of the float algorithms is derived from 'each build equals the same oracle' and is therefore only as strong as C01/C02 for floats; for integer parsing it follows from the proved C04 theorem (the model has no feature-dependent branch for the decimal default API)",
]
RULE = ("the SAME op file (default-API ops: dpi/dpf complete+partial, dwi, dwf) is run through every feature-set binary (std on/off, compact, "
        "power-of-two, radix, format and combinations); results are compared pairwise with the `default` build: parse results, integer output bytes "
        "identical everywhere; float output bytes identical across non-compact builds; compact output must re-parse (exact oracle) to the same bits. "
        "Inputs: C01's G-hard/G-exp/random decimals, C04's integer strings (decimal), G-int values, G-bits floats. non-trivial = ok result; distinct = distinct ops")
TECHNIQUE = "Lean 4 proof (C04 theorem is feature-independent for the default API; oracle theorems; table theorems shared between feature sets) + cross-feature-set correspondence of the same op stream"
LEVEL_TEXT = ("Proved in Lean: for the default decimal API the integer-parse model equals the same specification in every feature set (C04 theorem quantifies over features), "
              "and the small-power tables of the default, radix and compact builds (incl. the powf/powd-computed ones of compact builds) all equal the same closed forms. "
              "For floats and integer writing the statement 'every build gives the same result' is checked by running one op stream through 9 binaries and comparing pairwise, "
              "plus each against the oracle. Partial proof, stated as such.")
LEVEL_NOTE = "Trusted: Lean kernel; rustc; differential harness; the no_std build is exercised through the same harness with the std feature off."


def feature_sets(tier):
    base = ["default", "compact", "pow2", "radix", "format", "radix+format", "compact+radix+format", "nostd"]
    return base if tier == "quick" else base + ["compact+radix", "nostd+compact+radix+format"]


def the_ops(tier, seed):
    """one deterministic op list shared by every feature set (independent of the per-set rng)"""
    import random
    rng = random.Random(seed * 7919 + 16)
    quick = tier == "quick"
    ops = []
    # float parsing: hard cases, cut-offs, random; only default-API ops
    for op in gens.float_parse_hard_ops(rng, "default", [10], 120 if quick else 1500, rich=True, tails=3 if quick else 40):
        t = op.split(" ")
        ops.append("dpf %s %s %s" % (t[1], t[3], t[-1]))
    ops += [op for op in gens.exact_tie_ops(rng, "default", per_q=3 if quick else 20) if op.startswith("dpf")]
    for op in gens.float_exp_ops(rng, "default", [10])[:: (3 if quick else 1)]:
        t = op.split(" ")
        ops.append("dpf %s %s %s" % (t[1], t[3], t[-1]))
    for op in gens.float_random_ops(rng, "default", [10], 800 if quick else 10000):
        t = op.split(" ")
        ops.append("dpf %s %s %s" % (t[1], t[3], t[-1]))
    # integer parsing (decimal)
    for op in gens.int_parse_ops(rng, "default", scale=1 if quick else 4):
        t = op.split(" ")
        if t[0] == "pi":
            ops.append("dpi %s %s %s" % (t[1], t[3], t[-1]))
        else:
            ops.append(op)
    # integer writing
    ops += [op for op in gens.int_write_ops(rng, "default", scale=1 if quick else 4) if op.startswith("dwi")]
    # float writing
    for ty in ("f64", "f32"):
        cases = gens.float_bits_cases(rng, ty, 400 if quick else 20000, rich=True)
        if quick:
            cases = [c for i, c in enumerate(cases) if i % 5 == 0 or i > len(cases) - 500]
        ops += gens.float_write_default_ops(rng, ty, cases)
    seen = set()
    out = []
    for op in ops:
        if op not in seen:
            seen.add(op)
            out.append(op)
    return out


_CACHE = {}


def streams(tier, rng, fs, profile):
    import os
    seed = int(os.environ.get("VERIF_SEED", "20260926"))
    key = (tier, seed)
    if key not in _CACHE:
        _CACHE[key] = the_ops(tier, seed)
    return [("shared", _CACHE[key])]


def nontrivial(op, res):
    return res.startswith("ok")


def post(ctx, bins):
    viol = []
    res = {fs: v for (fs, profile, sname), v in ctx["results"].items() if sname == "shared"}
    if "default" not in res:
        return viol
    ops, base, _ = res["default"]
    n = 0
    for fs, (ops2, impl, _) in res.items():
        if fs == "default":
            continue
        compact = "compact" in fs
        jitems, jidx = [], []
        for i, (op, a, b) in enumerate(zip(ops, base, impl)):
            n += 1
            if a == b:
                continue
            if op.startswith("dwf") and compact:
                # compact float output may differ in digits; it must denote the same float
                bt = b.split(" ")
                if bt[0] == "ok":
                    ty, fmt, bits, o = judges.wf_fields(op)
                    jitems.append((ty, fmt, o, bits, bt[1]))
                    jidx.append(i)
                    continue
            viol.append(judges.viol(fs, "release", "cross-feature", op, b, a, "result differs from the `default` build (%s)" % a))
        for i, vd in zip(jidx, judges.exact_value_judge(fs, jitems)):
            if vd is None or not vd["rt"]:
                viol.append(judges.viol(fs, "release", "cross-feature/compact-write", ops[i], impl[i], "parses to the same value as the default build's output",
                                        "compact output does not re-parse to the float"))
    ctx["post_evaluations"] = n
    return viol
