"""C10 — parsers are total: no panic, no out-of-bounds read, indices within the input."""
import gens_total
from props.common import TRUSTED_BASE, ASSUMPTIONS

ID = "C10"
FORMAT_GROUP = "total"
LEAN_MODULES = ["LexVerif.Props.TablesParse", "LexVerif.Props.Literals.ParseFloatLemire", "LexVerif.Props.Literals.ParseFloatFloat", "LexVerif.Props.Literals.ParseFloatNumber", "LexVerif.Props.Literals.ParseFloatBellerophon", "LexVerif.Props.Literals.ParseFloatMask", "LexVerif.Props.Literals.ParseFloatLimits", "LexVerif.Props.Literals.ParseFloatBinary", "LexVerif.Props.Literals.ParseFloatLibm", "LexVerif.Props.Literals.ParseFloatFpu", "LexVerif.Props.Literals.UtilError", "LexVerif.Props.Literals.UtilResult", "LexVerif.Props.C10", "LexVerif.Props.C04Format", "LexVerif.Props.C10Debug", "LexVerif.Props.Literals.ParseFloatParse", "LexVerif.Props.Literals.ParseFloatShared", "LexVerif.Props.Literals.ParseIntegerAlgorithm", "LexVerif.Props.Literals.UtilSkip", "LexVerif.Props.Literals.UtilNoskip", "LexVerif.Props.Literals.UtilIterator", "LexVerif.Props.Literals.UtilDigit", "LexVerif.Props.Literals.ParseFloatApi", "LexVerif.Props.Literals.ParseIntegerApi", "LexVerif.Props.Literals.ParseFloatSlow", "LexVerif.Props.Literals.ParseFloatBigint"]
GEN = ["literals"]
PROFILES = {"quick": ["release", "dbg"], "thorough": ["release", "dbg"]}
TRUSTED = TRUSTED_BASE + [
    "out-of-slice reads are observed, not proved: every input slice of the harness ends at a PROT_NONE guard page "
    "(harness/src/guard.rs), so an over-read faults (`fault`); the Lean model cannot exhibit stray reads",
    "profile `dbg` = release-like build with debug-assertions and overflow-checks on (harness/Cargo.toml)",
]
RULE = ("G-total generator (gens_total.py), per valid format of harness/formats.txt (kinds I/B through `pi` with the 12 integer "
        "types, kinds F/B through `pf` with f32/f64; non-format feature sets: the flag-free radix formats only): arbitrary bytes "
        "(all 256 values, lengths 0..40), well-formed numerals followed by junk, inputs ending in a digit separator / sign / "
        "exponent character / decimal point / base prefix / base suffix / special-string letter, digit runs of 21..60 digits "
        "per component with and without separators at leading / internal / trailing / consecutive positions, special strings "
        "and their prefixes, STANDARD and custom punctuation / special-string options, hand-written edge cases; every input "
        "through the complete AND the partial entry point, the default API (`dpi`/`dpf`) and the `lexical` facade; invalid "
        "formats (error paths); release and debug-assertion builds. Flagged: `panic`, `fault` (signal), partial count > input "
        "length, error index > input length. non-trivial = a byte was consumed (ok, or an error index > 0); "
        "distinct = distinct op lines")

TECHNIQUE = ("Lean 4 proof on the model: iterator invariant (index <= length, digit counts <= index) carried through every phase "
             "of parse_number for every format / feature set / byte list; release: no FAULT, no PANIC, no fuel exhaustion, count and "
             "error index <= length; debug: no PANIC under explicit format classes + decided panic witnesses for the excluded ones; "
             "+ guard-page correspondence over arbitrary bytes in release and debug-assertion builds")
LEVEL_TEXT = ("Props/C10.lean (complete, release mode): parseNumber_total / parseFloatSyntax_total / parseFloatModel_total - for EVERY "
              "feature set, every format with formatError = none, options, partial flag and EVERY byte list the float syntax model "
              "(parse.rs + skip/noskip iterators) returns ok with count <= length or Error(i) with i <= length, never the model's "
              "FAULT (get_unchecked(..b_digits), step_unchecked, peek_u64, loop fuel) and never PANIC (unreachable!(), "
              "fraction_digits.unwrap(): excluded by a counting argument); phases_preserve_invariant; foldExponent_lt and "
              "exponent_within_i64 (explicit_exponent < 0x10000000*radix+radix, |exponent| < 2^63 for inputs < 2^59 bytes); "
              "parseInt_total for the 12 integer types (from C04). Props/C10Debug.lean (debug-assertion build): the unrestricted "
              "statement is FALSE (not_parse_total_debug), with decided witnesses for two excluded classes (the first concerns the is_itc! predicate before /repo 5dae23b and no longer reproduces on the "
              "implementation; the class hypothesis ValidNoItc is kept because RescanSafe was not re-proved for the repaired predicate): a component with flags I+T+C "
              "without L whose stored slice starts with a separator (sep_itc, RUST/SWIFT literals: '1._1234567890123456789'), and a "
              "separator equal up to ASCII case to the exponent character / base prefix / base suffix. Outside these classes the full "
              "statement is PROVED for the entry points (parseNumber_no_panic_debug_full_proved / parseFloatSyntax_no_panic_debug_noitc, "
              "class ValidNoItc = formatError none, check_radix, options punctuation, radix->power-of-two, NoCaseClash, RescanSafe): "
              "integer and fraction component with ANY separator predicate except I+T+C (I+T+C on the integer allowed without base "
              "prefix), exponent / special arbitrary, every input, debug = true: never panic, never fault. Key steps: debug build = "
              "release build on parse_digits / skip_zeros (they never step over the separator), first pass and re-scan of the stored "
              "slice take the same skip decisions (rescan_sim2, also when the first pass stopped on a refused separator), so every byte "
              "parse_u64_digits sees is a digit. For parse_number started in an arbitrary state (not reachable from the API; false for "
              "the 12 neighbour-dependent predicates: witness_parseNumber_midbuffer) the proved classes are no separator byte "
              "(ValidContiguous), integer+fraction iterators contiguous (ValidIntFracContiguous), noskip or I+L+T+C (ValidIltc).")
LEVEL_NOTE = ("Trusted: Lean kernel; rustc; that the models mirror the Rust control flow (correspondence only: C12 stream 871k ops + this "
              "property's arbitrary-byte streams, release and dbg profiles). Actual over-reads are only observable through the guard "
              "page (one byte past the end faults; reads before the start are not caught). The integer parser with the `format` feature "
              "(prefix/suffix/separators) is modelled by Model.ParseIntFormat; Props/C04Format.lean parseIntFormat_total: release totality (no FAULT/PANIC, "
              "indices <= length) PROVED for EVERY valid format (Proof/ParseIntFormatTotal.lean); debug: decided panic witness '1h_', full statement kept as a def.")


def feature_sets(tier):
    return ["default", "radix+format", "compact+radix+format"]


def streams(tier, rng, fs, profile):
    scale = 1.0 if tier == "quick" else 5.0
    fams = gens_total.total_ops(rng, fs, scale)
    out = []
    for fam, ops in fams.items():
        out.append(("g-total-" + fam, list(dict.fromkeys(ops))))
    out.append(("g-total-invalid-format", list(dict.fromkeys(gens_total.invalid_format_ops(rng, fs)))))
    out.append(("g-total-numeric", numeric_edge_ops(rng, fs, tier == "quick")))
    return out


def numeric_edge_ops(rng, fs, quick):
    """totality of the VALUE computation: one near-midpoint-free decimal per binade over the whole exponent range (far below the
    smallest subnormal to far above the largest float: table index and shift cut-offs of Eisel-Lemire / Bellerophon), the
    exponent cut-offs of C01's G-exp, exact ties, and long digit strings (big-integer path); values are C01's business"""
    import gens
    from fractions import Fraction
    ops = []
    fmt = gens.fmt_hex(gens.pack(10))
    for ty, lo, hi in (("f64", -1160, 1040), ("f32", -230, 140)):
        for e in range(lo, hi, 1 if not quick else 1):
            m = rng.choice([3, 5, 7, 11, 13, 1023, 4097])
            v = Fraction(m) * (Fraction(2) ** e)
            # shortest-ish decimal rendering with 3..17 significant digits and an explicit exponent
            import math
            q = math.floor(math.log10(m) + e * math.log10(2))
            nd = rng.choice([1, 2, 3, 9, 17, 19, 25])
            digits = int(v / (Fraction(10) ** (q - nd + 1)))
            s = "%de%d" % (digits, q - nd + 1)
            ops.append(gens.pf_op(ty, fmt, s, 10, partial=rng.choice([0, 1])))
            if rng.random() < 0.3:
                ops.append("dpf %s %d %s" % (ty, rng.choice([0, 1]), gens.hexs(s)))
    ops += gens.float_exp_ops(rng, fs, [10])
    ops += gens.exact_tie_ops(rng, fs, per_q=1 if quick else 6)
    for n in (20, 40, 100, 400, 767, 768, 769, 1200):
        d = "".join(rng.choice("0123456789") for _ in range(n))
        for s in ("1" + d, "0." + d, "1." + d + "e-320", d + "e300", "0." + "0" * 330 + d):
            ops.append(gens.pf_op(rng.choice(["f64", "f32"]), fmt, s, 10))
    return ops


def compare(op, impl_result, spec_result):
    """the specification of C10 is `op_check` (total, indices in range); values are C04/C05/C12's business"""
    return True


def op_check(op, ir, fs, profile):
    t = ir.split(" ")
    if t[0] == "panic":
        return "panic (%s build)" % profile
    if t[0] == "fault":
        return "crash: the harness process died on this op (%s; guard-page fault = read outside the input slice, or abort)" % ir
    p = gens_total.op_parts(op)
    if p is None:
        return None
    n = len(p[2])
    if t[0] == "ok" and len(t) >= 3 and t[2] != "-":
        try:
            if int(t[2]) > n:
                return "partial count %s > input length %d" % (t[2], n)
        except ValueError:
            return "unparsable count %r" % t[2]
    if t[0] == "err" and len(t) >= 3 and t[2] != "-":
        try:
            if int(t[2]) > n:
                return "error index %s > input length %d" % (t[2], n)
        except ValueError:
            return "unparsable error index %r" % t[2]
    if t[0] not in ("ok", "err", "opterr"):
        return "unexpected result line %r" % ir
    return None


def nontrivial(op, res):
    t = res.split(" ")
    if t[0] == "ok":
        return True
    if t[0] == "err" and len(t) > 2 and t[2] not in ("0", "-"):
        return True
    return False


def classify(v):
    """call-site classes of known findings (findlib.py); only debug-assertion panics are known for C10"""
    import findlib
    if v.get("profile") == "dbg":
        return findlib.debug_class(v["op"], v["implementation"])
    return None
