"""C17 — the allocating `lexical` facade equals `lexical-core`, and writers only ever emit ASCII."""
import fmtcat_wfmt
import gens
import gens_wopts as gw
import vlib
from props import judges
from props.common import TRUSTED_BASE, ASSUMPTIONS

ID = "C17"
LEAN_MODULES = ["LexVerif.Props.Literals.UtilApi", "LexVerif.Props.Literals.WriteFloatApi", "LexVerif.Props.C17", "LexVerif.Props.Literals.FacadeLib", "LexVerif.Props.Literals.CoreLib", "LexVerif.Props.Literals.WriteFloatOptions", "LexVerif.Props.Literals.UtilAscii"]
GEN = ["write_tables", "literals"]
TRUSTED = TRUSTED_BASE + [
    "lexical/src/lib.rs is a thin wrapper (vec of buffer_size bytes, core call, set_len, from_utf8_unchecked): compared op by op with the core "
    "entry points; not modelled beyond 'same call with a buffer of exactly the documented size'",
]
RULE = ("every op is issued twice, through lexical_core (op) and through lexical (L<op>): integer write/parse (all types, radices of the feature "
        "set, G-int strings), float default write on G-bits, float write with options (custom punctuation over the whole valid ASCII range, special "
        "strings of 1..50 letters, required signs), float parse on random literals; results must be identical. Every written byte must be < 0x80. "
        "Options with non-ASCII punctuation / non-letter special strings must be rejected (`opterr`). non-trivial = `ok` result; distinct = distinct ops")
TECHNIQUE = ("Lean 4 theorem ascii_only on the writer models (digits, signs, validated punctuation, validated special strings) + pairwise "
             "correspondence facade vs core")
LEVEL_TEXT = ("Proved in Lean (Props/C17.lean): under the options validity predicate (OptionsBuilder::build = Ok) every byte emitted by the decimal "
              "float writer model (list-level and buffer-faithful), by the special-string path and by the integer numeral is < 0x80, for all digit "
              "lists, exponents, options and formats. facade = core is shown by correspondence (identical results on every generated pair).")
LEVEL_NOTE = "Trusted: Lean kernel; rustc; differential harness. The facade itself is not modelled in Lean (4 wrapper functions)."

LETTERS = "abcdefghijklmnopqrstuvwxyzABCDEFGHIJKLMNOPQRSTUVWXYZ"


def feature_sets(tier):
    return ["default", "compact", "radix+format"] if tier == "quick" else \
        ["default", "compact", "radix+format", "compact+radix+format", "format", "radix", "pow2"]


def pairs(ops):
    out = []
    for op in ops:
        out.append(op)
        out.append("L" + op)
    return out


def special(rng, first):
    n = rng.choice([1, 2, 3, 3, 5, 8, 20, 49, 50])
    return gens.hexs(rng.choice(first) + "".join(rng.choice(LETTERS) for _ in range(n - 1)))


def calm_opts(rng, radix=10):
    """valid options outside the option regions in which buffer_size_const is too small (those are C09's findings)"""
    o = gw.rand_opts(rng, radix=radix, punct=False)
    if o["mn"] is not None and o["mn"] > 40:
        o["mn"] = rng.randint(1, 40)
        if o["mx"] is not None and o["mx"] < o["mn"]:
            o["mx"] = o["mn"]
    if o["pb"] is not None and o["pb"] > 40:
        o["pb"] = rng.randint(1, 40)
    if o["nb"] is not None and o["nb"] < -40:
        o["nb"] = -rng.randint(1, 40)
    if rng.random() < 0.6:
        # any valid ASCII byte: 0x09..0x0d, 0x20..0x7e
        valid = list(range(9, 14)) + list(range(0x20, 0x7f))
        e = rng.choice(valid)
        d = rng.choice([c for c in valid if c != e])
        if radix == 10:
            o["exp"], o["dp"] = e, d
    return o


def streams(tier, rng, fs, profile):
    quick = tier == "quick"
    out = []
    out.append(("int-write", pairs(gens.int_write_ops(rng, fs, scale=1)[::(3 if quick else 1)])))
    if gens.has_format(fs):
        out.append(("int-write-reqsign", pairs(gens.int_write_reqsign(rng, fs))))
    out.append(("int-parse", pairs(gens.int_parse_ops(rng, fs, scale=1)[::(4 if quick else 1)])))
    for ty in ("f64", "f32"):
        cases = gens.float_bits_cases(rng, ty, 300 if quick else 20000, rich=True)
        if quick:
            cases = rng.sample(cases, min(len(cases), 1500)) + cases[-8:]
        out.append(("float-write-default-" + ty, pairs(gens.float_write_default_ops(rng, ty, sorted(set(cases))))))
    # float write with options, punctuation and special strings
    fmts = [gens.pack(10)]
    if gens.has_format(fs):
        fmts += list(fmtcat_wfmt.DECIMAL.values())
    rfm = [gens.pack(r) for r in gens.radices(fs) if r != 10]
    ops = []
    for ty in ("f64", "f32"):
        cases = gens.float_bits_cases(rng, ty, 200 if quick else 3000, rich=True)
        vals = rng.sample(cases, min(len(cases), 700 if quick else 6000)) + cases[-8:] + gw.curated_bits(ty)
        for bits in vals:
            if rfm and rng.random() < 0.3:
                f = rng.choice(rfm)
                r = (f >> 104) & 255
                o = calm_opts(rng, r)
                o["exp"] = 94 if r >= 15 else 101
            else:
                f = rng.choice(fmts)
                o = calm_opts(rng)
            ops.append("wf %s %x %x %s -" % (ty, f, bits, gw.opt_str(o, nan=special(rng, "nN"), inf=special(rng, "iI"))))
    out.append(("float-write-options", pairs(ops)))
    out.append(("float-parse", pairs(gens.float_random_ops(rng, fs, [10] + ([16] if "radix" in fs or "pow2" in fs else []),
                                                            300 if quick else 5000))))
    # options that must be rejected: non-ASCII / control punctuation, non-letter or over-long special strings
    bad = []
    one = "%x" % gw.f64_bits(1.5)
    nanb = "%x" % 0x7ff8000000000000
    for e, d, nan, inf in [(0x80, 46, gens.DEF_NAN, gens.DEF_INF), (101, 0xff, gens.DEF_NAN, gens.DEF_INF),
                           (0x7f, 46, gens.DEF_NAN, gens.DEF_INF), (101, 0x1f, gens.DEF_NAN, gens.DEF_INF),
                           (0, 46, gens.DEF_NAN, gens.DEF_INF), (101, 8, gens.DEF_NAN, gens.DEF_INF),
                           (101, 46, gens.hexs(b"N\xe9N"), gens.DEF_INF), (101, 46, gens.hexs("N1N"), gens.DEF_INF),
                           (101, 46, gens.hexs("xaN"), gens.DEF_INF), (101, 46, "_", gens.DEF_INF),
                           (101, 46, gens.hexs("N" * 51), gens.DEF_INF), (101, 46, gens.DEF_NAN, gens.hexs(b"i\x80f")),
                           (101, 46, gens.DEF_NAN, gens.hexs("i f")), (101, 46, gens.DEF_NAN, gens.hexs("nf")),
                           (101, 46, gens.DEF_NAN, gens.hexs("i" * 51)), (101, 46, gens.DEF_NAN, "_")]:
        for b in (one, nanb):
            bad.append("wf f64 %x %s %s -" % (gens.pack(10), b, gens.wopts(exp=e, dp=d, nan=nan, inf=inf)))
    out.append(("float-write-bad-options", pairs(bad)))
    return out


def nontrivial(op, res):
    return res.startswith("ok")


def written_bytes(op, ir):
    name = op.split(" ")[0].lstrip("L")
    it = ir.split(" ")
    if name in ("wf", "dwf", "wi", "dwi") and it[0] == "ok" and len(it) > 1 and it[1] != "_":
        return bytes.fromhex(it[1])
    return None


def op_check(op, ir, fs, profile):
    w = written_bytes(op, ir)
    if w is not None and any(c >= 0x80 for c in w):
        return "a written byte is not 7-bit ASCII"
    if ir.startswith("fault"):
        return "crash"
    return None


def post(ctx, bins):
    viol = []
    n = 0
    for (fs, profile, sname), (ops, impl, drv) in ctx["results"].items():
        for i in range(0, len(ops) - 1):
            if ops[i + 1] != "L" + ops[i]:
                continue
            n += 1
            a, b = impl[i].split(" "), impl[i + 1].split(" ")
            name = ops[i].split(" ")[0]
            # facade write results carry no `clean <bound>` / `display` tokens
            k = 2 if name in ("wf", "dwf", "wi", "dwi") and a[0] == "ok" else max(len(a), len(b))
            if a[:k] != b[:k]:
                viol.append(judges.viol(fs, profile, sname + "/facade", ops[i + 1], impl[i + 1], impl[i],
                                        "lexical::* result differs from lexical_core::* for the same call"))
    ctx["post_evaluations"] = n
    return viol


def classify(v):
    """call-site classes of known findings (findlib.py)"""
    import findlib
    return findlib.write_class(v)
