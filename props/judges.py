"""Shared stage-2 judges: exact value of written bytes (Lean oracle) and re-parse through the implementation."""
import gens
import vlib


def wf_fields(op):
    """(ty, fmt, bits, optfields[10]) of a wf/dwf op"""
    t = op.split(" ")
    name = t[0].lstrip("L")
    if name == "dwf":
        return t[1], gens.fmt_hex(gens.STANDARD), t[2], gens.wopts().split(" ")
    return t[1], t[2], t[3], t[4:14]


def popts_from_wopts(o, lossy=False):
    # write opts: [max,min,pb,nb,round,trim,exp,dp,nan,inf]; parse: lossy exp dp nan inf infinity
    infinity = gens.DEF_INFINITY if o[9] == gens.DEF_INF else o[9]
    return "%d %s %s %s %s %s" % (1 if lossy else 0, o[6], o[7], o[8], o[9], infinity)


def exact_value_judge(fs, items):
    """items: list of (ty, fmt, wopts10, bits, outhex) -> list of dict(rt, sig, ulp, exact, ni, nf) or None"""
    jops = ["jrt %s %s %s %s %s" % (ty, fmt, popts_from_wopts(o), bits, out) for (ty, fmt, o, bits, out) in items]
    res = vlib.run_driver(fs, jops) if jops else []
    out = []
    for (_, sr) in res:
        st = sr.split(" ")
        if st[0] == "ok" and len(st) == 4:      # special value: no digits
            st += ["1", "0", "0"]
        if st[0] != "ok" or len(st) < 7:
            out.append(None)
        else:
            out.append({"rt": st[1] == "1", "sig": int(st[2]), "ulp": int(st[3]), "exact": st[4] == "1",
                        "ni": int(st[5]), "nf": int(st[6])})
    return out


def reparse_ops(items, partial=0):
    """implementation parse ops for written outputs (same format, punctuation and special strings)"""
    return ["pf %s %s %d %s %s" % (ty, fmt, partial, popts_from_wopts(o), out) for (ty, fmt, o, bits, out) in items]


def viol(fs, profile, stream, op, impl, spec, detail=None):
    v = {"kind": "input", "featureset": fs, "profile": profile, "stream": stream, "op": op,
         "implementation": impl, "specification": spec, "model": "-"}
    if detail:
        v["detail"] = detail
    return v
