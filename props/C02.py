"""C02 — float->decimal output round-trips exactly and is shortest."""
import gens
import gens_walgos
import vlib
from props.common import TRUSTED_BASE, ASSUMPTIONS

ID = "C02"
LEAN_MODULES = ["LexVerif.Props.C02", "LexVerif.Props.RoundNE", "LexVerif.Props.TablesWrite", "LexVerif.Props.Literals.WriteFloatAlgorithm", "LexVerif.Props.Literals.WriteFloatCompact", "LexVerif.Props.Literals.WriteFloatShared", "LexVerif.Props.Literals.WriteFloatWrite", "LexVerif.Props.Literals.WriteIntegerJeaiii", "LexVerif.Props.Literals.WriteIntegerDecimal", "LexVerif.Props.Literals.WriteFloatFloat", "LexVerif.Props.LiteralsModelWrite"]
GEN = ["write_tables", "literals"]
TRUSTED = TRUSTED_BASE + [
    "Both float->decimal algorithms are PROVED on their Lean models for ALL finite non-zero f32/f64: Dragonbox (default builds) "
    "`dragonbox_correct_holds` (shorter-interval branch = 2300 kernel-evaluated inputs; normal branch = per-exponent Farey "
    "certificates checked by the kernel for all 254 + 2046 binary exponents, then a proof for every mantissa) and Grisu (compact "
    "builds) `grisu_roundtrip_holds` (per-(exponent, shift) certificates of the cached powers, mul = correctly rounded product, "
    "error analysis of the three products, loop invariants of generate_digits / round_digit). What stays trusted is the tie "
    "model <-> code: the `td` / `gr` component correspondence and the R dump of the caches / constants, S literals. Also proved: the "
    "oracle Spec.shortest (sanity theorems); the formatting model; the caches/log tables; every arithmetic kernel for all inputs "
    "(umul128/192, divide_by_pow10, check_div_pow10, div_pow10, remove_trailing_zeros, floor_log* = true floor logs); "
    "cached_grisu_power = dump on its whole range",
]
RULE = ("G-bits: every binade x {min, min+1, max-1, max, half, random}, all subnormal powers of two +-1, integers and halves < 130, "
        "d*10^k for 9 leading patterns and every k, floats having a <=4-digit decimal exactly on a rounding-interval endpoint "
        "(8.55e21 family), random patterns, signed zeros, specials. Each output is compared byte-for-byte with "
        "Spec.shortest + formatting model (non-compact) and re-parsed exactly by the oracle (round trip, digit count). "
        "non-trivial = finite non-zero value; distinct = distinct bit patterns")


TECHNIQUE = 'Lean 4 proof (Spec.shortest round-trips, is minimal and closest; formatting-layer model) + byte-exact correspondence and exact re-parse of every output'
LEVEL_TEXT = 'Proved in Lean for all floats: the oracle Spec.shortest returns decimals that round-trip (via roundNE), have the fewest digits and are closest; the search always terminates within its fuel. The Lean model of Dragonbox (algorithm.rs, default builds; tied to the code by the td component correspondence) is PROVED to return a pair of Spec.shortest for EVERY finite non-zero f32 and f64 (dragonbox_correct_holds: shorter-interval branch by kernel evaluation of all 2300 inputs, normal branch from kernel-checked per-exponent certificates for all 254+2046 binary exponents and a proof over all mantissas; compute_mul / compute_delta / compute_mul_parity are exact for every input, the two binary32 inputs of the source comment with a wrong centre-integrality flag are proved harmless). The Lean model of Grisu (compact.rs, compact builds; gr correspondence) is PROVED to return 1..17 / 1..9 digit characters without leading zero that re-parse exactly to the same float, for EVERY finite non-zero f32 and f64 (grisu_roundtrip_holds). Every implementation output on the G-bits stream is compared byte-for-byte with oracle+formatting model (non-compact) and re-parsed exactly (round trip and <=17/9 digits, all builds).'
LEVEL_NOTE = 'Trusted: Lean kernel; rustc; differential harness and generators. Dragonbox (Model/Dragonbox.lean) and Grisu (Model/Grisu.lean) are modelled and compared with to_decimal / grisu on every op of the td / gr streams (>= 180k ops per run, 0 mismatches required); both models are proved correct for all inputs (Props/C02.lean dragonbox_correct_holds, grisu_roundtrip_holds), so the remaining trust is the model<->code tie (td / gr correspondence, R dump of caches / constants, S literals); caches and log tables are tied by the R dump (Props/TablesWrite).'


def feature_sets(tier):
    return ["default", "compact", "radix+format"] if tier == "quick" else ["default", "compact", "radix+format", "radix", "format", "compact+radix+format", "nostd"]


def streams(tier, rng, fs, profile):
    out = []
    for ty in ("f64", "f32"):
        cases = gens.float_bits_cases(rng, ty, 1500 if tier == "quick" else 60000, rich=True)
        if tier == "quick":
            # rotate through the binade grid by seed: keep the structured part bounded
            cases = [c for i, c in enumerate(cases) if i % 3 == rng.randrange(3) or i > len(cases) - 3000]
        cases += gens.midpoint_decimal_floats(ty, 3 if tier == "quick" else 4)
        out.append(("g-bits-" + ty, gens.float_write_default_ops(rng, ty, sorted(set(cases)))))
    out += gens_walgos.digit_generator_streams(tier, rng, fs)     # component level: to_decimal / grisu vs the Lean models
    return out


def nontrivial(op, res):
    t = op.split(" ")
    b = int(t[2], 16)
    return res.startswith("ok") and (b & ((1 << (63 if t[1] == "f64" else 31)) - 1)) != 0


def post_main(ctx, bins):
    """round trip + digit bound for every feature set (this is the whole oracle for `compact`)"""
    viol = []
    n = 0
    for (fs, profile, sname), (ops, impl, drv) in ctx["results"].items():
        jops = []
        idx = []
        for i, (op, ir) in enumerate(zip(ops, impl)):
            t = op.split(" ")
            it = ir.split(" ")
            if t[0] != "dwf" or it[0] != "ok":
                continue
            jops.append("jrt %s %x %s %s %s" % (t[1], gens.STANDARD, gens.popts(10), t[2], it[1]))
            idx.append(i)
        if not jops:
            continue
        res = vlib.run_driver(fs, jops)
        n += len(jops)
        for i, jop, (_, sr) in zip(idx, jops, res):
            t = ops[i].split(" ")
            limit = 17 if t[1] == "f64" else 9
            st = sr.split(" ")
            bad = None
            if st[0] != "ok":
                bad = "output is not a decimal literal"
            elif st[1] != "1":
                bad = "output does not round-trip (re-parses %s ulp away)" % st[3]
            elif int(st[2]) > limit:
                bad = "more than %d significant digits (%s)" % (limit, st[2])
            if bad:
                viol.append({"kind": "input", "featureset": fs, "profile": profile, "stream": sname + "/roundtrip",
                             "op": ops[i], "implementation": impl[i], "specification": "round-trips with <= %d digits" % limit,
                             "model": "-", "detail": bad})
    ctx["post_evaluations"] = n
    return viol


def post(ctx, bins):
    v = post_main(ctx, bins)
    return v + sweep_post(ctx, bins)


def sweep_post(ctx, bins):
    """thorough tier: every finite f32 bit pattern (both signs) against the standard library, natively (support, not proof)"""
    if ctx["tier"] != "thorough":
        return []
    viol = []
    total = 0
    for (fs, profile), binp in sorted(bins.items()):
        if fs not in ("default", "compact"):
            continue
        ops = vlib.sweep_ops("xwf", "f32", 0, 0x7f800000, 64) + vlib.sweep_ops("xwf", "f32", 0x80000000, 0xff800000, 64)
        ops += vlib.sweep_ops("xwf", "f64", 0x3ff0000000000000, 0x3ff0000000000000 + 40000000, 16)
        res = vlib.run_sweeps(binp, ops)
        v, n = vlib.sweep_violations(res, fs, profile, lambda op, first: "dwf %s %s -" % (op.split(" ")[1], first))
        viol += v
        total += n
    ctx["post_evaluations"] = ctx.get("post_evaluations", 0) + total
    ctx["exhaustive_f32_write"] = total
    return viol
