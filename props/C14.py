"""C14 — write options control the significant digits and the notation."""
from fractions import Fraction

import fmtcat_wfmt
import gens
import gens_wopts as gw
import vlib
from props import judges
from props.common import TRUSTED_BASE, ASSUMPTIONS

ID = "C14"
LEAN_MODULES = ["LexVerif.Props.C14", "LexVerif.Props.C14Pow2", "LexVerif.Props.C14Radix", "LexVerif.Props.Literals.WriteFloatOptions", "LexVerif.Props.Literals.WriteFloatShared", "LexVerif.Props.Literals.WriteFloatAlgorithm", "LexVerif.Props.Literals.WriteFloatCompact", "LexVerif.Props.Literals.WriteFloatBinary", "LexVerif.Props.Literals.WriteFloatHex", "LexVerif.Props.Literals.WriteFloatRadix", "LexVerif.Props.Literals.WriteFloatWrite"]
GEN = ["write_tables", "literals"]
TRUSTED = TRUSTED_BASE + [
    "the digit generators (Dragonbox / Grisu) are not part of C14: theorems quantify over every digit list; the correspondence "
    "feeds the implementation's own default-option digits to the formatting model (judge op jfmt), so it also covers compact builds",
    "non-decimal writers: binary.rs / hex.rs under digit options are modelled byte-exactly by Model/WriteBinaryOpts.lean (model column of `wf` ops on power-of-two radices) and radix.rs by Model/WriteRadix.lean (C07); both follow the repairs committed in /repo (2b7d47c digit-boundary rounding; b4fa7d0, fb86b3a, a288c48 positional window / min padding / tie parity). Their VALUE law (text value = default digits rounded) is proved for the power-of-two model (Props/C14Pow2 fixed_value) and judged on the outputs with exact rationals for radix.rs (the numeric value of a generic-radix text is not formalised: C14_radix_value_law stays a Prop)",
]
RULE = ("G-bits sample + curated rounding-sensitive values (ties, all-nines carries, carries across an exponent break, values whose "
        "truncation ends in 0) x G-opt (max/min significant digits 1..64 and 100..500, exponent breaks over the whole range, Round/Truncate, "
        "trim, custom exponent / decimal-point bytes) x format catalogue fmtcat_wfmt (no/required exponent notation, required exponent sign, "
        "no_exponent_without_fraction, required mantissa sign). Stage 1: implementation vs Lean model (buffer-faithful, shortest digits) vs "
        "Lean spec (list-level). Stage 2 (all builds): option output == formatting model applied to the digits parsed from the implementation's "
        "own default output (jfmt); documented laws on the output text (digit-count bounds, notation iff, trim pairs, punctuation). "
        "Non-decimal radices: digit-count bounds and |value - default value| <= one unit of the last kept digit (exact rationals). "
        "non-trivial = finite non-zero value written with at least one non-default option; distinct = distinct ops")
TECHNIQUE = ("Lean 4 theorems about the formatting model for all digit lists, exponents and options (string-level half-even = numeric half-even, "
             "carry, notation choice, trim, punctuation, value of the emitted text) + byte-exact correspondence of the model with the implementation")
LEVEL_TEXT = ("Proved in Lean (Props/C14.lean) for every digit list, exponent and option set: truncate_and_round_decimal equals numeric "
              "round-half-even / truncation of the digit list as a number, carries move the exponent by one, the notation is scientific iff "
              "required or outside the breaks and never when forbidden, trim removes exactly the '.0', configured punctuation bytes are the ones "
              "written. trim_exact / trim_only_integral / digits_written_count (at most max(max, min, integer digits + 1) digits), regressions for the "
              "three repaired decimal defects (trim after rounding, carry padding). Power-of-two writers (Props/C14Pow2.lean): root causes of the "
              "repaired digit-option defects as decided witnesses about the old function (truncateAndRoundCur), fixed_value (value law of the repaired "
              "rounding for every alignment), digit-count law kept as a Prop (fixed_digits_full). Generic radix (Props/C14Radix.lean): literal law, "
              "min-digits law, notation law, well-formedness and no-panic for every option set on the repaired model; value law judged on outputs. "
              "The tie to the Rust code is the correspondence (byte-for-byte on every generated op, all feature sets).")
LEVEL_NOTE = ("Trusted: Lean kernel; rustc; differential harness; generators. Digit generation is C02 (proved). Not proved: the value law for generic-radix texts "
              "and the digit-count law of the power-of-two writers (both judged exactly on every generated output).")

BIGBUF = 4000          # C14 is not about buffer sizes (C09 is): always hand over a generous buffer


def feature_sets(tier):
    return ["default", "compact", "radix+format"] if tier == "quick" else \
        ["default", "compact", "radix+format", "compact+radix+format", "format", "radix", "pow2"]


def decimal_formats(fs):
    out = [gens.pack(10)]
    if gens.has_format(fs):
        out += list(fmtcat_wfmt.DECIMAL.values())
    else:
        # the flags must be ignored without the `format` feature
        out += [fmtcat_wfmt.DECIMAL["wf_reqexp"], fmtcat_wfmt.DECIMAL["wf_noexp_reqmsign"]]
    return out


def values(rng, ty, n):
    cases = gens.float_bits_cases(rng, ty, n, rich=True)
    pick = rng.sample(cases, min(len(cases), n))
    return sorted(set(pick + gw.curated_bits(ty) + cases[-8:]))


def streams(tier, rng, fs, profile):
    quick = tier == "quick"
    out = []
    fmts = decimal_formats(fs)
    ops = []
    for ty in ("f64", "f32"):
        for bits in values(rng, ty, 700 if quick else 12000):
            for _ in range(2):
                o = gw.rand_opts(rng)
                f = rng.choice(fmts) if rng.random() < 0.6 else fmts[0]
                if rng.random() < 0.35:
                    # trim pair (trim = 0 first)
                    o["trim"] = 0
                    ops.append("wf %s %x %x %s %d" % (ty, f, bits, gw.opt_str(o), BIGBUF))
                    o = dict(o)
                    o["trim"] = 1
                ops.append("wf %s %x %x %s %d" % (ty, f, bits, gw.opt_str(o), BIGBUF))
    out.append(("opts-decimal", ops))
    out.append(("opts-decimal-carry", carry_ops(rng, fmts[0], quick)))
    rads = [r for r in gens.radices(fs) if r != 10]
    if rads:
        rops = []
        rr = [2, 4, 8, 16, 32] + ([3, 5, 7, 12, 20, 36] if "radix" in fs else [])
        for ty in ("f64", "f32"):
            vals = values(rng, ty, 60 if quick else 1500)
            for r in rr:
                f = gens.pack(r)
                for bits in (vals if not quick else rng.sample(vals, min(len(vals), 160))):
                    o = gw.rand_opts(rng, radix=r, punct=False)
                    if o["mx"] is None and rng.random() < 0.7:
                        o["mx"] = rng.choice(gw.MAXS[:14])
                        if o["mn"] is not None and o["mn"] > o["mx"]:
                            o["mn"] = None
                    rops.append("wf %s %x %x %s %d" % (ty, f, bits, gw.opt_str(o), BIGBUF))
        out.append(("opts-radix", rops))
    return out


def carry_ops(rng, f, quick):
    """digit rounding that carries into a new leading digit (0.9996 -> 1.00, 9.996 -> 10.0, 99.96e20 -> 1.00e22) at every
    magnitude class (below 1, above 1, exponent notation), with min = max, min < max, min > 1 and trim on / off"""
    import struct
    ops = []
    mants = ["9996", "99996", "9995", "99951", "995", "9951", "96", "999999999999", "8996", "1996", "19996"]
    exps = [-1, -2, -4, -5, -6, 0, 1, 2, 8, 9, 10, 22, -30, 300]
    for m in mants:
        for e in (exps if not quick else rng.sample(exps, 8)):
            v = float("0.%se%d" % (m, e + 1))
            for ty in ("f64", "f32"):
                if ty == "f32":
                    if not (1e-37 < abs(v) < 3e38):
                        continue
                    bits = struct.unpack("<I", struct.pack("<f", v))[0]
                else:
                    bits = struct.unpack("<Q", struct.pack("<d", v))[0]
                for mx in (1, 2, 3, 4):
                    for mn in (None, mx, max(1, mx - 1), mx + 2):
                        for rnd in ("r", "t"):
                            for trim in (0, 1):
                                o = gw.rand_opts(rng)
                                o.update({"mx": mx, "mn": mn if (mn is None or mn <= mx) else None, "rnd": rnd, "trim": trim})
                                if mn is not None and mn > mx:
                                    o.update({"mx": None, "mn": mn})
                                if rng.random() < (0.12 if quick else 1.0):
                                    ops.append("wf %s %x %x %s %d" % (ty, f, bits, gw.opt_str(o), BIGBUF))
    return ops


def is_default(o):
    return o[:6] == ["-", "-", "-", "-", "r", "0"]


def nontrivial(op, res):
    t = op.split(" ")
    if t[0] != "wf" or not res.startswith("ok"):
        return False
    b = int(t[3], 16)
    p, eb = gens.FLOAT_TYPES[t[1]]
    mag = b & ((1 << (p + eb - 1)) - 1)
    return mag != 0 and mag < (((1 << eb) - 1) << (p - 1)) and not is_default(t[4:14])


def flags_of(fs, fmt):
    if not gens.has_format(fs):
        return set()
    from fmtlib import F
    return {k for k, v in F.items() if fmt & v}


def decimal_laws(fs, op, out, dflt, sibling):
    """documented laws on one decimal output; `dflt` = Written default output; returns a complaint or None"""
    t = op.split(" ")
    o = gw.opts_of_fields(t[4:14])
    fmt = int(t[2], 16)
    flags = flags_of(fs, fmt)
    w = gw.Written(out, o["exp"], o["dp"])
    if not w.ok:
        return "output is not <digits>[<dp><digits>][<exp>[sign]<digits>] with the configured punctuation bytes"
    ds0, sci0 = dflt.sci_and_digits()
    zero = ds0 == [0]
    sig, nz = w.sig()
    # at most max significant (non-padding) digits
    if o["mx"] is not None and len(nz) > o["mx"]:
        return "more than max_significant_digits=%d significant digits: %s" % (o["mx"], nz)
    # zero padding is bounded too: beyond max(max, min) digits only the integer digits and the mandatory `.0` may appear
    if o["mx"] is not None and w.frac is not None and not zero:
        int_sig = len(w.int.lstrip(b"0")) if w.exp is None else 1
        allowed = max(o["mx"], o["mn"] or 0, int_sig + 1)
        if len(sig) > allowed:
            return "zero-padded to %d digits although max(max_significant_digits, min_significant_digits, integer digits + '.0') = %d: %s" % (len(sig), allowed, sig)
    # at least min digits, unless trimmed as an integer
    trimmed = w.frac is None
    if o["mn"] is not None and not trimmed and len(sig) < o["mn"]:
        return "fewer than min_significant_digits=%d digits: %s" % (o["mn"], sig)
    if trimmed and not o["trim"]:
        return "no decimal point although trim_floats is off"
    # notation
    sci = w.exp is not None
    if sci and "no_exponent_notation" in flags:
        return "exponent notation although the format forbids it"
    if not sci and "required_exponent_notation" in flags and "no_exponent_notation" not in flags:
        return "positional notation although the format requires exponent notation"
    if "required_exponent_notation" not in flags and "no_exponent_notation" not in flags:
        lo = -5 if o["nb"] is None else o["nb"]
        hi = 9 if o["pb"] is None else o["pb"]
        ds1, sci1 = w.sci_and_digits()
        cands = {sci0, sci1} if not zero else {0}
        if not any(sci == (e < lo or e > hi) for e in cands):
            return "exponent notation %s but scientific exponent %s vs breaks [%d, %d]" % (sci, sorted(cands), lo, hi)
    if sci and "required_exponent_sign" in flags and not w.exp_sign:
        return "exponent sign missing although required"
    if "required_mantissa_sign" in flags and not w.sign:
        return "mantissa sign missing although required"
    # value: the output digits are the default digits rounded / truncated to max digits (Python restatement)
    if not zero and o["mx"] is not None:
        dso, scio = w.sci_and_digits()
        n0 = int("".join(map(str, ds0)))
        k = len(ds0) - o["mx"]
        if k > 0:
            q, r = divmod(n0, 10 ** k)
            if o["rnd"] != "t":
                if 2 * r > 10 ** k or (2 * r == 10 ** k and q % 2 == 1):
                    q += 1
            want = Fraction(q) * Fraction(10) ** (sci0 - o["mx"] + 1)
        else:
            want = Fraction(n0) * Fraction(10) ** (sci0 - len(ds0) + 1)
        if w.value() != want:
            return "value %s is not the default digits rounded to %d digits (%s)" % (w.value(), o["mx"], want)
    elif w.value() != dflt.value():
        return "value differs from the default output although no maximum applies"
    # trim pair: `sibling` is the trim=0 output of the same call
    if sibling is not None:
        s = gw.Written(sibling, o["exp"], o["dp"])
        if s.ok:
            tail0 = out[len(w.sign) + len(w.mantissa):]
            tail1 = sibling[len(s.sign) + len(s.mantissa):]
            if tail0 != tail1 or w.sign != s.sign:
                return "trim_floats changed more than the fraction"
            if w.mantissa != s.mantissa:
                if not (w.frac is None and w.int == s.int and s.frac is not None and set(s.frac) == {ord("0")}):
                    return "trim_floats removed something else than a zero fraction: %r -> %r" % (s.mantissa, w.mantissa)
            elif s.frac is not None and set(s.frac) == {ord("0")} and not (sci and "no_exponent_without_fraction" in flags):
                return "trim_floats did not remove the zero fraction '.%s'" % s.frac.decode()
    return None


def radix_laws(op, out, dflt_out):
    t = op.split(" ")
    o = gw.opts_of_fields(t[4:14])
    r = (int(t[2], 16) >> 104) & 255
    w = gw.Written(out, o["exp"], o["dp"], r)
    d = gw.Written(dflt_out, o["exp"], o["dp"], r)
    if not w.ok or not d.ok:
        return "output is not a radix-%d literal with the configured punctuation" % r
    sig, nz = w.sig()
    if o["mx"] is not None and len(nz) > o["mx"]:
        return "more than max_significant_digits=%d significant digits: %s" % (o["mx"], nz)
    if o["mn"] is not None and w.frac is not None and len(sig) < o["mn"]:
        return "fewer than min_significant_digits=%d digits: %s" % (o["mn"], sig)
    ds0, sci0 = d.sci_and_digits(r)
    v, v0 = w.value(r), d.value(r)
    if ds0 == [0]:
        return None if v == 0 else "zero written as non-zero"
    if o["mx"] is None or o["mx"] >= len(ds0):
        return None if v == v0 else "value differs from the default output although no digit is cut"
    unit = Fraction(r) ** (sci0 - o["mx"] + 1)
    if abs(v - v0) > (unit if o["rnd"] == "t" else unit / 2):
        return "value is %s units of the last kept digit away from the default output" % (abs(v - v0) / unit)
    if o["rnd"] == "t" and v > v0:
        return "Truncate rounded up"
    return None


def post(ctx, bins):
    viol = []
    n = 0
    for (fs, profile, sname), (ops, impl, drv) in ctx["results"].items():
        todo = []
        for i, (op, ir) in enumerate(zip(ops, impl)):
            t = op.split(" ")
            if t[0] != "wf":
                continue
            it = ir.split(" ")
            if it[0] != "ok":
                # the spec column already predicts panics for disabled specials; anything else is a failure to write
                if not (drv[i][1].startswith("panic")):
                    viol.append(judges.viol(fs, profile, sname, op, ir, "ok <bytes>", "writer did not succeed"))
                continue
            p, eb = gens.FLOAT_TYPES[t[1]]
            b = int(t[3], 16)
            if ((b >> (p - 1)) & ((1 << eb) - 1)) == (1 << eb) - 1:
                continue
            todo.append(i)
        if not todo:
            continue
        # the implementation's own default-option output for the same value and radix
        dops = []
        for i in todo:
            t = ops[i].split(" ")
            r = (int(t[2], 16) >> 104) & 255
            dops.append("wf %s %x %s %s %d" % (t[1], gens.pack(r), t[3], gens.wopts(exp=int(t[10]), dp=int(t[11])), BIGBUF))
        dres = vlib.run_impl(bins[(fs, profile)], dops)
        n += len(dops)
        jops, jidx = [], []
        prev = {}
        for i, dr in zip(todo, dres):
            t = ops[i].split(" ")
            o = gw.opts_of_fields(t[4:14])
            r = (int(t[2], 16) >> 104) & 255
            dt = dr.split(" ")
            if dt[0] != "ok":
                viol.append(judges.viol(fs, profile, sname + "/default", dops[todo.index(i)], dr, "ok <bytes>", "default write failed"))
                continue
            out = bytes.fromhex(impl[i].split(" ")[1])
            dout = bytes.fromhex(dt[1])
            if r == 10:
                d = gw.Written(dout, o["exp"], o["dp"])
                if not d.ok:
                    viol.append(judges.viol(fs, profile, sname + "/default", ops[i], dr, "a decimal literal", "default output unparsable"))
                    continue
                ds, sci = d.sci_and_digits()
                jops.append("jfmt %s %s %s %s %s %d" % (t[1], t[2], t[3], " ".join(t[4:14]), gw.digits_hex(ds), sci))
                jidx.append(i)
                key = (t[1], t[2], t[3], tuple(t[4:9]), tuple(t[10:14]))
                sibling = prev.get(key) if o["trim"] == 1 else None
                if o["trim"] == 0:
                    prev[key] = out
                bad = decimal_laws(fs, ops[i], out, d, sibling)
                if bad:
                    viol.append(judges.viol(fs, profile, sname + "/laws", ops[i], impl[i], "documented digit/notation laws", bad))
            else:
                bad = radix_laws(ops[i], out, dout)
                if bad:
                    viol.append(judges.viol(fs, profile, sname + "/laws", ops[i], impl[i], "digit-count and rounding laws", bad))
        if jops:
            jres = vlib.run_driver(fs, jops)
            n += len(jops)
            for i, jop, (_, sr) in zip(jidx, jops, jres):
                if not vlib.agrees(impl[i], sr):
                    viol.append(judges.viol(fs, profile, sname + "/jfmt", ops[i], impl[i], sr,
                                            "option output differs from the formatting model applied to the implementation's default digits (%s)" % jop))
    ctx["post_evaluations"] = n
    return viol


def classify(v):
    """call-site classes of known findings (findlib.py)"""
    import findlib
    return findlib.write_class(v)
