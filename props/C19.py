"""C19 — lossy float parsing changes only precision, and by at most one ULP."""
import gens
import vlib
from props.common import TRUSTED_BASE, ASSUMPTIONS

ID = "C19"
LEAN_MODULES = ["LexVerif.Props.C19", "LexVerif.Props.RoundNE", "LexVerif.Props.TablesParse", "LexVerif.Props.Literals.ParseFloatParse", "LexVerif.Props.Literals.ParseFloatNumber", "LexVerif.Props.Literals.ParseFloatLemire", "LexVerif.Props.Literals.ParseFloatBellerophon", "LexVerif.Props.Literals.ParseFloatSlow", "LexVerif.Props.Literals.ParseFloatBigint", "LexVerif.Props.Literals.ParseFloatShared", "LexVerif.Props.Literals.ParseFloatFloat", "LexVerif.Props.Literals.ParseFloatMask", "LexVerif.Props.Literals.ParseFloatLimits", "LexVerif.Props.Literals.ParseIntegerAlgorithm", "LexVerif.Props.Literals.UtilDigit", "LexVerif.Props.Literals.UtilStep", "LexVerif.Props.Literals.ParseFloatBinary", "LexVerif.Props.Literals.ParseFloatOptions", "LexVerif.Props.LiteralsModel"]
GEN = ["parse_tables", "literals"]
TRUSTED = TRUSTED_BASE + [
    "the <=1 ulp bound of the lossy Eisel-Lemire estimate (decimal, non-compact builds) is NOT proved in Lean; it is measured against the oracle on the worst cases, which are exactly the inputs on which lossy and exact parsing differ. For Bellerophon and the power-of-two path the bound IS proved on the Lean models (Props/C19.lean), the models being tied to the code by component-level correspondence (ops bel/bin in props/C01.py streams)",
]
RULE = ("every op is run twice (lossy and not): acceptance, count and error must be identical; the lossy value must be the oracle's "
        "correctly rounded float or a neighbour (equal when the correct result is zero/infinite or the input is a fast-path case). "
        "Inputs: G-hard worst cases (near-halfway: exactly where lossy exposes itself), G-exp cut-offs, random literals, radices per feature set. "
        "non-trivial = accepted finite non-zero; distinct = distinct op lines")
TECHNIQUE = "Lean 4 proof (syntax independence of lossy on the model level is structural; oracle theorems) + correspondence measuring ulp distance to the oracle on near-halfway worst cases"
LEVEL_TEXT = ("Proved in Lean: the oracle and tables (as C01/C05), monotonicity of roundNE, and on the Lean models of the moderate paths: lossy binary() (power-of-two radices) and lossy bellerophon() (decimal under compact, every generic radix) answer with the correctly rounded float or an adjacent pattern (lossy_pow2_neighbour, lossy_bellerophon_neighbour). "
              "The 1-ulp accuracy of the lossy Eisel-Lemire path (decimal, non-compact builds) is NOT proved; it is checked against the oracle on near-halfway worst cases for every radix, "
              "together with identical acceptance/count/errors between lossy and exact parsing. Partial proof, stated as such.")
LEVEL_NOTE = "Trusted: Lean kernel; rustc; differential harness; generators. Power-of-two radices: proved on the Lean model of binary() (Props/C19.lean lossy_pow2_exact / lossy_pow2_agrees / lossy_pow2_bracket_partial: the lossy answer is roundNE of the truncated mantissa, equals the exact answer whenever that decides) and lossy_pow2_neighbour (complete: for a truncated mantissa the lossy answer is the correctly rounded float or the pattern just below it). Bellerophon (decimal under compact, all 29 generic radices): lossy_bellerophon_neighbour, complete on the model (the lossy answer is the correctly rounded float of the true value or an adjacent pattern). Decimal in non-compact builds (Eisel-Lemire, lossy): measured only."


def feature_sets(tier):
    return ["default", "compact", "radix"] if tier == "quick" else ["default", "compact", "radix", "pow2", "compact+radix", "radix+format"]


def streams(tier, rng, fs, profile):
    quick = tier == "quick"
    rads = gens.radices(fs)
    if quick and len(rads) > 8:
        k = rng.randrange(4)
        rads = [r for i, r in enumerate(rads) if i % 4 == k or r in (2, 10, 16, 32)]
    ops = (gens.float_parse_hard_ops(rng, fs, rads, 60 if quick else 600, rich=True, tails=2 if quick else 30, lossy=True)
           + gens.exact_tie_ops(rng, fs, per_q=3 if quick else 30, lossy=True)
           + gens.float_exp_ops(rng, fs, rads[:6] if quick else rads, lossy=True)
           + gens.float_random_ops(rng, fs, rads, 100 if quick else 3000, lossy=True))
    # paired exact ops (same input, lossy = 0) for the syntax-independence relation
    exact = [unlossy(op) for op in ops]
    return [("lossy", ops), ("exact", exact)]


def unlossy(op):
    t = op.split(" ")
    t[4] = "0"
    return " ".join(t)


def ulp_ok(impl, spec):
    it, st = impl.split(" "), spec.split(" ")
    if st[0] == "err":
        return vlib.agrees(impl, spec)
    if it[0] != "ok" or st[0] != "ok":
        return False
    if it[2] != st[2]:
        return False
    if it[1] == st[1]:
        return True
    if "nan" in (it[1], st[1]):
        return False
    a, b = int(it[1], 16), int(st[1], 16)
    width = 64 if max(a, b) >> 32 else 32
    # equality is demanded only when the CORRECT result (b) is zero or infinite
    return abs(a - b) <= 1 and not special_or_zero(b)


def special_or_zero(x):
    for (bits, ebits, p) in ((64, 11, 53), (32, 8, 24)):
        mag = x & ((1 << (bits - 1)) - 1)
        if x >> bits:
            continue
        if mag == 0 or mag == ((1 << ebits) - 1) << (p - 1):
            return True
    return False


def compare(op, impl, spec):
    t = op.split(" ")
    if spec == "-":
        return True
    if t[0] == "pf" and t[4] == "1":
        return ulp_ok(impl, spec)
    return vlib.agrees(impl, spec)


def nontrivial(op, res):
    t = res.split(" ")
    return t[0] == "ok" and t[1] not in ("0", "80000000", "8000000000000000", "nan")


def post(ctx, bins):
    """lossy changes neither acceptance, nor count, nor errors"""
    viol = []
    by = {}
    for (fs, profile, sname), (ops, impl, drv) in ctx["results"].items():
        by.setdefault((fs, profile), {})[sname] = (ops, impl)
    for (fs, profile), d in by.items():
        if "lossy" not in d or "exact" not in d:
            continue
        for op, li, ei in zip(d["lossy"][0], d["lossy"][1], d["exact"][1]):
            lt, et = li.split(" "), ei.split(" ")
            same = (lt[0] == et[0]) and (lt[0] != "ok" or lt[2] == et[2]) and (lt[0] != "err" or lt == et)
            if not same:
                viol.append({"kind": "input", "featureset": fs, "profile": profile, "stream": "lossy-vs-exact", "op": op,
                             "implementation": li, "specification": "same acceptance/count/error as exact parse: " + ei, "model": "-"})
    return viol
