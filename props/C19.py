"""C19 — lossy float parsing changes only precision, and by at most one ULP."""
import gens
import vlib
from props.common import TRUSTED_BASE, ASSUMPTIONS

ID = "C19"
LEAN_MODULES = ["LexVerif.Props.C19", "LexVerif.Props.RoundNE", "LexVerif.Props.TablesParse", "LexVerif.Props.Literals.ParseFloatParse", "LexVerif.Props.Literals.ParseFloatNumber", "LexVerif.Props.Literals.ParseFloatLemire", "LexVerif.Props.Literals.ParseFloatBellerophon", "LexVerif.Props.Literals.ParseFloatSlow", "LexVerif.Props.Literals.ParseFloatBigint", "LexVerif.Props.Literals.ParseFloatShared", "LexVerif.Props.Literals.ParseFloatFloat", "LexVerif.Props.Literals.ParseFloatMask", "LexVerif.Props.Literals.ParseFloatLimits", "LexVerif.Props.Literals.ParseIntegerAlgorithm", "LexVerif.Props.Literals.UtilDigit", "LexVerif.Props.Literals.UtilStep", "LexVerif.Props.Literals.ParseFloatBinary", "LexVerif.Props.Literals.ParseFloatOptions", "LexVerif.Props.LiteralsModel", "LexVerif.Props.C19Final"]
GEN = ["parse_tables", "literals"]
TRUSTED = TRUSTED_BASE + [
    "decimal: PROVED on the pipeline model (Props/C19Final.lean C19_lossy_decimal_proved; model tied to the code by the pf/apf and cf/lm/bel component streams): same acceptance/count/errors/special values as the oracle, same sign, magnitude at most one pattern from the correctly rounded one (Eisel-Lemire builds: the correct one or the pattern just below, C19.lossy_lemire_neighbour_proved; compact builds: Bellerophon, either side), equal whenever Eisel-Lemire decides an untruncated input (C19_decimal_decided). Other radices: proved per Number (lossy_number_pow2_exact / lossy_number_pow2 / lossy_number_bellerophon); the API statement C19_lossy_full is kept as a Prop - open is the exactness of the syntax layer's mantissa/exponent words for non-decimal radices. NOT true and not claimed: preservation of a correct +inf (lossy_overflow_witness: 2^1024-2^970 written out parses to the largest finite double under lossy, in the model and in the implementation)",
]
RULE = ("every op is run twice (lossy and not): acceptance, count and error must be identical; the lossy value must be the oracle's "
        "correctly rounded float or a neighbour (equal when the correct result is zero/infinite or the input is a fast-path case). "
        "Inputs: G-hard worst cases (near-halfway: exactly where lossy exposes itself), G-exp cut-offs, random literals, radices per feature set. "
        "non-trivial = accepted finite non-zero; distinct = distinct op lines")
TECHNIQUE = "Lean 4 proof (syntax independence of lossy on the model level is structural; oracle theorems) + correspondence measuring ulp distance to the oracle on near-halfway worst cases"
LEVEL_TEXT = ("Proved in Lean: the oracle and tables (as C01/C05), monotonicity of roundNE, and on the Lean models of the moderate paths: lossy binary() (power-of-two radices), lossy bellerophon() (decimal under compact, every generic radix) and lossy compute_float() (Eisel-Lemire: lossy_lemire_neighbour_proved - on the fall-back inputs cfRound rounds the computed product, which is within 2^-61 of the exact one, roundNE_step) answer with the correctly rounded float or an adjacent pattern. "
              "Pipeline level (Props/C19Final.lean, parseFloatAlgoModel with lossy on): for decimal, every build, every separator-free format class, every digit count, the lossy line is the oracle's line or ok with the same count, the same sign and a magnitude at most one pattern away (C19_lossy_decimal_proved), and it is the oracle's line whenever Eisel-Lemire decides (C19_decimal_decided); per Number for the other radices. "
              "Kept as a Prop: C19_lossy_full (all radices at API level). Correspondence: lossy/exact streams against the oracle on near-halfway worst cases for every radix, identical acceptance/count/errors, and the pipe-lossy stream (pipeline model = implementation).")
LEVEL_NOTE = "Trusted: Lean kernel; rustc; differential harness; generators. Power-of-two radices: proved on the Lean model of binary() (Props/C19.lean lossy_pow2_exact / lossy_pow2_agrees / lossy_pow2_bracket_partial: the lossy answer is roundNE of the truncated mantissa, equals the exact answer whenever that decides) and lossy_pow2_neighbour (complete: for a truncated mantissa the lossy answer is the correctly rounded float or the pattern just below it). Bellerophon (decimal under compact, all 29 generic radices): lossy_bellerophon_neighbour, complete on the model (the lossy answer is the correctly rounded float of the true value or an adjacent pattern). Decimal in non-compact builds (Eisel-Lemire, lossy): proved (lossy_lemire_neighbour_proved, C19_decimal_lossy_lemire)."


def feature_sets(tier):
    return ["default", "compact", "radix"] if tier == "quick" else ["default", "compact", "radix", "pow2", "compact+radix", "radix+format"]


def streams(tier, rng, fs, profile):
    quick = tier == "quick"
    rads = gens.radices(fs)
    if quick and len(rads) > 8:
        k = rng.randrange(4)
        rads = [r for i, r in enumerate(rads) if i % 4 == k or r in (2, 10, 16, 32)]
    ops = (gens.float_parse_hard_ops(rng, fs, rads, 60 if quick else 600, rich=True, tails=2 if quick else 30, lossy=True)
           + gens.exact_tie_ops(rng, fs, per_q=3 if quick else 30, lossy=True)
           + gens.float_exp_ops(rng, fs, rads[:6] if quick else rads, lossy=True)
           + gens.float_random_ops(rng, fs, rads, 100 if quick else 3000, lossy=True))
    # paired exact ops (same input, lossy = 0) for the syntax-independence relation
    exact = [unlossy(op) for op in ops]
    # pipe-lossy: the lossy inputs against the algorithmic pipeline model with the lossy flag (Props/C19Final.lean is about it)
    pipe = ["apf" + o[2:] for o in ops if o.startswith("pf ")]
    return [("lossy", ops), ("exact", exact), ("pipe-lossy", pipe), ("lossy-overflow-tie", overflow_tie_ops(fs))]


def overflow_tie_ops(fs):
    """the exact tie between the largest finite float and 2^emax, written out in full: correctly rounded it is +inf (ties
    to even), under `lossy` only the first 19 digits are rounded (recorded finding C19-lossy-overflow-tie)"""
    ops = []
    fmt = gens.fmt_hex(gens.pack(10))
    for ty, tie in (("f64", 2 ** 1024 - 2 ** 970), ("f32", 2 ** 128 - 2 ** 103)):
        for v in (tie, tie + 1, tie - 1):
            for s in (str(v), str(v) + ".0", str(v) + "e0", "-" + str(v)):
                for lossy in (True, False):
                    ops.append(gens.pf_op(ty, fmt, s, 10, lossy=lossy))
    return ops


def classify(v):
    """call-site class of the one recorded C19 finding: the correct result is infinite, the lossy one the largest finite float"""
    it, st = v.get("implementation", "").split(" "), v.get("specification", "").split(" ")
    if v.get("op", "").startswith("pf ") and len(it) > 1 and len(st) > 1 and it[0] == "ok" and st[0] == "ok":
        pair = (it[1].lstrip("-"), st[1].lstrip("-"))
        if pair in (("7fefffffffffffff", "7ff0000000000000"), ("ffefffffffffffff", "fff0000000000000"),
                    ("7f7fffff", "7f800000"), ("ff7fffff", "ff800000")):
            return "lossy-overflow-tie"
    return None


def unlossy(op):
    t = op.split(" ")
    t[4] = "0"
    return " ".join(t)


def ulp_ok(impl, spec):
    it, st = impl.split(" "), spec.split(" ")
    if st[0] == "err":
        return vlib.agrees(impl, spec)
    if it[0] != "ok" or st[0] != "ok":
        return False
    if it[2] != st[2]:
        return False
    if it[1] == st[1]:
        return True
    if "nan" in (it[1], st[1]):
        return False
    a, b = int(it[1], 16), int(st[1], 16)
    width = 64 if max(a, b) >> 32 else 32
    # equality is demanded only when the CORRECT result (b) is zero or infinite
    return abs(a - b) <= 1 and not special_or_zero(b)


def special_or_zero(x):
    for (bits, ebits, p) in ((64, 11, 53), (32, 8, 24)):
        mag = x & ((1 << (bits - 1)) - 1)
        if x >> bits:
            continue
        if mag == 0 or mag == ((1 << ebits) - 1) << (p - 1):
            return True
    return False


def compare(op, impl, spec):
    t = op.split(" ")
    if spec == "-":
        return True
    if t[0] == "pf" and t[4] == "1":
        return ulp_ok(impl, spec)
    return vlib.agrees(impl, spec)


def nontrivial(op, res):
    t = res.split(" ")
    return t[0] == "ok" and t[1] not in ("0", "80000000", "8000000000000000", "nan")


def post(ctx, bins):
    """lossy changes neither acceptance, nor count, nor errors"""
    viol = []
    by = {}
    for (fs, profile, sname), (ops, impl, drv) in ctx["results"].items():
        by.setdefault((fs, profile), {})[sname] = (ops, impl)
    for (fs, profile), d in by.items():
        if "lossy" not in d or "exact" not in d:
            continue
        for op, li, ei in zip(d["lossy"][0], d["lossy"][1], d["exact"][1]):
            lt, et = li.split(" "), ei.split(" ")
            same = (lt[0] == et[0]) and (lt[0] != "ok" or lt[2] == et[2]) and (lt[0] != "err" or lt == et)
            if not same:
                viol.append({"kind": "input", "featureset": fs, "profile": profile, "stream": "lossy-vs-exact", "op": op,
                             "implementation": li, "specification": "same acceptance/count/error as exact parse: " + ei, "model": "-"})
    return viol
