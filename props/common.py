"""bits shared by the property modules"""
TRUSTED_BASE = [
    "Lean 4.33.0 kernel (leanchecker re-check in the thorough tier); axioms per theorem are listed under coverage.theorems (allowed: propext, Classical.choice, Quot.sound)",
    "R: harness/src/bin/dump.rs + extractors/*.py regenerate lean/LexVerif/Gen/*.lean from the crate compiled from /repo's working tree (trusts rustc and the generator)",
    "C: correspondence = differential testing of /repo (in-process, harness/src/bin/run.rs) against the compiled Lean driver; bounded by generator quality (input distribution is in coverage.input_distribution)",
    "hand-written Lean models are tied to the Rust control flow only by C; specifications (Spec/*.lean) are read off the documentation and protected by their own sanity theorems",
]
ASSUMPTIONS = [
    "usize = u64, little-endian x86-64",
    "rustc code generation is correct; hardware float arithmetic is IEEE-754",
    "guard-page buffers observe (not prove) absence of out-of-slice accesses",
]
