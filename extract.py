"""R/S extraction: regenerate lean/LexVerif/Gen/*.lean from the compiled crate (R: `dump` binary) and
from the source text of whitelisted functions (S).  Content-hashed writes so unchanged content does
not trigger Lean rebuilds."""
import os
import vlib
from vlib import Broken

GEN_DIR = os.path.join(vlib.LEAN, "LexVerif", "Gen")


def write_if_changed(path, content):
    if os.path.exists(path) and open(path).read() == content:
        return False
    os.makedirs(os.path.dirname(path), exist_ok=True)
    with open(path, "w") as fh:
        fh.write(content)
    return True


def regenerate(mod, tier):
    """regenerate the Gen modules the property's theorems depend on"""
    for g in getattr(mod, "GEN", []):
        import importlib
        m = importlib.import_module("extractors." + g)
        m.generate()
