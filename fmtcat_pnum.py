"""Format catalogue for the float *syntax* layer (C10-C13, C15): syntax flags, base prefix/suffix,
digit separators (uniform and mixed across components), special-value flags and a sample of the
prebuilt language formats of lexical-util/src/prebuilt_formats.rs.

`extra_formats()` returns (kind, u128, name) tuples (kind "F": float APIs only). `CATALOGUE` keeps the
grouping so generators can pick formats by family; `needs(fmt)` says which cargo features make the
format valid (formats that are invalid in a feature set are still useful: error-path ops)."""
from gens import pack
from fmtlib import F, STD_FLAGS

SEP = 0x5F  # '_'


def _sep_bits(integer="", fraction="", exponent=""):
    """I/L/T/C letters per component -> flag bits"""
    bits = 0
    for comp, letters in (("integer", integer), ("fraction", fraction), ("exponent", exponent)):
        for ch in letters:
            kind = {"i": "internal", "l": "leading", "t": "trailing", "c": "consecutive"}[ch]
            bits |= F["%s_%s_digit_separator" % (comp, kind)]
    return bits


def _uni(letters):
    return _sep_bits(letters, letters, letters)


SINGLE_FLAGS = [
    "required_integer_digits", "required_fraction_digits", "no_positive_mantissa_sign", "required_mantissa_sign",
    "no_exponent_notation", "no_positive_exponent_sign", "required_exponent_sign", "no_exponent_without_fraction",
    "no_special", "case_sensitive_special", "no_integer_leading_zeros", "no_float_leading_zeros",
    "required_exponent_notation", "case_sensitive_exponent",
]

# values printed from the crate (scratch program over lexical_util::format::*, features format+radix)
LANGUAGE = {
    "RUST_LITERAL": 0xa000000005f00000fc70000041f, "PYTHON_LITERAL": 0xa000000005f000000070000140c,
    "CXX_LITERAL": 0xa0000000027000000070000080c, "CXX_HEX_LITERAL": 0xa02100000000027000000070000480c,
    "C_HEX_STRING": 0xa02100000000000000000000000000c, "RUBY_LITERAL": 0xa000000005f000000070000350f,
    "SWIFT_LITERAL": 0xa000000005f00000fc70000040f, "JAVASCRIPT_STRING": 0xa00000000000000000000000808,
    "JULIA_HEX_LITERAL": 0xa0210000000005f000000030000080c,
    "OCAML_LITERAL": 0xa000000005f00000fd70000081d, "JSON": 0xa0000000000000000000000341f,
    "TOML": 0xa000000005f0000000700003400, "IGNORE": 0xa000000005f00001fff00000000,
    "PERMISSIVE": 0xa00000000000000000000000000, "ERLANG_LITERAL": 0xa00000000000000000000000a0f,
}


def _build():
    cat = {}
    # A. single syntax flags (set on top of / cleared from the STANDARD flags)
    a = [(pack(flags=STD_FLAGS | F[n]), "flag_" + n) for n in SINGLE_FLAGS]
    a += [(pack(flags=0x8), "flag_no_required_exponent_digits"), (pack(flags=0x4), "flag_no_required_mantissa_digits"),
          (pack(flags=0x0), "flag_none")]
    cat["single"] = a
    # B. pairs (the last three are invalid formats)
    def fl(*names, base=STD_FLAGS):
        v = base
        for n in names:
            v |= F[n]
        return v
    cat["pairs"] = [
        (pack(flags=fl("required_integer_digits", "required_fraction_digits")), "pair_reqint_reqfrac"),
        (pack(flags=fl("required_fraction_digits", "no_exponent_without_fraction")), "pair_reqfrac_noexpwofrac"),
        (pack(flags=fl("no_float_leading_zeros", "required_integer_digits")), "pair_nolz_reqint"),
        (pack(flags=fl("required_exponent_notation", "required_exponent_sign")), "pair_reqexpnot_reqexpsign"),
        (pack(flags=fl("no_float_leading_zeros", base=0)), "pair_nolz_noreq"),
        (pack(flags=fl("required_mantissa_sign", "no_special", base=0x4)), "pair_reqsign_nospecial_noreqmant"),
        (pack(flags=fl("case_sensitive_exponent", "case_sensitive_special", "no_positive_exponent_sign")), "trio_cased"),
    ]
    cat["invalid"] = [
        (pack(flags=fl("no_positive_mantissa_sign", "required_mantissa_sign")), "inv_mantissa_sign"),
        (pack(flags=fl("no_exponent_notation", "required_exponent_notation")), "inv_exponent_flags"),
        (pack(flags=fl("no_special", "case_sensitive_special")), "inv_special"),
        (pack(flags=STD_FLAGS | _uni("c"), sep=SEP), "inv_sep_consecutive_only"),
        (pack(flags=STD_FLAGS | _uni("i"), sep=ord("1")), "inv_sep_is_digit"),
    ]
    # C. base prefix / suffix (valid only with power-of-two or radix)
    x, d, h = ord("x"), ord("d"), ord("h")
    cat["prefix"] = [
        (pack(16, 2, 10, prefix=x), "prefix_x_hexfloat"),
        (pack(16, 2, 10, prefix=x, flags=fl("case_sensitive_base_prefix")), "prefix_x_cased"),
        (pack(10, prefix=d), "prefix_d_radix10"),
        (pack(10, prefix=d, flags=fl("required_integer_digits")), "prefix_d_reqint"),
        (pack(10, prefix=d, flags=fl("no_float_leading_zeros")), "prefix_d_nolz"),
        (pack(16, 2, 10, suffix=h), "suffix_h_hexfloat"),
        (pack(10, suffix=h), "suffix_h_radix10"),
        (pack(10, suffix=h, flags=fl("case_sensitive_base_suffix")), "suffix_h_cased"),
        (pack(10, prefix=d, suffix=h), "prefix_d_suffix_h"),
        (pack(10, prefix=d, sep=SEP, flags=STD_FLAGS | _uni("iltc")), "prefix_d_sep_iltc"),
        (pack(10, prefix=d, sep=SEP, flags=STD_FLAGS | _uni("l")), "prefix_d_sep_l"),
    ]
    # D. '_' with each I/L/T/C combination, uniform across components
    combos = ["i", "l", "t", "il", "it", "lt", "ilt", "ic", "lc", "tc", "ilc", "itc", "ltc", "iltc"]
    cat["sep_uniform"] = [(pack(sep=SEP, flags=STD_FLAGS | _uni(c)), "sep_" + c) for c in combos]
    # E. mixed across components
    mixed = [
        ("int_i", _sep_bits("i")), ("frac_i", _sep_bits("", "i")), ("exp_i", _sep_bits("", "", "i")),
        ("int_l", _sep_bits("l")), ("frac_l", _sep_bits("", "l")), ("exp_t", _sep_bits("", "", "t")),
        ("int_ic", _sep_bits("ic")), ("int_iltc", _sep_bits("iltc")), ("frac_iltc", _sep_bits("", "iltc")),
        ("exp_iltc", _sep_bits("", "", "iltc")), ("int_tc_frac_l", _sep_bits("tc", "l")),
        ("int_il_frac_it_exp_lt", _sep_bits("il", "it", "lt")),
        ("none", 0),
    ]
    cat["sep_mixed"] = [(pack(sep=SEP, flags=STD_FLAGS | b), "sepmix_" + n) for n, b in mixed]
    cat["sep_mixed"].append((pack(sep=0, flags=STD_FLAGS | _uni("ilt")), "sepflags_without_char"))
    cat["sep_mixed"].append((pack(sep=SEP, flags=0 | _uni("iltc")), "sep_iltc_noreq"))
    cat["sep_mixed"].append((pack(sep=SEP, flags=STD_FLAGS | F["required_integer_digits"] | F["required_fraction_digits"]
                                  | _uni("ilt")), "sep_ilt_reqint_reqfrac"))
    # F. special-value separator
    sp = F["special_digit_separator"]
    cat["sep_special"] = [
        (pack(sep=SEP, flags=STD_FLAGS | _uni("iltc") | sp), "sep_iltc_special"),
        (pack(sep=SEP, flags=STD_FLAGS | sp), "sep_special_only"),
        (pack(sep=SEP, flags=STD_FLAGS | sp | F["case_sensitive_special"] | _uni("il")), "sep_il_special_cased"),
    ]
    # G. separators with non-decimal digits (is_digit uses the mantissa radix in every component)
    cat["sep_radix"] = [
        (pack(10, 10, 16, sep=SEP, flags=STD_FLAGS | _uni("iltc")), "sep_iltc_expradix16"),
        (pack(16, 2, 10, sep=SEP, flags=STD_FLAGS | _uni("ilt")), "sep_ilt_hexfloat"),
        (pack(16, 2, 10, sep=SEP, prefix=x, flags=STD_FLAGS | _uni("i")), "sep_i_hexfloat_prefix"),
    ]
    cat["language"] = [(v, "lang_" + n) for n, v in LANGUAGE.items()]
    return cat


CATALOGUE = _build()


def needs(fmt):
    """minimal cargo features for the radices / prefix / suffix of `fmt`: 'format', 'pow2+format' or 'radix+format'"""
    r = (fmt >> 104) & 0xFF
    b = (fmt >> 112) & 0xFF or r
    e = (fmt >> 120) & 0xFF or r
    pre = (fmt >> 88) & 0xFF
    suf = (fmt >> 96) & 0xFF
    if any(v not in (2, 4, 8, 10, 16, 32) for v in (r, b, e)):
        return "radix+format"
    if (r, b, e) != (10, 10, 10) or pre or suf:
        return "pow2+format"
    return "format"


def extra_formats():
    out = []
    seen = set()
    for fam, lst in CATALOGUE.items():
        for v, name in lst:
            if v in seen:
                continue
            seen.add(v)
            out.append(("F", v, name))
    return out


if __name__ == "__main__":
    fs = extra_formats()
    for k, v, n in fs:
        print("%s %x %s %s" % (k, v, n, needs(v)))
    print(len(fs))
