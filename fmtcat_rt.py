"""C08 (float round trip): decimal formats combining the flags the float writer honours, plus the base-prefix
formats behind the `0X5` finding (prefix matched case-insensitively against the decimal point / exponent character).
Shape of fmtlib's lists: (kind, packed u128, name)."""
from gens import pack
from fmtlib import F, STD_FLAGS

S = STD_FLAGS
REQINT = F["required_integer_digits"]
REQFRAC = F["required_fraction_digits"]
NOPOSM = F["no_positive_mantissa_sign"]
REQMSIGN = F["required_mantissa_sign"]
NOEXP = F["no_exponent_notation"]
NOPOSE = F["no_positive_exponent_sign"]
REQESIGN = F["required_exponent_sign"]
NOEWF = F["no_exponent_without_fraction"]
NOLZ = F["no_float_leading_zeros"]
REQEXP = F["required_exponent_notation"]
CSEXP = F["case_sensitive_exponent"]
CSPRE = 1 << 16

# name -> packed value (all decimal mantissa)
DECIMAL = {
    "rt_reqdigits_reqexp": pack(10, flags=S | REQINT | REQFRAC | REQEXP),
    "rt_all_required": pack(10, flags=S | REQINT | REQFRAC | REQMSIGN | REQEXP | NOEWF | REQESIGN),
    "rt_nopos_both": pack(10, flags=S | NOPOSM | NOPOSE),
    "rt_nopos_reqexp_noewf": pack(10, flags=S | NOPOSM | NOPOSE | REQEXP | NOEWF),
    "rt_csexp_reqexp": pack(10, flags=S | CSEXP | REQEXP),
    "rt_noewf_reqfrac": pack(10, flags=S | NOEWF | REQFRAC),
    "rt_noexp_reqdigits": pack(10, flags=S | NOEXP | REQINT | REQFRAC),
    "rt_nolz_reqexp": pack(10, flags=S | NOLZ | REQEXP),
    "rt_nolz_noexp_reqmsign": pack(10, flags=S | NOLZ | NOEXP | REQMSIGN),
}
# base prefix `x` on a decimal format: case-insensitive (default) and case-sensitive
PREFIX = {
    "rt_prefix_x": pack(10, flags=S, prefix=0x78),
    "rt_prefix_x_cs": pack(10, flags=S | CSPRE, prefix=0x78),
    "rt_prefix_x_reqexp": pack(10, flags=S | REQEXP, prefix=0x78),
}
# decimal mantissa with another exponent radix (`radix` feature)
EXPRADIX = {
    "rt_dec_er16": pack(10, 10, 16),
    "rt_dec_er2": pack(10, 10, 2),
}
# no digits required: a lone punctuation character is a number (zero) — used with special strings equal to punctuation
NOREQ = {
    "rt_noreq_mant": pack(10, flags=F["required_exponent_digits"]),
    "rt_noreq_any": pack(10, flags=0),
}


def extra_formats():
    out = [("F", v, n) for n, v in DECIMAL.items()]
    out += [("F", v, n) for n, v in PREFIX.items()]
    out += [("F", v, n) for n, v in EXPRADIX.items()]
    out += [("F", v, n) for n, v in NOREQ.items()]
    return out


def by_name():
    d = dict(DECIMAL)
    d.update(PREFIX)
    d.update(EXPRADIX)
    d.update(NOREQ)
    return d
