"""Format catalogue for C13 (digit separators): every valid I/L/T/C combination uniform across the components,
component-only and single-flag formats, in radix 10 and as hex floats (radix 16, exponent base 2, exponent
radix 10, exponent character 'p'), together with their separator-free counterparts (flags and byte cleared).

Float APIs use kind "F"; the uniform formats and the integer-only ones are also instantiated for the integer
parsers (kind "I": only the integer-component flags matter there).

`FORMATS` = list of dicts {fmt, name, radix ('dec'|'hex'), cls, flags: {comp: letters}, counterpart}."""
from gens import pack
from fmtlib import F, STD_FLAGS

SEP = 0x5F  # '_'
COMBOS = ["i", "l", "t", "il", "it", "lt", "ilt", "ic", "lc", "tc", "ilc", "itc", "ltc", "iltc"]   # `c` alone is invalid
COMPS = ("integer", "fraction", "exponent")
KIND = {"i": "internal", "l": "leading", "t": "trailing", "c": "consecutive"}
SEP_MASK = 0x1FFF << 32


def sep_bits(integer="", fraction="", exponent=""):
    bits = 0
    for comp, letters in zip(COMPS, (integer, fraction, exponent)):
        for ch in letters:
            bits |= F["%s_%s_digit_separator" % (comp, KIND[ch])]
    return bits


def counterpart(fmt):
    """the separator-free counterpart: separator flags and separator byte cleared"""
    return fmt & ~SEP_MASK & ~(0xFF << 64)


def _packer(radix):
    if radix == "dec":
        return lambda bits: pack(10, sep=SEP, flags=STD_FLAGS | bits)
    return lambda bits: pack(16, 2, 10, sep=SEP, flags=STD_FLAGS | bits)


def _build():
    out = []
    for radix in ("dec", "hex"):
        mk = _packer(radix)
        for c in COMBOS:
            out.append({"fmt": mk(sep_bits(c, c, c)), "name": "c13_%s_uni_%s" % (radix, c), "radix": radix,
                        "cls": "uniform", "flags": {"integer": c, "fraction": c, "exponent": c}, "int": True})
        for k, comp in enumerate(COMPS):
            for c in ("i", "l", "t", "iltc"):
                fl = {x: "" for x in COMPS}
                fl[comp] = c
                out.append({"fmt": mk(sep_bits(*[fl[x] for x in COMPS])), "name": "c13_%s_%s_%s" % (radix, comp[:3], c),
                            "radix": radix, "cls": comp + "-only", "flags": fl,
                            # the integer parsers also get one fraction-only and one exponent-only separator format
                            # (no integer separator flag at all: separator-free integers must parse as without the byte)
                            "int": comp == "integer" or c == "i"})
        # two genuinely mixed ones
        for fl in ({"integer": "il", "fraction": "it", "exponent": "lt"}, {"integer": "tc", "fraction": "l", "exponent": "ic"}):
            out.append({"fmt": mk(sep_bits(*[fl[x] for x in COMPS])),
                        "name": "c13_%s_mix_%s_%s_%s" % (radix, fl["integer"], fl["fraction"], fl["exponent"]),
                        "radix": radix, "cls": "mixed", "flags": dict(fl), "int": False})
    for f in out:
        f["counterpart"] = counterpart(f["fmt"])
    return out


FORMATS = _build()
BY_FMT = {f["fmt"]: f for f in FORMATS}


def extra_formats():
    out = []
    seen = set()

    def add(kind, v, name):
        if (kind, v) not in seen:
            seen.add((kind, v))
            out.append((kind, v, name))
    for f in FORMATS:
        add("F", f["fmt"], f["name"])
        add("F", f["counterpart"], "c13_%s_counterpart" % f["radix"])
        if f["int"]:
            add("I", f["fmt"], f["name"])
            add("I", f["counterpart"], "c13_%s_counterpart" % f["radix"])
    return out


if __name__ == "__main__":
    for k, v, n in extra_formats():
        print("%s %x %s" % (k, v, n))
    print(len(FORMATS), "separator formats")
