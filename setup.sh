#!/bin/sh
# Build the framework from files on disk only (offline): Lean library (every Props module of the registered
# checks) + driver, and the Rust harness for every feature set the checks use.
set -e
cd "$(dirname "$0")"
export CARGO_NET_OFFLINE=true
python3 - <<'PY'
import glob, importlib, os, subprocess, sys
sys.path.insert(0, ".")
import vlib
mods, sets = set(["driver"]), set()
for p in sorted(glob.glob("props/C[0-9][0-9].py")):
    m = importlib.import_module("props." + os.path.basename(p)[:-3])
    mods.update(m.LEAN_MODULES)
    for tier in ("quick",):
        sets.update(m.feature_sets(tier))
print("lake build", len(mods), "targets")
rc = subprocess.call(["lake", "build"] + sorted(mods), cwd="lean", stdout=subprocess.DEVNULL)
if rc != 0:
    subprocess.call(["lake", "build"] + sorted(mods), cwd="lean")
    sys.exit(1)
sets = sorted(sets)
print("cargo build for", sets)
for i in range(0, len(sets), 4):
    vlib.build_many(sets[i:i + 4], "release")
# debug-assertion profile for the properties that ask for it
dbg = set()
for p in sorted(glob.glob("props/C[0-9][0-9].py")):
    m = importlib.import_module("props." + os.path.basename(p)[:-3])
    if "dbg" in getattr(m, "PROFILES", {}).get("quick", []):
        dbg.update(m.feature_sets("quick"))
if dbg:
    vlib.build_many(sorted(dbg), "dbg")
print("setup done")
PY
