#!/bin/sh
# Build the framework from files on disk only (offline): Lean library + driver, harness for every feature set.
set -e
cd "$(dirname "$0")"
export CARGO_NET_OFFLINE=true
(cd lean && lake build driver LexVerif.Props.C01 LexVerif.Props.C02 LexVerif.Props.C04 LexVerif.Props.C05 LexVerif.Props.C18 LexVerif.Props.RoundNE LexVerif.Props.TablesParse) 2>&1 | tail -3
python3 - <<'PY'
import sys
sys.path.insert(0, ".")
import vlib
sets = ["default", "compact", "pow2", "radix", "format", "radix+format", "compact+radix+format", "compact+radix", "nostd"]
vlib.build_many(sets, "release")
print("harness built for", len(sets), "feature sets")
PY
