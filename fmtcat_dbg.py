"""Format catalogue for the debug-build witnesses of C10 (Props/C10Debug.lean): components with the separator flags
I+T+C (no L) whose stored digit slice is re-scanned by a fresh iterator in `parse_number`'s many-digits path."""
from gens import pack
from fmtlib import STD_FLAGS
from fmtcat_pnum import _sep_bits, _uni, SEP


def extra_formats():
    d = ord("d")
    return [
        ("F", pack(10, prefix=d, sep=SEP, flags=STD_FLAGS | _uni("itc")), "dbg_prefix_d_sep_itc"),
        ("F", pack(sep=SEP, flags=STD_FLAGS | _sep_bits("", "itc")), "dbg_sepmix_frac_itc"),
        ("F", pack(10, prefix=d, sep=SEP, flags=STD_FLAGS | _sep_bits("itc")), "dbg_prefix_d_sepmix_int_itc"),
        ("F", pack(16, 2, 10, sep=SEP, flags=STD_FLAGS | _uni("itc")), "dbg_sep_itc_hexfloat"),
        # separator equal to the exponent character / base suffix / base prefix up to ASCII case
        ("F", pack(sep=ord("E"), flags=STD_FLAGS | _uni("i")), "dbg_sep_E_i"),
        ("F", pack(10, suffix=ord("x"), sep=ord("X"), flags=STD_FLAGS | _uni("i")), "dbg_suffix_x_sep_X_i"),
        ("F", pack(10, prefix=ord("x"), sep=ord("X"), flags=STD_FLAGS | _uni("i")), "dbg_prefix_x_sep_X_i"),
    ]
