"""C14/C09/C17: formats exercising the write-float notation flags (meaningful with the `format` feature; without it the
flags are ignored by the writers, which the models mirror).  Shape of fmtlib's lists: (kind, packed u128, name)."""
from gens import pack
from fmtlib import F, STD_FLAGS

S = STD_FLAGS
NOEXP = F["no_exponent_notation"]
REQEXP = F["required_exponent_notation"]
REQESIGN = F["required_exponent_sign"]
NOEWF = F["no_exponent_without_fraction"]
REQMSIGN = F["required_mantissa_sign"]

# name -> packed value (decimal)
DECIMAL = {
    "wf_noexp": pack(10, flags=S | NOEXP),
    "wf_reqexp": pack(10, flags=S | REQEXP),
    "wf_reqesign": pack(10, flags=S | REQESIGN),
    "wf_noewf": pack(10, flags=S | NOEWF),
    "wf_reqmsign": pack(10, flags=S | REQMSIGN),
    "wf_reqexp_reqesign": pack(10, flags=S | REQEXP | REQESIGN),
    "wf_reqexp_noewf": pack(10, flags=S | REQEXP | NOEWF),
    "wf_reqmsign_reqesign": pack(10, flags=S | REQMSIGN | REQESIGN),
    "wf_noexp_reqmsign": pack(10, flags=S | NOEXP | REQMSIGN),
}
# non-decimal formats carrying the same flags (relational laws only)
RADIX = {
    "wf_r16_reqexp": pack(16, flags=S | REQEXP),
    "wf_r16_noexp": pack(16, flags=S | NOEXP),
    "wf_r2_noexp": pack(2, flags=S | NOEXP),
    "wf_r2_reqmsign": pack(2, flags=S | REQMSIGN),
    "wf_r3_reqesign": pack(3, flags=S | REQESIGN),
    "wf_r36_noexp": pack(36, flags=S | NOEXP),
    "wf_hex_reqmsign": pack(16, 2, 10, flags=S | REQMSIGN),
}


def extra_formats():
    out = [("F", v, n) for n, v in DECIMAL.items()]
    out += [("F", v, n) for n, v in RADIX.items()]
    return out


def by_name():
    d = dict(DECIMAL)
    d.update(RADIX)
    return d
